"""Per-property configuration for bin/check."""

TRUSTED_BASE = [
    "Coq 8.16.1 kernel incl. its vm_compute machine (native_compute not used)",
    "no axioms declared; Print Assumptions of every property theorem must be 'Closed under the global context'",
    "correspondence harness (Go): generators, executors, canonicalisation, the JSON->Coq term emitter in lib/coqterm.py",
    "hook patch in /repo (build tag verif, add-only)",
    "modelled, not verified: SQLite, database/sql, Go runtime (mutex, channels, timers, scheduler), OS file system",
]

FAMILIES = {
    "c04": {
        "family": "c04",
        "coq_modules": ["Hlc", "Corr"],
        "in_type": "list cop", "obs_type": "list cev",
        "corr": "c04_corr_ok", "chk": "c04_chk_ok", "model": "c04_model",
        "n": {"quick": 240, "thorough": 6000},
        "shard": 60,
    },

    "kv": {
        "family": "kv",
        "coq_modules": ["Json", "Crc", "Hlc", "Kv", "Store", "Trace", "Corr"],
        "in_type": "scase", "obs_type": "list ostep",
        "corr": "kv_corr_ok", "chk": "kv_chk_ok", "model": "kv_model", "explain": "kv_explain", "chk_explain": "kv_chk_explain",
        "n": {"quick": 160, "thorough": 4000},
        "shard": 10, "procs": 8,
    },
}

NOT_YET = {}

PROPS = {
    "C04": {
        "families": [{"family": "c04"}],
        "level_text": "Full proof on the model: for every list of clock readings, buckets, failed calls, closes, restarts and reopens the issued CAS values are strictly increasing process-wide and per bucket across restarts (C04_holds, by invariant over all operation lists; uint64 no-wrap side condition proved). The model is tied to hlc.go/collection.go by exact comparison of every CAS the implementation stamps under scripted clocks.",
        "level_note": "Assumes the HLC mutex and bucket.mutex make each draw atomic, and SQLite commits bucket.lastCas atomically with the write; restart simulated in-process in this check (real kills under C10). Trusted: Coq kernel + vm_compute, the Go harness and emitter.",
        "assumptions": [
            "hlc.Now() is called inside the write transaction under bucket.mutex and the HLC mutex serialises draws (modelled as one atomic step per draw)",
            "bucket.lastCas is persisted in the same SQLite transaction as the document write (SQLite atomic commit assumed)",
            "restart is simulated in-process (all handles closed, clock state reset to 0); real process kills are exercised by the crash family of C10",
        ],
    },
}
