"""Per-property configuration for bin/check."""

TRUSTED_BASE = [
    "Coq 8.16.1 kernel incl. its vm_compute machine (native_compute not used)",
    "no axioms declared; Print Assumptions of every property theorem must be 'Closed under the global context'",
    "correspondence harness (Go): generators, executors, canonicalisation, the JSON->Coq term emitter in lib/coqterm.py",
    "hook patch in /repo (build tag verif, add-only)",
    "modelled, not verified: SQLite, database/sql, Go runtime (mutex, channels, timers, scheduler), OS file system",
]

FAMILIES = {
    "c04": {
        "family": "c04",
        "coq_modules": ["Hlc", "Corr"],
        "in_type": "list cop", "obs_type": "list cev",
        "corr": "c04_corr_ok", "chk": "c04_chk_ok", "model": "c04_model",
        "n": {"quick": 240, "thorough": 6000},
        "shard": 60,
    },

    "kv": {
        "family": "kv",
        "coq_modules": ["Json", "Crc", "Hlc", "Kv", "Store", "Trace", "Corr"],
        "in_type": "scase", "obs_type": "list ostep",
        "corr": "kv_corr_ok", "chk": "kv_chk_ok", "model": "kv_model", "explain": "kv_explain", "chk_explain": "kv_chk_explain",
        "n": {"quick": 200, "thorough": 4000},
        "shard": 10, "procs": 8,
    },

    "lin": {
        "family": "lin",
        "coq_modules": ["Json", "Crc", "Hlc", "Kv", "Store", "Trace", "Lin"],
        "in_type": "unit", "obs_type": "list lkey",
        "corr": "chk_lin", "chk": "chk_lin", "model": "(fun _ : unit => tt)", "chk_explain": "lin_explain",
        "n": {"quick": 40, "thorough": 600},
        "shard": 3, "procs": 4,
    },
    "sched": {
        "family": "sched",
        "coq_modules": ["Feed"],
        "in_type": "list action", "obs_type": "sched_obs",
        "corr": "sched_corr_ok", "chk": "sched_chk_excused", "strict_chk": "sched_chk_strict", "model": "sched_model",
        "n": {"quick": 60, "thorough": 1200},
        "shard": 8, "procs": 4, "shrink_key": "acts",
    },
    "ckpt": {
        "family": "ckpt",
        "timed": True,   # observations depend on wall-clock waits: a failing case is re-executed by itself before it counts
        "coq_modules": ["Feed"],
        "in_type": "list (string * N)", "obs_type": "ckpt_runs",
        "corr": "chk_ckpt_runs", "chk": "chk_ckpt_runs", "model": "(fun x : list (string * N) => x)",
        "n": {"quick": 80, "thorough": 600},
        "shard": 4, "procs": 4,
    },
    "life": {
        "family": "life",
        "timed": True,   # observations depend on wall-clock waits: a failing case is re-executed by itself before it counts
        "coq_modules": ["Life"],
        "in_type": "(bool * list lop)", "obs_type": "list lobs",
        "corr": "life_corr_ok", "chk": "chk_life", "model": "lrun", "model_chk": True, "model_chk_fn": "(fun chk t => chk (fst t, lrun (fst t)))",
        "n": {"quick": 120, "thorough": 1500},
        "shard": 8, "procs": 4,
    },
    "crash": {
        "family": "crash",
        "coq_modules": ["Json", "Crc", "Hlc", "Kv", "Store", "Trace", "Corr"],
        "in_type": "scase", "obs_type": "crash_obs",
        "corr": "crash_corr_ok", "chk": "chk_crash", "model": "crash_model",
        "n": {"quick": 240, "thorough": 1500},
        "shard": 4, "procs": 8,
    },
    "shut": {
        "family": "shut",
        "coq_modules": ["Locks"],
        "in_type": "shut_case", "obs_type": "outcome",
        "corr": "shut_corr_ok", "chk": "shut_chk_excused", "strict_chk": "shut_chk_strict", "model": "shut_model",
        "n": {"quick": 60, "thorough": 200},
        "shard": 30, "procs": 6,
    },
    "ttl": {
        "family": "ttl",
        "timed": True,   # observations depend on wall-clock waits: a failing case is re-executed by itself before it counts
        "coq_modules": ["Json", "Crc", "Hlc", "Kv", "Store", "Trace", "Corr"],
        "in_type": "scase", "obs_type": "ttl_run",
        "corr": "ttl_chk_ok", "chk": "ttl_chk_ok", "model": "ttl_model",
        "n": {"quick": 48, "thorough": 480},
        "shard": 8, "procs": 1,
    },
    "regc": {
        "family": "regc",
        "coq_modules": ["Registry", "RegTrace"],
        "in_type": "rcase", "obs_type": "regc_obs",
        "corr": "regc_corr_ok", "chk": "regc_chk_ok", "model": "regc_model",
        "model_chk": True, "model_chk_fn": "(fun chk t => chk (fst t, regc_model (fst t)))",
        "n": {"quick": 120, "thorough": 2000},
        "shard": 30, "procs": 4,
    },
    "reg": {
        "family": "reg",
        "coq_modules": ["Registry", "RegTrace"],
        "in_type": "rcase", "obs_type": "list robs",
        "corr": "reg_corr_ok", "chk": "reg_chk_ok", "model": "reg_model",
        "n": {"quick": 400, "thorough": 8000},
        "shard": 40, "procs": 4,
    },
}

NOT_YET = {}

KV_NOTE = ("Row-level model Kv.v (every KV/xattr/subdoc entry point, statement by statement, incl. the redundant tombstone column) "
           "lifted to multi-collection histories in Store.v. Assumes each call is one atomic step (bucket.mutex + one SQLite transaction); "
           "SQLite, database/sql, encoding/json and the feed goroutines are modelled, not verified. wf_op excludes WriteCas(Append,nil) and "
           "WithMeta writes asking for CAS 0. Trusted: Coq kernel + vm_compute, the Go harness and its term emitter.")
KV_ASSUME = [
    "each client call is one atomic step of the model (bucket.mutex + one SQLite transaction); concurrency is the subject of C03",
    "SQLite statement semantics (upsert, iif, ||, NULL handling) are transcribed by hand into Kv.v and watched by the correspondence",
    "histories are well-formed: no WriteCas(Append) with a nil value, no WithMeta write that asks for CAS 0",
    "the harness's scripted HLC clock (VerifSetClock) stands for time.Now(); relative expiries are compared only when the wall-clock second did not change during the call",
]


def _kv(pid, text, model_chk=False, extra=None):
    return {
        "families": [{"family": "kv", "chk": "kv_chk_" + pid, "corr": "kv_corr_" + pid, "model_chk": model_chk}] + (extra or []),
        "level_text": text,
        "level_note": KV_NOTE,
        "assumptions": KV_ASSUME,
    }


PROPS = {
    "C01": _kv("C01", "Full proof on the model: for every history (any collections, keys, entry points, arguments, clocks, size limits, purges, drops, expiry firings) every read answers from the current document, every failed/refused call leaves the document's complete view unchanged, and every successful write is what the next read-back shows (C01_holds, by a per-call theorem over all entry points and document states lifted by induction over histories). A purge takes away only body-less documents (store-level theorem C05_purge; the trace-level purge rule is proved sound too: C01_holds_with_purge). Tied to the code by differential execution of generated histories with full read-back after every step.", model_chk=True),
    "C02": _kv("C02", "Sequential part proved in full on the model: a conditional write (every entry point that carries an expected CAS) that succeeds had an expected CAS equal to the document's current CAS (0 = no document; for WriteCas no live document), and one that fails changes nothing (C02_holds, all histories). The two-writer race: for every schedule of the conditional-write loop a successful write was made on the CAS it read (Conc.v, C03); on the code, the lin family's certificate check includes the one-winner rule (no two successful conditional writes carry the same expected CAS) under real goroutine races, WithMeta writers included.", extra=[{"family": "lin"}]),
    "C05": _kv("C05", "Full proof on the model: in every reachable store the tombstone column equals 'value IS NULL' (C05_flag_iff_nobody), and every history is accepted by the checker: deletion opcode iff no body, Delete/Remove keep exactly the system xattrs and clear the expiry, a body write onto a body-less key leaves only the supplied xattrs (C05_holds); PurgeTombstones removes exactly the body-less rows (C05_purge on the store, and the trace-level purge rule: C05_holds_with_purge); a document removed by a firing of the expiry timer is left exactly as Delete would leave it - no body, no expiry, only its system xattrs (C05_expiry_is_a_removal: the step checker chk_step_expiry, which applies the row rule of Delete to every document a firing removed, accepts every history of the model; KvExpiry.v).", model_chk=True),
    "C06": _kv("C06", "Full proof on the model: for every history an insert-style write (Add, AddRaw, WriteCas AddOnly / cas 0, WriteResurrectionWithXattrs) succeeds only on a key without a body and a refusal happens only on a key with a body and leaves it untouched; WriteWithXattrs cas 0 succeeds only on an absent key (C06_holds)."),
    "C07": _kv("C07", "Full proof on the model: an xattr-only write changes exactly the named xattrs and keeps body, datatype and (unless given) expiry; a body-only write to a live document keeps its xattrs; a failed call changes nothing (C07_holds; frame lemmas over apply_xattrs / xattrs_remove for all xattr maps and name lists). Macro expansion values are compared exactly by the correspondence (CAS string and CRC32c computed in Coq). The frame in full: a call leaves every document but the addressed one - in its own collection and in every other, the same key included - exactly as it was (body, CAS, expiry, every xattr, revision, dump event); the checker includes this rule and accepts every model history (C07_frame_in_full).", model_chk=True),
    "C08": _kv("C08", "A document removed by a firing of the expiry timer gets exactly one event, the rendering of its tombstone (C08_expiry_is_a_removal, KvExpiry.v: every due document is removed exactly once and chk_step_expiry - the row rule of Delete applied to each - accepts every model history). Sequential part proved in full on the model: every successful CAS-stamping call posts exactly one event equal to the rendering of the document as stored (key, opcode, body, xattrs, datatype bits, CAS, expiry, revision), every failed/refused call and every touch posts none (C08_holds, all histories). Ordering part: Feed.v splits a write into Commit / Snapshot / Push and a feed into Backfill / Register / Deliver / Stop as the code does; the full statement (every interleaving keeps CAS order) is REFUTED on the faithful model with a replayable witness (C08_order_refuted: the known finding KF-C08-order, reproduced on the code by the sched family through the cas.beforePost / post.snapshot hooks); the converse is PROVED for every schedule in which a write's commit, snapshot and push, and a feed's backfill and registration, are not separated by other actions: every run of every feed is in strictly increasing CAS order (C08_order_holds_when_posting_is_atomic, FeedOrder.v) - so the inversion needs exactly that window; and every schedule outside that window is checked: the sched family executes generated action lists on the real code under the hooks and compares deliveries, CAS values and checkpoints exactly with the model. The ckpt family (no hooks: a writer, a consumer that falls behind so that whole batches queue up, stops and resumes) checks that every run of the feed is in increasing CAS order and that the final version of every document arrives.", extra=[{"family": "sched", "chk": "sched_excused_C08", "strict_chk": "sched_strict_C08"}, {"family": "ckpt"}]),
    "C09": _kv("C09", "Sequential part proved on the model's store: the backfill of a feed started from CAS s is, in CAS order, exactly the current version of every document of the collection (tombstones included) with CAS >= s (C09_complete, C09_sorted, C09_from_start, for every reachable store: C09_tables_ok), each rendered by the same function as live events (C09_same_rendering, C09_live_equals_stored). The executable trace checker (dump feeds from generated start CAS values: 0, a document's CAS, CAS+1, stale, beyond) is evaluated on implementation traces and on the model's traces; that it accepts every model trace is checked by evaluation, not proved. No-gap half: the full statement is REFUTED on the faithful interleaving model Feed.v with a replayable witness (C09_gap_refuted: the known finding KF-C09-gap, a write committing between the backfill query and registration that reads the feed list before registration), reproduced on the code by the sched family through the feed.preregister / post.snapshot hooks; every schedule outside that window (e.g. a write that commits in the window but posts after registration) is compared exactly with the model: partial. The ckpt family (no hooks: resume backfills followed by live events behind a consumer that falls behind, deletions included) checks order and that nothing is missing.", model_chk=True, extra=[{"family": "sched", "chk": "sched_excused_C09", "strict_chk": "sched_strict_C09"}, {"family": "ckpt"}]),
    "C10": {
        "families": [{"family": "crash"}],
        "level_text": "Partial. In the model every call is one step (document row, bucket and collection high-water marks, revision number, view invalidation change together), and a reopen keeps documents, collections, design documents and the high-water mark, seeds the clock at or above it and re-arms the expiry timer (C10_reopen_preserves, C10_reopen_rearms_expiry, proved). That a call really is one SQLite transaction, and that SQLite's commit is atomic and durable under process kill, is assumed; the crash family checks it: a child process runs a generated history (all KV/xattr/subdoc entry points, purge, collection create/drop, design documents) on an on-disk bucket under a scripted clock and SIGKILLs itself at the n-th occurrence of a hook point (transaction begun, before commit, after commit, between the document write and the lastCas update, before the event is posted); a fresh process reopens the bucket and the complete read-back (every key of every collection through GetRaw/GetExpiry/GetWithXattrs/Exists and a dump feed, collection list, design documents, UUID, armed expiry) must equal the model's state for the acknowledged prefix, plus the interrupted call iff the kill came after its commit.",
        "level_note": "Kill = SIGKILL of the process, not power loss: the OS page cache survives, so fsync behaviour is not exercised. Timer firings (multi-transaction sweeps) are excluded from crash histories. Trusted: Coq kernel + vm_compute, Go harness, SQLite.",
        "assumptions": ["SQLite commits atomically and durably with respect to process kill (WAL mode)", "every mutating call is one transaction (checked by the kill points, not proved)", "the child's scripted clock and the recorded wall-clock second of each step stand for time in the model"],
    },
    "C11": _kv("C11", "Proved on the model's store for every reachable store and every entry point: a call addressed to collection c leaves documents, backfill, identity and feeds of every other collection unchanged (C11_frame); DropDataStore removes exactly the collection's rows and entry (C11_drop); re-creation yields a fresh id with no documents (C11_recreate). Views and SQL queries of other collections are covered under C12/C19 models. The executable trace checker (rows, dump order and collection list outside the addressed collection unchanged; a drop removes exactly the collection; a creation yields an empty one; events carry the addressed collection's id) is proved to accept every history of the model (C11_checker_accepts_every_model_history, KvTrace.v) and is run on the implementation's traces. Feeds and their checkpoint documents: the sched family runs half of its schedules on a named collection with the default collection as a bystander (checkpoints are read back from, and their events expected on, the fed collection).", model_chk=True, extra=[{"family": "sched", "chk": "sched_excused_C09"}]),
    "C18": _kv("C18", "Proved on Json.v for all documents, paths and values: a sub-document write leaves every property on a diverging path unchanged (C18_frame), the addressed property reads back as the written value (C18_set) or as absent after removal (C18_remove); CAS honoured / failure changes nothing is the C02 theorem (C18_cas). The trace checker restates WriteSubDoc/SubdocInsert/GetSubDocRaw as upsert_path/eval_path over the parsed read-back and is evaluated on implementation traces; it also says that a write given no CAS never answers with a CAS mismatch (it retries a lost race), and it is proved to accept every history of the model (C18_checker_accepts_every_model_history, KvC18.v: exhaustive case analysis of Kv.kstep, with the path lemmas eval_path_app / subdoc_insert_absent). Calls landing inside the read-to-write window of a sub-document write (also on a key that has no row yet and is created inside the window) are run through the hook point subdoc.window and compared with the model's sequential order; the general concurrent no-lost-update statement is part of the interleaving model: partial.", model_chk=True),
    "C13": {
        "families": [{"family": "reg", "model_chk": True, "model_chk_fn": "kv_model_chk_reg"}, {"family": "regc"}, {"family": "life"}],
        "level_text": "Proved on the registry model (Registry.v: cluster.buckets, cluster.bucketCount, store instances, handles, OpenBucket modes, Close, CloseAndDelete) for all histories over any handles, names and URLs: the reference count of a registered bucket equals the number of handles opened on it and not closed (C13_refcount, invariant rinv for every reachable state), and closing a handle - even twice - changes neither the status nor the data seen through any other handle (C13_close_is_local). Also proved for every state satisfying the invariants (every reachable one, C13_invariants_reachable; RegModes.v): what OpenBucket answers in each mode - CreateNew succeeds iff the bucket does not exist, ReOpenExisting iff it exists and is not open at another URL, CreateOrOpen unless it is open at another URL, with the error named in each case (C13_open_modes and its three corollaries) - and that a refused open changes nothing (C13_refused_open_changes_nothing); that Close closes the handle, that a closed handle stays closed through every later history and that calls through it answer bucket-closed and change nothing (C13_close_closes, C13_closed_is_final, C13_closed_handle_refuses); that Close touches neither the directories nor the registration and contents of an in-memory bucket (C13_close_keeps_disk, C13_close_keeps_memory); that opening an unregistered name on a directory yields a working handle showing what the directory holds (C13_reopen_sees_disk); that CloseAndDelete removes the registry entry and the directory, after which the bucket does not exist (C13_delete_removes); that opening a registered name again yields a handle on the instance serving that name, that handles on one instance read the same data and that a write through one is read through all (C13_open_registered_shares, C13_same_instance_same_data, C13_write_shows_through_every_handle). The executable checker restates these clauses over observations and is evaluated on implementation traces and, by evaluation, on the model's traces; correspondence with the model is exact. Concurrent opens and closes: every registry action is one step of the model under cluster.lock, so a concurrent run is one of its sequential histories; the regc family runs goroutines that open (every mode), write through and close handles of one existing bucket at the same time (in memory and on disk, with and without a handle kept open throughout, so that the bucket is unregistered and registered again under them), records through hook points inside cluster.lock and inside the write transaction the order in which the calls took effect, and compares the answer of every call, the final view of every handle, the registered names, the directories and the registry's reference count with the model run on that order; the checker restates the reference-count clause on what was observed (count = handles opened and not closed; a closed handle refuses, the others work and show one store's data, every value shown was written by an acknowledged write). It exposed the defect repaired by fix ffbe3dc of /repo (an OpenBucket that loses the race to register released a reference of the winner's). An OpenBucket that runs inside a Close, between its unregisterBucket and the marking of the handle (hook point close.unregistered), is the model step RCloseOpen = Close then Open: the reg family runs such races in one case out of three closes and compares the outcome exactly.",
        "level_note": "Histories exclude Close/CloseAndDelete through a stale handle of a deleted or fully closed bucket whose name has been opened again (unregisterBucket is keyed by name and would release the new bucket's reference; recorded as a limit in DESIGN.md). cluster.lock is assumed to make each registry action atomic. Trusted: Coq kernel + vm_compute, Go harness.",
        "assumptions": ["each OpenBucket / Close / CloseAndDelete is one atomic step (cluster.lock, bucket.mutex); the regc family watches this under real goroutine races", "no stale handle of a re-created bucket name is closed or deleted (op_ok)", "file system: os.Mkdir/os.Remove behave as a map from URL to directory"],
    },
    "C14": {
        "families": [{"family": "kv", "chk": "kv_chk_C14", "corr": "kv_corr_C14", "model_chk": True}, {"family": "ttl"}],
        "level_text": "Proved on the model for all histories: the expiry in force after every successful call is the one it was given (absolute, or now+offset), kept by PreserveExpiry and xattr-only writes, 0 after deletes (C14_exp_in_force, every entry point); in every reachable state a document carrying expiry T has the expiry manager armed for a time <= T (C14_timer_covers_min_exp: invariant over postNewEvent/Touch scheduling, the timer callback and reopen); a firing at time t tombstones exactly the documents with 0 < exp <= t, posts a deletion event for each and leaves all others untouched, so none expires early (C14_fire_correct, C14_never_early). Tie to the code: the kv family compares the expiry manager's nextExp (hook accessor) and every stored expiry exactly after every step, with timer firings placed by the history; the ttl family runs real timers (2-4 s deadlines, shorten/lengthen/preserve/clear, close and reopen before or after the deadline) and checks poll times. Partial: 'within a few seconds' assumes an armed Go timer fires. A firing is not atomic - the sweep reads the due keys of a collection and then removes them one by one - and the model has it so: SExpireScan wc / calls / SExpireK wc keys parked. For every store, time, collection, every list of keys the query may have returned and whatever was done since, a step of a sweep removes exactly the documents it is about whose expiry has passed when the step is taken and leaves every other document as it was (C14_sweep_correct), so a document given a later expiry, or none, between the sweep's query and its removals survives (C14_never_early_in_an_interrupted_sweep; Sweep.v); the sweep of the pinned tree, which deleted whatever its query had returned, is refuted with the history that shows it (C14_unchecked_sweep_refuted; the defect repaired by fix 2068c64 of /repo, witness corpus/kv/w19_sweep_window.jsonl). On the code the kv family holds the sweep at the hook point expiry.window of a chosen collection, makes calls (writes with no / later / earlier expiry, touches, deletes, xattr-only writes, inserts of new due documents, in that or another collection, through any handle; calls whose request to the expiry manager waits for the sweep are let park) and compares everything - scanned keys, every read-back, events, CAS values, the re-armed deadline - with the model. The whole executable trace checker (armed deadline covers every stored expiry after every step; a firing tombstones exactly the due documents with a deletion event each and leaves the rest alone; each call leaves the expiry its arguments say) is proved to accept every history of the model (C14_checker_accepts_every_model_history, KvC14Trace.v).",
        "level_note": "Real-time part uses wall-clock polls with a 3 s allowance; relative expiries are compared only when the wall-clock second did not change during the call. The expiry manager's nextExp is read through the verif-only accessor VerifNextExp. Trusted: Coq kernel + vm_compute, Go harness.",
        "assumptions": KV_ASSUME + ["an armed time.AfterFunc timer fires at its deadline (Go runtime)", "timer firings in the kv family are placed by the history (the real timer's callback is parked by the expiry.fire hook and the callback is run synchronously by 'expire' steps)", "while a sweep is held in its window the expiry manager is locked and its nextExp cannot be read: the snapshots of in-window steps carry what has been asked of it so far (computed by the harness), the first real reading is the one after the sweep"],
    },
    "C19": _kv("C19", "Proved on the model's store, for every reachable store: the $_keyspace sub-query of a collection ranges over exactly the documents of that collection that have a body, with their current id, body and xattrs (C19_keyspace_is_live_docs), each once (C19_each_once); ORDER BY neither drops nor invents rows. A family of thirteen statements (ids, hex bodies, count, id filter, body-property filters - one with an unsigned-integer argument -, xattr-property filter, system- and user-xattr projections, a NULL leading column, DESC/LIMIT, a four-way self-join returning n^4 rows; documents include 8-byte JSON bodies and xattrs, see fix d158c59) is evaluated in the model and compared exactly, row text for row text, with Collection.Query on in-memory (pre-recorded iterator) and on-disk (streaming iterator) buckets after arbitrary histories over three collections; the trace checker re-evaluates each query over the key-value read-back of the collection (acceptance of model traces checked by evaluation). SQLite's evaluator (json_valid, ->>, hex, ORDER BY, LIMIT) is modelled by eval_query, not verified.", model_chk=True),
    "C12": _kv("C12", "Model of views.go/designdoc.go in Store.v: design documents, views.lastCas vs the collection's lastCas, incremental updateView (delete rows of documents with cas > views.lastCas, re-map them), cascade on purge/drop, JSON collation, startkey/endkey/inclusive_end/key/limit/descending, five JavaScript map functions (and their _count reduce variants) with Gallina twins. The executable checker states the property directly - a non-stale query equals the map function applied to the key-value read-back of the collection's current documents, collated and filtered - and is evaluated on implementation traces and on the model's traces Proved for every reachable store of the model (ViewProofs.v, ViewInv.v; theorem C12_nonstale_query_is_map_of_current_docs): the invariant 'every document of a view's collection is indexed (its index rows are what the map function emits for its current version) or pending (cas > views.lastCas and the collection's lastCas differs from views.lastCas), and no row belongs to a document that no longer exists' holds initially and is preserved by every step (all key-value entry points by exhaustive case analysis of Kv.kstep, WithMeta resets, purge, create/drop, PutDDoc/DeleteDDoc, stale and non-stale queries, expiry, reopen); hence a non-stale query answers from an index holding, per document id, exactly the rows of a from-scratch evaluation, independent of the update history (C12_independent_of_update_history). The model's trace acceptance is additionally checked by evaluation on every run. View queries are placed anywhere in histories with deletes, resurrections, xattr-only writes, purges, WithMeta writes, design-document replacement through another handle, collection drop and reopen; results are compared exactly with the model. otto (JavaScript), SQLite's ORDER BY with the JSON collation and sg-bucket's ProcessParsed are modelled, not verified; reduce/group and keys=[...] are outside the modelled subset.", model_chk=True),
    "C15": {
        "families": [{"family": "sched", "chk": "sched_excused_C15", "strict_chk": "sched_strict_C15"}, {"family": "ckpt"}],
        "level_text": "Partial. Feed.v models checkpointed feeds action by action (backfill from the persisted checkpoint + 1, registration, one callback at a time, terminator: the event already pulled is still delivered, the rest of the queue is discarded, the checkpoint document is written with the highest delivered CAS and is itself a mutation posted to the other feeds). The persisted checkpoint never exceeds a delivered CAS in any schedule (checked on every trace). The full completeness statement (every stop/restart placement, every interleaving with writers) is REFUTED on the faithful model with replayable witnesses (C15_skip_refuted: consequence of the known findings KF-C08-order and KF-C09-gap); outside those windows the sched family executes generated schedules of writers, stops (also with events still queued and writers mid-post) and resumes on the real code under the hooks and compares every delivery, CAS and checkpoint exactly with the model, and the union of the runs must contain every document.",
        "level_note": "Schedules are generated (valid action lists over 2-4 writers and 1-2 feed names, in-memory and on-disk); atomicity of each action (transaction, postEvent's list read, queue push, callback) is assumed from the Go code. Trusted: Coq kernel + vm_compute, Go harness and its hook scheduler.",
        "assumptions": ["each action of Feed.v is atomic in the code (the hooks sit between them)", "the HLC on a constant clock hands out base+1, base+2, ... (exact CAS comparison)", "feeds use CheckpointPrefix 'cp'; Dump feeds are covered by C09's sequential part"],
    },
    "C16": {
        "families": [{"family": "life"}],
        "level_text": "Partial. Life.v models when feeds end: handles of one bucket, collections, the feed registry shared by all handles, live and dump feeds started through any handle, terminators, DropDataStore, Close (the last close of an on-disk bucket shuts the store down), CloseAndDelete, writes. Consumers may be slow: a feed's callback can be blocked (LBlock/LRelease) so that events queue up behind it while the feed is ended. Proved on the model for every state and step: an ended feed stays ended and receives nothing more (C16_ended_is_final, with the invariant C16_wf_reachable); what was queued behind a blocked callback when the feed was ended is never delivered and the done channel closes when the callback returns (C16_queued_never_delivered); closing another feed's terminator, dropping another collection, or closing a handle that is not the last one of an on-disk bucket never ends a running feed nor marks it for ending (C16_independent). Tie to the code: the life family runs generated histories (1-3 handles, up to 3 collections, in-memory and on-disk) and compares, after every step, every feed's done channel and event count exactly with the model; the executable checker (ended is final and silent; a feed ends only for a cause that concerns it and a cause does end it; every running live feed receives each write of its collection) is evaluated on implementation and model traces. That the feed goroutine exits is inferred from its done channel; exactly-once closing of done is assumed from the single `defer close` in run().",
        "level_note": "Observation after each step waits for the feed goroutines to settle (up to 400 ms): a termination slower than that would be reported as missing. Concurrent writers during termination are covered by the sched / ckpt families (C15). Trusted: Coq kernel + vm_compute, Go harness.",
        "assumptions": ["each lifecycle call is one atomic step (bucket.mutex / cluster.lock)", "a closed done channel means the feed goroutine has left its loop"],
    },
    "C20": {
        "families": [{"family": "shut"}, {"family": "life"}],
        "level_text": "Partial. Proved (Locks.v) for every number of threads and every schedule: threads that acquire locks in strictly increasing rank and release what they took never reach a stuck configuration and leave no lock held (C20_rank_discipline_no_deadlock, C20_no_lock_left); rosmar's code paths - write, read, feed start, CloseAndDelete, last Close, DropDataStore, OpenBucket, view update, transcribed by hand as lock sequences over bucket.mutex, cluster.lock, expiryManager.mutex, Collection.mutex, queue locks and the HLC mutex - follow that discipline (checked by computation), hence cannot deadlock among themselves (C20_paths_no_deadlock). The expiry timer's callback does not (it takes bucket.mutex for every removal while it holds expiryManager.mutex): against the CloseAndDelete of the pinned tree a stuck configuration is exhibited (C20_timer_deadlock_before_the_fix); three defects in that corner were repaired in /repo - the callback running on a closed store (116c2a3), the lock cycle with CloseAndDelete (2f1f33b), a feed registered after the store shut down (fcaf2af) - by a shut-down flag shared by all handles, set and waited on before bucket.mutex is taken. LockStop.v models that protocol (threads of Acq / Rel / SetStop / IfStopped actions) and proves for every schedule of the timer callback together with CloseAndDelete, a writer and a feed start; with the last Close, a writer and DropDataStore; and with both shutdown calls and a writer: no reachable configuration is stuck, no lock is left, and the sweep is never inside its removals while CloseAndDelete holds bucket.mutex (C20_timer_vs_close_and_delete_no_deadlock, C20_timer_vs_last_close_no_deadlock, C20_timer_vs_both_shutdowns_no_deadlock, C20_shutdown_leaves_no_lock, C20_sweep_never_inside_a_shutdown: the reachable set of each finite system is computed, shown to contain the initial configuration and to be closed under every thread's step, and checked member by member - the bound is one thread of each kind). On the code: 132 scenarios, each in a child process with a watchdog - a racer (writer, sub-document writer, view query, feed start, another Close, the timer's callback) parked at a hook point (transaction begin / pre-commit / committed, before setLastCas, before posting, postEvent's snapshot, the subdoc window, feed.preregister, expiry.fire, expiry.window, close.unregistered) against CloseAndDelete, the last Close, a non-last Close and DropDataStore, in-memory and on-disk; outcome = ok / panic / deadlock / leaked feed or timer goroutine / another bucket unusable / raced call never returned; every scenario must end ok.",
        "level_note": "The lock tables (Locks.v, LockStop.v) are transcribed by hand and are not tied to the source mechanically; the scenarios are what watches them. 'Leaked goroutine' is judged from runtime.Stack and the feed counter 150 ms after the store shut down; the terminator-watcher goroutine of a feed whose client never closes its terminator is not counted. Trusted: Coq kernel + vm_compute, Go harness.",
        "assumptions": ["the lock acquisition tables of Locks.v and LockStop.v match the Go code (hand-transcribed)", "a watchdog of 5 s distinguishes a deadlock from slowness"],
    },
    "C17": _kv("C17", "A removal by a firing of the expiry timer counts as exactly one mutation (C17_expiry_is_a_removal, KvExpiry.v). Full proof on the model: every successful mutation through any entry point raises the key's revision number by exactly one (1 on creation or re-creation after purge), failed calls leave it, and live events carry the stored number (C17_holds, all histories)."),
    "C03": {
        "families": [{"family": "lin"}, {"family": "kv", "chk": "kv_chk_C03", "corr": "kv_corr_C03", "model_chk": True}],
        "level_text": "Partial. Proved (Conc.v) for every number of threads, every list of updates per thread and every schedule: the read / compute / conditional-write loop that Update, WriteUpdateWithXattrs and the sub-document writes implement loses no update and applies none twice, and a successful write extends exactly the version its callback was shown (C03_no_lost_update, C03_write_on_shown_version, invariant over all reachable configurations). Single-transaction calls (Incr included) are one atomic step of the sequential model. The tie to the code is a Coq-checked linearization certificate: goroutines on 1-3 handles (in-memory and on-disk) run Incr, Get, GetWithXattrs, Remove, Update, WriteCas, WriteUpdateWithXattrs and SetWithMeta against shared keys; the live feed's events sorted by CAS are the claimed order; Lin.v replays that order through the sequential model Kv.kstep and requires every version, every response, every read (no torn body/xattrs), every failed call and the real-time order to be explained, and the callback's shown CAS to be the predecessor's.",
        "level_note": "Assumes inTransaction is atomic and isolated and that a SELECT outside the mutex sees a committed snapshot (SQLite WAL / the single in-memory connection): the certificate check is what watches this. Stress-based: schedules are those the Go scheduler produces in this run (testing strength for the code, proof strength for the loop model). Trusted: Coq kernel + vm_compute, Go harness.",
        "assumptions": ["each single-transaction call is atomic (bucket.mutex + SQLite transaction)", "reads outside the mutex see a committed snapshot", "the live feed delivers every posted event (checked: one event per acknowledged mutation)"],
    },
    "C04": {
        "families": [{"family": "c04"}, {"family": "kv", "chk": "kv_chk_C04", "corr": "kv_corr_C04", "model_chk": True}, {"family": "lin"}],
        "level_text": "Full proof on the model: for every list of clock readings, buckets, failed calls, closes, restarts and reopens the issued CAS values are strictly increasing process-wide and per bucket across restarts (C04_holds, by invariant over all operation lists; uint64 no-wrap side condition proved). The model is tied to hlc.go/collection.go by exact comparison of every CAS the implementation stamps under scripted clocks.",
        "level_note": "Assumes the HLC mutex and bucket.mutex make each draw atomic, and SQLite commits bucket.lastCas atomically with the write; restart simulated in-process in this check (real kills under C10). Trusted: Coq kernel + vm_compute, the Go harness and emitter.",
        "assumptions": [
            "hlc.Now() is called inside the write transaction under bucket.mutex and the HLC mutex serialises draws (modelled as one atomic step per draw)",
            "bucket.lastCas is persisted in the same SQLite transaction as the document write (SQLite atomic commit assumed)",
            "restart is simulated in-process (all handles closed, clock state reset to 0); real process kills are exercised by the crash family of C10",
        ],
    },
}
