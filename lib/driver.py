"""bin/check driver: proof obligations + correspondence + search + evidence.

Usage: check <Cxx> [--tier quick|thorough] [--seed N] [--replay FILE]
See DESIGN.md sections 3 and 4.
"""
import argparse
import atexit
import concurrent.futures as cf
import fcntl
import hashlib
import json
import os
import re
import shutil
import subprocess
import sys
import tempfile
import time

VERIF = os.path.dirname(os.path.dirname(os.path.abspath(__file__)))
COQ = os.path.join(VERIF, "coq")
HARNESS = os.path.join(VERIF, "harness")
REPO = os.environ.get("VERIF_REPO", "/repo")
sys.path.insert(0, os.path.join(VERIF, "lib"))
import coqterm  # noqa: E402
import props as propsmod  # noqa: E402

GOENV = dict(os.environ, GOFLAGS="-mod=mod", GOPROXY="off", GOSUMDB="off", GOTOOLCHAIN="local",
             CGO_ENABLED="1")

ALLOWED_AXIOMS = set()  # none needed so far; stdlib axioms would be named here and in DESIGN.md

FORBIDDEN = re.compile(
    r"\b(Admitted|admit|Axiom|Axioms|Parameter|Parameters|Conjecture|Conjectures|"
    r"Admit\s+Obligations|bypass_check)\b|Unset\s+Guard|Unset\s+Positivity|Unset\s+Universe|"
    r"type-in-type|impredicative-set")


def log(*a):
    print(*a, file=sys.stderr, flush=True)


COQENV = dict(os.environ, OCAMLRUNPARAM=os.environ.get("OCAMLRUNPARAM", "s=4M"))


def run(cmd, **kw):
    if cmd and cmd[0] in ("coqc", "make", "coq_makefile") or (len(cmd) > 2 and cmd[0] == "timeout" and cmd[2] in ("coqc", "make")):
        kw.setdefault("env", COQENV)
    kw.setdefault("stdout", subprocess.PIPE)
    kw.setdefault("stderr", subprocess.STDOUT)
    kw.setdefault("text", True)
    return subprocess.run(cmd, **kw)


# ------------------------------------------------------------------------------------------------
# Coq development

def strip_comments(src: str) -> str:
    out, depth, i = [], 0, 0
    while i < len(src):
        if src.startswith("(*", i):
            depth += 1
            i += 2
        elif src.startswith("*)", i) and depth > 0:
            depth -= 1
            i += 2
        else:
            if depth == 0:
                out.append(src[i])
            i += 1
    return "".join(out)


def coq_sources():
    files = []
    with open(os.path.join(COQ, "_CoqProject")) as fh:
        for line in fh:
            line = line.strip()
            if line.endswith(".v"):
                files.append(line)
    return files


def scan_forbidden():
    bad = []
    for f in coq_sources():
        src = strip_comments(open(os.path.join(COQ, f)).read())
        # string literals may legitimately contain words; strip them
        src = re.sub(r'"(?:[^"]|"")*"', '""', src)
        for m in FORBIDDEN.finditer(src):
            bad.append("%s: %s" % (f, m.group(0)))
    return bad


def build_coq():
    """Full .vo build of the development (make is a no-op when up to date). Returns (ok, log)."""
    lock = open(os.path.join(COQ, ".build.lock"), "w")
    fcntl.flock(lock, fcntl.LOCK_EX)
    try:
        mk = os.path.join(COQ, "Makefile")
        proj = os.path.join(COQ, "_CoqProject")
        if not os.path.exists(mk) or os.path.getmtime(mk) < os.path.getmtime(proj):
            r = run(["coq_makefile", "-f", "_CoqProject", "-o", "Makefile"], cwd=COQ)
            if r.returncode != 0:
                return False, r.stdout
        r = run(["timeout", "3000", "make", "-j16"], cwd=COQ)
        return r.returncode == 0, r.stdout
    finally:
        fcntl.flock(lock, fcntl.LOCK_UN)
        lock.close()


def theorem_names(vfile):
    src = strip_comments(open(vfile).read())
    return re.findall(r"^\s*(?:Theorem|Lemma|Corollary)\s+([A-Za-z0-9_']+)", src, re.M)


def check_obligations(prop, scratch):
    """Re-check props/<prop>.v and read Print Assumptions. Returns dict."""
    vfile = os.path.join(COQ, "props", prop + ".v")
    res = {"theorems": [], "obligations": 0, "discharged": 0, "assumptions_output": "", "failed": []}
    if not os.path.exists(vfile):
        res["failed"].append("missing " + vfile)
        return res
    names = theorem_names(vfile)
    res["theorems"] = names
    res["obligations"] = len(names)
    os.makedirs(os.path.join(scratch, "recheck"), exist_ok=True)
    out_vo = os.path.join(scratch, "recheck", prop + ".vo")
    r = run(["timeout", "600", "coqc", "-Q", COQ, "Rosmar", "-o", out_vo, vfile], cwd=scratch)
    res["assumptions_output"] = r.stdout.strip()
    if r.returncode != 0:
        res["failed"].append("coqc props/%s.v failed: %s" % (prop, r.stdout[-2000:]))
        return res
    # split output into one block per Print Assumptions
    blocks = re.split(r"(?=Closed under the global context|Axioms:)", r.stdout)
    blocks = [b for b in blocks if b.strip()]
    closed = 0
    for b in blocks:
        if b.startswith("Closed under the global context"):
            closed += 1
        elif b.startswith("Axioms:"):
            axs = re.findall(r"^([A-Za-z0-9_.']+)\s*:", b, re.M)
            extra = [a for a in axs if a not in ALLOWED_AXIOMS]
            if extra:
                res["failed"].append("theorem depends on axioms not in the trusted base: %s" % extra)
            else:
                closed += 1
    if len(blocks) < len(names):
        res["failed"].append("only %d Print Assumptions outputs for %d theorems" % (len(blocks), len(names)))
    res["discharged"] = min(closed, len(names))
    if res["discharged"] < res["obligations"] and not res["failed"]:
        res["failed"].append("not all obligations discharged")
    return res


# ------------------------------------------------------------------------------------------------
# Harness

def build_harness(scratch):
    global HARNESS
    if REPO != "/repo":
        # developer mode (VERIF_REPO=<worktree>): build a copy of the harness against that tree
        hs = os.path.join(scratch, "hsrc")
        if not os.path.isdir(hs):
            shutil.copytree(HARNESS, hs)
            gm = open(os.path.join(hs, "go.mod")).read().replace("=> /repo", "=> " + REPO)
            open(os.path.join(hs, "go.mod"), "w").write(gm)
        HARNESS = hs
    shutil.copyfile(os.path.join(REPO, "go.sum"), os.path.join(HARNESS, "go.sum"))
    out = os.path.join(scratch, "harness")
    lock = open(os.path.join(HARNESS, ".build.lock"), "w")
    fcntl.flock(lock, fcntl.LOCK_EX)
    try:
        r = run(["go", "build", "-tags", "verif", "-o", out, "."], cwd=HARNESS, env=GOENV)
    finally:
        fcntl.flock(lock, fcntl.LOCK_UN)
        lock.close()
    if r.returncode != 0:
        return None, r.stdout
    return out, r.stdout


def run_harness(binary, family, scratch, seed=1, n=10, tier="quick", replay=None, param="", timeout=1800):
    out = tempfile.mktemp(prefix="cases_%s_" % family, suffix=".jsonl", dir=scratch)
    cmd = ["timeout", str(timeout), binary, "-family", family, "-seed", str(seed), "-n", str(n),
           "-tier", tier, "-out", out, "-scratch", scratch]
    if replay:
        cmd += ["-replay", replay]
    if param:
        cmd += ["-param", param]
    r = run(cmd, cwd=scratch, env=GOENV)
    cases = []
    if os.path.exists(out):
        with open(out) as fh:
            for line in fh:
                line = line.strip()
                if line:
                    try:
                        cases.append(json.loads(line))
                    except json.JSONDecodeError:
                        pass  # truncated last line of a crashed run
    return r.returncode, r.stdout, cases


# ------------------------------------------------------------------------------------------------
# Evaluating the model on recorded cases inside Coq

CASES_HEADER = """From Rosmar Require Import Base %(mods)s.
Open Scope string_scope. Open Scope list_scope. Open Scope N_scope.
Set Printing Width 1000000. Set Printing Depth 1000000.
"""


def cases_v(fam, cases):
    lines = [CASES_HEADER % {"mods": " ".join(fam["coq_modules"])}]
    lines.append("Definition cases : list (%s * %s) := [" % (fam["in_type"], fam["obs_type"]))
    items = []
    for c in cases:
        items.append("  (" + coqterm.term(c["coq_in"]) + ",\n   " + coqterm.term(c["coq_obs"]) + ")")
    lines.append(";\n".join(items))
    lines.append("].")
    mchk = ("(%s %s)" % (fam.get("model_chk_fn", "kv_model_chk"), fam["chk"])) if fam.get("model_chk") else "(fun _ => true)"
    lines.append('Goal True. let v := eval vm_compute in (find_bad %s cases) in idtac "BADCORR" v. '
                 'let v := eval vm_compute in (find_bad %s cases) in idtac "BADCHK" v. '
                 'let v := eval vm_compute in (find_bad %s cases) in idtac "BADMODEL" v. exact I. Qed.' % (fam["corr"], fam["chk"], mchk))
    return "\n".join(lines) + "\n"


def parse_idx_list(s):
    s = s.strip()
    if s.startswith("[") and s.endswith("]"):
        inner = s[1:-1].strip()
        if not inner:
            return []
        return [int(x.strip().rstrip("%N")) for x in inner.split(";")]
    raise ValueError("cannot parse index list: %r" % s)


def eval_shard(args):
    fam, cases, path = args
    with open(path, "w") as fh:
        fh.write(cases_v(fam, cases))
    r = run(["timeout", "900", "coqc", "-Q", COQ, "Rosmar", path], cwd=os.path.dirname(path))
    if r.returncode != 0:
        return {"error": r.stdout[-4000:], "path": path}
    m1 = re.search(r"BADCORR\s+(\[[^\]]*\])", r.stdout)
    m2 = re.search(r"BADCHK\s+(\[[^\]]*\])", r.stdout)
    m3 = re.search(r"BADMODEL\s+(\[[^\]]*\])", r.stdout)
    if not m1 or not m2 or not m3:
        return {"error": "no verdict in coqc output: " + r.stdout[-2000:], "path": path}
    if parse_idx_list(m3.group(1)):
        return {"error": "the property checker %s rejects the MODEL's own trace for cases %s of this shard (checker and model disagree: framework defect)" % (fam["chk"], m3.group(1)), "path": path}
    return {"bad_corr": parse_idx_list(m1.group(1)), "bad_chk": parse_idx_list(m2.group(1)), "path": path}


def evaluate(fam, cases, scratch, shard_size=None, tag="s"):
    """Returns (bad_corr_indices, bad_chk_indices, errors) - indices into `cases`."""
    live = [(i, c) for i, c in enumerate(cases) if not c.get("discard")]
    if not live:
        return [], [], []
    if shard_size is None:
        shard_size = max(1, min(fam.get("shard", 40), (len(live) + 15) // 16))
    jobs = []
    for s in range(0, len(live), shard_size):
        chunk = live[s:s + shard_size]
        path = os.path.join(scratch, "cases_%s_%s_%d.v" % (fam["family"], tag, s // shard_size))
        jobs.append((chunk, (fam, [c for _, c in chunk], path)))
    bad_corr, bad_chk, errors = [], [], []
    with cf.ThreadPoolExecutor(max_workers=16) as ex:
        for (chunk, _), res in zip(jobs, ex.map(eval_shard, [j for _, j in jobs])):
            if "error" in res:
                errors.append(res)
                continue
            bad_corr += [chunk[k][0] for k in res["bad_corr"]]
            bad_chk += [chunk[k][0] for k in res["bad_chk"]]
    return bad_corr, bad_chk, errors


def model_output(fam, case, scratch):
    """Ask Coq what the model says for this input (text, for the replay file)."""
    path = os.path.join(scratch, "explain_%s.v" % fam["family"])
    src = CASES_HEADER % {"mods": " ".join(fam["coq_modules"])}
    src += "Definition input : %s := %s.\n" % (fam["in_type"], coqterm.term(case["coq_in"]))
    src += "Definition observed : %s := %s.\n" % (fam["obs_type"], coqterm.term(case["coq_obs"]))
    if fam.get("explain"):
        src += "Eval vm_compute in (%s (input, observed)).\n" % fam["explain"]
    if fam.get("chk_explain"):
        src += "Eval vm_compute in (%s (input, observed)).\n" % fam["chk_explain"]
    else:
        src += "Eval vm_compute in (%s input).\n" % fam["model"]
    with open(path, "w") as fh:
        fh.write(src)
    r = run(["timeout", "300", "coqc", "-Q", COQ, "Rosmar", path], cwd=scratch)
    return r.stdout.strip()[-20000:]


# ------------------------------------------------------------------------------------------------
# Shrinking (delta debugging over input["ops"] or the list named by fam["shrink_key"])

def reproduces(fam, case, kind, binary, scratch, tries=2):
    """Families whose observations depend on wall-clock waits (a feed goroutine that has not yet delivered when the
    harness looks, a poll that comes late on a loaded machine) re-execute a failing input by itself: it counts
    only if it fails again.  Returns the failing re-execution, or None if every re-execution passed."""
    rp = os.path.join(scratch, "retry_in.jsonl")
    with open(rp, "w") as fh:
        fh.write(json.dumps(case["input"]) + "\n")
    for _ in range(tries):
        rc, out, cs = run_harness(binary, fam["family"], scratch, replay=rp, param=fam.get("param", ""), timeout=300)
        if rc != 0 or not cs:
            return case  # the implementation failed outright or the harness did: not a timing matter
        if cs[0].get("discard"):
            continue
        bc, bk, errs = evaluate(fam, cs[:1], scratch, shard_size=1, tag="rtr")
        if errs or (0 in bc) or (0 in bk):
            return cs[0]
    return None


def shrink(fam, case, kind, binary, scratch, budget=40):
    key = fam.get("shrink_key", "ops")
    inp = case["input"]
    if not isinstance(inp, dict) or key not in inp or not isinstance(inp[key], list):
        return case
    best = case

    def still_fails(ops):
        cand = dict(inp)
        cand[key] = ops
        rp = os.path.join(scratch, "shrink_in.jsonl")
        with open(rp, "w") as fh:
            fh.write(json.dumps(cand) + "\n")
        rc, out, cs = run_harness(binary, fam["family"], scratch, replay=rp, param=fam.get("param", ""), timeout=120)
        if rc != 0 or not cs or cs[0].get("discard"):
            return None
        bc, bk, errs = evaluate(fam, cs[:1], scratch, shard_size=1, tag="shr")
        if errs:
            return None
        failing = (0 in bc) if kind == "corr" else (0 in bk)
        return cs[0] if failing else None

    ops = list(inp[key])
    n = 2
    while len(ops) >= 2 and budget > 0:
        chunk = max(1, len(ops) // n)
        reduced = False
        for start in range(0, len(ops), chunk):
            if budget <= 0:
                break
            cand = ops[:start] + ops[start + chunk:]
            if not cand:
                continue
            budget -= 1
            r = still_fails(cand)
            if r is not None:
                ops, best, reduced = cand, r, True
                n = max(n - 1, 2)
                break
        if not reduced:
            if chunk == 1:
                break
            n = min(len(ops), n * 2)
    return best


# ------------------------------------------------------------------------------------------------
# Known findings

def case_patterns(famname, inp):
    """Which known-finding windows (KNOWN_FINDINGS.json signatures) a case's input falls into.
    Mirrors Feed.has_inversion / Feed.has_gap_window and Locks.expected_outcomes."""
    pats = set()
    if famname == "shut":
        store_down = inp.get("shutdown") == "cad" or (inp.get("shutdown") == "close_last" and not inp.get("in_mem"))
        if inp.get("racer") == "timer" and inp.get("point") == "expiry.fire" and store_down:
            pats.add("timer@expiry.fire+store-down")
        if inp.get("racer") == "timer" and inp.get("point") != "expiry.fire" and inp.get("shutdown") == "cad":
            pats.add("timer-inside+cad")
        if inp.get("racer") == "feedstart" and inp.get("shutdown") == "cad":
            pats.add("feedstart@feed.preregister+store-down")
    elif famname == "sched":
        acts = inp.get("acts", [])
        def first(kind, key, val):
            for i, a in enumerate(acts):
                if a.get("kind") == kind and a.get(key, 0) == val:
                    return i
            return None
        writers = [a.get("w", 0) for a in acts if a.get("kind") == "commit"]
        runs = [a.get("f", 0) for a in acts if a.get("kind") == "backfill"]
        stops = [i for i, a in enumerate(acts) if a.get("kind") == "stop"]
        inv = gap = False
        for w1 in writers:
            c1, p1 = first("commit", "w", w1), first("push", "w", w1)
            for w2 in writers:
                c2, p2 = first("commit", "w", w2), first("push", "w", w2)
                if None not in (c1, c2, p1, p2) and c1 < c2 and p2 < p1:
                    inv = True
            if c1 is not None and p1 is not None and any(c1 < i < p1 for i in stops):
                inv = True
            s1 = first("snapshot", "w", w1)
            for f in runs:
                b, r = first("backfill", "f", f), first("register", "f", f)
                if None not in (b, r, c1, s1) and b < c1 and s1 < r:
                    gap = True
        if inv:
            pats.update(["inversion", "inversion-or-gap"])
        if gap:
            pats.update(["gap", "inversion-or-gap"])
    return pats


def load_known():
    p = os.path.join(VERIF, "KNOWN_FINDINGS.json")
    if not os.path.exists(p):
        return []
    return json.load(open(p)).get("findings", [])


def match_known(prop, sig, known):
    """sig: dict produced by the family-specific signature function. A finding matches when every
    key of its `signature` equals the same key of sig."""
    for k in known:
        if k.get("property") != prop or k.get("status") != "known":
            continue
        ks = k.get("signature", {})
        if all(sig.get(a) == b for a, b in ks.items()):
            return k
    return None


# ------------------------------------------------------------------------------------------------

def main():
    ap = argparse.ArgumentParser()
    ap.add_argument("prop")
    ap.add_argument("--tier", default=os.environ.get("VERIF_TIER", "quick"))
    ap.add_argument("--seed", type=int, default=int(os.environ.get("VERIF_SEED", "1")))
    ap.add_argument("--replay")
    args = ap.parse_args()
    prop, tier, seed = args.prop, args.tier, args.seed
    if tier not in ("quick", "thorough"):
        tier = "quick"
    spec = propsmod.PROPS.get(prop)
    if spec is None:
        print("unknown property", prop)
        return 2
    t0 = time.time()
    scratch = tempfile.mkdtemp(prefix="verif_%s_" % prop)
    atexit.register(lambda: shutil.rmtree(scratch, ignore_errors=True))
    replay_dir = os.environ.get("VERIF_REPLAY_DIR", os.path.join(VERIF, "replays"))
    evidence_dir = os.environ.get("VERIF_EVIDENCE_DIR", os.path.join(VERIF, "evidence"))
    case_cache = os.environ.get("VERIF_CASE_CACHE")       # developer mode (bin/seed-matrix): reuse harness runs across properties
    no_shrink = os.environ.get("VERIF_NOSHRINK") == "1"
    os.makedirs(replay_dir, exist_ok=True)
    os.makedirs(evidence_dir, exist_ok=True)

    violations = []   # (replay_path, suffix)
    known_lines = []
    notes = []
    known = load_known()

    def write_replay(name, payload):
        p = os.path.join(replay_dir, "%s_%s.json" % (prop, name))
        with open(p, "w") as fh:
            json.dump(payload, fh, indent=1)
        return p

    # 1. proof obligations -----------------------------------------------------------------
    ok, mlog = build_coq()
    forb = scan_forbidden()
    obl = {"theorems": [], "obligations": 0, "discharged": 0, "assumptions_output": "", "failed": []}
    if not ok:
        obl["failed"].append("coq build failed")
        obl["obligations"] = len(theorem_names(os.path.join(COQ, "props", prop + ".v"))) if os.path.exists(os.path.join(COQ, "props", prop + ".v")) else 1
        log(mlog[-3000:])
    else:
        obl = check_obligations(prop, scratch)
    if forb:
        obl["failed"].append("forbidden constructs in the development: %s" % forb)
    if obl["failed"]:
        p = write_replay("proof", {"property": prop, "kind": "proof-obligation",
                                   "broken": obl["failed"], "theorems": obl["theorems"],
                                   "note": "a theorem of props/%s.v (or the build of the development) no longer checks" % prop})
        violations.append((p, " no-failing-input-found"))

    coqchk_summary = None
    if tier == "thorough" and ok and not obl["failed"]:
        # independent re-check of the compiled property file and everything it depends on
        r = run(["timeout", "3000", "coqchk", "-silent", "-o", "-Q", COQ, "Rosmar", "Rosmar.props." + prop], cwd=COQ)
        tail = r.stdout[-1500:]
        coqchk_summary = " | ".join(l.strip() for l in tail.splitlines() if l.strip())[-900:]
        if r.returncode != 0 or "* Axioms: <none>" not in r.stdout:
            obl["failed"].append("coqchk does not accept props/%s.v with no axioms: %s" % (prop, coqchk_summary))
            p = write_replay("coqchk", {"property": prop, "kind": "proof-obligation", "broken": obl["failed"], "coqchk": coqchk_summary})
            violations.append((p, " no-failing-input-found"))
    log("[%s] proofs checked in %.1fs" % (prop, time.time() - t0))
    # 2. correspondence --------------------------------------------------------------------
    binary, blog = build_harness(scratch)
    log("[%s] harness built at %.1fs" % (prop, time.time() - t0))
    fam_stats = []
    samples = []
    total_eval = total_valid = 0
    cells = set()
    discards = 0
    if binary is None:
        log(blog[-3000:])
        p = write_replay("harness_build", {"property": prop, "kind": "correspondence",
                                           "broken": "the correspondence harness no longer builds against /repo with -tags verif",
                                           "log": blog[-4000:]})
        violations.append((p, " no-failing-input-found"))
    else:
        for fam in spec["families"]:
            fam = dict(propsmod.FAMILIES[fam["family"]], **fam)
            famname = fam["family"]
            all_cases = []
            hard_errors = []
            if args.replay:
                rp = json.load(open(args.replay))
                if rp.get("family") not in (None, famname):
                    continue
                if "input" not in rp:
                    notes.append("replay file has no input (it names a broken obligation): %s" % args.replay)
                    continue
                rpf = os.path.join(scratch, "replay_in.jsonl")
                with open(rpf, "w") as fh:
                    fh.write(json.dumps(rp["input"]) + "\n")
                rc, out, cs = run_harness(binary, famname, scratch, replay=rpf, param=fam.get("param", ""))
                if rc != 0:
                    hard_errors.append(out[-3000:])
                all_cases += cs
            elif case_cache and os.path.exists(os.path.join(case_cache, "%s_%s_%s_%d.json" % (famname, fam.get("param", ""), tier, seed))):
                all_cases = json.load(open(os.path.join(case_cache, "%s_%s_%s_%d.json" % (famname, fam.get("param", ""), tier, seed))))
            else:
                # corpus first
                cdir = os.path.join(VERIF, "corpus", famname)
                if os.path.isdir(cdir):
                    for f in sorted(os.listdir(cdir)):
                        if f.endswith(".jsonl"):
                            rc, out, cs = run_harness(binary, famname, scratch, replay=os.path.join(cdir, f), param=fam.get("param", ""))
                            for c in cs:
                                c["corpus"] = f
                            if rc != 0:
                                hard_errors.append("corpus %s: %s" % (f, out[-3000:]))
                            all_cases += cs
                n = fam["n"][tier]
                # split generation over several processes for speed
                procs = fam.get("procs", 4) if n >= 40 else 1
                per = (n + procs - 1) // procs
                with cf.ThreadPoolExecutor(max_workers=procs) as ex:
                    futs = [ex.submit(run_harness, binary, famname, scratch, seed * 1000 + k, per, tier, None, fam.get("param", ""))
                            for k in range(procs)]
                    for fu in futs:
                        rc, out, cs = fu.result()
                        if rc != 0:
                            hard_errors.append(out[-3000:])
                        all_cases += cs
            if case_cache and not args.replay and not hard_errors:
                os.makedirs(case_cache, exist_ok=True)
                json.dump(all_cases, open(os.path.join(case_cache, "%s_%s_%s_%d.json" % (famname, fam.get("param", ""), tier, seed)), "w"))
            # an input on which the implementation failed outright (panic, a call that never returns, a bucket that
            # cannot be reopened): the input is the replay
            fatal_cases = [c for c in all_cases if c.get("fatal")]
            for c in fatal_cases[:3]:
                log("implementation failed outright:", c["fatal"])
                p = write_replay("%s_fatal_%d" % (famname, c.get("index", 0)),
                                 {"property": prop, "family": famname, "kind": "fatal", "seed": seed, "tier": tier, "input": c["input"],
                                  "verdict": "the implementation failed outright on this input: " + c["fatal"],
                                  "replay": "bin/check %s --replay <this file>" % prop})
                violations.append((p, ""))
            if fatal_cases:
                # the harness process stops after such a case (exit 4); that is not a separate error
                hard_errors = [he for he in hard_errors if "harness error" in he]
            all_cases = [c for c in all_cases if c.get("coq_in") is not None and c.get("coq_obs") is not None]
            # a harness process killed by a panic that is a recorded finding of ANOTHER property (the expiry timer's
            # callback running on a closed store, KF-C20-panic: any family that closes buckets can meet it) says
            # nothing about this property: the cases that process had not reached are lost, and said so; the check
            # of the finding's own property reports it as the known finding it is
            kept = []
            for he in hard_errors:
                kf = next((x for x in known if x.get("status") == "known" and x.get("process_panic") and x["process_panic"] in he), None)
                if kf is None:
                    kept.append(he)
                    continue
                notes.append("a %s harness process was killed by the recorded finding %s (%s); its remaining cases were not run" % (famname, kf.get("id"), kf["process_panic"]))
                if kf.get("property") == prop:
                    line = "KNOWN-FINDING: property=%s %s" % (prop, kf["what"])
                    if line not in known_lines:
                        known_lines.append(line)
            hard_errors = kept
            for he in hard_errors:
                log("harness error:", he)
                p = write_replay("harness_%s" % famname, {"property": prop, "kind": "correspondence", "family": famname,
                                                          "broken": "the harness could not complete its run against the implementation",
                                                          "log": he})
                violations.append((p, " no-failing-input-found"))
            log("[%s] %s: %d cases executed at %.1fs" % (prop, famname, len(all_cases), time.time() - t0))
            bad_corr, bad_chk, errs = evaluate(fam, all_cases, scratch)
            if fam.get("strict_chk"):
                # the excused checker tolerates the schedule windows listed in KNOWN_FINDINGS.json; every case
                # that only the strict checker rejects is an occurrence of such a finding
                _, bad_strict, errs2 = evaluate(dict(fam, chk=fam["strict_chk"], corr=fam["strict_chk"]), all_cases, scratch, tag="strict")
                errs += errs2
                for i in bad_strict:
                    if i in bad_chk:
                        continue
                    pats = case_patterns(famname, all_cases[i].get("input") or {})
                    for kf in known:
                        if (kf.get("status") == "known" and kf.get("property") == prop and kf.get("signature", {}).get("family") == famname
                                and kf.get("signature", {}).get("pattern") in pats):
                            line = "KNOWN-FINDING: property=%s %s" % (prop, kf["what"])
                            if line not in known_lines:
                                known_lines.append(line)
            log("[%s] %s: model evaluated at %.1fs" % (prop, famname, time.time() - t0))
            for e in errs:
                log("coq evaluation error:", e["error"])
                p = write_replay("coqeval_%s" % famname, {"property": prop, "kind": "correspondence", "family": famname,
                                                          "broken": "evaluating the model on recorded cases failed", "log": e["error"]})
                violations.append((p, " no-failing-input-found"))
            live = [c for c in all_cases if not c.get("discard")]
            discards += len(all_cases) - len(live)
            total_eval += len(live)
            total_valid += len(live) - len(set(bad_corr))
            for c in live:
                cells.update("%s:%s" % (famname, x) for x in c.get("cells", []))
            for c in live[:2]:
                samples.append({"family": famname, "input": c["input"], "observed": coqterm.term(c["coq_obs"])[:1500]})
            fam_stats.append({"family": famname, "cases": len(live), "corr_mismatches": len(bad_corr), "chk_failures": len(bad_chk)})

            # 3. outcome per failing case --------------------------------------------------
            reported = set()
            for kind, idxs in (("chk", bad_chk), ("corr", [i for i in bad_corr if i not in bad_chk])):
                for i in idxs[:6]:
                    case = all_cases[i]
                    if fam.get("timed") and not args.replay:
                        again = reproduces(fam, case, kind, binary, scratch)
                        if again is None:
                            discards += 1
                            notes.append("%s case %d failed once and passed when re-executed by itself twice: counted as timing-unstable (input: %s)"
                                         % (famname, i, json.dumps(case["input"])[:600]))
                            continue
                        case = again
                    small = shrink(fam, case, kind, binary, scratch) if not (args.replay or no_shrink) else case
                    sig = {"family": famname, "kind": kind}
                    sigfn = fam.get("signature")
                    if sigfn:
                        sig.update(sigfn(small, kind))
                    kf = match_known(prop, sig, known)
                    if kf is not None:
                        line = "KNOWN-FINDING: property=%s %s" % (prop, kf["what"])
                        if line not in known_lines:
                            known_lines.append(line)
                        continue
                    sigkey = json.dumps(sig, sort_keys=True)
                    if sigkey in reported:
                        continue
                    reported.add(sigkey)
                    chk_false = False
                    if kind == "chk":
                        chk_false = True
                    else:
                        _, bk, _ = evaluate(fam, [small], scratch, shard_size=1, tag="fin")
                        chk_false = 0 in bk
                    expl = model_output(fam, small, scratch)
                    payload = {"property": prop, "family": famname, "kind": kind, "seed": seed, "tier": tier,
                               "signature": sig, "input": small["input"],
                               "observed": coqterm.term(small["coq_obs"]),
                               "model_says": expl,
                               "replay": "bin/check %s --replay <this file>" % prop}
                    if chk_false:
                        payload["verdict"] = "the property's executable checker %s is false on this implementation trace" % fam["chk"]
                        p = write_replay("%s_%s_%d" % (famname, kind, i), payload)
                        violations.append((p, ""))
                    else:
                        payload["verdict"] = ("implementation and model disagree in projection %s; the property checker accepts the "
                                              "implementation trace, so the property is no longer shown to hold but no failing input was found" % fam["corr"])
                        p = write_replay("%s_%s_%d" % (famname, kind, i), payload)
                        violations.append((p, " no-failing-input-found"))

    # known findings that are listed with a fixed witness but need no run are not printed here:
    # a KNOWN-FINDING line is printed only when its witness failed in this run.
    wall = time.time() - t0
    evidence = {
        "property_id": prop, "tier": tier, "seed": seed, "level": "proof",
        "coverage": {
            "obligations": obl["obligations"], "discharged": obl["discharged"],
            "checker_cmd": "cd coq && coq_makefile -f _CoqProject -o Makefile && make -j16 && coqc -Q . Rosmar props/%s.v  (Print Assumptions under every theorem)" % prop,
            "trusted_base": spec.get("trusted_base", propsmod.TRUSTED_BASE) + ["Print Assumptions output: " + (obl["assumptions_output"].replace("\n", " | ")[:1500] or "(none)")],
            "theorems": obl["theorems"],
            "coqchk": coqchk_summary or "(thorough tier only)",
            "evaluations": total_eval,
            "traces_validated_against_impl": total_valid,
            "distinct_nontrivial": len(cells),
            "rule": spec.get("rule", "cases are generated from one seeded PRNG per harness process; a case is non-trivial/distinct by its coverage cells (family-specific: pre-state class x entry point x argument class / schedule window); distinct_nontrivial counts distinct cells hit in this run"),
            "cells": sorted(cells)[:400],
            "families": fam_stats,
            "discarded_timing_unstable": discards,
            "samples": samples[:3] if samples else [{"note": "no implementation cases were run (proof obligations only)", "theorems": obl["theorems"]}],
            "known_findings_seen": known_lines,
            "notes": notes,
        },
        "assumptions": spec.get("assumptions", []),
        "wall_s": round(wall, 2),
        "violations": len(violations),
    }
    with open(os.path.join(evidence_dir, prop + ".json"), "w") as fh:
        json.dump(evidence, fh, indent=1)
    for line in known_lines:
        print(line)
    for p, suffix in violations:
        print("VIOLATION property=%s replay=%s%s" % (prop, p, suffix))
    print("%s tier=%s seed=%d obligations=%d/%d cases=%d validated=%d cells=%d violations=%d wall=%.1fs" % (
        prop, tier, seed, obl["discharged"], obl["obligations"], total_eval, total_valid, len(cells), len(violations), wall))
    return 1 if violations else 0


if __name__ == "__main__":
    sys.exit(main())
