"""Turn the harness's JSON term language into Coq concrete syntax (see harness/coqjson.go)."""


def coq_string(s: str) -> str:
    for ch in s:
        o = ord(ch)
        if o < 32 or o > 126:
            raise ValueError("non-printable byte in string destined for Coq: %r" % s)
    return '"' + s.replace('"', '""') + '"'


def term(t) -> str:
    if isinstance(t, dict):
        if "c" in t:
            args = t.get("a") or []
            if not args:
                return t["c"]
            return "(" + t["c"] + " " + " ".join(term(a) for a in args) + ")"
        if "n" in t:
            return str(int(t["n"]))
        if "s" in t:
            return coq_string(t["s"])
        if "b" in t:
            return "true" if t["b"] else "false"
        if "l" in t:
            return "[" + "; ".join(term(a) for a in t["l"]) + "]"
        if "o" in t:
            return "None" if t["o"] is None else "(Some " + term(t["o"]) + ")"
        if "p" in t:
            a, b = t["p"]
            return "(" + term(a) + ", " + term(b) + ")"
    raise ValueError("bad term: %r" % (t,))
