(* KvC07.v - the row-level checker chk_row_C07 accepts every step of the model *)
From Rosmar Require Import Base Json Crc Kv Store Trace KvTac.

Theorem C07_row_sound : rc_sound chk_row_C07.
Proof. start_rc. all: unfold chk_row_C07; fin.
  all: try frame_done.
  all: match goal with |- ?G => idtac "GOAL" G end; match goal with H : apply_xattrs_any_order _ _ _ _ _ = _ |- _ => let T := type of H in idtac "HYP" T end.
Qed.
