(* RegTrace.v - executable checker for C13 over a recorded history of opens / closes / deletes / writes,
   and the correspondence matcher of the registry family.                                      *)
From Rosmar Require Import Base Registry.

Definition omode_eq_dec : forall a b : omode, {a = b} + {a <> b}. Proof. decide equality. Defined.
Definition rerr_eq_dec : forall a b : rerr, {a = b} + {a <> b}. Proof. decide equality. Defined.
Definition rresp_eq_dec : forall a b : rresp, {a = b} + {a <> b}.
Proof. decide equality; [apply N.eq_dec | apply rerr_eq_dec]. Defined.
Definition hview_eq_dec : forall a b : hview, {a = b} + {a <> b}.
Proof. decide equality. apply list_eq_dec. decide equality. apply string_dec. Defined.
Definition robs_eq_dec : forall a b : robs, {a = b} + {a <> b}.
Proof.
  decide equality; [apply list_eq_dec; apply bool_dec | apply list_eq_dec; apply string_dec
                   | apply list_eq_dec; apply hview_eq_dec | apply rresp_eq_dec].
Defined.

Definition hview_eqb (a b : hview) : bool := if hview_eq_dec a b then true else false.
Definition views_eqb (a b : list hview) : bool := if list_eq_dec hview_eq_dec a b then true else false.
Definition names_eqb (a b : list string) : bool := if list_eq_dec string_dec a b then true else false.
Definition dirs_eqb (a b : list bool) : bool := if list_eq_dec bool_dec a b then true else false.

(* what the checker remembers of each handle: how it was opened *)
Record hinfo := mkHinfo { hi_mem : bool; hi_url : string; hi_name : string }.

Definition in_names (n : string) (l : list string) : bool := existsb (String.eqb n) l.

Fixpoint index_of (u : string) (l : list string) (i : nat) : option nat :=
  match l with [] => None | x :: r => if String.eqb u x then Some i else index_of u r (S i) end.
Definition dir_exists (c : rcase) (ob : robs) (url : string) : bool :=
  match index_of url (rc_urls c) 0 with Some i => nth i (ro_dirs ob) false | None => false end.

(* views of all handles except those selected by `sel` are the same before and after *)
Fixpoint views_same_except (sel : nat -> hinfo -> bool) (i : nat) (hs : list hinfo) (a b : list hview) : bool :=
  match hs, a, b with
  | hi :: hs', va :: a', vb :: b' => (sel i hi || hview_eqb va vb) && views_same_except sel (S i) hs' a' b'
  | [], [], [] => true
  | _, _, _ => false
  end.

(* the URL a registered name is open at: that of the most recent successful open of the name *)
Definition reg_of (name : string) (hs : list hinfo) : option hinfo :=
  match filter (fun hi => String.eqb (hi_name hi) name) (rev hs) with hi :: _ => Some hi | [] => None end.

Definition is_opened (r : rresp) : bool := match r with RROpened _ => true | _ => false end.

(* two handles may show the same data: they were opened on the same bucket name, or at the same directory
   (a directory opened under another name is the same store) *)
Definition same_store (hi hj : hinfo) : bool :=
  String.eqb (hi_name hj) (hi_name hi)
  || (negb (hi_mem hi) && negb (hi_mem hj) && String.eqb (hi_url hj) (hi_url hi)).

Definition chk_step_C13 (c : rcase) (hs : list hinfo) (prev : robs) (o : rop) (ob : robs) : bool :=
  match o with
  | ROpen mem url name mode =>
      let registered := in_names name (ro_names prev) in
      let u := the_url mem url in
      let exists_ := registered || (negb mem && dir_exists c prev url) in
      let other_url := registered && match reg_of name hs with Some hi => negb (String.eqb (the_url (hi_mem hi) (hi_url hi)) u) | None => false end in
      let must_succeed :=
        match mode with
        | CreateNew => negb exists_
        | ReOpenExisting => exists_ && negb other_url
        | CreateOrOpen => negb other_url
        end in
      Bool.eqb (is_opened (ro_resp ob)) must_succeed
      && (if is_opened (ro_resp ob) then
            (* the new handle works; nobody else is disturbed; the name is registered; the directory exists *)
            match ro_resp ob with RROpened h => N.to_nat h =? List.length hs | _ => false end%nat
            && views_same_except (fun _ _ => false) 0 hs (ro_views prev) (firstn (List.length hs) (ro_views ob))
            && match nth_error (ro_views ob) (List.length hs) with Some (VData _) => true | _ => false end
            && in_names name (ro_names ob)
            && (mem || dir_exists c ob url)
          else
            views_eqb (ro_views prev) (ro_views ob) && names_eqb (ro_names prev) (ro_names ob) && dirs_eqb (ro_dirs prev) (ro_dirs ob))
  | RClose h =>
      (* closing a handle (even again) disables that handle and no other *)
      match nth_error (ro_views ob) (N.to_nat h) with Some VClosed => true | Some _ => false | None => true end
      && views_same_except (fun i _ => (i =? N.to_nat h)%nat) 0 hs (ro_views prev) (ro_views ob)
      && dirs_eqb (ro_dirs prev) (ro_dirs ob)
  | RCloseAndDelete h =>
      match nth_error hs (N.to_nat h) with
      | Some hi =>
          (* the data and the registry entry are gone; buckets of other names are untouched *)
          negb (in_names (hi_name hi) (ro_names ob))
          && (hi_mem hi || negb (dir_exists c ob (hi_url hi)))
          && views_same_except (fun _ hj => same_store hi hj) 0 hs (ro_views prev) (ro_views ob)
      | None => true
      end
  | RWrite h k v =>
      match nth_error hs (N.to_nat h), ro_resp ob with
      | Some hi, RROk =>
          (* the write shows through the handle, and through no handle of another store *)
          match nth_error (ro_views ob) (N.to_nat h), index_of k (rc_keys c) 0 with
          | Some (VData vals), Some i => match nth i vals None with Some v' => String.eqb v v' | None => false end
          | Some (VData _), None => true
          | _, _ => false
          end
          && views_same_except (fun _ hj => same_store hi hj) 0 hs (ro_views prev) (ro_views ob)
      | _, _ => views_eqb (ro_views prev) (ro_views ob)
      end
      && names_eqb (ro_names prev) (ro_names ob) && dirs_eqb (ro_dirs prev) (ro_dirs ob)
  | RCloseOpen h mem url name mode =>
      (* the closed handle is disabled; a handle the racing open returns works; handles of other names are not disturbed *)
      (if (N.to_nat h <? List.length hs)%nat
       then match nth_error (ro_views ob) (N.to_nat h) with Some VClosed => true | Some _ => false | None => true end
       else true)
      && (if is_opened (ro_resp ob) then
            match ro_resp ob with RROpened h' => N.to_nat h' =? List.length hs | _ => false end%nat
            && match nth_error (ro_views ob) (List.length hs) with Some (VData _) => true | _ => false end
            && in_names name (ro_names ob)
            && (mem || dir_exists c ob url)
          else true)
      && match nth_error hs (N.to_nat h) with
         | Some hi => views_same_except (fun _ hj => same_store hi hj) 0 hs (ro_views prev) (firstn (List.length hs) (ro_views ob))
         | None => true
         end
  end.

Definition hs_after (hs : list hinfo) (o : rop) (ob : robs) : list hinfo :=
  match o, ro_resp ob with
  | ROpen mem url name _, RROpened _ => hs ++ [mkHinfo mem url name]
  | RCloseOpen _ mem url name _, RROpened _ => hs ++ [mkHinfo mem url name]
  | _, _ => hs
  end.

Fixpoint rwalk (c : rcase) (hs : list hinfo) (prev : robs) (ops : list rop) (obs : list robs) : bool :=
  match ops, obs with
  | [], [] => true
  | o :: os, ob :: obs' => chk_step_C13 c hs prev o ob && rwalk c (hs_after hs o ob) ob os obs'
  | _, _ => false
  end.

Definition robs0 (c : rcase) : robs := mkRobs RROk [] [] (map (fun _ => false) (rc_urls c)).

Definition chk_C13 (t : rcase * list robs) : bool := rwalk (fst t) [] (robs0 (fst t)) (rc_ops (fst t)) (snd t).

(* correspondence: the implementation's observations equal the model's *)
Fixpoint robs_list_eqb (a b : list robs) : bool :=
  match a, b with
  | [], [] => true
  | x :: a', y :: b' => (if robs_eq_dec x y then true else false) && robs_list_eqb a' b'
  | _, _ => false
  end.
Definition reg_corr_ok (t : rcase * list robs) : bool := robs_list_eqb (rrun (fst t)) (snd t).
Definition reg_chk_ok (t : rcase * list robs) : bool := chk_C13 t.
Definition reg_model (c : rcase) : list robs := rrun c.
Definition kv_model_chk_reg (chk : rcase * list robs -> bool) (t : rcase * list robs) : bool := chk (fst t, rrun (fst t)).

(* ------------------------------------------------------------------------------------------ *)
(* family regc: goroutines open, write through and close handles of ONE bucket at the same time.  Every registry
   action is atomic under cluster.lock and every write under bucket.mutex; hooks inside those critical sections
   record the order in which the calls took effect.  That order, as a sequential history, is the input; what is
   compared is the answer of every call and the final observation (every handle's view, the registered names, the
   directories) plus the registry's reference count for the name.                                              *)
Record regc_obs := mkRegcObs {
  rco_resps : list rresp;       (* the answers, in the order in which the calls took effect *)
  rco_final : robs;             (* observation when all goroutines are done (its ro_resp is not used) *)
  rco_count : N                 (* cluster.bucketCount of the bucket's name *)
}.

Definition regc_name (c : rcase) : string :=
  match rc_ops c with ROpen _ _ n _ :: _ => n | _ => "" end.

Definition regc_model (c : rcase) : regc_obs :=
  let s := rfinal rstate0 (rc_ops c) in
  mkRegcObs (map ro_resp (rrun c)) (observe s c RROk) (count_of s (regc_name c)).

Definition robs_same (a b : robs) : bool :=
  views_eqb (ro_views a) (ro_views b) && names_eqb (ro_names a) (ro_names b) && dirs_eqb (ro_dirs a) (ro_dirs b).

Definition regc_corr_ok (t : rcase * regc_obs) : bool :=
  let m := regc_model (fst t) in
  (if list_eq_dec rresp_eq_dec (rco_resps m) (rco_resps (snd t)) then true else false)
  && robs_same (rco_final m) (rco_final (snd t))
  && (rco_count m =? rco_count (snd t)).

(* the property, on what was observed: the reference count is the number of handles that were opened and not closed;
   a handle that was closed answers bucket-closed, one that was not works; all working handles show the same data; every
   value shown was written by an acknowledged write, and a key written once (acknowledged) shows that value *)
Fixpoint closed_handles (ops : list rop) : list N :=
  match ops with
  | [] => []
  | RClose h :: r | RCloseOpen h _ _ _ _ :: r => h :: closed_handles r
  | _ :: r => closed_handles r
  end.

Fixpoint writes_acked (ops : list rop) (resps : list rresp) : list (string * string) :=
  match ops, resps with
  | RWrite _ k v :: r, RROk :: rr => (k, v) :: writes_acked r rr
  | _ :: r, _ :: rr => writes_acked r rr
  | _, _ => []
  end.

Fixpoint shown_was_written (keys : list string) (vals : list (option string)) (ws : list (string * string)) : bool :=
  match keys, vals with
  | k :: kr, ov :: vr =>
      let mine := filter (fun w => String.eqb (fst w) k) ws in
      match ov with
      | None => match mine with [] => true | _ => false end
      | Some v => existsb (fun w => String.eqb (snd w) v) mine
      end && shown_was_written kr vr ws
  | [], [] => true
  | _, _ => false
  end.

Definition regc_chk_ok (t : rcase * regc_obs) : bool :=
  let c := fst t in let ob := snd t in
  let views := ro_views (rco_final ob) in
  let closed := closed_handles (rc_ops c) in
  let is_closed (i : nat) := existsb (N.eqb (N.of_nat i)) closed in
  let idx := seq 0 (List.length views) in
  let live := filter (fun i => negb (is_closed i)) idx in
  (rco_count ob =? N.of_nat (List.length live))
  && forallb (fun i => match nth_error views i with
                       | Some VClosed => is_closed i
                       | Some (VData _) => negb (is_closed i)
                       | _ => false
                       end) idx
  && match live with
     | [] => true
     | i0 :: _ => forallb (fun i => match nth_error views i0, nth_error views i with
                                    | Some a, Some b => hview_eqb a b
                                    | _, _ => false
                                    end) live
     end
  && match live with
     | i0 :: _ => match nth_error views i0 with
                  | Some (VData vals) => shown_was_written (rc_keys c) vals (writes_acked (rc_ops c) (rco_resps ob))
                  | _ => true
                  end
     | [] => true
     end
  && (List.length (rco_resps ob) =? List.length (rc_ops c))%nat.
