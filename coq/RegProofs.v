(* RegProofs.v - the registry's reference count is exact, and closing a handle is local (C13). *)
From Rosmar Require Import Base Registry.

Definition counted (i : N) (hh : N * handle) : bool := negb (h_closed (snd hh)) && (h_inst (snd hh) =? i).
Definition open_on (s : rstate) (i : N) : N := N.of_nat (List.length (filter (counted i) (r_handles s))).

(* the calls the theorems speak about: Close / CloseAndDelete through a handle of the bucket that is
   registered under its name now, or of a name that is not registered (a "stale" handle of a deleted
   bucket whose name has been re-created is excluded: it would release the new bucket's reference) *)
Definition op_ok (s : rstate) (o : rop) : Prop :=
  match o with
  | RClose h | RCloseAndDelete h | RCloseOpen h _ _ _ _ =>
      match get_handle s h with
      | Some hd => match alookup String.eqb (h_name hd) (r_buckets s) with Some i => i = h_inst hd | None => True end
      | None => True
      end
  | _ => True
  end.

Record rinv (s : rstate) : Prop := mkRinv {
  inv_count : forall n i, alookup String.eqb n (r_buckets s) = Some i -> count_of s n = open_on s i;
  inv_reg : forall n, count_of s n <> 0 -> alookup String.eqb n (r_buckets s) <> None;
  inv_hinst : forall hh, In hh (r_handles s) -> h_inst (snd hh) < next_id (r_insts s);
  inv_binst : forall n i, alookup String.eqb n (r_buckets s) = Some i -> i < next_id (r_insts s);
  inv_inj : forall n n' i, alookup String.eqb n (r_buckets s) = Some i -> alookup String.eqb n' (r_buckets s) = Some i -> n = n';
  inv_hids : forall hh, In hh (r_handles s) -> fst hh < next_id (r_handles s);
  inv_hnodup : NoDup (map fst (r_handles s));
  inv_hname : forall hh n, In hh (r_handles s) -> alookup String.eqb n (r_buckets s) = Some (h_inst (snd hh)) -> n = h_name (snd hh)
}.

Lemma rinv0 : rinv rstate0.
Proof. constructor; cbn; try discriminate; try tauto; try constructor. Qed.

(* ---- list facts ---- *)
Lemma neqb_spec a b : N.eqb a b = true <-> a = b. Proof. apply N.eqb_eq. Qed.

Lemma filter_len_aset {V} (P : N * V -> bool) h (v v' : V) l :
  NoDup (map fst l) -> alookup N.eqb h l = Some v ->
  (List.length (filter P (aset N.eqb h v' l)) + (if P (h, v) then 1 else 0)
   = List.length (filter P l) + (if P (h, v') then 1 else 0))%nat.
Proof.
  induction l as [|[k x] r IH]; cbn; [discriminate|]. intros Hnd Hl. inversion Hnd as [|? ? Hn Hr]; subst.
  destruct (N.eqb_spec h k) as [->|Hne].
  - inversion Hl; subst. cbn. destruct (P (k, v)), (P (k, v')); cbn; lia.
  - cbn. specialize (IH Hr Hl). destruct (P (k, x)); cbn; lia.
Qed.

Lemma alookup_app_fresh {V} h (v : V) l : ~ In h (map fst l) -> alookup N.eqb h (l ++ [(h, v)]) = Some v.
Proof.
  induction l as [|[k x] r IH]; cbn; intros Hn; [rewrite N.eqb_refl; reflexivity|].
  destruct (N.eqb_spec h k) as [->|]; [exfalso; apply Hn; left; reflexivity | apply IH; tauto].
Qed.

Lemma alookup_app_old {V} h h' (v : V) l : h' <> h -> alookup N.eqb h' (l ++ [(h, v)]) = alookup N.eqb h' l.
Proof.
  intros Hne. induction l as [|[k x] r IH]; cbn; [destruct (N.eqb_spec h' h); [contradiction | reflexivity]|].
  destruct (h' =? k); [reflexivity | exact IH].
Qed.

Lemma alookup_In_N {V} h (v : V) l : alookup N.eqb h l = Some v -> In (h, v) l.
Proof. apply (alookup_In N.eqb neqb_spec). Qed.

Lemma In_aset_N {V} h (v : V) l x : In x (aset N.eqb h v l) -> x = (h, v) \/ In x l.
Proof.
  induction l as [|[k y] r IH]; cbn; [intros [<-|[]]; auto|].
  destruct (h =? k); cbn; intros [<-|H]; auto. destruct (IH H); auto.
Qed.

Lemma map_fst_aset {V} h (v : V) l : alookup N.eqb h l <> None -> map fst (aset N.eqb h v l) = map fst l.
Proof.
  induction l as [|[k y] r IH]; cbn; [congruence|].
  destruct (N.eqb_spec h k) as [->|]; cbn; [reflexivity | intros H; rewrite IH; auto].
Qed.

Lemma length_aset {V} h (v : V) l : alookup N.eqb h l <> None -> List.length (aset N.eqb h v l) = List.length l.
Proof. intros H. rewrite <- (map_length fst), map_fst_aset by exact H. apply map_length. Qed.

(* ------------------------------------------------------------------------------------------ *)
(* what one Close does to other handles                                                         *)

Lemma status_ext s s' h :
  get_handle s' h = get_handle s h ->
  (forall hd, get_handle s h = Some hd -> h_closed hd = false -> get_inst s' (h_inst hd) = get_inst s (h_inst hd)) ->
  status s' h = status s h.
Proof.
  intros Hh Hi. unfold status. rewrite Hh. destruct (get_handle s h) as [hd|]; [|reflexivity].
  destruct (h_closed hd) eqn:E; [reflexivity|]. rewrite (Hi hd eq_refl E). reflexivity.
Qed.

Lemma close_db_handles s i : r_handles (close_db s i) = r_handles s.
Proof. unfold close_db. destruct (get_inst s i); reflexivity. Qed.

Lemma unregister_handles s hd : r_handles (unregister s hd) = r_handles s.
Proof.
  unfold unregister. destruct (count_of s (h_name hd) =? 0); [reflexivity|].
  destruct (count_of s (h_name hd) =? 1); [|reflexivity].
  destruct (get_inst (set_count s (h_name hd) None) (h_inst hd)) as [x|]; [|reflexivity].
  destruct (i_mem x); [reflexivity|]. cbn [r_handles]. rewrite close_db_handles. reflexivity.
Qed.

Ltac brk := repeat match goal with |- context [match ?x with _ => _ end] => destruct x eqn:? end.

Lemma unregister_disk s hd : r_disk (unregister s hd) = r_disk s.
Proof. unfold unregister, close_db, set_inst, set_count, get_inst; cbn [r_insts r_disk]. brk; reflexivity. Qed.

Lemma unregister_inst_other s hd j : j <> h_inst hd -> get_inst (unregister s hd) j = get_inst s j.
Proof.
  intros Hne. unfold unregister, close_db, set_inst, set_count, get_inst; cbn [r_insts r_disk]. brk; cbn [r_insts]; try reflexivity.
  all: apply (alookup_aset_other N.eqb neqb_spec); exact Hne.
Qed.

Lemma unregister_insts_keep s hd : count_of s (h_name hd) <> 1 -> r_insts (unregister s hd) = r_insts s.
Proof.
  intros Hne. unfold unregister. destruct (count_of s (h_name hd) =? 0); [reflexivity|].
  destruct (N.eqb_spec (count_of s (h_name hd)) 1); [contradiction | reflexivity].
Qed.

(* Close(h) when this handle is the only open one may close the database; no other open handle lives
   on that instance, so nobody else notices *)
Theorem close_is_local s h : rinv s -> op_ok s (RClose h) ->
  let s' := fst (rstep s (RClose h)) in
  forall h', h' <> h -> status s' h' = status s h' /\ (status s h' <> HClosed -> data_of s' h' = data_of s h').
Proof.
  intros Hinv Hok. cbn [rstep]. unfold do_close. destruct (get_handle s h) as [hd|] eqn:Eh; [|intros h' _; split; reflexivity].
  destruct (h_closed hd) eqn:Ec; [intros h' _; split; reflexivity|].
  cbn [fst]. intros h' Hne.
  assert (get_handle (set_handle_closed (unregister s hd) h hd) h' = get_handle s h') as Hh'.
  { unfold get_handle, set_handle_closed; cbn [r_handles].
    rewrite (alookup_aset_other N.eqb neqb_spec) by exact Hne. rewrite unregister_handles. reflexivity. }
  assert (forall hd', get_handle s h' = Some hd' -> h_closed hd' = false ->
            get_inst (set_handle_closed (unregister s hd) h hd) (h_inst hd') = get_inst s (h_inst hd')) as Hi.
  { intros hd' Eh' Ec'. change (get_inst (unregister s hd) (h_inst hd') = get_inst s (h_inst hd')).
    destruct (N.eq_dec (h_inst hd') (h_inst hd)) as [Esame|Hdiff]; [|apply unregister_inst_other; exact Hdiff].
    destruct (N.eq_dec (count_of s (h_name hd)) 1) as [E1|N1]; [|unfold get_inst; rewrite unregister_insts_keep by exact N1; reflexivity].
    (* both open on the same instance: then the count was at least 2 *)
    exfalso.
    assert (alookup String.eqb (h_name hd) (r_buckets s) = Some (h_inst hd)) as Hreg.
    { pose proof (inv_reg s Hinv (h_name hd)) as B. rewrite E1 in B. specialize (B ltac:(discriminate)).
      cbn in Hok. rewrite Eh in Hok.
      destruct (alookup String.eqb (h_name hd) (r_buckets s)); [subst; reflexivity | contradiction]. }
    pose proof (inv_count s Hinv _ _ Hreg) as A. rewrite E1 in A. unfold open_on in A.
    assert (In (h, hd) (filter (counted (h_inst hd)) (r_handles s))) as I1.
    { apply filter_In. split; [apply alookup_In_N; exact Eh | unfold counted; cbn; rewrite Ec, N.eqb_refl; reflexivity]. }
    assert (In (h', hd') (filter (counted (h_inst hd)) (r_handles s))) as I2.
    { apply filter_In. split; [apply alookup_In_N; exact Eh' | unfold counted; cbn; rewrite Ec', Esame, N.eqb_refl; reflexivity]. }
    destruct (filter (counted (h_inst hd)) (r_handles s)) as [|a [|b r]]; cbn in A; try lia.
    destruct I1 as [E1'|[]], I2 as [E2|[]]. rewrite E1' in E2. inversion E2. congruence. }
  split.
  - apply status_ext; [exact Hh' | exact Hi].
  - intros Hst. unfold data_of. rewrite Hh'. destruct (get_handle s h') as [hd'|] eqn:Eh'; [|reflexivity].
    assert (h_closed hd' = false) as Ec'.
    { unfold status in Hst. rewrite Eh' in Hst. destruct (h_closed hd'); [contradiction Hst; reflexivity | reflexivity]. }
    rewrite (Hi hd' eq_refl Ec'). change (r_disk (set_handle_closed (unregister s hd) h hd)) with (r_disk (unregister s hd)).
    rewrite unregister_disk. reflexivity.
Qed.

(* ------------------------------------------------------------------------------------------ *)
(* the invariant holds in every reachable state                                                 *)

Lemma seqb_spec a b : String.eqb a b = true <-> a = b. Proof. apply String.eqb_eq. Qed.

Lemma count_set_same s n c : count_of (set_count s n c) n = match c with Some x => x | None => 0 end.
Proof. unfold count_of, set_count; cbn [r_count]. rewrite (alookup_aput_same String.eqb seqb_spec). reflexivity. Qed.
Lemma count_set_other s n n' c : n' <> n -> count_of (set_count s n c) n' = count_of s n'.
Proof. intros H. unfold count_of, set_count; cbn [r_count]. rewrite (alookup_aput_other String.eqb seqb_spec) by exact H. reflexivity. Qed.

Lemma open_on_add hs h n i j :
  N.of_nat (List.length (filter (counted j) (hs ++ [(h, mkHandle n i false)])))
  = N.of_nat (List.length (filter (counted j) hs)) + (if i =? j then 1 else 0).
Proof.
  rewrite filter_app, app_length, Nat2N.inj_add. f_equal. cbn [filter]. unfold counted; cbn [snd h_closed h_inst negb andb].
  destruct (i =? j); reflexivity.
Qed.

Lemma open_on_closed hs h hd j : NoDup (map fst hs) -> alookup N.eqb h hs = Some hd -> h_closed hd = false ->
  N.of_nat (List.length (filter (counted j) (aset N.eqb h (mkHandle (h_name hd) (h_inst hd) true) hs))) + (if h_inst hd =? j then 1 else 0)
  = N.of_nat (List.length (filter (counted j) hs)).
Proof.
  intros Hnd Hl Hc. pose proof (filter_len_aset (counted j) h hd (mkHandle (h_name hd) (h_inst hd) true) hs Hnd Hl) as H.
  unfold counted at 2 4 in H. cbn in H. rewrite Hc in H. cbn in H. destruct (h_inst hd =? j); lia.
Qed.

Lemma not_in_fresh {V} (l : list (N * V)) : (forall hh, In hh l -> fst hh < next_id l) -> ~ In (next_id l) (map fst l).
Proof. intros H Hin. apply in_map_iff in Hin. destruct Hin as (hh & E & Hh). specialize (H hh Hh). lia. Qed.

Lemma NoDup_app_fresh (l : list N) a : NoDup l -> ~ In a l -> NoDup (l ++ [a]).
Proof.
  induction l as [|x r IH]; cbn; intros Hnd Hn; [constructor; [intros [] | constructor]|].
  inversion Hnd as [|? ? Hx Hr]; subst. constructor.
  - rewrite in_app_iff. intros [H|[H|[]]]; [contradiction | subst; apply Hn; left; reflexivity].
  - apply IH; [exact Hr | intros H; apply Hn; right; exact H].
Qed.

Lemma next_id_app {V} (l : list (N * V)) x : next_id (l ++ [x]) = next_id l + 1.
Proof. unfold next_id. rewrite app_length. cbn. lia. Qed.

Lemma open_on_none_above s i : rinv s -> next_id (r_insts s) <= i -> open_on s i = 0.
Proof.
  intros Hinv Hle. unfold open_on. destruct (filter (counted i) (r_handles s)) as [|hh r] eqn:E; [reflexivity|]. exfalso.
  assert (In hh (filter (counted i) (r_handles s))) as Hin by (rewrite E; left; reflexivity).
  apply filter_In in Hin. destruct Hin as [Hin Hc]. unfold counted in Hc. apply andb_true_iff in Hc. destruct Hc as [_ Hc].
  apply N.eqb_eq in Hc. pose proof (inv_hinst s Hinv hh Hin). lia.
Qed.

Lemma rinv_open s mem url name mode : rinv s -> rinv (fst (do_open s mem url name mode)).
Proof.
  intros Hinv. unfold do_open.
  destruct (alookup String.eqb name (r_buckets s)) as [i|] eqn:Eb.
  - (* cached *)
    destruct mode; try exact Hinv.
    all: destruct (get_inst s i) as [x|]; [|exact Hinv].
    all: destruct (negb (String.eqb (i_url x) (the_url mem url))); [exact Hinv|].
    all: unfold add_handle; cbn [fst set_count r_buckets r_count r_insts r_handles r_disk].
    all: destruct Hinv as [A B F F' H G ND E]; constructor; cbn [r_buckets r_count r_insts r_handles r_disk].
    all: try (intros n i' Hn; unfold open_on; cbn [r_handles]; rewrite open_on_add;
              destruct (String.eqb_spec n name) as [->|Hne];
              [ rewrite Eb in Hn; inversion Hn; subst i'; rewrite N.eqb_refl;
                change (count_of (set_count s name (Some (count_of s name + 1))) name = open_on s i + 1);
                rewrite count_set_same, (A _ _ Eb); reflexivity
              | change (count_of (set_count s name (Some (count_of s name + 1))) n = open_on s i' + (if i =? i' then 1 else 0));
                rewrite count_set_other by exact Hne; rewrite (A _ _ Hn);
                destruct (N.eqb_spec i i') as [->|]; [exfalso; apply Hne; eapply H; eauto | lia] ]).
    all: try (intros n Hc; destruct (String.eqb_spec n name) as [->|Hne]; [rewrite Eb; discriminate |
              apply B; change (count_of (set_count s name (Some (count_of s name + 1))) n <> 0) in Hc; rewrite count_set_other in Hc by exact Hne; exact Hc]).
    all: try (intros hh Hin; apply in_app_iff in Hin; destruct Hin as [Hin|[<-|[]]]; [apply F; exact Hin | cbn; eapply F'; eauto]).
    all: try exact F'. all: try exact H.
    all: try (intros hh Hin; rewrite next_id_app; apply in_app_iff in Hin; destruct Hin as [Hin|[<-|[]]]; [specialize (G hh Hin); lia | cbn; lia]).
    all: try (rewrite map_app; cbn; apply NoDup_app_fresh; [exact ND | apply not_in_fresh; exact G]).
    all: try (intros hh n Hin Hn; apply in_app_iff in Hin; destruct Hin as [Hin|[<-|[]]]; [eapply E; eauto | cbn in *; eapply H; eauto]).
  - (* not cached: every successful branch creates a fresh instance *)
    assert (forall disk', rinv (fst (let i := next_id (r_insts s) in
        let s1 := mkR ((name, i) :: r_buckets s) (r_count s) (r_insts s ++ [(i, mkInst (the_url mem url) mem true [])]) (r_handles s) disk' in
        let s2 := set_count s1 name (Some (count_of s1 name + 1)) in
        let '(s3, h) := add_handle s2 name i in (s3, RROpened h)))) as Hfresh.
    { intros disk'. cbv zeta. unfold add_handle; cbn [fst set_count r_buckets r_count r_insts r_handles r_disk].
      assert (count_of s name = 0) as C0.
      { destruct (N.eq_dec (count_of s name) 0) as [|Hc]; [assumption|]. exfalso. apply (inv_reg s Hinv name Hc). exact Eb. }
      pose proof (open_on_none_above s (next_id (r_insts s)) Hinv ltac:(lia)) as O0.
      destruct Hinv as [A B F F' H G ND E]; constructor; cbn [r_buckets r_count r_insts r_handles r_disk].
      - intros n i' Hn. unfold open_on; cbn [r_handles]. rewrite open_on_add. cbn [alookup] in Hn.
        destruct (String.eqb_spec n name) as [->|Hne].
        + inversion Hn; subst i'. rewrite N.eqb_refl.
          change (count_of (set_count (mkR ((name, next_id (r_insts s)) :: r_buckets s) (r_count s) (r_insts s ++ [(next_id (r_insts s), mkInst (the_url mem url) mem true [])]) (r_handles s) disk') name (Some (count_of s name + 1))) name = open_on s (next_id (r_insts s)) + 1).
          rewrite count_set_same, C0, O0. reflexivity.
        + change (count_of (set_count (mkR ((name, next_id (r_insts s)) :: r_buckets s) (r_count s) (r_insts s ++ [(next_id (r_insts s), mkInst (the_url mem url) mem true [])]) (r_handles s) disk') name (Some (count_of s name + 1))) n = open_on s i' + (if next_id (r_insts s) =? i' then 1 else 0)).
          rewrite count_set_other by exact Hne. change (count_of s n = open_on s i' + (if next_id (r_insts s) =? i' then 1 else 0)).
          rewrite (A _ _ Hn). pose proof (F' _ _ Hn). destruct (N.eqb_spec (next_id (r_insts s)) i'); lia.
      - intros n Hc. cbn [alookup]. destruct (String.eqb_spec n name) as [->|Hne]; [discriminate|].
        apply B. change (count_of (set_count (mkR ((name, next_id (r_insts s)) :: r_buckets s) (r_count s) (r_insts s ++ [(next_id (r_insts s), mkInst (the_url mem url) mem true [])]) (r_handles s) disk') name (Some (count_of s name + 1))) n <> 0) in Hc.
        rewrite count_set_other in Hc by exact Hne. exact Hc.
      - intros hh Hin. rewrite next_id_app. apply in_app_iff in Hin. destruct Hin as [Hin|[<-|[]]]; [specialize (F hh Hin); lia | cbn; lia].
      - intros n i' Hn. rewrite next_id_app. cbn [alookup] in Hn. destruct (String.eqb n name); [inversion Hn; lia | specialize (F' _ _ Hn); lia].
      - intros n n' i' Hn Hn'. cbn [alookup] in Hn, Hn'.
        destruct (String.eqb_spec n name) as [->|N1], (String.eqb_spec n' name) as [->|N2]; try reflexivity.
        + inversion Hn; subst. specialize (F' _ _ Hn'). lia.
        + inversion Hn'; subst. specialize (F' _ _ Hn). lia.
        + eapply H; eauto.
      - intros hh Hin. rewrite next_id_app. apply in_app_iff in Hin. destruct Hin as [Hin|[<-|[]]]; [specialize (G hh Hin); lia | cbn; lia].
      - rewrite map_app; cbn. apply NoDup_app_fresh; [exact ND | apply not_in_fresh; exact G].
      - intros hh n Hin Hn. cbn [alookup] in Hn. apply in_app_iff in Hin. destruct Hin as [Hin|[<-|[]]].
        + destruct (String.eqb_spec n name) as [->|Hne]; [inversion Hn as [Hi]; specialize (F hh Hin); lia | eapply E; eauto].
        + cbn [snd h_inst h_name] in *. destruct (String.eqb_spec n name) as [Heq|Hne]; [exact Heq | specialize (F' _ _ Hn); lia]. }
    destruct mem.
    + destruct mode; try exact Hinv; apply Hfresh.
    + destruct (alookup String.eqb (the_url false url) (r_disk s)), mode; try exact Hinv; apply Hfresh.
Qed.

Lemma close_db_shape s i : r_buckets (close_db s i) = r_buckets s /\ r_count (close_db s i) = r_count s
  /\ r_handles (close_db s i) = r_handles s /\ r_disk (close_db s i) = r_disk s
  /\ next_id (r_insts (close_db s i)) = next_id (r_insts s).
Proof.
  unfold close_db. destruct (get_inst s i) as [x|] eqn:E; [|repeat split; reflexivity].
  cbn [set_inst r_buckets r_count r_handles r_disk r_insts]. repeat split; try reflexivity.
  unfold next_id. rewrite length_aset; [reflexivity|]. unfold get_inst in E. congruence.
Qed.

Lemma alookup_aremove_sub {V} n n' (l : list (string * V)) v :
  alookup String.eqb n' (aremove String.eqb n l) = Some v -> n' <> n /\ alookup String.eqb n' l = Some v.
Proof.
  intros H. destruct (String.eqb_spec n' n) as [->|Hne].
  - rewrite alookup_aremove_same in H. discriminate.
  - rewrite (alookup_aremove_other String.eqb seqb_spec) in H by exact Hne. auto.
Qed.

(* what unregisterBucket leaves behind *)
Lemma unregister_shape s hd :
  let su := unregister s hd in let n := h_name hd in let c := count_of s n in
  r_handles su = r_handles s /\ next_id (r_insts su) = next_id (r_insts s)
  /\ (forall n', n' <> n -> count_of su n' = count_of s n')
  /\ (count_of su n = if c <=? 1 then 0 else c - 1)
  /\ (r_buckets su = r_buckets s \/ (c = 1 /\ r_buckets su = aremove String.eqb n (r_buckets s))).
Proof.
  cbv zeta. unfold unregister.
  destruct (N.eqb_spec (count_of s (h_name hd)) 0) as [E0|N0].
  - rewrite E0. repeat split; auto.
  - destruct (N.eqb_spec (count_of s (h_name hd)) 1) as [E1|N1].
    + rewrite E1. cbn [N.leb]. 
      destruct (get_inst (set_count s (h_name hd) None) (h_inst hd)) as [x|] eqn:Ex.
      * destruct (i_mem x).
        -- repeat split; auto. intros n' Hn. apply count_set_other; exact Hn. apply count_set_same.
        -- destruct (close_db_shape (set_count s (h_name hd) None) (h_inst hd)) as (B1 & B2 & B3 & B4 & B5).
           cbn [r_handles r_insts r_buckets]. repeat split.
           ++ rewrite B3. reflexivity.
           ++ rewrite B5. reflexivity.
           ++ intros n' Hn. unfold count_of; cbn [r_count]. rewrite B2. apply count_set_other; exact Hn.
           ++ unfold count_of; cbn [r_count]. rewrite B2. apply (count_set_same s (h_name hd) None).
           ++ right. split; [reflexivity|]. rewrite B1. reflexivity.
      * repeat split; auto. intros n' Hn. apply count_set_other; exact Hn. apply count_set_same.
    + destruct (N.leb_spec (count_of s (h_name hd)) 1); [lia|]. repeat split; auto.
      * intros n' Hn. apply count_set_other; exact Hn.
      * apply count_set_same.
Qed.

Lemma rinv_close s h : rinv s -> op_ok s (RClose h) -> rinv (fst (do_close s h)).
Proof.
  intros Hinv Hok. unfold do_close. destruct (get_handle s h) as [hd|] eqn:Eh; [|exact Hinv].
  destruct (h_closed hd) eqn:Ec; [exact Hinv|]. cbn [fst].
  destruct (unregister_shape s hd) as (U1 & U2 & U3 & U4 & U5). cbv zeta in *.
  cbn in Hok. rewrite Eh in Hok.
  assert (alookup N.eqb h (r_handles s) <> None) as Hsome by (unfold get_handle in Eh; congruence).
  assert (forall n' i', alookup String.eqb n' (r_buckets (unregister s hd)) = Some i' ->
            alookup String.eqb n' (r_buckets s) = Some i' /\ (r_buckets (unregister s hd) = r_buckets s \/ n' <> h_name hd)) as Hsub.
  { intros n' i' Hn. destruct U5 as [U5|[_ U5]]; rewrite U5 in Hn |- *; [auto|]. apply alookup_aremove_sub in Hn. tauto. }
  pose proof Hinv as [A B F F' H G ND E].
  assert (forall j, open_on (set_handle_closed (unregister s hd) h hd) j + (if h_inst hd =? j then 1 else 0) = open_on s j) as Hopen.
  { intros j. unfold open_on, set_handle_closed; cbn [r_handles]. rewrite U1. apply open_on_closed; assumption. }
  constructor; unfold set_handle_closed; cbn [r_buckets r_count r_insts r_handles r_disk].
  - intros n' i' Hn. destruct (Hsub _ _ Hn) as [Hn0 Hreg]. specialize (Hopen i').
    change (count_of (unregister s hd) n' = open_on (set_handle_closed (unregister s hd) h hd) i').
    destruct (N.eqb_spec (h_inst hd) i') as [Ei|Ni].
    + assert (n' = h_name hd) as -> by (apply (E (h, hd) n'); [apply alookup_In_N; exact Eh | cbn; rewrite Ei; exact Hn0]).
      rewrite U4. pose proof (A _ _ Hn0) as A0. destruct (N.leb_spec (count_of s (h_name hd)) 1); lia.
    + assert (n' <> h_name hd) as Hne.
      { intros ->. rewrite Hn0 in Hok. congruence. }
      rewrite (U3 _ Hne), (A _ _ Hn0). lia.
  - intros n' Hc. change (count_of (unregister s hd) n' <> 0) in Hc.
    destruct (String.eqb_spec n' (h_name hd)) as [->|Hne].
    + rewrite U4 in Hc. destruct (N.leb_spec (count_of s (h_name hd)) 1); [contradiction Hc; reflexivity|].
      destruct U5 as [->|[? _]]; [apply B; lia | lia].
    + rewrite (U3 _ Hne) in Hc. specialize (B _ Hc). destruct U5 as [->|[_ ->]]; [exact B|].
      rewrite (alookup_aremove_other String.eqb seqb_spec) by exact Hne. exact B.
  - intros hh Hin. rewrite U1 in Hin. rewrite U2. apply In_aset_N in Hin. destruct Hin as [->|Hin]; [|apply F; exact Hin].
    cbn. apply (F (h, hd)). apply alookup_In_N; exact Eh.
  - intros n' i' Hn. rewrite U2. destruct (Hsub _ _ Hn) as [Hn0 _]. eapply F'; eauto.
  - intros n1 n2 i' H1 H2. destruct (Hsub _ _ H1) as [H1' _], (Hsub _ _ H2) as [H2' _]. eapply H; eauto.
  - intros hh Hin. rewrite U1 in *. unfold next_id. rewrite length_aset by exact Hsome. apply In_aset_N in Hin.
    destruct Hin as [->|Hin]; [apply (G (h, hd)); apply alookup_In_N; exact Eh | apply G; exact Hin].
  - rewrite U1, map_fst_aset by exact Hsome. exact ND.
  - intros hh n' Hin Hn. rewrite U1 in Hin. destruct (Hsub _ _ Hn) as [Hn0 _]. apply In_aset_N in Hin. destruct Hin as [->|Hin].
    + cbn in *. apply (E (h, hd) n'); [apply alookup_In_N; exact Eh | exact Hn0].
    + eapply E; eauto.
Qed.

Lemma rinv_cad s h : rinv s -> rinv (fst (do_close_and_delete s h)).
Proof.
  intros Hinv. unfold do_close_and_delete. destruct (get_handle s h) as [hd|] eqn:Eh; [|exact Hinv]. cbn [fst].
  destruct (close_db_shape s (h_inst hd)) as (B1 & B2 & B3 & B4 & B5).
  destruct Hinv as [A B F F' H G ND E]. constructor; cbn [r_buckets r_count r_insts r_handles r_disk]; rewrite ?B1, ?B2, ?B3, ?B5.
  - intros n' i' Hn. apply alookup_aremove_sub in Hn. destruct Hn as [Hne Hn].
    unfold count_of, open_on; cbn [r_count r_handles].
    rewrite (alookup_aremove_other String.eqb seqb_spec) by exact Hne. apply (A _ _ Hn).
  - intros n' Hc. unfold count_of in Hc; cbn [r_count] in Hc.
    destruct (String.eqb_spec n' (h_name hd)) as [->|Hne]; [rewrite alookup_aremove_same in Hc; contradiction Hc; reflexivity|].
    rewrite (alookup_aremove_other String.eqb seqb_spec) in Hc |- * by exact Hne. apply B. exact Hc.
  - exact F.
  - intros n' i' Hn. apply alookup_aremove_sub in Hn. eapply F'; apply Hn.
  - intros n1 n2 i' H1 H2. apply alookup_aremove_sub in H1, H2. eapply H; [apply H1 | apply H2].
  - exact G.
  - exact ND.
  - intros hh n' Hin Hn. apply alookup_aremove_sub in Hn. eapply E; [exact Hin | apply Hn].
Qed.

Lemma rinv_write s h k v : rinv s -> rinv (fst (do_write s h k v)).
Proof.
  intros Hinv. unfold do_write. destruct (status s h); try exact Hinv.
  destruct (get_handle s h) as [hd|]; [|exact Hinv]. destruct mem.
  - destruct (get_inst s (h_inst hd)) as [x|] eqn:Ex; [|exact Hinv]. cbn [fst].
    assert (next_id (aset N.eqb (h_inst hd) (mkInst (i_url x) (i_mem x) (i_dbopen x) (aset String.eqb k v (i_data x))) (r_insts s)) = next_id (r_insts s)) as L.
    { unfold next_id. rewrite length_aset; [reflexivity | unfold get_inst in Ex; congruence]. }
    destruct Hinv as [A B F F' H G ND E]. constructor; unfold set_inst; cbn [r_buckets r_count r_insts r_handles r_disk]; rewrite ?L; assumption.
  - destruct (alookup String.eqb url (r_disk s)); [|exact Hinv]. cbn [fst].
    destruct Hinv as [A B F F' H G ND E]. constructor; cbn [r_buckets r_count r_insts r_handles r_disk]; assumption.
Qed.

Theorem rstep_rinv s o : rinv s -> op_ok s o -> rinv (fst (rstep s o)).
Proof.
  intros Hinv Hok. destruct o; cbn [rstep].
  - apply rinv_open; exact Hinv.
  - apply rinv_close; assumption.
  - apply rinv_cad; exact Hinv.
  - apply rinv_write; exact Hinv.
  - apply rinv_open. apply rinv_close; assumption.
Qed.

(* histories in which no stale handle of a re-created bucket name is closed or deleted *)
Fixpoint ops_ok (s : rstate) (ops : list rop) : Prop :=
  match ops with [] => True | o :: r => op_ok s o /\ ops_ok (fst (rstep s o)) r end.

Theorem reachable_rinv : forall ops s, rinv s -> ops_ok s ops -> rinv (rfinal s ops).
Proof.
  induction ops as [|o r IH]; intros s Hinv Hok; cbn [rfinal]; [exact Hinv|]. destruct Hok as [H1 H2].
  apply IH; [apply rstep_rinv; assumption | exact H2].
Qed.

(* the count of a registered bucket is the number of handles opened on it and not yet closed *)
Theorem refcount_exact ops n i : ops_ok rstate0 ops ->
  let s := rfinal rstate0 ops in
  alookup String.eqb n (r_buckets s) = Some i -> count_of s n = open_on s i.
Proof. intros Hok s Hn. exact (inv_count s (reachable_rinv ops rstate0 rinv0 Hok) n i Hn). Qed.

(* non-vacuity: a history with two handles, a double close, a reopen and a delete satisfies ops_ok *)
Example ops_ok_example :
  ops_ok rstate0 [ROpen false "U0" "nA" CreateNew; ROpen false "U0" "nA" CreateOrOpen; RClose 0; RClose 0; RWrite 1 "p1" "v";
                  RClose 1; ROpen false "U0" "nA" ReOpenExisting; RCloseAndDelete 2; RClose 2].
Proof. cbn. repeat split; auto. Qed.
