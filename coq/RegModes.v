(* RegModes.v - C13: what OpenBucket's modes answer, that a closed handle stays closed, that data on disk
   survives the last Close, and what CloseAndDelete leaves behind.  Statements about Registry.v's model,
   for every state the invariants hold in (every reachable one).                                     *)
From Rosmar Require Import Base Registry RegProofs.

(* every instance id below the next one is in use: OpenBucket appends, nothing removes *)
Definition dense (s : rstate) : Prop := forall i, i < next_id (r_insts s) -> get_inst s i <> None.

Lemma dense0 : dense rstate0.
Proof. intros i H. unfold next_id in H; cbn in H. lia. Qed.

Lemma get_inst_set_inst s i x j : get_inst (set_inst s i x) j = if j =? i then Some x else get_inst s j.
Proof.
  unfold get_inst, set_inst; cbn [r_insts]. destruct (N.eqb_spec j i) as [->|Hne].
  - apply (alookup_aset_same N.eqb neqb_spec).
  - apply (alookup_aset_other N.eqb neqb_spec). exact Hne.
Qed.

Lemma next_id_set_inst s i x : get_inst s i <> None -> next_id (r_insts (set_inst s i x)) = next_id (r_insts s).
Proof. intros H. unfold next_id, set_inst; cbn [r_insts]. rewrite length_aset; [reflexivity | exact H]. Qed.

Lemma dense_set_inst s i x : dense s -> get_inst s i <> None -> dense (set_inst s i x).
Proof.
  intros Hd Hi j Hj. rewrite next_id_set_inst in Hj by exact Hi. rewrite get_inst_set_inst.
  destruct (j =? i); [discriminate | apply Hd; exact Hj].
Qed.

Lemma dense_close_db s i : dense s -> dense (close_db s i).
Proof. intros Hd. unfold close_db. destruct (get_inst s i) eqn:E; [apply dense_set_inst; [exact Hd | congruence] | exact Hd]. Qed.

Lemma dense_same_insts s s' : r_insts s' = r_insts s -> dense s -> dense s'.
Proof. intros E Hd i Hi. unfold get_inst. rewrite E in *. apply Hd. exact Hi. Qed.

Lemma dense_unregister s hd : dense s -> dense (unregister s hd).
Proof.
  intros Hd. unfold unregister. destruct (count_of s (h_name hd) =? 0); [exact Hd|].
  destruct (count_of s (h_name hd) =? 1); [|apply (dense_same_insts s); [reflexivity | exact Hd]].
  assert (dense (set_count s (h_name hd) None)) as Hd1 by (apply (dense_same_insts s); [reflexivity | exact Hd]).
  destruct (get_inst _ (h_inst hd)) as [x|]; [|exact Hd1]. destruct (i_mem x); [exact Hd1|].
  apply (dense_same_insts (close_db (set_count s (h_name hd) None) (h_inst hd))); [reflexivity|]. apply dense_close_db. exact Hd1.
Qed.

Lemma alookup_app_some {V} (l : list (N * V)) k y j : alookup N.eqb j l <> None -> alookup N.eqb j (l ++ [(k, y)]) <> None.
Proof.
  induction l as [|[k0 x0] r IH]; cbn; [congruence|]. destruct (j =? k0); [intros _; discriminate | exact IH].
Qed.

Lemma alookup_app_last {V} (l : list (N * V)) k y : alookup N.eqb k (l ++ [(k, y)]) <> None.
Proof.
  induction l as [|[k0 x0] r IH]; cbn; [rewrite N.eqb_refl; discriminate|]. destruct (k =? k0); [discriminate | exact IH].
Qed.

Lemma dense_open s mem url name mode : dense s -> dense (fst (do_open s mem url name mode)).
Proof.
  intros Hd. unfold do_open.
  assert (forall disk', dense (fst (let i := next_id (r_insts s) in
        let s1 := mkR ((name, i) :: r_buckets s) (r_count s) (r_insts s ++ [(i, mkInst (the_url mem url) mem true [])]) (r_handles s) disk' in
        let s2 := set_count s1 name (Some (count_of s1 name + 1)) in
        let '(s3, h) := add_handle s2 name i in (s3, RROpened h)))) as Hfresh.
  { intros disk'. cbv zeta. unfold add_handle, set_count; cbn [fst r_insts]. intros j Hj.
    unfold next_id in Hj; cbn [r_insts] in Hj. rewrite app_length in Hj. cbn [List.length] in Hj.
    unfold get_inst; cbn [r_insts].
    destruct (N.eq_dec j (next_id (r_insts s))) as [->|Hne]; [apply alookup_app_last|].
    apply alookup_app_some. apply Hd. unfold next_id in *. lia. }
  destruct (alookup String.eqb name (r_buckets s)) as [i|].
  - destruct mode; try exact Hd.
    all: destruct (get_inst s i) as [x|]; [|exact Hd].
    all: destruct (negb (String.eqb (i_url x) (the_url mem url))); [exact Hd|].
    all: apply (dense_same_insts s); [reflexivity | exact Hd].
  - destruct mem.
    + destruct mode; try exact Hd; apply Hfresh.
    + destruct (alookup String.eqb (the_url false url) (r_disk s)), mode; try exact Hd; apply Hfresh.
Qed.

Lemma dense_close s h : dense s -> dense (fst (do_close s h)).
Proof.
  intros Hd. unfold do_close. destruct (get_handle s h) as [hd|]; [|exact Hd]. destruct (h_closed hd); [exact Hd|]. cbn [fst].
  apply (dense_same_insts (unregister s hd)); [reflexivity | apply dense_unregister; exact Hd].
Qed.

Lemma dense_cad s h : dense s -> dense (fst (do_close_and_delete s h)).
Proof.
  intros Hd. unfold do_close_and_delete. destruct (get_handle s h) as [hd|]; [|exact Hd]. cbn [fst].
  apply (dense_same_insts (close_db s (h_inst hd))); [reflexivity | apply dense_close_db; exact Hd].
Qed.

Lemma dense_write s h k v : dense s -> dense (fst (do_write s h k v)).
Proof.
  intros Hd. unfold do_write. destruct (status s h); try exact Hd. destruct (get_handle s h) as [hd|]; [|exact Hd]. destruct mem.
  - destruct (get_inst s (h_inst hd)) eqn:E; [|exact Hd]. cbn [fst]. apply dense_set_inst; [exact Hd | congruence].
  - destruct (alookup String.eqb url (r_disk s)); [|exact Hd]. apply (dense_same_insts s); [reflexivity | exact Hd].
Qed.

Theorem rstep_dense s o : dense s -> dense (fst (rstep s o)).
Proof.
  intros Hd. destruct o; cbn [rstep]; [apply dense_open | apply dense_close | apply dense_cad | apply dense_write | apply dense_open, dense_close]; exact Hd.
Qed.

Theorem reachable_dense : forall ops s, dense s -> dense (rfinal s ops).
Proof. induction ops as [|o r IH]; intros s Hd; cbn [rfinal]; [exact Hd | apply IH, rstep_dense, Hd]. Qed.

(* ------------------------------------------------------------------------------------------ *)
(* OpenBucket's modes                                                                           *)

Definition is_opened (r : rresp) : bool := match r with RROpened _ => true | _ => false end.

(* the bucket exists: its name is registered in this process, or (on disk) its directory is there *)
Definition bucket_exists (s : rstate) (mem : bool) (url name : string) : bool :=
  is_some (alookup String.eqb name (r_buckets s)) || (negb mem && is_some (alookup String.eqb url (r_disk s))).

(* the name is registered, and open at another URL than the one asked for *)
Definition at_other_url (s : rstate) (mem : bool) (url name : string) : bool :=
  match alookup String.eqb name (r_buckets s) with
  | Some i => match get_inst s i with Some x => negb (String.eqb (i_url x) (the_url mem url)) | None => false end
  | None => false
  end.

Theorem open_outcome s mem url name mode : rinv s -> dense s ->
  snd (do_open s mem url name mode) =
    (if match mode with
        | CreateNew => negb (bucket_exists s mem url name)
        | ReOpenExisting => bucket_exists s mem url name && negb (at_other_url s mem url name)
        | CreateOrOpen => negb (at_other_url s mem url name)
        end
     then RROpened (next_id (r_handles s))
     else RRErr (match mode with
                 | CreateNew => REExist
                 | _ => if at_other_url s mem url name then REOtherUrl else RENotExist
                 end)).
Proof.
  intros Hinv Hd. unfold do_open, bucket_exists, at_other_url, the_url.
  destruct (alookup String.eqb name (r_buckets s)) as [i|] eqn:En; cbn [is_some orb].
  - pose proof (Hd i (inv_binst s Hinv name i En)) as Hi. destruct (get_inst s i) as [x|]; [|congruence].
    destruct mode; cbn [snd negb andb]; try reflexivity.
    all: destruct (negb (String.eqb (i_url x) _)); cbn [snd negb andb]; reflexivity.
  - destruct mem; cbn [negb andb].
    + destruct mode; cbn [snd negb]; reflexivity.
    + destruct (alookup String.eqb url (r_disk s)), mode; cbn [is_some snd negb andb]; reflexivity.
Qed.

(* in the property's words *)
Corollary create_new_fails_iff_exists s mem url name : rinv s -> dense s ->
  is_opened (snd (do_open s mem url name CreateNew)) = negb (bucket_exists s mem url name).
Proof. intros Hi Hd. rewrite open_outcome by assumption. destruct (negb _); reflexivity. Qed.

Corollary reopen_fails_iff_missing s mem url name : rinv s -> dense s -> at_other_url s mem url name = false ->
  is_opened (snd (do_open s mem url name ReOpenExisting)) = bucket_exists s mem url name.
Proof. intros Hi Hd Ho. rewrite open_outcome by assumption. rewrite Ho, andb_true_r. destruct (bucket_exists _ _ _ _); reflexivity. Qed.

Corollary other_url_refused s mem url name mode : rinv s -> dense s -> at_other_url s mem url name = true ->
  snd (do_open s mem url name mode) = RRErr (match mode with CreateNew => REExist | _ => REOtherUrl end).
Proof.
  intros Hi Hd Ho. rewrite open_outcome by assumption. rewrite Ho.
  assert (bucket_exists s mem url name = true) as ->.
  { unfold bucket_exists, at_other_url in *. destruct (alookup String.eqb name (r_buckets s)); [reflexivity | discriminate Ho]. }
  destruct mode; reflexivity.
Qed.

(* a refused open changes nothing at all *)
Theorem refused_open_is_identity s mem url name mode :
  is_opened (snd (do_open s mem url name mode)) = false -> fst (do_open s mem url name mode) = s.
Proof.
  unfold do_open, add_handle. destruct (alookup String.eqb name (r_buckets s)) as [i|].
  - destruct mode; try reflexivity.
    all: destruct (get_inst s i) as [x|]; [|reflexivity].
    all: destruct (negb (String.eqb (i_url x) _)); [reflexivity | cbn; discriminate].
  - destruct mem.
    + destruct mode; cbn; try reflexivity; discriminate.
    + destruct (alookup String.eqb (the_url false url) (r_disk s)), mode; cbn; try reflexivity; discriminate.
Qed.

(* ------------------------------------------------------------------------------------------ *)
(* a closed handle stays closed, and its calls fail with the bucket-closed error                 *)

Definition closed_handle (s : rstate) (h : N) : Prop := exists hd, get_handle s h = Some hd /\ h_closed hd = true.

Lemma get_handle_app s' hs h x : r_handles s' = hs ++ [x] -> alookup N.eqb h hs <> None -> get_handle s' h = alookup N.eqb h hs.
Proof.
  intros E Hn. unfold get_handle. rewrite E. clear E. induction hs as [|[k y] r IH]; cbn in *; [congruence|].
  destruct (h =? k); [reflexivity | apply IH; exact Hn].
Qed.

Lemma alookup_app_keep {V} (l l2 : list (N * V)) h v : alookup N.eqb h l = Some v -> alookup N.eqb h (l ++ l2) = Some v.
Proof. induction l as [|[k y] r IH]; cbn; [discriminate|]. destruct (h =? k); [exact (fun H => H) | exact IH]. Qed.

Lemma closed_open s mem url name mode h : closed_handle s h -> closed_handle (fst (do_open s mem url name mode)) h.
Proof.
  intros (hd & Hh & Hc). unfold do_open.
  assert (forall s1 i, r_handles s1 = r_handles s -> closed_handle (fst (let '(s3, h') := add_handle s1 name i in (s3, RROpened h'))) h) as Hadd.
  { intros s1 i E. unfold add_handle; cbn [fst]. exists hd. split; [|exact Hc].
    unfold get_handle in *; cbn [r_handles]. rewrite E. apply alookup_app_keep. exact Hh. }
  destruct (alookup String.eqb name (r_buckets s)) as [i|].
  - destruct mode; try (exists hd; split; assumption).
    all: destruct (get_inst s i) as [x|]; [|exists hd; split; assumption].
    all: destruct (negb _); [exists hd; split; assumption|]; apply Hadd; reflexivity.
  - destruct mem.
    + destruct mode; try (exists hd; split; assumption); apply Hadd; reflexivity.
    + destruct (alookup String.eqb (the_url false url) (r_disk s)), mode; try (exists hd; split; assumption); apply Hadd; reflexivity.
Qed.

Lemma closed_same_handles s s' h : r_handles s' = r_handles s -> closed_handle s h -> closed_handle s' h.
Proof. intros E (hd & Hh & Hc). exists hd. unfold get_handle in *. rewrite E. split; assumption. Qed.

Lemma closed_close s h0 h : closed_handle s h -> closed_handle (fst (do_close s h0)) h.
Proof.
  intros Hcl. unfold do_close. destruct (get_handle s h0) as [hd0|] eqn:E0; [|exact Hcl]. destruct (h_closed hd0) eqn:Ec; [exact Hcl|]. cbn [fst].
  destruct Hcl as (hd & Hh & Hc). unfold closed_handle, get_handle, set_handle_closed; cbn [r_handles]. rewrite unregister_handles.
  destruct (N.eq_dec h h0) as [->|Hne].
  - rewrite (alookup_aset_same N.eqb neqb_spec). eexists; split; [reflexivity | reflexivity].
  - rewrite (alookup_aset_other N.eqb neqb_spec) by exact Hne. exists hd. split; assumption.
Qed.

Theorem closed_is_final s o h : closed_handle s h -> closed_handle (fst (rstep s o)) h.
Proof.
  intros Hc. destruct o; cbn [rstep].
  - apply closed_open; exact Hc.
  - apply closed_close; exact Hc.
  - unfold do_close_and_delete. destruct (get_handle s h0) as [hd0|]; [|exact Hc]. cbn [fst].
    apply (closed_same_handles (close_db s (h_inst hd0))); [reflexivity|]. apply (closed_same_handles s); [apply close_db_handles | exact Hc].
  - unfold do_write. destruct (status s h0); try exact Hc. destruct (get_handle s h0) as [hd0|]; [|exact Hc]. destruct mem.
    + destruct (get_inst s (h_inst hd0)); [|exact Hc]. apply (closed_same_handles s); [reflexivity | exact Hc].
    + destruct (alookup String.eqb url (r_disk s)); [|exact Hc]. apply (closed_same_handles s); [reflexivity | exact Hc].
  - apply closed_open, closed_close; exact Hc.
Qed.

Theorem closed_forever : forall ops s h, closed_handle s h -> closed_handle (rfinal s ops) h.
Proof. induction ops as [|o r IH]; intros s h Hc; cbn [rfinal]; [exact Hc | apply IH, closed_is_final, Hc]. Qed.

(* Close marks the handle; every later call through it answers "bucket closed" and changes nothing *)
Theorem close_closes s h hd : get_handle s h = Some hd -> closed_handle (fst (do_close s h)) h.
Proof.
  intros Hh. unfold do_close. rewrite Hh. destruct (h_closed hd) eqn:Ec; [exists hd; split; assumption|]. cbn [fst].
  unfold closed_handle, get_handle, set_handle_closed; cbn [r_handles]. rewrite (alookup_aset_same N.eqb neqb_spec).
  eexists; split; reflexivity.
Qed.

Theorem closed_handle_refuses s h k v : closed_handle s h -> do_write s h k v = (s, RRErr REClosed).
Proof. intros (hd & Hh & Hc). unfold do_write, status. rewrite Hh, Hc. reflexivity. Qed.

(* ------------------------------------------------------------------------------------------ *)
(* what survives a Close, and what CloseAndDelete removes                                       *)

(* closing a handle never touches what is on disk *)
Theorem close_keeps_disk s h : r_disk (fst (do_close s h)) = r_disk s.
Proof.
  unfold do_close. destruct (get_handle s h) as [hd|]; [|reflexivity]. destruct (h_closed hd); [reflexivity|]. cbn [fst].
  unfold set_handle_closed; cbn [r_disk]. apply unregister_disk.
Qed.

(* ... nor the registration or the contents of an in-memory bucket *)
Theorem close_keeps_memory s h hd x : get_handle s h = Some hd -> get_inst s (h_inst hd) = Some x -> i_mem x = true ->
  let s' := fst (do_close s h) in
  r_buckets s' = r_buckets s /\ get_inst s' (h_inst hd) = Some x.
Proof.
  intros Hh Hx Hm. unfold do_close. rewrite Hh. destruct (h_closed hd); [split; [reflexivity | exact Hx]|]. cbn [fst].
  unfold set_handle_closed, get_inst; cbn [r_buckets r_insts]. unfold unregister.
  destruct (count_of s (h_name hd) =? 0); [split; [reflexivity | exact Hx]|].
  destruct (count_of s (h_name hd) =? 1); [|split; [reflexivity | exact Hx]].
  assert (get_inst (set_count s (h_name hd) None) (h_inst hd) = Some x) as -> by exact Hx. rewrite Hm. split; [reflexivity | exact Hx].
Qed.

(* the handle an open returns: a new id, on the instance serving the name *)
Definition bounded (s : rstate) : Prop := forall ix, In ix (r_insts s) -> fst ix < next_id (r_insts s).

Lemma bounded0 : bounded rstate0. Proof. intros ix []. Qed.

Lemma In_fst_aset {V} h (v : V) l x : alookup N.eqb h l <> None -> In x (aset N.eqb h v l) -> In (fst x) (map fst l).
Proof.
  intros Hn Hin. rewrite <- (map_fst_aset h v l Hn). apply in_map. exact Hin.
Qed.

Lemma bounded_set_inst s i x : bounded s -> get_inst s i <> None -> bounded (set_inst s i x).
Proof.
  intros Hb Hi ix Hin. rewrite next_id_set_inst by exact Hi. unfold set_inst in Hin; cbn [r_insts] in Hin.
  apply (In_fst_aset i x (r_insts s) ix Hi) in Hin. apply in_map_iff in Hin. destruct Hin as (y & <- & Hy). apply Hb. exact Hy.
Qed.

Lemma bounded_same_insts s s' : r_insts s' = r_insts s -> bounded s -> bounded s'.
Proof. intros E Hb ix Hin. rewrite E in *. apply Hb. exact Hin. Qed.

Lemma bounded_close_db s i : bounded s -> bounded (close_db s i).
Proof. intros Hb. unfold close_db. destruct (get_inst s i) eqn:E; [apply bounded_set_inst; [exact Hb | congruence] | exact Hb]. Qed.

Lemma bounded_unregister s hd : bounded s -> bounded (unregister s hd).
Proof.
  intros Hb. unfold unregister. destruct (count_of s (h_name hd) =? 0); [exact Hb|].
  destruct (count_of s (h_name hd) =? 1); [|apply (bounded_same_insts s); [reflexivity | exact Hb]].
  assert (bounded (set_count s (h_name hd) None)) as Hb1 by (apply (bounded_same_insts s); [reflexivity | exact Hb]).
  destruct (get_inst _ (h_inst hd)) as [x|]; [|exact Hb1]. destruct (i_mem x); [exact Hb1|].
  apply (bounded_same_insts (close_db (set_count s (h_name hd) None) (h_inst hd))); [reflexivity|]. apply bounded_close_db. exact Hb1.
Qed.

Lemma bounded_open s mem url name mode : bounded s -> bounded (fst (do_open s mem url name mode)).
Proof.
  intros Hb. unfold do_open.
  assert (forall disk', bounded (fst (let i := next_id (r_insts s) in
        let s1 := mkR ((name, i) :: r_buckets s) (r_count s) (r_insts s ++ [(i, mkInst (the_url mem url) mem true [])]) (r_handles s) disk' in
        let s2 := set_count s1 name (Some (count_of s1 name + 1)) in
        let '(s3, h) := add_handle s2 name i in (s3, RROpened h)))) as Hfresh.
  { intros disk'. cbv zeta. unfold add_handle, set_count; cbn [fst r_insts]. intros ix Hin.
    unfold next_id; cbn [r_insts]. rewrite app_length. cbn [List.length].
    apply in_app_iff in Hin. destruct Hin as [Hin|[<-|[]]]; [specialize (Hb ix Hin); unfold next_id in Hb; lia | cbn [fst]; unfold next_id; lia]. }
  destruct (alookup String.eqb name (r_buckets s)) as [i|].
  - destruct mode; try exact Hb.
    all: destruct (get_inst s i) as [x|]; [|exact Hb].
    all: destruct (negb (String.eqb (i_url x) (the_url mem url))); [exact Hb|].
    all: apply (bounded_same_insts s); [reflexivity | exact Hb].
  - destruct mem.
    + destruct mode; try exact Hb; apply Hfresh.
    + destruct (alookup String.eqb (the_url false url) (r_disk s)), mode; try exact Hb; apply Hfresh.
Qed.

Theorem rstep_bounded s o : bounded s -> bounded (fst (rstep s o)).
Proof.
  intros Hb. assert (forall s h, bounded s -> bounded (fst (do_close s h))) as Hclose.
  { intros s0 h0 Hb0. unfold do_close. destruct (get_handle s0 h0) as [hd|]; [|exact Hb0]. destruct (h_closed hd); [exact Hb0|]. cbn [fst].
    apply (bounded_same_insts (unregister s0 hd)); [reflexivity | apply bounded_unregister; exact Hb0]. }
  destruct o; cbn [rstep].
  - apply bounded_open; exact Hb.
  - apply Hclose; exact Hb.
  - unfold do_close_and_delete. destruct (get_handle s h) as [hd|]; [|exact Hb]. cbn [fst].
    apply (bounded_same_insts (close_db s (h_inst hd))); [reflexivity | apply bounded_close_db; exact Hb].
  - unfold do_write. destruct (status s h); try exact Hb. destruct (get_handle s h) as [hd|]; [|exact Hb]. destruct mem.
    + destruct (get_inst s (h_inst hd)) eqn:E; [|exact Hb]. cbn [fst]. apply bounded_set_inst; [exact Hb | congruence].
    + destruct (alookup String.eqb url (r_disk s)); [|exact Hb]. apply (bounded_same_insts s); [reflexivity | exact Hb].
  - apply bounded_open, Hclose; exact Hb.
Qed.

Theorem reachable_bounded : forall ops s, bounded s -> bounded (rfinal s ops).
Proof. induction ops as [|o r IH]; intros s Hb; cbn [rfinal]; [exact Hb | apply IH, rstep_bounded, Hb]. Qed.

(* opening a name that is not registered, on a directory that exists (any mode but CreateNew), or creating it:
   the new handle works and shows what the directory holds (nothing, if it was just created) *)
Theorem open_unregistered_on_disk s url name mode : rinv s -> bounded s ->
  alookup String.eqb name (r_buckets s) = None ->
  is_opened (snd (do_open s false url name mode)) = true ->
  let s' := fst (do_open s false url name mode) in
  let h := next_id (r_handles s) in
  status s' h = HLive false url /\
  data_of s' h = Some (match alookup String.eqb url (r_disk s) with Some d => d | None => [] end).
Proof.
  intros Hinv Hb Hn Hop. unfold do_open in *. rewrite Hn in *. cbn [the_url] in *.
  assert (forall disk' d, alookup String.eqb url disk' = Some d ->
    let s' := fst (let i := next_id (r_insts s) in
        let s1 := mkR ((name, i) :: r_buckets s) (r_count s) (r_insts s ++ [(i, mkInst url false true [])]) (r_handles s) disk' in
        let s2 := set_count s1 name (Some (count_of s1 name + 1)) in
        let '(s3, h) := add_handle s2 name i in (s3, RROpened h)) in
    status s' (next_id (r_handles s)) = HLive false url /\ data_of s' (next_id (r_handles s)) = Some d) as Hfresh.
  { intros disk' d Hd. cbv zeta. unfold add_handle, set_count; cbn [fst r_handles].
    match goal with |- status ?S _ = _ /\ _ => set (s' := S) end.
    assert (get_handle s' (next_id (r_handles s)) = Some (mkHandle name (next_id (r_insts s)) false)) as Hh.
    { unfold get_handle, s'; cbn [r_handles]. apply alookup_app_fresh. apply not_in_fresh. apply (inv_hids s Hinv). }
    assert (get_inst s' (next_id (r_insts s)) = Some (mkInst url false true [])) as Hi.
    { unfold get_inst, s'; cbn [r_insts]. apply alookup_app_fresh. apply not_in_fresh. exact Hb. }
    assert (r_disk s' = disk') as Hdk by reflexivity.
    unfold status, data_of. rewrite Hh. cbn [h_closed h_inst]. rewrite Hi. cbn [i_dbopen i_mem i_url]. rewrite Hdk. split; [reflexivity | exact Hd]. }
  destruct (alookup String.eqb url (r_disk s)) as [d|] eqn:Ed.
  - destruct mode; try discriminate Hop; apply (Hfresh (r_disk s) d Ed).
  - destruct mode; try discriminate Hop; apply (Hfresh (aset String.eqb url [] (r_disk s)) []); apply (alookup_aset_same String.eqb seqb_spec).
Qed.

(* CloseAndDelete: the name leaves the registry and the directory of an on-disk bucket is gone - so the bucket
   no longer exists: ReOpenExisting is refused and CreateNew starts from nothing *)
Theorem cad_removes s h hd x : get_handle s h = Some hd -> get_inst s (h_inst hd) = Some x ->
  let s' := fst (do_close_and_delete s h) in
  alookup String.eqb (h_name hd) (r_buckets s') = None
  /\ (i_mem x = false -> alookup String.eqb (i_url x) (r_disk s') = None)
  /\ bucket_exists s' (i_mem x) (i_url x) (h_name hd) = false.
Proof.
  intros Hh Hx. unfold do_close_and_delete. rewrite Hh, Hx. cbn [fst].
  destruct (close_db_shape s (h_inst hd)) as (B1 & B2 & B3 & B4 & B5).
  assert (alookup String.eqb (h_name hd) (aremove String.eqb (h_name hd) (r_buckets (close_db s (h_inst hd)))) = None) as H1
    by apply alookup_aremove_same.
  unfold bucket_exists; cbn [r_buckets r_disk]. rewrite H1. cbn [is_some orb]. split; [reflexivity|].
  destruct (i_mem x); cbn [negb andb].
  - split; [discriminate | reflexivity].
  - rewrite alookup_aremove_same. split; [reflexivity | reflexivity].
Qed.

(* ------------------------------------------------------------------------------------------ *)
(* all handles opened on one bucket name share one store                                        *)

(* an open of a registered name (at its URL) returns a new handle on the instance that serves the name, and
   changes neither that instance nor any directory: the new handle sees what the others see *)
Theorem open_registered_shares s mem url name mode i x : rinv s ->
  alookup String.eqb name (r_buckets s) = Some i -> get_inst s i = Some x ->
  String.eqb (i_url x) (the_url mem url) = true -> mode <> CreateNew ->
  let s' := fst (do_open s mem url name mode) in
  let h := next_id (r_handles s) in
  snd (do_open s mem url name mode) = RROpened h
  /\ get_handle s' h = Some (mkHandle name i false)
  /\ get_inst s' i = Some x /\ r_disk s' = r_disk s.
Proof.
  intros Hinv Hn Hx Hu Hm. unfold do_open. rewrite Hn. destruct mode; [|contradiction Hm; reflexivity|].
  all: rewrite Hx, Hu; cbn [negb]; unfold add_handle, set_count; cbn [fst snd r_handles r_insts r_disk].
  all: repeat split; try exact Hx.
  all: unfold get_handle; cbn [r_handles]; apply alookup_app_fresh; apply not_in_fresh; apply (inv_hids s Hinv).
Qed.

(* two handles on the same instance see the same data, whatever happens to it *)
Theorem same_instance_same_data s h1 h2 hd1 hd2 :
  get_handle s h1 = Some hd1 -> get_handle s h2 = Some hd2 -> h_inst hd1 = h_inst hd2 -> data_of s h1 = data_of s h2.
Proof. intros H1 H2 E. unfold data_of. rewrite H1, H2, E. reflexivity. Qed.

(* a write through one handle is read through every handle on the same instance *)
Theorem write_shows_through_the_instance s h k v hd x : get_handle s h = Some hd -> h_closed hd = false ->
  get_inst s (h_inst hd) = Some x -> i_dbopen x = true -> (i_mem x = false -> alookup String.eqb (i_url x) (r_disk s) <> None) ->
  let s' := fst (do_write s h k v) in
  snd (do_write s h k v) = RROk
  /\ forall h' hd', get_handle s h' = Some hd' -> h_inst hd' = h_inst hd ->
       match data_of s' h' with Some d => alookup String.eqb k d = Some v | None => False end.
Proof.
  intros Hh Hc Hx Ho Hd. unfold do_write, status. rewrite Hh, Hc, Hx, Ho. destruct (i_mem x) eqn:Em.
  - cbn [fst snd]. split; [reflexivity|]. intros h' hd' Hh' Ei.
    unfold data_of, set_inst, get_handle, get_inst in *; cbn [r_handles r_insts r_disk]. rewrite Hh', Ei.
    rewrite (alookup_aset_same N.eqb neqb_spec). cbn [i_mem i_data]. apply (alookup_aset_same String.eqb seqb_spec).
  - destruct (alookup String.eqb (i_url x) (r_disk s)) as [d|] eqn:Ed; [|exfalso; apply (Hd eq_refl); reflexivity].
    cbn [fst snd]. split; [reflexivity|]. intros h' hd' Hh' Ei.
    unfold data_of, get_handle, get_inst in *; cbn [r_handles r_insts r_disk]. rewrite Hh', Ei, Hx, Em.
    rewrite (alookup_aset_same String.eqb seqb_spec). apply (alookup_aset_same String.eqb seqb_spec).
Qed.
