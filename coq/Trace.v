(* Trace.v — the observable alphabet of a sequential history and the executable property checkers
   chk_Cxx.  A checker looks only at what a client can see: the calls made (with their arguments),
   the responses, the events delivered to the live feeds and the read-back taken after every step.
   The same functions are (a) proved to accept every trace of the model (props/*.v) and
   (b) evaluated on the traces recorded from the implementation.                                 *)
From Rosmar Require Import Base Json Crc Kv Store.

(* ------------------------------------------------------------------------------------------ *)
(* What the read-back says about one document                                                   *)

Record docview := mkView {
  v_body : option string;
  v_cas : N;
  v_exp : N;
  v_xattrs : list (string * string);
  v_xbit : bool;
  v_rev : N;
  v_json : bool;
  v_del : bool;          (* the dump (backfill) feed reports a deletion *)
  v_docx : option string; (* the virtual xattr $document as GetWithXattrs returns it *)
  v_revx : option string  (* the virtual xattr $document.revid *)
}.

Definition doc_xattr (name : string) (r : resp) : option string :=
  match r with RDoc _ xs _ => alookup String.eqb name xs | _ => None end.

Definition view_of_obs (o : obsrow) : option docview :=
  match o_dump o with
  | None => None
  | Some f =>
      Some (mkView (match o_get o with RVal v _ => Some v | _ => None end)
                   (f_cas f) (f_exp f) (f_xattrs f) (f_xbit f) (f_rev f) (f_json f)
                   (match f_op f with FDeletion => true | _ => false end)
                   (doc_xattr "$document" (o_doc o)) (doc_xattr "$document.revid" (o_doc o)))
  end.

Definition xlist (x : xcol) : list (string * string) := match xparse x with Some m => m | None => [] end.
Definition xbit (x : xcol) : bool := match x with XNull => false | _ => true end.

Definition view_of_row (r0 : row) : docview :=
  mkView (r_value r0) (r_cas r0) (r_exp r0) (xlist (r_xattrs r0)) (xbit (r_xattrs r0)) (r_rev r0) (r_isJSON r0) (r_tomb r0)
         (Some (docx_string (r_value r0) (r_rev r0))) (Some (revx_string (r_rev r0))).

Definition has_body (v : option docview) : bool := match v with Some d => is_some (v_body d) | None => false end.

(* the feed event that describes a document state (the function live and backfill must agree on) *)
Definition fevent_of_view (coll : N) (key : string) (d : docview) : fevent :=
  mkFevent (if is_none (v_body d) then FDeletion else FMutation) key
           (match v_body d with Some b => b | None => "" end)
           (v_xattrs d) (v_json d) (v_xbit d) (v_cas d) (v_exp d) (v_rev d) coll.

(* ------------------------------------------------------------------------------------------ *)
(* decidable equalities used by the checkers                                                    *)

Definition sspair_eqb (a b : string * string) : bool := String.eqb (fst a) (fst b) && String.eqb (snd a) (snd b).
Lemma sspair_eqb_spec a b : sspair_eqb a b = true <-> a = b.
Proof.
  destruct a, b; unfold sspair_eqb; cbn. rewrite andb_true_iff, !String.eqb_eq.
  split; [intros [-> ->]; reflexivity | intros H; inversion H; auto].
Qed.

Definition err_eq_dec : forall a b : err, {a = b} + {a <> b}. Proof. decide equality. Defined.
Definition fopcode_eq_dec : forall a b : fopcode, {a = b} + {a <> b}. Proof. decide equality. Defined.
Definition sspair_eq_dec : forall a b : string * string, {a = b} + {a <> b}.
Proof. decide equality; apply string_dec. Defined.
Definition resp_eq_dec : forall a b : resp, {a = b} + {a <> b}.
Proof.
  decide equality; try apply N.eq_dec; try apply string_dec; try apply bool_dec; try apply err_eq_dec;
    try (apply list_eq_dec; apply sspair_eq_dec); try (apply list_eq_dec; apply string_dec).
  decide equality; apply string_dec.
Defined.
Definition fevent_eq_dec : forall a b : fevent, {a = b} + {a <> b}.
Proof.
  decide equality; try apply N.eq_dec; try apply string_dec; try apply bool_dec; try apply fopcode_eq_dec;
    try (apply list_eq_dec; apply sspair_eq_dec).
Defined.
Definition obsrow_eq_dec : forall a b : obsrow, {a = b} + {a <> b}.
Proof.
  decide equality; try apply resp_eq_dec; try apply bool_dec.
  decide equality; apply fevent_eq_dec.
Defined.
Definition docview_eq_dec : forall a b : docview, {a = b} + {a <> b}.
Proof.
  decide equality; try apply N.eq_dec; try apply bool_dec; try (apply list_eq_dec; apply sspair_eq_dec).
  all: decide equality; apply string_dec.
Defined.
Definition odocview_eq_dec : forall a b : option docview, {a = b} + {a <> b}.
Proof. decide equality; apply docview_eq_dec. Defined.

Definition same_view (a b : option docview) : bool := if odocview_eq_dec a b then true else false.
Definition xs_eqb (a b : list (string * string)) : bool := if list_eq_dec sspair_eq_dec a b then true else false.
Definition ostr_eqb (a b : option string) : bool :=
  match a, b with Some x, Some y => String.eqb x y | None, None => true | _, _ => false end.

(* ------------------------------------------------------------------------------------------ *)
(* Classifying calls and responses (from the call's own arguments and its response only)        *)

Definition is_read (op : kop) : bool :=
  match op with
  | KGetRaw | KExists | KGetExpiry | KGetWithXattrs _ | KGetXattrs _ | KGetSubDocRaw _ => true
  | _ => false
  end.

Definition is_err (r : resp) : bool := match r with RErr _ => true | _ => false end.

(* did this call, judging by its response, change the document? *)
Definition mutated (op : kop) (r : resp) : bool :=
  if is_read op then false else
  match r with
  | RErr _ => false
  | RAdded b => b
  | RCas c => match op with KUpdate _ UCancel => false | _ => true end
  | _ => true
  end.

(* does a successful call of this kind stamp a new CAS (and therefore post an event)? *)
Definition stamps_cas (op : kop) : bool :=
  match op with KTouch _ | KGetAndTouch _ => false | _ => true end.

(* insert-style calls (C06) *)
Definition is_insert (op : kop) : bool :=
  match op with
  | KAdd _ _ | KAddRaw _ _ => true
  | KWriteCas _ cas _ _ app addonly => negb app && (addonly || (cas =? 0))
  | KWriteResurrectionWithXattrs _ _ _ _ _ => true
  | _ => false
  end.

Definition is_refusal (r : resp) : bool :=
  match r with
  | RAdded false => true
  | RErr EKeyExists | RErr ECasMismatch => true
  | _ => false
  end.

(* the expected-CAS argument of a conditional call (C02); None: unconditional *)
Definition cas_arg (op : kop) : option N :=
  match op with
  | KWriteCas _ cas _ _ _ addonly => if addonly then None else Some cas
  | KRemove cas => Some cas
  | KWriteWithXattrs _ cas _ _ _ _ _ => Some cas
  | KWriteTombstoneWithXattrs _ cas _ _ _ _ => Some cas
  | KUpdateXattrs _ cas _ _ => Some cas
  | KUpdateXattrDeleteBody _ _ cas _ _ => Some cas
  | KRemoveXattrs _ cas => Some cas
  | KSetWithMeta oc _ _ _ _ _ => Some oc
  | KDeleteWithMeta oc _ _ _ => Some oc
  | KWriteSubDoc _ cas _ => if cas =? 0 then None else Some cas
  | KSubdocInsert _ cas _ => if cas =? 0 then None else Some cas
  | _ => None
  end.

Definition view_cas (v : option docview) : N := match v with Some d => v_cas d | None => 0 end.

(* "0 stands for no such document (for WriteCas: no live document)" *)
Definition cas_matches (op : kop) (c : N) (pre : option docview) : bool :=
  (c =? view_cas pre)
  || match op with
     | KWriteCas _ _ _ _ _ _ => (c =? 0) && negb (has_body pre)
     | _ => false
     end.

(* ------------------------------------------------------------------------------------------ *)
(* Row-level checkers: (key, step context, call, view before, response, live events, view after) *)

Definition rowchk := string -> N -> sctx -> kop -> option docview -> resp -> list fevent -> option docview -> bool.

(* C01: reads answer from the current document; a failed call changes nothing; a successful write
   shows the body / CAS / expiry it was given *)
Definition expected_body (op : kop) (pre : option docview) : option (option string) :=
  match op with
  | KAdd _ v | KAddRaw _ v | KSet _ _ v | KSetRaw _ _ v => Some (Some v)
  | KWriteCas _ _ v _ false _ => Some v
  | KWriteCas _ _ (Some s) _ true _ =>
      match pre with Some d => match v_body d with Some b => Some (Some (b ++ s)%string) | None => None end | None => None end
  | KRemove _ | KDelete | KDeleteWithXattrs _ | KDeleteWithMeta _ _ _ _ => Some None
  | KWriteTombstoneWithXattrs _ _ _ _ _ _ | KUpdateXattrDeleteBody _ _ _ _ _ => Some None
  | KSetWithMeta _ _ _ _ b _ => Some b
  | KWriteWithXattrs _ _ (Some v) _ _ _ _ => Some (Some v)
  | KWriteResurrectionWithXattrs _ (Some v) _ _ _ => Some (Some v)
  | KUpdate _ (USet v _) => Some (Some v)
  | KUpdate _ (UDelete _) => Some None
  | KIncr _ _ _ => None
  | KSetXattrs _ | KRemoveXattrs _ _ | KDeleteSubDocPaths _ | KUpdateXattrs _ _ _ _
  | KWriteWithXattrs _ _ None _ _ _ _ | KTouch _ | KGetAndTouch _ =>
      Some (match pre with Some d => v_body d | None => None end)      (* body untouched *)
  | _ => None
  end.

Definition chk_row_C01 : rowchk := fun key coll x op pre resp evs post =>
  (* reads: answer = the document as it stands, and nothing changes *)
  (if is_read op then same_view pre post else true)
  && (match op, resp with
      | KGetRaw, RVal v c => ostr_eqb (match pre with Some d => v_body d | None => None end) (Some v) && (c =? view_cas pre)
      | KGetRaw, RErr EMissing => negb (has_body pre)
      | KGetRaw, _ => false
      | KExists, RBool b => Bool.eqb b (has_body pre)
      | KExists, _ => false
      | KGetExpiry, RNum e => match pre with Some d => e =? v_exp d | None => false end
      | KGetExpiry, RErr EMissing => is_none pre
      | KGetExpiry, _ => false
      | KGetWithXattrs _, RDoc b _ c => ostr_eqb b (match pre with Some d => v_body d | None => None end) && (c =? view_cas pre)
      | KGetWithXattrs _, RErr EMissing => negb (has_body pre)
      | _, _ => true
      end)
  (* an error leaves the document exactly as it was; so does a refused insert / cancelled update *)
  && (if negb (mutated op resp) then same_view pre post else true)
  (* a successful write is what the next read returns *)
  && (if mutated op resp then
        match post with
        | None => false                                  (* a write never makes the row vanish *)
        | Some d =>
            match expected_body op pre with Some b => ostr_eqb (v_body d) b | None => true end
            && match resp with RCas c => if stamps_cas op then v_cas d =? c else true | _ => true end
        end
      else true).

(* C02: a conditional write is applied only if its expected CAS is current *)
Definition chk_row_C02 : rowchk := fun key coll x op pre resp evs post =>
  match cas_arg op with
  | None => true
  | Some c =>
      (if mutated op resp then cas_matches op c pre else true)
      && (if negb (mutated op resp) then same_view pre post else true)
  end.

(* C05 (per call): Delete/Remove keep exactly the system xattrs and clear the expiry; a body write
   onto a body-less document leaves exactly the xattrs the call supplied *)
Definition supplied_xattr_names (op : kop) : option (list string) :=
  match op with
  | KAdd _ _ | KAddRaw _ _ | KSet _ _ _ | KSetRaw _ _ _ | KIncr _ _ _ | KWriteCas _ _ (Some _) _ _ _
  | KUpdate _ (USet _ _) | KWriteSubDoc _ _ _ | KSubdocInsert _ _ _ => Some []
  | KWriteWithXattrs _ _ (Some _) xs _ _ _ => Some (map fst xs)
  | KWriteResurrectionWithXattrs _ (Some _) xs _ _ => Some (map fst xs)
  | _ => None
  end.

Definition names_of (l : list (string * string)) : list string := map fst l.
Definition subset_names (a b : list string) : bool := forallb (fun x => existsb (String.eqb x) b) a.
Definition same_names (a b : list string) : bool := subset_names a b && subset_names b a.

Definition chk_row_C05 : rowchk := fun key coll x op pre resp evs post =>
  (* every view is coherent: deletion opcode iff no body *)
  (match post with Some d => Bool.eqb (v_del d) (is_none (v_body d)) | None => true end)
  && (if mutated op resp then
        match op, pre, post with
        | (KDelete | KRemove _), Some d0, Some d1 =>
            is_none (v_body d1) && (v_exp d1 =? 0)
            && xs_eqb (v_xattrs d1) (filter (fun kv => is_system_name (fst kv)) (v_xattrs d0))
        | _, _, Some d1 =>
            if negb (has_body pre) && is_some (v_body d1) then
              match supplied_xattr_names op with
              | Some ns => subset_names (names_of (v_xattrs d1)) ns      (* none of the tombstone's survive *)
              | None => true
              end
            else true
        | _, _, None => false
        end
      else true)
  (* ... and so does every live event of the call: it says deletion iff the document it leaves has no body *)
  && forallb (fun f => Bool.eqb (if fopcode_eq_dec (f_op f) FDeletion then true else false) (negb (has_body post))) evs.

(* C06: insert-only writes succeed iff the key has no body; refused => untouched;
   WriteWithXattrs with CAS 0 succeeds only if the key does not exist at all *)
(* a call that names no version, or insists that there be none - whatever else it asks for (the append option too) *)
Definition insists_absent (op : kop) : bool :=
  match op with
  | KWriteCas _ cas _ _ _ addonly => addonly || (cas =? 0)
  | _ => is_insert op
  end.

Definition chk_row_C06 : rowchk := fun key coll x op pre resp evs post =>
  (if insists_absent op && mutated op resp then negb (has_body pre) else true)
  && (if is_insert op then
     (if mutated op resp then negb (has_body pre) else true)
     && (if is_refusal resp then has_body pre && same_view pre post else true)
   else true)
  && match op with
     | KWriteWithXattrs _ 0 _ _ _ _ _ => if mutated op resp then is_none pre else true
     | _ => true
     end.

(* C07: xattr writes touch exactly the named xattrs; body-only writes to a live document keep its
   xattrs; nothing else moves *)
Definition named_xattrs (op : kop) : option (list string) :=
  match op with
  | KSetXattrs xs => Some (map fst xs)
  | KRemoveXattrs ns _ => Some ns
  | KDeleteSubDocPaths ns => Some ns
  | KUpdateXattrs _ _ xs _ => Some (map fst xs)
  | KWriteWithXattrs _ _ None xs dels _ _ => Some (map fst xs ++ match dels with Some l => l | None => [] end)
  | _ => None
  end.

Definition body_only (op : kop) : bool :=
  match op with
  | KSet _ _ _ | KSetRaw _ _ _ | KIncr _ _ _ | KTouch _ | KGetAndTouch _
  | KWriteSubDoc _ _ _ | KSubdocInsert _ _ _ => true
  | KWriteCas _ _ (Some _) _ _ addonly => negb addonly
  | KUpdate _ (USet _ _) | KUpdate _ (UAppend _ _) => true
  | _ => false
  end.

Definition xattrs_agree_outside (names : list string) (a b : list (string * string)) : bool :=
  forallb (fun k => existsb (String.eqb k) names
                    || ostr_eqb (alookup String.eqb k a) (alookup String.eqb k b))
          (map fst a ++ map fst b).

Definition keeps_expiry (op : kop) : bool :=
  match op with
  | KSetXattrs _ | KRemoveXattrs _ _ | KDeleteSubDocPaths _ => true
  | KWriteWithXattrs _ _ _ _ _ true _ => true
  | KSet _ true _ | KSetRaw _ true _ => true
  | _ => false
  end.

Definition chk_row_C07 : rowchk := fun key coll x op pre resp evs post =>
  if mutated op resp then
    match pre, post with
    | Some d0, Some d1 =>
        (match named_xattrs op with
         | Some ns =>
             (* xattr-only write: body, datatype untouched; other xattrs untouched; a body-less
                document stays body-less *)
             ostr_eqb (v_body d0) (v_body d1) && Bool.eqb (v_json d0) (v_json d1)
             && xattrs_agree_outside ns (v_xattrs d0) (v_xattrs d1)
         | None => true
         end)
        && (if body_only op && is_some (v_body d0) then xs_eqb (v_xattrs d0) (v_xattrs d1) else true)
        && (if keeps_expiry op then v_exp d0 =? v_exp d1 else true)
    | _, _ => true
    end
  else same_view pre post.

(* C08 (sequential part): one faithful event per CAS-stamping success, none otherwise.
   "Faithful" = equal to the rendering of the document as read back right after the call, which
   is also what a backfill would say (C09's agreement of live and backfill). *)
Definition chk_row_C08 : rowchk := fun key coll x op pre resp evs post =>
  if mutated op resp && stamps_cas op then
    match post, evs with
    | Some d, [e] => if fevent_eq_dec e (fevent_of_view coll key d) then true else false
    | _, _ => false
    end
  else match evs with [] => true | _ => false end.

(* C17: every successful mutation adds exactly one to the revision number (1 on creation); the
   backfill event (v_rev), $document.revid, the value inside $document and the live events agree *)
Definition revid_ok (d : docview) : bool :=
  ostr_eqb (v_revx d) (Some (revx_string (v_rev d)))
  && ostr_eqb (v_docx d) (Some (docx_string (v_body d) (v_rev d))).

Definition chk_row_C17 : rowchk := fun key coll x op pre resp evs post =>
  let rev0 := match pre with Some d => v_rev d | None => 0 end in
  let rev1 := match post with Some d => v_rev d | None => 0 end in
  (if mutated op resp then rev1 =? rev0 + 1 else rev1 =? rev0)
  && forallb (fun e => f_rev e =? rev1) evs
  && match post with Some d => revid_ok d | None => true end.

(* ------------------------------------------------------------------------------------------ *)
(* Walking a recorded history                                                                   *)

Definition look (k : string * string) (l : list ((string * string) * obsrow)) : option obsrow :=
  alookup sspair_eqb k l.

Definition coll_of_obs (o : obsrow) (dflt : N) : N := match o_dump o with Some f => f_coll f | None => dflt end.

Definition step_chk := snapshot -> sctx -> sop -> ostep -> bool.

Definition kv_step (rc : rowchk) : step_chk := fun prev x o ob =>
  match o with
  | SKv coll key op =>
      match look (coll, key) (sn_rows prev), look (coll, key) (sn_rows (os_snap ob)) with
      | Some pre, Some post =>
          (* the collection id a live event must carry is the one the document's dump event carries *)
          let cid := coll_of_obs post 0 in
          rc key cid x op (view_of_obs pre) (os_resp ob) (os_live ob) (view_of_obs post)
      | _, _ => true   (* outside the observed universe *)
      end
  | _ => true
  end.

Fixpoint walk (chk : step_chk) (prev : snapshot) (steps : list (sctx * sop)) (obs : list ostep) : bool :=
  match steps, obs with
  | [], [] => true
  | (x, o) :: ss, ob :: os => chk prev x o ob && walk chk (os_snap ob) ss os
  | _, _ => false
  end.

Definition snap0 (c : scase) : snapshot := with_next (snap store0 (sc_colls c) (sc_keys c) (sc_xnames c)) 0.

Definition chk_kv (rc : rowchk) (t : scase * list ostep) : bool :=
  walk (kv_step rc) (snap0 (fst t)) (sc_steps (fst t)) (snd t).

(* C01 also says what a read of any OTHER document returns: what it returned before *)
Definition kv_view (o : obsrow) : resp * resp * bool := (o_get o, o_exp o, o_exists o).
Definition kv_view_eqb (a b : obsrow) : bool :=
  (if resp_eq_dec (o_get a) (o_get b) then true else false) && (if resp_eq_dec (o_exp a) (o_exp b) then true else false)
  && Bool.eqb (o_exists a) (o_exists b).
Definition chk_step_others_kept : step_chk := fun prev x o ob =>
  match o with
  | SKv c k _ =>
      forallb (fun e => sspair_eqb (fst e) (c, k)
                        || match look (fst e) (sn_rows prev) with Some o0 => kv_view_eqb o0 (snd e) | None => true end)
              (sn_rows (os_snap ob))
  | _ => true
  end.
Definition chk_C01_kv (t : scase * list ostep) : bool :=
  chk_kv chk_row_C01 t && walk chk_step_others_kept (snap0 (fst t)) (sc_steps (fst t)) (snd t).
Definition chk_C02_kv := chk_kv chk_row_C02.
Definition chk_C05_kv := chk_kv chk_row_C05.
Definition chk_C06_kv := chk_kv chk_row_C06.
Definition chk_C07_kv := chk_kv chk_row_C07.
Definition chk_C08_kv := chk_kv chk_row_C08.
Definition chk_C17_kv := chk_kv chk_row_C17.

(* all of them at once (used while developing) *)
Definition chk_all_kv (t : scase * list ostep) : bool :=
  chk_C01_kv t && chk_C02_kv t && chk_C05_kv t && chk_C06_kv t && chk_C07_kv t && chk_C08_kv t && chk_C17_kv t.

(* diagnostics: index of the first step a checker rejects *)
Fixpoint walk_first_bad (chk : step_chk) (prev : snapshot) (steps : list (sctx * sop)) (obs : list ostep) (i : N) : option N :=
  match steps, obs with
  | [], [] => None
  | (x, o) :: ss, ob :: os => if chk prev x o ob then walk_first_bad chk (os_snap ob) ss os (i + 1) else Some i
  | _, _ => Some i
  end.

Definition first_bad_kv (rc : rowchk) (t : scase * list ostep) : option N :=
  walk_first_bad (kv_step rc) (snap0 (fst t)) (sc_steps (fst t)) (snd t) 0.

Definition kv_chk_explain (t : scase * list ostep) : list (string * option N) :=
  [("C01", first_bad_kv chk_row_C01 t); ("C02", first_bad_kv chk_row_C02 t); ("C05", first_bad_kv chk_row_C05 t);
   ("C06", first_bad_kv chk_row_C06 t); ("C07", first_bad_kv chk_row_C07 t); ("C08", first_bad_kv chk_row_C08 t);
   ("C17", first_bad_kv chk_row_C17 t)].

(* ------------------------------------------------------------------------------------------ *)
(* C09 (sequential part): the backfill is a faithful, CAS-ordered snapshot and agrees with what a
   live event says of the same state                                                            *)

Definition fevents_eqb (a b : list fevent) : bool := if list_eq_dec fevent_eq_dec a b then true else false.
Definition obsrow_eqb (a b : obsrow) : bool := if obsrow_eq_dec a b then true else false.

(* the frame of a key-value call in full: every document but the addressed one - in its own collection and in every
   other - reads back exactly as before: body, CAS, expiry, every xattr, revision, what a dump says of it *)
Definition chk_step_frame_full : step_chk := fun prev x o ob =>
  match o with
  | SKv c k _ =>
      forallb (fun e => sspair_eqb (fst e) (c, k)
                        || match look (fst e) (sn_rows prev) with Some o0 => obsrow_eqb o0 (snd e) | None => true end)
              (sn_rows (os_snap ob))
  | _ => true
  end.

Definition chk_C07_full (t : scase * list ostep) : bool :=
  chk_C07_kv t && walk chk_step_frame_full (snap0 (fst t)) (sc_steps (fst t)) (snd t).

Definition real_xattrs (xs : list (string * string)) : list (string * string) :=
  filter (fun kv => negb (String.eqb (fst kv) "$document" || String.eqb (fst kv) "$document.revid")) xs.

(* the dump event of a key and the key-value reads of the same key describe the same document *)
Definition dump_agrees_with_reads (o : obsrow) : bool :=
  match o_dump o with
  | None =>
      match o_get o, o_exp o, o_doc o with
      | RErr EMissing, RErr EMissing, RErr EMissing => negb (o_exists o)
      | _, _, _ => false
      end
  | Some f =>
      (match o_get o with
       | RVal v c => (if fopcode_eq_dec (f_op f) FMutation then true else false) && String.eqb (f_body f) v && (f_cas f =? c) && o_exists o
       | RErr EMissing => (if fopcode_eq_dec (f_op f) FDeletion then true else false) && String.eqb (f_body f) "" && negb (o_exists o)
       | _ => false
       end)
      && (match o_exp o with RNum e => f_exp f =? e | _ => false end)
      && (match o_doc o with
          | RDoc b xs c => xs_eqb (f_xattrs f) (real_xattrs xs) && (f_cas f =? c)
                           && ostr_eqb b (match o_get o with RVal v _ => Some v | _ => None end)
          | _ => false
          end)
  end.

Fixpoint dump_expected (s : snapshot) (coll : string) (start : N) (keys : list string) : option (list fevent) :=
  match keys with
  | [] => Some []
  | k :: r =>
      match look (coll, k) (sn_rows s), dump_expected s coll start r with
      | Some o, Some l => match o_dump o with
                          | Some f => Some (if start <=? f_cas f then f :: l else l)
                          | None => None
                          end
      | _, _ => None
      end
  end.

Fixpoint cas_nondecreasing (l : list fevent) : bool :=
  match l with
  | a :: ((b :: _) as r) => (f_cas a <=? f_cas b) && cas_nondecreasing r
  | _ => true
  end.

Definition marker_ev (op : fopcode) : fevent := mkFevent op "" "" [] false false 0 0 0 0.

Definition chk_step_C09 : step_chk := fun prev x o ob =>
  forallb (fun e => dump_agrees_with_reads (snd e)) (sn_rows (os_snap ob))
  && match o with
     | SDump coll start =>
         match os_resp ob with
         | ROk =>
             match alookup String.eqb coll (sn_order prev) with
             | Some keys =>
                 match dump_expected prev coll start keys with
                 | Some l => fevents_eqb (os_dump ob) (marker_ev FBegin :: l ++ [marker_ev FEnd]) && cas_nondecreasing l
                 | None => true        (* a key outside the observed universe *)
                 end
             | None => false
             end
         | _ => true
         end
     | SDumpKeys coll start =>
         match os_resp ob with
         | ROk =>
             match alookup String.eqb coll (sn_order prev) with
             | Some keys =>
                 match dump_expected prev coll start keys with
                 | Some l => fevents_eqb (os_dump ob) (marker_ev FBegin :: map strip_value l ++ [marker_ev FEnd])
                 | None => true
                 end
             | None => false
             end
         | _ => true
         end
     | SKv _ _ _ => kv_step chk_row_C08 prev x o ob      (* a live event renders the state exactly as its backfill event does *)
     | _ => true
     end.

Definition chk_C09_kv (t : scase * list ostep) : bool :=
  walk chk_step_C09 (snap0 (fst t)) (sc_steps (fst t)) (snd t).

(* ------------------------------------------------------------------------------------------ *)
(* C11: a step addressed to one collection leaves every other collection exactly as it was      *)

Definition rows_outside (c : string) (s : snapshot) := filter (fun e : (string * string) * obsrow => negb (String.eqb (fst (fst e)) c)) (sn_rows s).
Definition rows_inside (c : string) (s : snapshot) := filter (fun e : (string * string) * obsrow => String.eqb (fst (fst e)) c) (sn_rows s).
Definition order_outside (c : string) (s : snapshot) := filter (fun e : string * list string => negb (String.eqb (fst e) c)) (sn_order s).

Definition rows_eqb (a b : list ((string * string) * obsrow)) : bool :=
  if list_eq_dec (fun x y : (string * string) * obsrow =>
       match sspair_eq_dec (fst x) (fst y), obsrow_eq_dec (snd x) (snd y) with
       | left e1, left e2 => left (match x, y return fst x = fst y -> snd x = snd y -> x = y with (a1, b1), (a2, b2) => fun p q => f_equal2 pair p q end e1 e2)
       | right n, _ => right (fun e => n (f_equal fst e))
       | _, right n => right (fun e => n (f_equal snd e))
       end) a b then true else false.
Definition order_eqb (a b : list (string * list string)) : bool :=
  if list_eq_dec (fun x y : string * list string =>
       match string_dec (fst x) (fst y), list_eq_dec string_dec (snd x) (snd y) with
       | left e1, left e2 => left (match x, y return fst x = fst y -> snd x = snd y -> x = y with (a1, b1), (a2, b2) => fun p q => f_equal2 pair p q end e1 e2)
       | right n, _ => right (fun e => n (f_equal fst e))
       | _, right n => right (fun e => n (f_equal snd e))
       end) a b then true else false.
Definition strs_eqb (a b : list string) : bool := if list_eq_dec string_dec a b then true else false.

Definition row_absent (o : obsrow) : bool :=
  match o_dump o, o_get o with None, RErr EMissing => negb (o_exists o) | _, _ => false end.

Definition chk_step_C11 : step_chk := fun prev x o ob =>
  let post := os_snap ob in
  match o with
  | SKv c key op =>
      rows_eqb (rows_outside c prev) (rows_outside c post)
      && order_eqb (order_outside c prev) (order_outside c post)
      && strs_eqb (sn_colls prev) (sn_colls post)
      && forallb (fun e => String.eqb (f_key e) key
                           && match look (c, key) (sn_rows post) with
                              | Some o' => match o_dump o' with Some f => f_coll e =? f_coll f | None => true end
                              | None => true
                              end) (os_live ob)
  | SDropColl name =>
      match os_resp ob with
      | ROk =>
          rows_eqb (rows_outside name prev) (rows_outside name post)
          && order_eqb (order_outside name prev) (order_outside name post)
          && strs_eqb (sn_colls post) (filter (fun n => negb (String.eqb n name)) (sn_colls prev))
          && match rows_inside name post with [] => true | _ => false end
      | _ => rows_eqb (sn_rows prev) (sn_rows post) && strs_eqb (sn_colls prev) (sn_colls post)
      end
  | SCreateColl name =>
      match os_resp ob with
      | ROk =>
          rows_eqb (rows_outside name prev) (rows_outside name post)
          && strs_eqb (sn_colls post) (sn_colls prev ++ [name])
          && forallb (fun e => row_absent (snd e)) (rows_inside name post)     (* (re-)created empty *)
      | _ => rows_eqb (sn_rows prev) (sn_rows post) && strs_eqb (sn_colls prev) (sn_colls post)
      end
  | SPurge => strs_eqb (sn_colls prev) (sn_colls post)
  | SDump _ _ | SQuery _ _ | SPutDDoc _ _ _ | SDelDDoc _ _ | SView _ _ _ _ | SDumpKeys _ _ | SGetDDocs _ | SDraw _ _ _ _ => rows_eqb (sn_rows prev) (sn_rows post) && strs_eqb (sn_colls prev) (sn_colls post)
  | SExpire | SReopen | SExpireScan _ | SExpireK _ _ _ => strs_eqb (sn_colls prev) (sn_colls post)
  end.

(* C05: PurgeTombstones removes exactly the body-less documents and reports their number *)
Definition chk_step_purge : step_chk := fun prev x o ob =>
  match o with
  | SPurge =>
      forallb (fun e => match look (fst e) (sn_rows prev) with
                        | Some o0 => if o_exists o0 then obsrow_eqb o0 (snd e) else row_absent (snd e)
                        | None => false
                        end) (sn_rows (os_snap ob))
  | _ => true
  end.

Definition chk_C11_kv (t : scase * list ostep) : bool :=
  walk chk_step_C11 (snap0 (fst t)) (sc_steps (fst t)) (snd t).

(* ------------------------------------------------------------------------------------------ *)
(* C18: a sub-document write is "read, set/remove the addressed property, write back"           *)

Definition body_obj (v : option docview) : option (option (list (string * json))) :=
  match v with
  | Some d => match v_body d with Some b => jparse_obj b | None => Some None end
  | None => Some None
  end.

Definition chk_row_C18 : rowchk := fun key coll x op pre resp evs post =>
  match op with
  | KWriteSubDoc path cas v | KSubdocInsert path cas v =>
      let insert := match op with KSubdocInsert _ _ _ => true | _ => false end in
      if mutated op resp then
        (* a supplied CAS was current; the stored document is the old one with exactly the
           addressed property set (or removed) *)
        ((cas =? 0) || (cas =? view_cas pre))
        && (if insert then has_body pre else true)
        && match parse_path path, subdoc_value v, body_obj pre, post with
           | Some p, Some jv, Some om, Some d1 =>
               let doc := JObj (match om with Some m => m | None => [] end) in
               match upsert_path doc p jv with
               | inl j' => ostr_eqb (v_body d1) (Some (jprint j'))
                           && (if insert then match eval_path doc p with inr PENotFound => true | _ => false end else true)
               | inr _ => false
               end
           | _, _, _, _ => false
           end
      else same_view pre post
           (* with no CAS supplied the call retries when it loses a race: it never reports a CAS mismatch *)
           && negb ((cas =? 0) && match resp with RErr ECasMismatch => true | _ => false end)
  | KGetSubDocRaw path =>
      match resp, parse_path path, body_obj pre with
      | RVal s c, Some p, Some (Some m) =>
          match eval_path (JObj m) p with inl j => String.eqb s (jprint j) && (c =? view_cas pre) | inr _ => false end
      | RVal _ _, _, _ => false
      | _, _, _ => true
      end
  | _ => true
  end.

Definition chk_C18_kv := chk_kv chk_row_C18.

(* C01 with "missing iff never written, deleted or purged": a purge takes away only body-less documents *)
Definition chk_C01_full (t : scase * list ostep) : bool :=
  chk_C01_kv t && walk chk_step_purge (snap0 (fst t)) (sc_steps (fst t)) (snd t).

Definition chk_C05_full (t : scase * list ostep) : bool :=
  chk_C05_kv t && walk chk_step_purge (snap0 (fst t)) (sc_steps (fst t)) (snd t).

(* ------------------------------------------------------------------------------------------ *)
(* C14: the expiry in force is the one the most recent write or touch set                       *)

Definition oexp (e : option N) (dflt : N) : N := match e with Some x => x | None => dflt end.

(* the expiry a successful call leaves, from its own arguments (None: whatever the document had) *)
Definition expected_exp (x : sctx) (op : kop) (pre : option docview) : option N :=
  let ab := abs_exp (x_now x) in
  let prev := match pre with Some d => v_exp d | None => 0 end in
  match op with
  | KAdd e _ | KAddRaw e _ | KIncr _ _ e | KTouch e | KGetAndTouch e => Some (ab e)
  | KSet e p _ | KSetRaw e p _ => Some (if p then match pre with Some d => v_exp d | None => ab e end else ab e)
  | KWriteCas e _ _ _ _ _ => Some (ab e)
  | KRemove _ | KDelete | KDeleteWithXattrs _ => Some 0
  | KSetWithMeta _ _ e _ _ _ | KDeleteWithMeta _ _ e _ => Some e
  | KSetXattrs _ | KRemoveXattrs _ _ | KDeleteSubDocPaths _ => Some prev
  | KUpdateXattrs e _ _ _ | KUpdateXattrDeleteBody _ e _ _ _ | KWriteTombstoneWithXattrs e _ _ _ _ _ => Some (ab e)
  | KWriteWithXattrs e _ _ _ _ p _ | KWriteResurrectionWithXattrs e _ _ p _ => Some (if p then prev else ab e)
  | KUpdate e (USet _ ne) | KUpdate e (UAppend _ ne) | KUpdate e (UDelete ne) => Some (ab (oexp ne e))
  | KUpdate _ (UExpOnly e) => Some (ab e)
  | KWriteSubDoc _ _ _ | KSubdocInsert _ _ _ => Some 0
  | KWriteUpdateWithXattrs (WUResult u) _ => Some (if wu_preserve u && negb (wu_tombstone u) then prev else ab (oexp (wu_expiry u) 0))
  | _ => None
  end.

Definition chk_row_C14 : rowchk := fun key coll x op pre resp evs post =>
  if mutated op resp then
    match post, expected_exp x op pre with
    | Some d, Some e => v_exp d =? e
    | _, _ => true
    end
  else same_view pre post.

Definition covers (next e : N) : bool := (e =? 0) || (negb (next =? 0) && (next <=? e)).

Definition snap_next (s : snapshot) : N := match sn_lastcas s with (_, n) :: _ => n | [] => 0 end.
Definition row_exp (o : obsrow) : N := match o_exp o with RNum e => e | _ => 0 end.

(* which documents a step of the expiry sweep is about.  The sweep goes through the collections in the order in
   which they were created (the order of the snapshot's collection list); a firing that is not interrupted
   (SExpire) takes them all; one that is interrupted after its query of collection wc has, up to there
   (SExpireScan wc), swept the collections before wc, and when it goes on (SExpireK wc keys) takes the keys its
   query returned and then the collections after wc *)
Fixpoint before_in (l : list string) (a b : string) : bool :=
  match l with
  | [] => false
  | c :: r => if String.eqb c b then false else if String.eqb c a then existsb (String.eqb b) r else before_in r a b
  end.

Definition is_sweep (o : sop) : bool := match o with SExpire | SExpireScan _ | SExpireK _ _ _ => true | _ => false end.

Definition sweep_takes (colls : list string) (o : sop) (c k : string) : bool :=
  match o with
  | SExpire => true
  | SExpireScan wc => before_in colls c wc
  | SExpireK wc keys _ => (String.eqb c wc && existsb (String.eqb k) keys) || before_in colls wc c
  | _ => false
  end.

(* after every step: a timer is armed at or before the earliest pending expiry; a firing of the timer
   at time t tombstones every document with 0 < exp <= t and leaves every other document alone.  A sweep that is
   interrupted removes, of the documents it is about (sweep_takes), those whose expiry has passed WHEN IT REMOVES
   THEM - the read-back just before the step - and no other: a document given a later expiry, or none, between the
   sweep's query and its removals stays (never early) *)
Definition chk_step_C14 : step_chk := fun prev x o ob =>
  let post := os_snap ob in
  forallb (fun e => covers (snap_next post) (row_exp (snd e))) (sn_rows post)
  && match o with
     | SExpire | SExpireScan _ | SExpireK _ _ _ =>
         forallb (fun e => match look (fst e) (sn_rows post) with
                           | Some o1 =>
                               let e0 := row_exp (snd e) in
                               if (0 <? e0) && (e0 <=? x_now x) && sweep_takes (sn_colls prev) o (fst (fst e)) (snd (fst e))
                               then negb (o_exists o1) && (row_exp o1 =? 0)
                                    && existsb (fun f => String.eqb (f_key f) (snd (fst e)) && (if fopcode_eq_dec (f_op f) FDeletion then true else false)) (os_live ob)
                               else obsrow_eqb (snd e) o1
                           | None => false
                           end) (sn_rows prev)
     | SKv _ _ _ => kv_step chk_row_C14 prev x o ob
     | _ => true
     end.

Definition chk_C14_kv (t : scase * list ostep) : bool :=
  walk chk_step_C14 (snap0 (fst t)) (sc_steps (fst t)) (snd t).

(* removal by expiry is a removal like any other: what a row checker says of Delete, it says of a document that
   the firing of the timer removed (C05: only the system xattrs stay; C17: the revision goes up by one; ...) *)
Definition chk_step_expiry (rc : rowchk) : step_chk := fun prev x o ob =>
  match o with
  | SExpire | SExpireScan _ | SExpireK _ _ _ =>
      forallb (fun e =>
                 let e0 := row_exp (snd e) in
                 if (0 <? e0) && (e0 <=? x_now x) && sweep_takes (sn_colls prev) o (fst (fst e)) (snd (fst e)) then
                   match look (fst e) (sn_rows (os_snap ob)) with
                   | Some o1 =>
                       let cid := coll_of_obs o1 0 in
                       rc (snd (fst e)) cid x KDelete (view_of_obs (snd e)) ROk
                          (filter (fun f => String.eqb (f_key f) (snd (fst e)) && (f_coll f =? cid)) (os_live ob))
                          (view_of_obs o1)
                   | None => true
                   end
                 else true) (sn_rows prev)
  | _ => true
  end.
Definition chk_expiry_kv (rc : rowchk) (t : scase * list ostep) : bool :=
  walk (chk_step_expiry rc) (snap0 (fst t)) (sc_steps (fst t)) (snd t).

(* ------------------------------------------------------------------------------------------ *)
(* C14 in real time (family ttl): for each key, when a poll last saw it, when a poll first missed it
   (wall-clock milliseconds just before and just after that read), whether a deletion event arrived *)

Record ttl_obs := mkTtlObs {
  to_coll : string; to_key : string;
  to_last_present : N;
  to_first_missing : option (N * N);
  to_del_event : bool
}.
Record ttl_run := mkTtlRun { tr_reopen_ms : N; tr_rows : list ttl_obs }.

Definition chk_ttl_row (s : store) (reopen_ms : N) (o : ttl_obs) : bool :=
  match coll_id s (to_coll o) with
  | None => true
  | Some cid =>
      match get_doc s (cid, to_key o) with
      | Some r0 =>
          if is_some (r_value r0) then
            if r_exp r0 =? 0 then is_none (to_first_missing o)            (* expiry 0: never *)
            else
              match to_first_missing o with
              | None => false                                             (* never tombstoned *)
              | Some (before, after) =>
                  let t := r_exp r0 * 1000 in
                  (t <=? after)                                           (* readable at every instant before T *)
                  && (to_last_present o <=? before)                       (* and it does not come back *)
                  && (before <=? N.max t reopen_ms + 3000)                (* tombstoned within 3 s after T (or after the reopen) *)
                  && (to_del_event o || (t <=? reopen_ms))                (* with a deletion event - which the feed opened after a
                                                                             reopen cannot have seen if the deadline had passed by then: OpenBucket arms the
                                                                             timer, which fires at once *)
              end
          else true
      | None => true
      end
  end.

Definition chk_ttl (t : scase * ttl_run) : bool :=
  let s := sfinal_from store0 (sc_steps (fst t)) in
  forallb (chk_ttl_row s (tr_reopen_ms (snd t))) (tr_rows (snd t)).

(* ------------------------------------------------------------------------------------------ *)
(* C19: a query over $_keyspace equals the same query evaluated over a key-value read-back of the
   collection (the documents that GetRaw returns, with the xattrs GetWithXattrs returns)          *)

Definition readback_docs (s : snapshot) (coll : string) : list qdoc :=
  flat_map (fun e : (string * string) * obsrow =>
              if String.eqb (fst (fst e)) coll then
                match o_get (snd e), o_doc (snd e) with
                | RVal v _, RDoc _ xs _ => [(snd (fst e), v, real_xattrs xs)]
                | _, _ => []
                end
              else []) (sn_rows s).

Definition strs_eqb' (a b : list string) : bool := if list_eq_dec string_dec a b then true else false.

Fixpoint nodup_strs (l : list string) : bool :=
  match l with [] => true | x :: r => negb (existsb (String.eqb x) r) && nodup_strs r end.

Definition chk_step_C19 : step_chk := fun prev x o ob =>
  match o with
  | SQuery coll q =>
      match os_resp ob with
      | RRows rows =>
          strs_eqb' rows (eval_query q (readback_docs prev coll))
          && match q with QCount => true | _ => nodup_strs rows end        (* every row once *)
      | _ => false
      end
  | _ => true
  end.

Definition chk_C19_kv (t : scase * list ostep) : bool :=
  walk chk_step_C19 (snap0 (fst t)) (sc_steps (fst t)) (snd t).

(* ------------------------------------------------------------------------------------------ *)
(* C12: a non-stale view query = the map function applied to the current documents (as a key-value
   read-back shows them), ordered by JSON collation of the key, then document id, then filtered     *)

Definition row_of_fevent (f : fevent) : row :=
  mkRow (match f_op f with FDeletion => None | _ => Some (f_body f) end) (f_json f) (f_cas f) (f_exp f)
        (if f_xbit f then XObj (f_xattrs f) else XNull)
        (match f_op f with FDeletion => true | _ => false end) (f_rev f).

Definition fresh_index (s : snapshot) (coll : string) (mapid : N) : list vrow :=
  flat_map (fun e : (string * string) * obsrow =>
              if String.eqb (fst (fst e)) coll then
                match o_dump (snd e) with
                | Some f => let r := row_of_fevent f in
                            if mappable r then map (fun kv => (snd (fst e), fst kv, snd kv)) (mapfn mapid (snd (fst e)) r) else []
                | None => []
                end
              else []) (sn_rows s).

(* the design documents in force, from the PutDDoc / DeleteDDoc / DropDataStore calls that succeeded *)
Definition ddocs := list ((string * string) * list (string * N)).

Definition ddocs_after (dd : ddocs) (o : sop) (r : resp) : ddocs :=
  match o, r with
  | SPutDDoc c d views, ROk => aset sspair_eqb (c, d) views dd
  | SDelDDoc c d, ROk => aremove sspair_eqb (c, d) dd
  | SDropColl c, ROk => filter (fun e : (string * string) * list (string * N) => negb (String.eqb (fst (fst e)) c)) dd
  | _, _ => dd
  end.

Definition chk_step_C12 (dd : ddocs) : step_chk := fun prev x o ob =>
  match o with
  | SView c d v p =>
      let mapid := match alookup sspair_eqb (c, d) dd with Some views => alookup String.eqb v views | None => None end in
      match mapid, os_resp ob with
      | Some m, RRows rows =>
          if vp_stale p then true
          else strs_eqb' rows (map render_vrow (reduce_rows p m (select_rows p (fresh_index prev c m))))
      | None, RErr EMissing => true
      | _, _ => false
      end
  | _ => true
  end.

Fixpoint walk_dd (dd : ddocs) (prev : snapshot) (steps : list (sctx * sop)) (obs : list ostep) : bool :=
  match steps, obs with
  | [], [] => true
  | (x, o) :: ss, ob :: os => chk_step_C12 dd prev x o ob && walk_dd (ddocs_after dd o (os_resp ob)) (os_snap ob) ss os
  | _, _ => false
  end.

Definition chk_C12_kv (t : scase * list ostep) : bool := walk_dd [] (snap0 (fst t)) (sc_steps (fst t)) (snd t).

(* C11, design documents: GetDDocs on a collection lists the design documents put into THAT collection (and not
   deleted since), with their views - whatever other collections hold *)
Definition dd_lines (c : string) (dd : ddocs) : list string :=
  str_sort (flat_map (fun e : (string * string) * list (string * N) =>
                        if String.eqb (fst (fst e)) c
                        then snd (fst e) :: map (fun nv : string * N => (snd (fst e) ++ "/" ++ fst nv ++ "=" ++ N_to_dec (snd nv))%string) (snd e)
                        else []) dd).

Definition chk_step_ddl (dd : ddocs) (o : sop) (ob : ostep) : bool :=
  match o, os_resp ob with
  | SGetDDocs c, RRows rows => strs_eqb' rows (dd_lines c dd)
  | SGetDDocs c, _ => false
  | _, _ => true
  end.

Fixpoint walk_ddl (dd : ddocs) (steps : list (sctx * sop)) (obs : list ostep) : bool :=
  match steps, obs with
  | [], [] => true
  | (x, o) :: ss, ob :: os => chk_step_ddl dd o ob && walk_ddl (ddocs_after dd o (os_resp ob)) ss os
  | _, _ => false
  end.

Definition chk_C11_ddocs (t : scase * list ostep) : bool := walk_ddl [] (sc_steps (fst t)) (snd t).

(* C11, views: what a view of one collection answers does not change while only OTHER collections are written to,
   given design documents, queried, dropped or created.  The walk remembers, per (collection, design document, view,
   parameters), the last answer and whether that query had brought the index up to date; a step that addresses the
   collection - or one that may touch every collection (purge, an expiry sweep, reopen) - forgets it.  A later query
   with the same parameters must then answer the same: a stale one always, one that updates the index first if the
   remembered query had updated it too (otherwise documents that were pending then are mapped now). *)
Definition ojson_eqb (a b : option json) : bool := ostr_eqb (option_map jprint a) (option_map jprint b).
Definition vp_same (a b : vparams) : bool :=
  Bool.eqb (vp_descending a) (vp_descending b)
  && match vp_limit a, vp_limit b with Some x, Some y => x =? y | None, None => true | _, _ => false end
  && ojson_eqb (vp_startkey a) (vp_startkey b) && ojson_eqb (vp_endkey a) (vp_endkey b)
  && Bool.eqb (vp_inclusive_end a) (vp_inclusive_end b) && ojson_eqb (vp_key a) (vp_key b)
  && Bool.eqb (vp_reduce a) (vp_reduce b).

Record vmem := mkVmem { vm_coll : string; vm_ddoc : string; vm_view : string; vm_p : vparams; vm_rows : list string; vm_fresh : bool }.

Definition vm_is (c d v : string) (p : vparams) (m : vmem) : bool :=
  String.eqb (vm_coll m) c && String.eqb (vm_ddoc m) d && String.eqb (vm_view m) v && vp_same (vm_p m) p.

Definition vmem_after (mem : list vmem) (o : sop) (ob : ostep) : list vmem :=
  let forget c := filter (fun m => negb (String.eqb (vm_coll m) c)) mem in
  match o with
  | SKv c _ _ | SDropColl c | SCreateColl c | SPutDDoc c _ _ | SDelDDoc c _ | SDraw c _ _ _ => forget c
  | SView c d v p =>
      match os_resp ob with
      | RRows rows =>
          (* a query that updates the view's index changes what stale queries of that view with other parameters answer *)
          mkVmem c d v p rows (negb (vp_stale p))
          :: filter (fun m => negb (if vp_stale p then vm_is c d v p m
                                    else String.eqb (vm_coll m) c && String.eqb (vm_ddoc m) d && String.eqb (vm_view m) v)) mem
      | _ => forget c
      end
  | SDump _ _ | SDumpKeys _ _ | SQuery _ _ | SGetDDocs _ => mem
  | SPurge | SReopen | SExpire | SExpireScan _ | SExpireK _ _ _ => []
  end.

Definition chk_step_vmem (mem : list vmem) (o : sop) (ob : ostep) : bool :=
  match o, os_resp ob with
  | SView c d v p, RRows rows =>
      match filter (vm_is c d v p) mem with
      | m :: _ => if vp_stale p || vm_fresh m then strs_eqb' rows (vm_rows m) else true
      | [] => true
      end
  | _, _ => true
  end.

Fixpoint walk_vmem (mem : list vmem) (steps : list (sctx * sop)) (obs : list ostep) : bool :=
  match steps, obs with
  | [], [] => true
  | (x, o) :: ss, ob :: os => chk_step_vmem mem o ob && walk_vmem (vmem_after mem o ob) ss os
  | _, _ => false
  end.

Definition chk_C11_views (t : scase * list ostep) : bool := walk_vmem [] (sc_steps (fst t)) (snd t).

(* ------------------------------------------------------------------------------------------ *)
(* C10: what a bucket shows when it is reopened after the process was killed                     *)

Record crash_obs := mkCrashObs {
  co_acked : N;              (* steps acknowledged before the kill *)
  co_finished : bool;        (* the kill point was never reached: the whole history ran *)
  co_committed : bool;       (* the kill came after the interrupted call's transaction had committed *)
  co_snap : snapshot;        (* full read-back through a fresh process *)
  co_ddocs : list string;    (* collection/designdoc/view, sorted *)
  co_uuid_same : bool
}.

Definition reopen_step : sctx * sop := (mkSctx 0 0 0, SReopen).

Definition snap_after (c : scase) (k : nat) : snapshot :=
  match rev (srun (mkScase (sc_colls c) (sc_keys c) (sc_xnames c) (firstn k (sc_steps c) ++ [reopen_step]))) with
  | o :: _ => os_snap o
  | [] => snap0 c
  end.

Fixpoint insert_string (x : string) (l : list string) : list string :=
  match l with
  | [] => [x]
  | y :: r => match String.compare x y with Gt => y :: insert_string x r | _ => x :: l end
  end.

Definition default_vparams : vparams := mkVparams false false None None None true None true.

(* every view of every design document, with what a non-stale query without parameters answers *)
Definition crash_ddocs_after (c : scase) (k : nat) : list string :=
  let s := sfinal_from store0 (firstn k (sc_steps c)) in
  fold_right insert_string []
    (map (fun v => match alookup N.eqb (vd_coll v) (s_colls s) with
                   | Some p => (fst p ++ "/" ++ vd_ddoc v ++ "/" ++ vd_name v ++ "="
                                ++ String.concat "" (map (fun r => (render_vrow r ++ ";")%string)
                                     (reduce_rows default_vparams (vd_map v) (select_rows default_vparams (vd_rows (update_view s v))))))%string
                   | None => "?"%string
                   end) (s_views s)).

Definition snapshot_eqb (a b : snapshot) : bool :=
  strs_eqb (sn_colls a) (sn_colls b) && rows_eqb (sn_rows a) (sn_rows b) && order_eqb (sn_order a) (sn_order b)
  && (match sn_lastcas a, sn_lastcas b with
      | (_, x) :: _, (_, y) :: _ => x =? y
      | [], [] => true
      | _, _ => false
      end).

Definition crash_state_is (c : scase) (o : crash_obs) (k : nat) : bool :=
  snapshot_eqb (snap_after c k) (co_snap o) && strs_eqb (crash_ddocs_after c k) (co_ddocs o).

(* the property: the acknowledged prefix is there; the interrupted call is there entirely or not at all;
   the bucket is the same bucket *)
Definition chk_crash (t : scase * crash_obs) : bool :=
  let a := N.to_nat (co_acked (snd t)) in
  co_uuid_same (snd t)
  && (crash_state_is (fst t) (snd t) a || (negb (co_finished (snd t)) && crash_state_is (fst t) (snd t) (S a))).

(* the correspondence: exactly which of the two, from where the kill happened *)
Definition crash_corr_ok (t : scase * crash_obs) : bool :=
  let a := N.to_nat (co_acked (snd t)) in
  co_uuid_same (snd t)
  && crash_state_is (fst t) (snd t) (if negb (co_finished (snd t)) && co_committed (snd t) then S a else a).

Definition crash_model (c : scase) := (snap_after c (List.length (sc_steps c)), crash_ddocs_after c (List.length (sc_steps c))).

(* ------------------------------------------------------------------------------------------ *)
(* C04 on kv histories (one bucket, scripted clocks, drops, purges, reopen): every CAS stamped by the
   regular API exceeds every CAS stamped before it, across reopen too.  WithMeta writes carry a CAS of
   the caller's choosing and are not part of the statement.                                       *)
Definition is_withmeta_step (o : sop) : bool :=
  match o with SKv _ _ (KSetWithMeta _ _ _ _ _ _) | SKv _ _ (KDeleteWithMeta _ _ _ _) => true | _ => false end.

Fixpoint cas_increasing_walk (maxcas : N) (steps : list (sctx * sop)) (obs : list ostep) : bool :=
  match steps, obs with
  | [], _ => true
  | (_, o) :: ss, ob :: os =>
      if is_withmeta_step o then cas_increasing_walk maxcas ss os else
      let cs := map f_cas (os_live ob) in
      forallb (fun c => maxcas <? c) cs && strictly_increasing cs
      && cas_increasing_walk (fold_left N.max cs maxcas) ss os
  | _ :: _, [] => false
  end.

Definition chk_C04_kv (t : scase * list ostep) : bool := cas_increasing_walk 0 (sc_steps (fst t)) (snd t).
