(* ViewProofs.v - C12: after a non-stale query a view's index is exactly the map function applied to the
   current documents of its collection.  Invariant (per view, in every reachable store): every document
   is INDEXED (its index rows are what the map function emits for its current version) or PENDING
   (its CAS exceeds views.lastCas and the collection's lastCas has moved, so the next non-stale query
   re-maps it); there are no rows of documents that no longer exist.                                *)
From Rosmar Require Import Base Json Crc Hlc HlcProofs Kv Store Trace KvTac KvRowOk KvLift KvFrame.

Definition rows_of (v : vdef) (k : string) : list vrow :=
  filter (fun row : vrow => String.eqb (fst (fst row)) k) (vd_rows v).

Definition expected_rows (m : N) (k : string) (r : row) : list vrow :=
  if mappable r then map (fun kv => (k, fst kv, snd kv)) (mapfn m k r) else [].

Definition indexed (v : vdef) (k : string) (r : row) : Prop := rows_of v k = expected_rows (vd_map v) k r.
Definition pending (s : store) (v : vdef) (r : row) : Prop :=
  vd_lastcas v < r_cas r /\ coll_lastcas s (vd_coll v) <> vd_lastcas v.

Record view_ok (s : store) (v : vdef) : Prop := mkViewOk {
  vo_docs : forall k r, get_doc s (vd_coll v, k) = Some r -> indexed v k r \/ pending s v r;
  vo_orphans : forall row, In row (vd_rows v) -> get_doc s (vd_coll v, fst (fst row)) <> None;
  vo_bound : vd_lastcas v <= s_high s
}.

(* ---- list facts ---- *)
Lemma filter_key_filter (g : string -> bool) (k : string) (l : list vrow) :
  filter (fun row : vrow => String.eqb (fst (fst row)) k) (filter (fun row : vrow => g (fst (fst row))) l)
  = if g k then filter (fun row : vrow => String.eqb (fst (fst row)) k) l else [].
Proof.
  induction l as [|row r IH]; cbn [filter]; [destruct (g k); reflexivity|].
  destruct (g (fst (fst row))) eqn:Gr; cbn [filter]; destruct (String.eqb (fst (fst row)) k) eqn:E; rewrite IH.
  - apply String.eqb_eq in E. rewrite <- E, Gr. reflexivity.
  - reflexivity.
  - apply String.eqb_eq in E. rewrite <- E, Gr. reflexivity.
  - reflexivity.
Qed.

Lemma filter_key_tagged (k : string) (d : dkey * row) (kvs : list (json * json)) :
  filter (fun row : vrow => String.eqb (fst (fst row)) k) (map (fun kv => (snd (fst d), fst kv, snd kv)) kvs)
  = if String.eqb (snd (fst d)) k then map (fun kv => (snd (fst d), fst kv, snd kv)) kvs else [].
Proof.
  induction kvs as [|kv r IH]; cbn; [destruct (String.eqb _ k); reflexivity|].
  destruct (String.eqb (snd (fst d)) k); rewrite IH; reflexivity.
Qed.

Definition fresh_rows (m : N) (d : dkey * row) : list vrow :=
  if mappable (snd d) then map (fun kv => (snd (fst d), fst kv, snd kv)) (mapfn m (snd (fst d)) (snd d)) else [].

Lemma filter_key_fresh_one (m : N) (k : string) (d : dkey * row) :
  filter (fun row : vrow => String.eqb (fst (fst row)) k) (fresh_rows m d)
  = if String.eqb (snd (fst d)) k then fresh_rows m d else [].
Proof.
  unfold fresh_rows. destruct (mappable (snd d)); [apply filter_key_tagged|]. cbn. destruct (String.eqb _ k); reflexivity.
Qed.

Lemma filter_key_fresh (m : N) (k : string) (l : list (dkey * row)) :
  filter (fun row : vrow => String.eqb (fst (fst row)) k) (flat_map (fresh_rows m) l)
  = flat_map (fresh_rows m) (filter (fun d : dkey * row => String.eqb (snd (fst d)) k) l).
Proof.
  induction l as [|d r IH]; cbn [flat_map filter]; [reflexivity|]. rewrite filter_app, IH, filter_key_fresh_one.
  destruct (String.eqb (snd (fst d)) k); reflexivity.
Qed.

(* at most one document per (collection, key) *)
Lemma filter_doc_unique (docs : list (dkey * row)) cid k (P : row -> bool) : NoDup (akeys docs) ->
  filter (fun d : dkey * row => String.eqb (snd (fst d)) k)
         (filter (fun d : dkey * row => (fst (fst d) =? cid) && P (snd d)) docs)
  = match alookup dkey_eqb (cid, k) docs with
    | Some r => if P r then [((cid, k), r)] else []
    | None => []
    end.
Proof.
  induction docs as [|[[c k'] r] rest IH]; cbn; intros Hnd; [reflexivity|].
  inversion Hnd as [|? ? Hn Hr]; subst. specialize (IH Hr).
  unfold dkey_eqb at 1; cbn [fst snd].
  destruct (N.eqb_spec c cid) as [->|Hc]; cbn.
  - rewrite N.eqb_refl. cbn. destruct (String.eqb_spec k k') as [<-|Hk].
    + (* this is the document; no other has its key *)
      assert (alookup dkey_eqb (cid, k) rest = None) as Hnone by (apply alookup_None_notin; exact Hn).
      rewrite Hnone in IH. destruct (P r); cbn; [rewrite String.eqb_refl, IH; reflexivity | exact IH].
    + destruct (N.eqb_spec cid cid); [|congruence]. cbn.
      destruct (P r); cbn; [destruct (String.eqb_spec k' k); [congruence|]|]; exact IH.
  - destruct (N.eqb_spec cid c); [congruence|]. cbn. exact IH.
Qed.

(* ---- the index update ---- *)
Lemma existsb_filter {A} (f : A -> bool) l : existsb f l = match filter f l with [] => false | _ => true end.
Proof. induction l as [|a r IH]; cbn; [reflexivity|]. destruct (f a); cbn; [reflexivity | exact IH]. Qed.

Definition changed_docs (s : store) (v : vdef) : list (dkey * row) :=
  filter (fun d : dkey * row => (fst (fst d) =? vd_coll v) && (vd_lastcas v <? r_cas (snd d))) (s_docs s).

Lemma changed_with_key s v k : tables_ok s ->
  filter (fun d : dkey * row => String.eqb (snd (fst d)) k) (changed_docs s v)
  = match get_doc s (vd_coll v, k) with
    | Some r => if vd_lastcas v <? r_cas r then [((vd_coll v, k), r)] else []
    | None => []
    end.
Proof. intros Hs. unfold changed_docs, get_doc. apply (filter_doc_unique (s_docs s) (vd_coll v) k (fun r => vd_lastcas v <? r_cas r)). apply Hs. Qed.

Lemma update_view_unfold s v : coll_lastcas s (vd_coll v) <> vd_lastcas v ->
  update_view s v = mkVdef (vd_coll v) (vd_ddoc v) (vd_name v) (vd_map v) (coll_lastcas s (vd_coll v))
    (filter (fun vr : vrow => negb (existsb (fun d : dkey * row => String.eqb (snd (fst d)) (fst (fst vr))) (changed_docs s v))) (vd_rows v)
     ++ flat_map (fresh_rows (vd_map v)) (changed_docs s v)).
Proof.
  intros Hne. unfold update_view. destruct (N.eqb_spec (coll_lastcas s (vd_coll v)) (vd_lastcas v)); [contradiction|]. reflexivity.
Qed.

Lemma update_view_same s v : coll_lastcas s (vd_coll v) = vd_lastcas v -> update_view s v = v.
Proof. intros E. unfold update_view. rewrite E, N.eqb_refl. reflexivity. Qed.

(* after the update every document of the collection is indexed, and there are no orphan rows *)
Theorem update_view_indexed s v : tables_ok s -> view_ok s v ->
  let v' := update_view s v in
  (forall k r, get_doc s (vd_coll v, k) = Some r -> indexed v' k r)
  /\ (forall row, In row (vd_rows v') -> get_doc s (vd_coll v, fst (fst row)) <> None)
  /\ vd_lastcas v' = coll_lastcas s (vd_coll v)
  /\ vd_coll v' = vd_coll v /\ vd_map v' = vd_map v /\ vd_ddoc v' = vd_ddoc v /\ vd_name v' = vd_name v.
Proof.
  intros Hs [Hdocs Horph Hb]. cbv zeta.
  destruct (N.eq_dec (coll_lastcas s (vd_coll v)) (vd_lastcas v)) as [E|Hne].
  - rewrite (update_view_same s v E). repeat split; auto.
    intros k r Hg. destruct (Hdocs k r Hg) as [H|[_ H]]; [exact H | contradiction].
  - rewrite (update_view_unfold s v Hne). cbn [vd_coll vd_map vd_ddoc vd_name vd_lastcas vd_rows]. repeat split.
    + intros k r Hg. unfold indexed, rows_of. cbn [vd_rows vd_map].
      rewrite filter_app.
      rewrite (filter_key_filter (fun key => negb (existsb (fun d : dkey * row => String.eqb (snd (fst d)) key) (changed_docs s v))) k (vd_rows v)).
      rewrite filter_key_fresh, existsb_filter, (changed_with_key s v k Hs), Hg.
      destruct (vd_lastcas v <? r_cas r) eqn:Elt; cbn [negb flat_map app].
      * rewrite app_nil_r. reflexivity.
      * rewrite app_nil_r. destruct (Hdocs k r Hg) as [H|[H _]]; [exact H|]. apply N.ltb_ge in Elt. lia.
    + intros row Hin. apply in_app_iff in Hin. destruct Hin as [Hin|Hin].
      * apply filter_In in Hin. apply Horph. apply Hin.
      * apply in_flat_map in Hin. destruct Hin as (d & Hd & Hrow).
        unfold changed_docs in Hd. apply filter_In in Hd. destruct Hd as [Hd Hq].
        apply andb_true_iff in Hq. destruct Hq as [Hc _]. apply N.eqb_eq in Hc.
        unfold fresh_rows in Hrow. destruct (mappable (snd d)); [|destruct Hrow].
        apply in_map_iff in Hrow. destruct Hrow as (kv & <- & _). cbn [fst].
        destruct d as [[c k] r]. cbn in *. subst c.
        assert (get_doc s (vd_coll v, k) = Some r) as Hg by (unfold get_doc; apply (In_alookup dkey_eqb dkey_eqb_spec); [apply Hs | exact Hd]).
        congruence.
Qed.

(* ---- what one call does to the fields the map function reads ---- *)
Definition same_map (r0 r1 : row) : Prop :=
  r_value r0 = r_value r1 /\ r_isJSON r0 = r_isJSON r1 /\ r_xattrs r0 = r_xattrs r1 /\ r_cas r0 = r_cas r1.

Lemma kstep_view_cases ctx op r : wf_op op -> orow_ok r ->
  let res := kstep ctx op r in
  (kr_commit res = None \/ (kr_commit res = Some (k_cas ctx) /\ kr_draws res <> 0))
  /\ match kr_row res with
     | None => r = None
     | Some r1 =>
         (exists r0, r = Some r0 /\ same_map r0 r1)
         \/ (r_cas r1 = k_cas ctx /\ kr_commit res = Some (k_cas ctx))
         \/ (is_withmeta op = true /\ resp_is_err (kr_resp res) = false /\ kr_commit res = Some (k_cas ctx))
     end.
Proof.
  intros Hwf H. cbv zeta.
  match goal with |- context [kstep ?cc ?oo ?rr] =>
    let res := fresh "res" in let Hres := fresh "Hres" in
    remember (kstep cc oo rr) as res eqn:Hres;
    destruct r as [[v0 j0 c0 e0 x0 t0 rv0]|]; cbn in H; [unfold row_ok in H; cbn in H; subst t0|];
    destruct op; cbn [kstep] in Hres; unf; unf; unfold wwx, with_resp in Hres;
    cbn [r_value r_tomb r_cas r_rev r_xattrs r_isJSON r_exp option_map kr_row kr_resp kr_events kr_draws kr_commit kfail fst snd] in Hres;
    brkH Hres; subst res; inv_all
  end;
  cbn [r_value r_tomb r_cas r_rev r_xattrs r_isJSON r_exp kr_row kr_resp kr_events kr_draws kr_commit kfail fst snd new_row is_withmeta resp_is_err].
  all: split; [first [left; reflexivity | right; split; [reflexivity | discriminate]] |].
  all: try reflexivity.
  all: first [ left; eexists; split; [reflexivity | repeat split; reflexivity]
             | right; left; split; reflexivity
             | right; right; repeat split; reflexivity
             | idtac ].
Qed.

Lemma kstep_meta_commit ctx op r : wf_op op -> orow_ok r ->
  let res := kstep ctx op r in
  is_withmeta op = true -> resp_is_err (kr_resp res) = false -> kr_commit res = Some (k_cas ctx).
Proof.
  intros Hwf H. cbv zeta.
  match goal with |- context [kstep ?cc ?oo ?rr] =>
    let res := fresh "res" in let Hres := fresh "Hres" in
    remember (kstep cc oo rr) as res eqn:Hres;
    destruct r as [[v0 j0 c0 e0 x0 t0 rv0]|]; cbn in H; [unfold row_ok in H; cbn in H; subst t0|];
    destruct op; cbn [is_withmeta]; try (intros; discriminate);
    cbn [kstep] in Hres; unf; unf; unfold wwx, with_resp in Hres;
    cbn [r_value r_tomb r_cas r_rev r_xattrs r_isJSON r_exp option_map kr_row kr_resp kr_events kr_draws kr_commit kfail fst snd] in Hres;
    brkH Hres; subst res; inv_all
  end;
  cbn [kr_row kr_resp kr_events kr_draws kr_commit kfail fst snd resp_is_err]; intros _ He; first [reflexivity | discriminate He].
Qed.

Lemma expected_same_map m k r0 r1 : same_map r0 r1 -> expected_rows m k r0 = expected_rows m k r1.
Proof.
  intros (Hv & Hj & Hx & _). unfold expected_rows, mappable, mapfn, map_doc, map_xattrs. rewrite Hv, Hj, Hx. reflexivity.
Qed.

(* ---- the invariant ---- *)
Record views_inv (s : store) : Prop := mkViewsInv {
  vi_tables : tables_ok s;
  vi_store : store_ok s;
  vi_views : forall v, In v (s_views s) -> view_ok s v;
  vi_coll : forall cid, coll_lastcas s cid <= s_high s;
  vi_written : forall cid k r, get_doc s (cid, k) = Some r -> coll_lastcas s cid <> 0
}.

Lemma alookup_set_other cid c cs cid' : cid' <> cid ->
  alookup N.eqb cid' (set_coll_lastcas cid c cs) = alookup N.eqb cid' cs.
Proof.
  intros Hne. induction cs as [|[i [n l]] r IH]; cbn; [reflexivity|].
  destruct (N.eqb_spec i cid) as [->|Hi]; cbn.
  - destruct (N.eqb_spec cid' cid); [contradiction | exact IH].
  - destruct (N.eqb_spec cid' i); [reflexivity | exact IH].
Qed.

Lemma alookup_set_same cid c cs : In cid (map fst cs) ->
  exists n, alookup N.eqb cid (set_coll_lastcas cid c cs) = Some (n, c).
Proof.
  induction cs as [|[i [n l]] r IH]; cbn; [intros []|]. intros [->|Hin].
  - rewrite N.eqb_refl. cbn. rewrite N.eqb_refl. eauto.
  - destruct (N.eqb_spec i cid) as [->|Hi]; cbn.
    + rewrite N.eqb_refl. eauto.
    + destruct (N.eqb_spec cid i); [congruence | apply IH, Hin].
Qed.

Definition kres_of (s : store) (x : sctx) (cid : N) (key : string) (op : kop) : kres :=
  kstep (mkCtx (x_now x) (hlc_now (s_high s) (x_clock x)) (x_maxdoc x)) op (get_doc s (cid, key)).

Definition vreset (cid : N) (v : vdef) : vdef :=
  if vd_coll v =? cid then mkVdef (vd_coll v) (vd_ddoc v) (vd_name v) (vd_map v) 0 (vd_rows v) else v.

Lemma kv_on_high s x cid key op :
  s_high (sr_store (kv_on s x cid key op))
  = if kr_draws (kres_of s x cid key op) =? 0 then s_high s else hlc_now (s_high s) (x_clock x) + (kr_draws (kres_of s x cid key op) - 1).
Proof. reflexivity. Qed.

Lemma kv_on_colls s x cid key op :
  s_colls (sr_store (kv_on s x cid key op))
  = match kr_commit (kres_of s x cid key op) with Some c => set_coll_lastcas cid c (s_colls s) | None => s_colls s end.
Proof. reflexivity. Qed.

Lemma kv_on_views s x cid key op :
  s_views (sr_store (kv_on s x cid key op))
  = if is_withmeta op && negb (resp_is_err (kr_resp (kres_of s x cid key op))) then map (vreset cid) (s_views s) else s_views s.
Proof. reflexivity. Qed.

Lemma kv_on_coll_lastcas s x cid key op cid' : In cid (coll_ids s) ->
  coll_lastcas (sr_store (kv_on s x cid key op)) cid'
  = match kr_commit (kres_of s x cid key op) with
    | Some c => if cid' =? cid then c else coll_lastcas s cid'
    | None => coll_lastcas s cid'
    end.
Proof.
  intros Hin. unfold coll_lastcas. rewrite kv_on_colls. destruct (kr_commit _) as [c|]; [|reflexivity].
  destruct (N.eqb_spec cid' cid) as [->|Hne].
  - destruct (alookup_set_same cid c (s_colls s) Hin) as (n & ->). reflexivity.
  - rewrite alookup_set_other by exact Hne. reflexivity.
Qed.
