(* FeedProofs.v - theorems about the interleaving model Feed.v (C08 ordering, C09 no-gap, C15). *)
From Rosmar Require Import Base Feed.

(* ------------------------------------------------------------------------------------------ *)
(* The full statements are false of the faithful model: witnesses (replayed on the code by the sched
   family, corpus/sched/w0*.jsonl).                                                              *)

Definition order_everywhere : Prop :=
  forall acts, forallb (fun fs => order_ok_feed (snd fs)) (feeds (frun_all acts)) = true.

Definition inversion_witness : list action :=
  [ABackfill 0 0 (FromCas 0); ARegister 0; ACommit 1 "k1"; ACommit 2 "k2"; ASnapshot 2; APush 2; ASnapshot 1; APush 1;
   ADeliver 0; ADeliver 0].

Theorem order_refuted : ~ order_everywhere.
Proof. intros H. specialize (H inversion_witness). vm_compute in H. discriminate. Qed.

Definition no_gap_everywhere : Prop :=
  forall acts name, In name (names_of acts) -> settled (frun_all acts) name = true -> complete_for (frun_all acts) name = true.

Definition gap_witness : list action :=
  [ABackfill 0 0 (FromCas 0); ACommit 1 "k1"; ASnapshot 1; APush 1; ARegister 0].

Theorem gap_refuted : ~ no_gap_everywhere.
Proof.
  intros H. assert (complete_for (frun_all gap_witness) 0%nat = true) as C by (apply H; [vm_compute; auto | vm_compute; reflexivity]).
  vm_compute in C. discriminate.
Qed.

Definition resume_skip_witness : list action :=
  [ABackfill 0 0 Resume; ARegister 0; ACommit 1 "k1"; ACommit 2 "k2"; ASnapshot 2; APush 2; ADeliver 0; AStop 0;
   ASnapshot 1; APush 1; ABackfill 1 0 Resume; ARegister 1; ADeliver 1].

Theorem resume_skip_refuted : ~ no_gap_everywhere.
Proof.
  intros H. assert (complete_for (frun_all resume_skip_witness) 0%nat = true) as C by (apply H; [vm_compute; auto | vm_compute; reflexivity]).
  vm_compute in C. discriminate.
Qed.

(* ------------------------------------------------------------------------------------------ *)
(* C15, second half, in full: in every state any action list reaches, a persisted checkpoint is 0 or is
   at most a CAS the feed of that name has actually delivered.                                    *)

Definition del_of (s : fstate) (name : nat) : list ev := match nlookup name (delivered s) with Some l => l | None => [] end.
Definition covered_cas (s : fstate) (name : nat) (c : N) : Prop := c = 0 \/ exists e, In e (del_of s name) /\ c <= snd e.

Definition ckpt_inv (s : fstate) : Prop :=
  (forall name c, nlookup name (ckpt s) = Some c -> covered_cas s name c)
  /\ (forall f st, nlookup f (feeds s) = Some st -> covered_cas s (fname st) (flast st)).

Lemma nat_eqb_spec' a b : Nat.eqb a b = true <-> a = b. Proof. apply Nat.eqb_eq. Qed.

Lemma nlookup_nset_same {V} k (v : V) l : nlookup k (nset k v l) = Some v.
Proof. apply (alookup_aset_same Nat.eqb nat_eqb_spec'). Qed.
Lemma nlookup_nset_other {V} k k' (v : V) l : k' <> k -> nlookup k' (nset k v l) = nlookup k' l.
Proof. apply (alookup_aset_other Nat.eqb nat_eqb_spec'). Qed.

Lemma covered_mono s s' name c :
  (forall e, In e (del_of s name) -> In e (del_of s' name)) -> covered_cas s name c -> covered_cas s' name c.
Proof. intros H [E|(e & He & Hle)]; [left; exact E | right; exists e; split; [apply H; exact He | exact Hle]]. Qed.

(* pushing an event into queues changes neither fname nor flast of any run *)
Lemma push_to_last e targets : forall fs f st, nlookup f (push_to e fs targets) = Some st ->
  exists st0, nlookup f fs = Some st0 /\ fname st = fname st0 /\ flast st = flast st0.
Proof.
  induction targets as [|t r IH]; intros fs f st H; cbn [push_to fold_left] in H; [eauto|].
  unfold push_to in IH. apply IH in H. destruct H as (st1 & H1 & Hn & Hl).
  destruct (nlookup t fs) as [stt|] eqn:Et; [|eauto].
  destruct (fclosed stt); [eauto|].
  destruct (Nat.eq_dec f t) as [->|Hne].
  - rewrite nlookup_nset_same in H1. inversion H1; subst. exists stt. cbn in *. auto.
  - rewrite nlookup_nset_other in H1 by exact Hne. eauto.
Qed.

Lemma del_of_add_same s0 name e d : del_of (mkFstate (rows s0) (clock s0) (pending s0) (feeds s0) (registered s0) (ckpt s0) (add_delivered name e d)) name
  = (match nlookup name d with Some l => l | None => [] end) ++ [e].
Proof. unfold del_of, add_delivered; cbn [delivered]. rewrite nlookup_nset_same. destruct (nlookup name d); reflexivity. Qed.

Lemma deliver_one_inv s f : ckpt_inv s -> ckpt_inv (deliver_one s f).
Proof.
  intros [Hc Hf]. unfold deliver_one. destruct (nlookup f (feeds s)) as [st|] eqn:Ef; [|split; assumption].
  destruct (fq st) as [|e q] eqn:Eq; [split; assumption|]. destruct (fclosed st) eqn:Ecl; [split; assumption|].
  assert (forall name x, In x (del_of s name) ->
            In x (del_of (mkFstate (rows s) (clock s) (pending s)
                   (nset f (mkFeedst q false (if flast st <? snd e then snd e else flast st) (fchanged st || (flast st <? snd e)) (frun st ++ [e]) (fname st)) (feeds s))
                   (registered s) (ckpt s) (add_delivered (fname st) e (delivered s))) name)) as Hmono.
  { intros name x Hx. unfold del_of in *; cbn [delivered]. unfold add_delivered.
    destruct (Nat.eq_dec name (fname st)) as [->|Hne].
    - rewrite nlookup_nset_same. destruct (nlookup (fname st) (delivered s)); [apply in_or_app; left; exact Hx | destruct Hx].
    - rewrite nlookup_nset_other by exact Hne. exact Hx. }
  split.
  - intros name c H. cbn [ckpt] in H. eapply covered_mono; [apply Hmono | apply Hc; exact H].
  - intros f' st' H. cbn [feeds] in H. destruct (Nat.eq_dec f' f) as [->|Hne].
    + rewrite nlookup_nset_same in H. inversion H; subst st'. cbn [fname flast].
      destruct (N.ltb_spec (flast st) (snd e)).
      * right. exists e. split; [|lia]. unfold del_of; cbn [delivered]. unfold add_delivered. rewrite nlookup_nset_same.
        destruct (nlookup (fname st) (delivered s)); [apply in_or_app; right; left; reflexivity | left; reflexivity].
      * eapply covered_mono; [apply Hmono | apply (Hf f st Ef)].
    + rewrite nlookup_nset_other in H by exact Hne. eapply covered_mono; [apply Hmono | apply (Hf f' st' H)].
Qed.

Theorem fstep_ckpt_inv s a : ckpt_inv s -> ckpt_inv (fstep s a).
Proof.
  intros Hinv. destruct a; cbn [fstep].
  - destruct Hinv as [Hc Hf]. split; cbn [ckpt feeds]; assumption.
  - destruct (nlookup w (pending s)) as [[e [t|]]|]; exact Hinv.
  - destruct (nlookup w (pending s)) as [[e [t|]]|]; try exact Hinv. destruct Hinv as [Hc Hf]. split; cbn [ckpt feeds delivered].
    + exact Hc.
    + intros f st H. apply push_to_last in H. destruct H as (st0 & H0 & Hn & Hl). rewrite Hn, Hl. apply (Hf f st0 H0).
  - (* a new run: lastCas is 0 or the persisted checkpoint *)
    destruct Hinv as [Hc Hf]. split; cbn [ckpt feeds delivered]; [exact Hc|].
    intros f' st H. destruct (Nat.eq_dec f' f) as [->|Hne].
    + rewrite nlookup_nset_same in H. inversion H; subst st. cbn [fname flast]. destruct m.
      * left. reflexivity.
      * destruct (nlookup name (ckpt s)) as [c|] eqn:Ec; [apply (Hc name c Ec) | left; reflexivity].
    + rewrite nlookup_nset_other in H by exact Hne. apply (Hf f' st H).
  - destruct Hinv as [Hc Hf]. split; cbn [ckpt feeds]; assumption.
  - apply deliver_one_inv. exact Hinv.
  - (* stop: deliver the event already pulled, then persist lastCas *)
    pose proof (deliver_one_inv s f Hinv) as [Hc Hf]. set (s1 := deliver_one s f) in *.
    destruct (nlookup f (feeds s1)) as [st|] eqn:Ef; [|split; assumption].
    destruct (fclosed st); [split; assumption|].
    destruct (fchanged st).
    + split; cbn [ckpt feeds delivered].
      * intros name c H. destruct (Nat.eq_dec name (fname st)) as [->|Hne].
        -- rewrite nlookup_nset_same in H. inversion H; subst c. apply (Hf f st Ef).
        -- rewrite nlookup_nset_other in H by exact Hne. apply (Hc name c H).
      * intros f' st' H. apply push_to_last in H. destruct H as (st0 & H0 & Hn & Hl). rewrite Hn, Hl.
        destruct (Nat.eq_dec f' f) as [->|Hne].
        -- rewrite nlookup_nset_same in H0. inversion H0; subst st0. cbn [fname flast]. apply (Hf f st Ef).
        -- rewrite nlookup_nset_other in H0 by exact Hne. apply (Hf f' st0 H0).
    + split; cbn [ckpt feeds delivered]; [exact Hc|].
      intros f' st' H. destruct (Nat.eq_dec f' f) as [->|Hne].
      * rewrite nlookup_nset_same in H. inversion H; subst st'. cbn [fname flast]. apply (Hf f st Ef).
      * rewrite nlookup_nset_other in H by exact Hne. apply (Hf f' st' H).
Qed.

Theorem ckpt_le_delivered acts name c :
  nlookup name (ckpt (frun_all acts)) = Some c -> c = 0 \/ exists e, In e (del_of (frun_all acts) name) /\ c <= snd e.
Proof.
  unfold frun_all.
  assert (forall acts s, ckpt_inv s -> ckpt_inv (fold_left fstep acts s)) as H.
  { induction acts0 as [|a r IH]; intros s Hs; cbn [fold_left]; [exact Hs | apply IH, fstep_ckpt_inv, Hs]. }
  assert (ckpt_inv fstate0) as H0 by (split; cbn; intros; discriminate).
  intros Hl. exact (proj1 (H acts fstate0 H0) name c Hl).
Qed.
