(* JsonProofs.v - what a sub-document write does to a JSON object (C18): the addressed property is
   set / removed, every property on a diverging path is untouched.                             *)
From Rosmar Require Import Base Json.

Lemma oget_set_same {V} k (v : V) m : obj_get k (obj_set k v m) = Some v.
Proof.
  unfold obj_get. induction m as [|[k2 v2] r IH]; cbn.
  - rewrite String.eqb_refl. reflexivity.
  - destruct (String.eqb k k2) eqn:E; cbn.
    + rewrite String.eqb_refl. reflexivity.
    + destruct (str_ltb k k2); cbn; [rewrite String.eqb_refl; reflexivity | rewrite E; exact IH].
Qed.

Lemma oget_set_other {V} k k' (v : V) m : k' <> k -> obj_get k' (obj_set k v m) = obj_get k' m.
Proof.
  intros Hne. unfold obj_get. induction m as [|[k2 v2] r IH]; cbn.
  - rewrite (proj2 (String.eqb_neq k' k) Hne). reflexivity.
  - destruct (String.eqb k k2) eqn:E.
    + apply String.eqb_eq in E; subst k2. cbn. rewrite (proj2 (String.eqb_neq k' k) Hne). reflexivity.
    + destruct (str_ltb k k2); cbn.
      * rewrite (proj2 (String.eqb_neq k' k) Hne). reflexivity.
      * destruct (String.eqb k' k2); [reflexivity | exact IH].
Qed.

Lemma oget_del_same {V} k (m : list (string * V)) : obj_get k (obj_del k m) = None.
Proof. apply alookup_aremove_same. Qed.

Lemma oget_del_other {V} k k' (m : list (string * V)) : k' <> k -> obj_get k' (obj_del k m) = obj_get k' m.
Proof. intros Hne. apply (alookup_aremove_other String.eqb String.eqb_eq). exact Hne. Qed.

Lemma upsert_is_obj p : forall j v j', upsert_path j p v = inl j' -> exists m, j' = JObj m.
Proof.
  destruct p as [|k r]; intros j v j' H; cbn in H; [discriminate|].
  destruct r as [|k2 r2].
  - destruct j; try discriminate. inversion H. eauto.
  - destruct j; try discriminate. destruct (obj_get k m) as [[]|]; try discriminate.
    all: match type of H with match ?u with _ => _ end = _ => destruct u; [inversion H; eauto | discriminate] end.
Qed.

(* two paths diverge: after a common prefix they name different properties *)
Fixpoint diverges (p p' : list string) : bool :=
  match p, p' with
  | k :: r, k' :: r' => if String.eqb k k' then diverges r r' else true
  | _, _ => false
  end.

Lemma eval_obj_step k r m :
  eval_path (JObj m) (k :: r) = match obj_get k m with Some JNull | None => inr PENotFound | Some v => eval_path v r end.
Proof. reflexivity. Qed.

(* every property on a diverging path keeps its value (or its absence) *)
Theorem upsert_frame p : forall j v j' p', upsert_path j p v = inl j' -> diverges p p' = true ->
  eval_path j' p' = eval_path j p'.
Proof.
  induction p as [|k r IH]; intros j v j' p' H Hd; [discriminate|].
  destruct p' as [|k' r']; [destruct r; discriminate|]. cbn [diverges] in Hd.
  destruct r as [|k2 r2].
  - cbn in H. destruct j as [| | | | |m]; try discriminate. inversion H; subst j'. clear H.
    destruct (String.eqb k k') eqn:E; [discriminate|]. apply String.eqb_neq in E.
    rewrite !eval_obj_step. destruct v; [rewrite oget_set_other | rewrite oget_del_other]; auto.
  - cbn [upsert_path] in H. destruct j as [| | | | |m]; try discriminate.
    destruct (obj_get k m) as [child|] eqn:G; [|discriminate].
    assert (child <> JNull -> exists c', upsert_path child (k2 :: r2) v = inl c' /\ j' = JObj (obj_set k c' m)) as Hc.
    { intros Hn. destruct child; try congruence.
      all: match type of H with match ?u with _ => _ end = _ => destruct u as [c'|] eqn:U; [inversion H; eauto | discriminate] end. }
    destruct (String.eqb k k') eqn:E.
    + apply String.eqb_eq in E. subst k'.
      assert (child <> JNull) as Hn by (intros ->; discriminate).
      destruct (Hc Hn) as (c' & U & ->).
      destruct (upsert_is_obj _ _ _ _ U) as (m' & ->).
      rewrite !eval_obj_step, oget_set_same, G.
      rewrite (IH child v (JObj m') r' U Hd). destruct child; try reflexivity. congruence.
    + apply String.eqb_neq in E.
      assert (child <> JNull) as Hn by (intros ->; discriminate).
      destruct (Hc Hn) as (c' & U & ->).
      rewrite !eval_obj_step, oget_set_other by auto. reflexivity.
Qed.

(* the addressed property now has the written value *)
Theorem upsert_get p : forall j v j', upsert_path j p (Some v) = inl j' -> v <> JNull -> eval_path j' p = inl v.
Proof.
  induction p as [|k r IH]; intros j v j' H Hv; [discriminate|].
  destruct r as [|k2 r2].
  - cbn in H. destruct j as [| | | | |m]; try discriminate. inversion H; subst j'.
    rewrite eval_obj_step, oget_set_same. destruct v; try reflexivity. congruence.
  - cbn [upsert_path] in H. destruct j as [| | | | |m]; try discriminate.
    destruct (obj_get k m) as [child|] eqn:G; [|discriminate].
    assert (child <> JNull) as Hn by (intros ->; discriminate).
    assert (exists c', upsert_path child (k2 :: r2) (Some v) = inl c' /\ j' = JObj (obj_set k c' m)) as (c' & U & ->).
    { destruct child; try congruence.
      all: match type of H with match ?u with _ => _ end = _ => destruct u as [c'|] eqn:U; [inversion H; eauto | discriminate] end. }
    destruct (upsert_is_obj _ _ _ _ U) as (m' & ->).
    rewrite eval_obj_step, oget_set_same. apply (IH child v (JObj m') U Hv).
Qed.

(* removing the property makes it absent *)
Theorem upsert_del p : forall j j', upsert_path j p None = inl j' -> eval_path j' p = inr PENotFound.
Proof.
  induction p as [|k r IH]; intros j j' H; [discriminate|].
  destruct r as [|k2 r2].
  - cbn in H. destruct j as [| | | | |m]; try discriminate. inversion H; subst j'.
    rewrite eval_obj_step, oget_del_same. reflexivity.
  - cbn [upsert_path] in H. destruct j as [| | | | |m]; try discriminate.
    destruct (obj_get k m) as [child|] eqn:G; [|discriminate].
    assert (child <> JNull) as Hn by (intros ->; discriminate).
    assert (exists c', upsert_path child (k2 :: r2) None = inl c' /\ j' = JObj (obj_set k c' m)) as (c' & U & ->).
    { destruct child; try congruence.
      all: match type of H with match ?u with _ => _ end = _ => destruct u as [c'|] eqn:U; [inversion H; eauto | discriminate] end. }
    destruct (upsert_is_obj _ _ _ _ U) as (m' & ->).
    rewrite eval_obj_step, oget_set_same. apply (IH child (JObj m') U).
Qed.

(* non-vacuity: a nested write into a concrete document, and an untouched sibling *)
Example upsert_example :
  let doc := JObj [("a", JObj [("b", JNum false 1); ("c", JNum false 2)]); ("z", JStr "q")] in
  exists j', upsert_path doc ["a"; "b"] (Some (JNum false 7)) = inl j'
             /\ eval_path j' ["a"; "b"] = inl (JNum false 7) /\ eval_path j' ["a"; "c"] = inl (JNum false 2) /\ eval_path j' ["z"] = inl (JStr "q").
Proof. eexists. repeat split. Qed.
