(* Life.v - when feeds end (C16).  Handles of one bucket, its collections, the feed registry shared by
   all handles (bucket.collectionFeeds), terminators, dump feeds, DropDataStore, Close, CloseAndDelete. *)
From Rosmar Require Import Base.

Record lfeed := mkLfeed {
  lf_coll : string;
  lf_dump : bool;
  lf_ended : bool;       (* the done channel is closed; the callback is never invoked again *)
  lf_got : N             (* mutation / deletion events delivered so far *)
}.

Record lstate := mkLstate {
  ls_inmem : bool;
  ls_alive : bool;                          (* the store (sql.DB) is open *)
  ls_handles : list (nat * bool);           (* handle -> still open *)
  ls_colls : list (string * N);             (* existing collections -> number of documents *)
  ls_feeds : list (nat * lfeed)
}.

Inductive lop :=
| LOpenHandle (h : nat)
| LCreateColl (h : nat) (c : string)
| LStart (f h : nat) (c : string) (dump : bool)
| LWrite (h : nat) (c : string)              (* a new document *)
| LTerm (f : nat)                            (* the feed's terminator is closed *)
| LDrop (h : nat) (c : string)
| LClose (h : nat)
| LCloseAndDelete (h : nat).

Definition lstate0 (inmem : bool) : lstate := mkLstate inmem true [] [("_default._default", 0)] [].

Definition handle_open (s : lstate) (h : nat) : bool :=
  ls_alive s && match alookup Nat.eqb h (ls_handles s) with Some b => b | None => false end.

Definition coll_exists (s : lstate) (c : string) : bool := is_some (alookup String.eqb c (ls_colls s)).

Definition end_feeds (p : lfeed -> bool) (fs : list (nat * lfeed)) : list (nat * lfeed) :=
  map (fun f => if p (snd f) then (fst f, mkLfeed (lf_coll (snd f)) (lf_dump (snd f)) true (lf_got (snd f))) else f) fs.

Definition open_count (s : lstate) : nat := List.length (filter (fun hb : nat * bool => snd hb) (ls_handles s)).

Definition lstep (s : lstate) (o : lop) : lstate * bool (* the call succeeded *) :=
  match o with
  | LOpenHandle h =>
      if ls_alive s then (mkLstate (ls_inmem s) true (aset Nat.eqb h true (ls_handles s)) (ls_colls s) (ls_feeds s), true) else (s, false)
  | LCreateColl h c =>
      if handle_open s h && negb (coll_exists s c)
      then (mkLstate (ls_inmem s) (ls_alive s) (ls_handles s) (ls_colls s ++ [(c, 0)]) (ls_feeds s), true) else (s, false)
  | LStart f h c dump =>
      if handle_open s h && coll_exists s c then
        let n := match alookup String.eqb c (ls_colls s) with Some n => n | None => 0 end in
        (* a dump feed delivers the backfill and ends by itself; a live feed (started without backfill) waits *)
        (mkLstate (ls_inmem s) (ls_alive s) (ls_handles s) (ls_colls s)
                  (ls_feeds s ++ [(f, mkLfeed c dump dump (if dump then n else 0))]), true)
      else (s, false)
  | LWrite h c =>
      if handle_open s h && coll_exists s c then
        (mkLstate (ls_inmem s) (ls_alive s) (ls_handles s)
                  (map (fun cn => if String.eqb (fst cn) c then (fst cn, snd cn + 1) else cn) (ls_colls s))
                  (map (fun f => if String.eqb (lf_coll (snd f)) c && negb (lf_ended (snd f))
                                 then (fst f, mkLfeed c (lf_dump (snd f)) false (lf_got (snd f) + 1)) else f) (ls_feeds s)), true)
      else (s, false)
  | LTerm f =>
      (mkLstate (ls_inmem s) (ls_alive s) (ls_handles s) (ls_colls s)
                (map (fun g => if Nat.eqb (fst g) f then (fst g, mkLfeed (lf_coll (snd g)) (lf_dump (snd g)) true (lf_got (snd g))) else g) (ls_feeds s)), true)
  | LDrop h c =>
      if handle_open s h && coll_exists s c && negb (String.eqb c "_default._default") then
        (mkLstate (ls_inmem s) (ls_alive s) (ls_handles s) (aremove String.eqb c (ls_colls s))
                  (end_feeds (fun f => String.eqb (lf_coll f) c) (ls_feeds s)), true)
      else (s, false)
  | LClose h =>
      match alookup Nat.eqb h (ls_handles s) with
      | Some true =>
          let hs := aset Nat.eqb h false (ls_handles s) in
          let last := (open_count s =? 1)%nat in
          if last && negb (ls_inmem s) && ls_alive s
          then (mkLstate (ls_inmem s) false hs (ls_colls s) (end_feeds (fun _ => true) (ls_feeds s)), true)   (* the store shuts down *)
          else (mkLstate (ls_inmem s) (ls_alive s) hs (ls_colls s) (ls_feeds s), true)
      | _ => (s, true)
      end
  | LCloseAndDelete h =>
      match alookup Nat.eqb h (ls_handles s) with
      | Some _ => (mkLstate (ls_inmem s) false (ls_handles s) (ls_colls s) (end_feeds (fun _ => true) (ls_feeds s)), true)
      | None => (s, false)
      end
  end.

Record lobs := mkLobs { lo_ok : bool; lo_feeds : list (N * bool * N) (* feed, ended, events received *) }.

Definition lobserve (s : lstate) (ok : bool) : lobs :=
  mkLobs ok (map (fun f => (N.of_nat (fst f), lf_ended (snd f), lf_got (snd f))) (ls_feeds s)).

Fixpoint lrun_from (s : lstate) (ops : list lop) : list lobs :=
  match ops with [] => [] | o :: r => let '(s', ok) := lstep s o in lobserve s' ok :: lrun_from s' r end.

Definition lrun (c : bool * list lop) : list lobs := lrun_from (lstate0 (fst c)) (snd c).

Definition lobs_eq_dec : forall a b : lobs, {a = b} + {a <> b}.
Proof.
  decide equality; [|apply bool_dec]. apply list_eq_dec. decide equality; [apply N.eq_dec|].
  decide equality; [apply bool_dec | apply N.eq_dec].
Defined.

Definition life_corr_ok (t : (bool * list lop) * list lobs) : bool :=
  if list_eq_dec lobs_eq_dec (lrun (fst t)) (snd t) then true else false.

(* ---- the property, on a recorded history ---- *)
(* once ended a feed stays ended and receives nothing more; a feed ends only for a cause that concerns
   it; a cause ends it *)
Definition feed_of (l : list (N * bool * N)) (f : N) : option (bool * N) :=
  match filter (fun x : N * bool * N => fst (fst x) =? f) l with x :: _ => Some (snd (fst x), snd x) | [] => None end.

Definition chk_life_step (coll_of : N -> option (string * bool)) (store_down : bool) (prev : lobs) (o : lop) (ob : lobs) : bool :=
  forallb (fun x : N * bool * N =>
    let f := fst (fst x) in
    match feed_of (lo_feeds prev) f with
    | None => true          (* just started *)
    | Some (ended0, got0) =>
        let ended1 := snd (fst x) in
        let got1 := snd x in
        (* ended is for ever, and silent *)
        (if ended0 then ended1 && (got1 =? got0) else true)
        (* a feed ends at this step only if the step is a cause for it *)
        && (if negb ended0 && ended1 then
              match o, coll_of f with
              | LTerm g, _ => N.of_nat g =? f
              | LDrop _ c, Some (c', _) => String.eqb c c'
              | LClose _, _ | LCloseAndDelete _, _ => store_down
              | _, _ => false
              end
            else true)
        (* and a cause does end it *)
        && (if negb ended1 then
              match o, coll_of f with
              | LTerm g, _ => negb (N.of_nat g =? f)
              | LDrop _ c, Some (c', _) => negb (lo_ok ob && String.eqb c c')
              | LClose _, _ | LCloseAndDelete _, _ => negb store_down
              | _, _ => true
              end
            else true)
    end) (lo_feeds ob).

(* the walk: what the checker remembers (independently of the model's state): which handles are open,
   which collection each feed is on *)
Record shadow := mkShadow { sh_inmem : bool; sh_open : list nat; sh_feeds : list (N * (string * bool)) }.

Definition shadow_after (sh : shadow) (o : lop) (ok : bool) : shadow :=
  match o with
  | LOpenHandle h => if ok then mkShadow (sh_inmem sh) (h :: sh_open sh) (sh_feeds sh) else sh
  | LStart f _ c dump => if ok then mkShadow (sh_inmem sh) (sh_open sh) (sh_feeds sh ++ [(N.of_nat f, (c, dump))]) else sh
  | LClose h => mkShadow (sh_inmem sh) (filter (fun x => negb (Nat.eqb x h)) (sh_open sh)) (sh_feeds sh)
  | _ => sh
  end.

Definition store_goes_down (sh : shadow) (o : lop) : bool :=
  match o with
  | LCloseAndDelete h => true
  | LClose h => negb (sh_inmem sh) && existsb (Nat.eqb h) (sh_open sh) && (List.length (nodup Nat.eq_dec (sh_open sh)) =? 1)%nat
  | _ => false
  end.

Definition writes_delivered (sh : shadow) (prev : lobs) (o : lop) (ob : lobs) : bool :=
  match o with
  | LWrite _ c =>
      if lo_ok ob then
        forallb (fun x : N * bool * N =>
          match feed_of (lo_feeds prev) (fst (fst x)), alookup N.eqb (fst (fst x)) (sh_feeds sh) with
          | Some (ended0, got0), Some (c', dump) =>
              if negb ended0 && negb dump && String.eqb c c' then snd x =? got0 + 1 else snd x =? got0
          | _, _ => true
          end) (lo_feeds ob)
      else true
  | _ => true
  end.

Fixpoint lwalk (sh : shadow) (prev : lobs) (ops : list lop) (obs : list lobs) : bool :=
  match ops, obs with
  | [], [] => true
  | o :: os, ob :: obs' =>
      chk_life_step (fun f => alookup N.eqb f (sh_feeds sh)) (store_goes_down sh o) prev o ob
      && writes_delivered sh prev o ob
      && lwalk (shadow_after sh o (lo_ok ob)) ob os obs'
  | _, _ => false
  end.

Definition chk_life (t : (bool * list lop) * list lobs) : bool :=
  lwalk (mkShadow (fst (fst t)) [] []) (mkLobs true []) (snd (fst t)) (snd t).

Definition life_model_chk (t : (bool * list lop) * list lobs) : bool := chk_life (fst t, lrun (fst t)).

(* ---- theorems about the model ---- *)
(* ending is for ever: no step revives a feed, and an ended feed receives nothing more *)
Lemma end_feeds_keeps p fs f x : alookup Nat.eqb f (end_feeds p fs) = Some x ->
  exists x0, alookup Nat.eqb f fs = Some x0 /\ lf_got x = lf_got x0 /\ (lf_ended x0 = true -> lf_ended x = true) /\ lf_coll x = lf_coll x0.
Proof.
  induction fs as [|[g y] r IH]; cbn; [discriminate|].
  destruct (p y); cbn; destruct (Nat.eqb f g); intros H.
  - inversion H; subst. eexists; repeat split; auto.
  - apply IH; exact H.
  - inversion H; subst. eexists; repeat split; auto.
  - apply IH; exact H.
Qed.

Theorem ended_is_final s o f x : alookup Nat.eqb f (ls_feeds s) = Some x -> lf_ended x = true ->
  NoDup (map fst (ls_feeds s)) ->
  match alookup Nat.eqb f (ls_feeds (fst (lstep s o))) with
  | Some x' => lf_ended x' = true /\ lf_got x' = lf_got x
  | None => False
  end.
Proof.
  intros Hf He Hnd.
  assert (forall (g : nat * lfeed -> nat * lfeed) fs,
            (forall y, fst (g y) = fst y) ->
            (forall y, lf_ended (snd y) = true -> lf_ended (snd (g y)) = true /\ lf_got (snd (g y)) = lf_got (snd y)) ->
            alookup Nat.eqb f fs = Some x ->
            match alookup Nat.eqb f (map g fs) with Some x' => lf_ended x' = true /\ lf_got x' = lf_got x | None => False end) as Hmap.
  { intros g fs Hk Hg. induction fs as [|[k y] r IH]; cbn; [discriminate|].
    specialize (Hk (k, y)). cbn in Hk. destruct (g (k, y)) as [k' y'] eqn:Eg. cbn in Hk. subst k'.
    destruct (Nat.eqb f k); intros H.
    - inversion H; subst. specialize (Hg (k, x) He). rewrite Eg in Hg. exact Hg.
    - apply IH; exact H. }
  destruct o; cbn [lstep].
  - destruct (ls_alive s); cbn [fst ls_feeds]; rewrite Hf; auto.
  - destruct (handle_open s h && negb (coll_exists s c)); cbn [fst ls_feeds]; rewrite Hf; auto.
  - destruct (handle_open s h && coll_exists s c); cbn [fst ls_feeds]; [|rewrite Hf; auto].
    assert (alookup Nat.eqb f (ls_feeds s ++ [(f0, mkLfeed c dump dump (if dump then match alookup String.eqb c (ls_colls s) with Some n => n | None => 0 end else 0))]) = Some x) as ->; [|auto].
    clear -Hf. induction (ls_feeds s) as [|[k y] r IH]; cbn in *; [discriminate|]. destruct (Nat.eqb f k); [exact Hf | apply IH; exact Hf].
  - destruct (handle_open s h && coll_exists s c); cbn [fst ls_feeds]; [|rewrite Hf; auto].
    apply Hmap; [intros [k y]; cbn; destruct (_ && _); reflexivity | | exact Hf].
    intros [k y] Hy; cbn in *. rewrite Hy. rewrite andb_false_r. auto.
  - cbn [fst ls_feeds]. apply Hmap; [intros [k y]; cbn; destruct (Nat.eqb k f0); reflexivity | | exact Hf].
    intros [k y] Hy; cbn in *. destruct (Nat.eqb k f0); cbn; auto.
  - destruct (handle_open s h && coll_exists s c && negb (String.eqb c "_default._default")); cbn [fst ls_feeds]; [|rewrite Hf; auto].
    unfold end_feeds. apply Hmap; [intros [k y]; cbn; destruct (String.eqb _ _); reflexivity | | exact Hf].
    intros [k y] Hy; cbn in *. destruct (String.eqb (lf_coll y) c); cbn; auto.
  - destruct (alookup Nat.eqb h (ls_handles s)) as [[|]|]; cbn [fst ls_feeds]; try (rewrite Hf; auto).
    destruct ((open_count s =? 1)%nat && negb (ls_inmem s) && ls_alive s); cbn [fst ls_feeds]; [|rewrite Hf; auto].
    unfold end_feeds. apply Hmap; [intros [k y]; reflexivity | | exact Hf]. intros [k y] Hy; cbn; auto.
  - destruct (alookup Nat.eqb h (ls_handles s)); cbn [fst ls_feeds]; [|rewrite Hf; auto].
    unfold end_feeds. apply Hmap; [intros [k y]; reflexivity | | exact Hf]. intros [k y] Hy; cbn; auto.
Qed.

(* independence: closing one feed's terminator, dropping another collection, or closing a handle that is
   not the last one of an on-disk bucket ends no other feed *)
Theorem others_keep_running s o g y : alookup Nat.eqb g (ls_feeds s) = Some y -> lf_ended y = false ->
  match o with
  | LTerm f => f <> g
  | LDrop _ c => c <> lf_coll y
  | LClose h => (open_count s =? 1)%nat && negb (ls_inmem s) && ls_alive s = false
  | LCloseAndDelete _ => False
  | _ => True
  end ->
  match alookup Nat.eqb g (ls_feeds (fst (lstep s o))) with
  | Some y' => lf_ended y' = false
  | None => False
  end.
Proof.
  intros Hg He Hside.
  assert (forall (t : nat * lfeed -> nat * lfeed) fs,
            (forall z, fst (t z) = fst z) ->
            (forall z, fst z = g -> snd z = y -> lf_ended (snd (t z)) = false) ->
            alookup Nat.eqb g fs = Some y ->
            match alookup Nat.eqb g (map t fs) with Some y' => lf_ended y' = false | None => False end) as Hmap.
  { intros t fs Hk Ht. induction fs as [|[k z] r IH]; cbn; [discriminate|].
    pose proof (Hk (k, z)) as Hk1. cbn in Hk1. destruct (t (k, z)) as [k' z'] eqn:Et. cbn in Hk1. subst k'.
    destruct (Nat.eqb_spec g k) as [->|Hne]; intros H.
    - inversion H; subst. specialize (Ht (k, y) eq_refl eq_refl). rewrite Et in Ht. exact Ht.
    - apply IH; exact H. }
  destruct o; cbn [lstep].
  - destruct (ls_alive s); cbn [fst ls_feeds]; rewrite Hg; exact He.
  - destruct (handle_open s h && negb (coll_exists s c)); cbn [fst ls_feeds]; rewrite Hg; exact He.
  - destruct (handle_open s h && coll_exists s c); cbn [fst ls_feeds]; [|rewrite Hg; exact He].
    assert (alookup Nat.eqb g (ls_feeds s ++ [(f, mkLfeed c dump dump (if dump then match alookup String.eqb c (ls_colls s) with Some n => n | None => 0 end else 0))]) = Some y) as ->; [|exact He].
    clear -Hg. induction (ls_feeds s) as [|[k z] r IH]; cbn in *; [discriminate|]. destruct (Nat.eqb g k); [exact Hg | apply IH; exact Hg].
  - destruct (handle_open s h && coll_exists s c); cbn [fst ls_feeds]; [|rewrite Hg; exact He].
    apply Hmap; [intros [k z]; cbn; destruct (_ && _); reflexivity | | exact Hg].
    intros [k z] _ Hz; cbn in *. subst z. destruct (String.eqb (lf_coll y) c && negb (lf_ended y)); cbn; [reflexivity | exact He].
  - cbn [fst ls_feeds]. apply Hmap; [intros [k z]; cbn; destruct (Nat.eqb k f); reflexivity | | exact Hg].
    intros [k z] Hk Hz; cbn in *. subst. destruct (Nat.eqb_spec g f); [congruence | exact He].
  - destruct (handle_open s h && coll_exists s c && negb (String.eqb c "_default._default")); cbn [fst ls_feeds]; [|rewrite Hg; exact He].
    unfold end_feeds. apply Hmap; [intros [k z]; cbn; destruct (String.eqb _ _); reflexivity | | exact Hg].
    intros [k z] _ Hz; cbn in *. subst z. destruct (String.eqb_spec (lf_coll y) c); [congruence | exact He].
  - destruct (alookup Nat.eqb h (ls_handles s)) as [[|]|]; cbn [fst ls_feeds]; try (rewrite Hg; exact He).
    rewrite Hside. cbn [fst ls_feeds]. rewrite Hg. exact He.
  - destruct Hside.
Qed.
