(* Life.v - when feeds end (C16).  Handles of one bucket, its collections, the feed registry shared by
   all handles (bucket.collectionFeeds), terminators, dump feeds, DropDataStore, Close, CloseAndDelete. *)
From Rosmar Require Import Base.

(* a feed's consumer may be slow: its callback can be made to block (LBlock arms the gate, the next
   delivery then holds) until LRelease.  While it holds, further events queue up behind it; ending the
   feed closes the queue, so what was queued is never delivered and the done channel is closed when the
   callback returns. *)
Inductive gate :=
| GOpen
| GArmed                                 (* the next callback invocation will block *)
| GHold (pending : N) (endreq : bool).   (* a callback invocation is blocked; events queued behind it; the feed was ended meanwhile *)

Record lfeed := mkLfeed {
  lf_coll : string;
  lf_dump : bool;
  lf_ended : bool;       (* the done channel is closed; the callback is never invoked again *)
  lf_got : N;            (* mutation / deletion events the callback has been invoked for so far *)
  lf_gate : gate
}.

(* one event for a running feed *)
Definition deliver1 (f : lfeed) : lfeed :=
  match lf_gate f with
  | GOpen => mkLfeed (lf_coll f) (lf_dump f) false (lf_got f + 1) GOpen
  | GArmed => mkLfeed (lf_coll f) (lf_dump f) false (lf_got f + 1) (GHold 0 false)
  | GHold p false => mkLfeed (lf_coll f) (lf_dump f) false (lf_got f) (GHold (p + 1) false)
  | GHold p true => f                                     (* the queue is closed *)
  end.

(* a cause ends the feed *)
Definition end1 (f : lfeed) : lfeed :=
  match lf_gate f with
  | GHold p _ => if lf_ended f then f else mkLfeed (lf_coll f) (lf_dump f) false (lf_got f) (GHold p true)
  | _ => mkLfeed (lf_coll f) (lf_dump f) true (lf_got f) GOpen
  end.

Definition block1 (f : lfeed) : lfeed :=
  match lf_gate f with
  | GOpen => if lf_ended f || lf_dump f then f else mkLfeed (lf_coll f) (lf_dump f) false (lf_got f) GArmed
  | _ => f
  end.

Definition release1 (f : lfeed) : lfeed :=
  match lf_gate f with
  | GOpen => f
  | GArmed => mkLfeed (lf_coll f) (lf_dump f) (lf_ended f) (lf_got f) GOpen
  | GHold p false => mkLfeed (lf_coll f) (lf_dump f) (lf_ended f) (lf_got f + p) GOpen
  | GHold p true => mkLfeed (lf_coll f) (lf_dump f) true (lf_got f) GOpen
  end.

Record lstate := mkLstate {
  ls_inmem : bool;
  ls_alive : bool;                          (* the store (sql.DB) is open *)
  ls_handles : list (nat * bool);           (* handle -> still open *)
  ls_colls : list (string * N);             (* existing collections -> number of documents *)
  ls_feeds : list (nat * lfeed)
}.

Inductive lop :=
| LOpenHandle (h : nat)
| LCreateColl (h : nat) (c : string)
| LStart (f h : nat) (c : string) (dump : bool)
| LWrite (h : nat) (c : string)              (* a new document *)
| LTerm (f : nat)                            (* the feed's terminator is closed *)
| LDrop (h : nat) (c : string)
| LClose (h : nat)
| LCloseAndDelete (h : nat)
| LBlock (f : nat)                           (* the feed's next callback invocation blocks *)
| LRelease (f : nat).                        (* ... until now *)

Definition lstate0 (inmem : bool) : lstate := mkLstate inmem true [] [("_default._default", 0)] [].

Definition handle_open (s : lstate) (h : nat) : bool :=
  ls_alive s && match alookup Nat.eqb h (ls_handles s) with Some b => b | None => false end.

Definition coll_exists (s : lstate) (c : string) : bool := is_some (alookup String.eqb c (ls_colls s)).

Definition end_feeds (p : lfeed -> bool) (fs : list (nat * lfeed)) : list (nat * lfeed) :=
  map (fun f => if p (snd f) then (fst f, end1 (snd f)) else f) fs.

Definition open_count (s : lstate) : nat := List.length (filter (fun hb : nat * bool => snd hb) (ls_handles s)).

Definition lstep (s : lstate) (o : lop) : lstate * bool (* the call succeeded *) :=
  match o with
  | LOpenHandle h =>
      if ls_alive s then (mkLstate (ls_inmem s) true (aset Nat.eqb h true (ls_handles s)) (ls_colls s) (ls_feeds s), true) else (s, false)
  | LCreateColl h c =>
      if handle_open s h && negb (coll_exists s c)
      then (mkLstate (ls_inmem s) (ls_alive s) (ls_handles s) (ls_colls s ++ [(c, 0)]) (ls_feeds s), true) else (s, false)
  | LStart f h c dump =>
      if handle_open s h && coll_exists s c then
        let n := match alookup String.eqb c (ls_colls s) with Some n => n | None => 0 end in
        (* a dump feed delivers the backfill and ends by itself; a live feed (started without backfill) waits *)
        (mkLstate (ls_inmem s) (ls_alive s) (ls_handles s) (ls_colls s)
                  (ls_feeds s ++ [(f, mkLfeed c dump dump (if dump then n else 0) GOpen)]), true)
      else (s, false)
  | LWrite h c =>
      if handle_open s h && coll_exists s c then
        (mkLstate (ls_inmem s) (ls_alive s) (ls_handles s)
                  (map (fun cn => if String.eqb (fst cn) c then (fst cn, snd cn + 1) else cn) (ls_colls s))
                  (map (fun f => if String.eqb (lf_coll (snd f)) c && negb (lf_ended (snd f))
                                 then (fst f, deliver1 (snd f)) else f) (ls_feeds s)), true)
      else (s, false)
  | LTerm f =>
      (mkLstate (ls_inmem s) (ls_alive s) (ls_handles s) (ls_colls s)
                (map (fun g => if Nat.eqb (fst g) f then (fst g, end1 (snd g)) else g) (ls_feeds s)), true)
  | LDrop h c =>
      if handle_open s h && coll_exists s c && negb (String.eqb c "_default._default") then
        (mkLstate (ls_inmem s) (ls_alive s) (ls_handles s) (aremove String.eqb c (ls_colls s))
                  (end_feeds (fun f => String.eqb (lf_coll f) c) (ls_feeds s)), true)
      else (s, false)
  | LClose h =>
      match alookup Nat.eqb h (ls_handles s) with
      | Some true =>
          let hs := aset Nat.eqb h false (ls_handles s) in
          let last := (open_count s =? 1)%nat in
          if last && negb (ls_inmem s) && ls_alive s
          then (mkLstate (ls_inmem s) false hs (ls_colls s) (end_feeds (fun _ => true) (ls_feeds s)), true)   (* the store shuts down *)
          else (mkLstate (ls_inmem s) (ls_alive s) hs (ls_colls s) (ls_feeds s), true)
      | _ => (s, true)
      end
  | LCloseAndDelete h =>
      match alookup Nat.eqb h (ls_handles s) with
      | Some _ => (mkLstate (ls_inmem s) false (ls_handles s) (ls_colls s) (end_feeds (fun _ => true) (ls_feeds s)), true)
      | None => (s, false)
      end
  | LBlock f =>
      (mkLstate (ls_inmem s) (ls_alive s) (ls_handles s) (ls_colls s)
                (map (fun g => if Nat.eqb (fst g) f then (fst g, block1 (snd g)) else g) (ls_feeds s)), true)
  | LRelease f =>
      (mkLstate (ls_inmem s) (ls_alive s) (ls_handles s) (ls_colls s)
                (map (fun g => if Nat.eqb (fst g) f then (fst g, release1 (snd g)) else g) (ls_feeds s)), true)
  end.

Record lobs := mkLobs { lo_ok : bool; lo_feeds : list (N * bool * N) (* feed, ended, events received *) }.

Definition lobserve (s : lstate) (ok : bool) : lobs :=
  mkLobs ok (map (fun f => (N.of_nat (fst f), lf_ended (snd f), lf_got (snd f))) (ls_feeds s)).

Fixpoint lrun_from (s : lstate) (ops : list lop) : list lobs :=
  match ops with [] => [] | o :: r => let '(s', ok) := lstep s o in lobserve s' ok :: lrun_from s' r end.

Definition lrun (c : bool * list lop) : list lobs := lrun_from (lstate0 (fst c)) (snd c).

Definition lobs_eq_dec : forall a b : lobs, {a = b} + {a <> b}.
Proof.
  decide equality; [|apply bool_dec]. apply list_eq_dec. decide equality; [apply N.eq_dec|].
  decide equality; [apply bool_dec | apply N.eq_dec].
Defined.

Definition life_corr_ok (t : (bool * list lop) * list lobs) : bool :=
  if list_eq_dec lobs_eq_dec (lrun (fst t)) (snd t) then true else false.

(* ---- the property, on a recorded history ---- *)
(* once ended a feed stays ended and receives nothing more; a feed ends only for a cause that concerns
   it; a cause ends it *)
Definition feed_of (l : list (N * bool * N)) (f : N) : option (bool * N) :=
  match filter (fun x : N * bool * N => fst (fst x) =? f) l with x :: _ => Some (snd (fst x), snd x) | [] => None end.

(* is step o a cause that ends feed f? *)
Definition is_cause (coll_of : N -> option (string * bool)) (store_down : bool) (o : lop) (ok : bool) (f : N) : bool :=
  match o, coll_of f with
  | LTerm g, _ => N.of_nat g =? f
  | LDrop _ c, Some (c', _) => ok && String.eqb c c'
  | LClose _, _ | LCloseAndDelete _, _ => store_down
  | _, _ => false
  end.

(* gated: the feed's consumer is (or may be) blocked - between LBlock f and LRelease f; the flag says
   whether a cause for it has occurred since *)
Definition chk_life_step (coll_of : N -> option (string * bool)) (store_down : bool) (gated : list (N * bool))
                         (prev : lobs) (o : lop) (ob : lobs) : bool :=
  forallb (fun x : N * bool * N =>
    let f := fst (fst x) in
    match feed_of (lo_feeds prev) f with
    | None => true          (* just started *)
    | Some (ended0, got0) =>
        let ended1 := snd (fst x) in
        let got1 := snd x in
        let cause := is_cause coll_of store_down o (lo_ok ob) f in
        let released := match o with LRelease g => N.of_nat g =? f | _ => false end in
        (* ended is for ever, and silent *)
        (if ended0 then ended1 && (got1 =? got0) else true)
        (* a feed ends at this step only if the step is a cause for it, or its blocked consumer returns after one *)
        && (if negb ended0 && ended1 then
              cause || (released && match alookup N.eqb f gated with Some b => b | None => false end)
            else true)
        (* and a cause does end it - at once, or when its blocked consumer returns, with nothing delivered in between *)
        && (match alookup N.eqb f gated with
            | None => if negb ended1 then negb cause else true
            | Some true => if released then ended1 && (got1 =? got0) else (got1 =? got0)
            | Some false => true
            end)
    end) (lo_feeds ob).

(* the walk: what the checker remembers (independently of the model's state): which handles are open,
   which collection each feed is on, which feeds are gated *)
Record shadow := mkShadow { sh_inmem : bool; sh_open : list nat; sh_feeds : list (N * (string * bool)); sh_gated : list (N * bool) }.

Definition store_goes_down (sh : shadow) (o : lop) : bool :=
  match o with
  | LCloseAndDelete h => true
  | LClose h => negb (sh_inmem sh) && existsb (Nat.eqb h) (sh_open sh) && (List.length (nodup Nat.eq_dec (sh_open sh)) =? 1)%nat
  | _ => false
  end.

Definition shadow_after (sh : shadow) (o : lop) (ok : bool) : shadow :=
  let coll_of := fun f => alookup N.eqb f (sh_feeds sh) in
  let down := store_goes_down sh o in
  let gated := map (fun g : N * bool => (fst g, snd g || is_cause coll_of down o ok (fst g))) (sh_gated sh) in
  match o with
  | LOpenHandle h => if ok then mkShadow (sh_inmem sh) (h :: sh_open sh) (sh_feeds sh) gated else sh
  | LStart f _ c dump => if ok then mkShadow (sh_inmem sh) (sh_open sh) (sh_feeds sh ++ [(N.of_nat f, (c, dump))]) gated else sh
  | LClose h => mkShadow (sh_inmem sh) (filter (fun x => negb (Nat.eqb x h)) (sh_open sh)) (sh_feeds sh) gated
  | LBlock f => mkShadow (sh_inmem sh) (sh_open sh) (sh_feeds sh)
                         (if is_some (alookup N.eqb (N.of_nat f) gated) then gated else gated ++ [(N.of_nat f, false)])
  | LRelease f => mkShadow (sh_inmem sh) (sh_open sh) (sh_feeds sh) (aremove N.eqb (N.of_nat f) gated)
  | _ => mkShadow (sh_inmem sh) (sh_open sh) (sh_feeds sh) gated
  end.

Definition writes_delivered (sh : shadow) (prev : lobs) (o : lop) (ob : lobs) : bool :=
  match o with
  | LWrite _ c =>
      if lo_ok ob then
        forallb (fun x : N * bool * N =>
          match feed_of (lo_feeds prev) (fst (fst x)), alookup N.eqb (fst (fst x)) (sh_feeds sh) with
          | Some (ended0, got0), Some (c', dump) =>
              match alookup N.eqb (fst (fst x)) (sh_gated sh) with
              | Some _ => (snd x =? got0) || (snd x =? got0 + 1)      (* queued behind a blocked consumer, or delivered *)
              | None => if negb ended0 && negb dump && String.eqb c c' then snd x =? got0 + 1 else snd x =? got0
              end
          | _, _ => true
          end) (lo_feeds ob)
      else true
  | LRelease _ => true                                              (* what was queued is delivered now *)
  | _ =>
      (* no other step delivers anything *)
      forallb (fun x : N * bool * N =>
        match feed_of (lo_feeds prev) (fst (fst x)) with Some (_, got0) => snd x =? got0 | None => true end) (lo_feeds ob)
  end.

Fixpoint lwalk (sh : shadow) (prev : lobs) (ops : list lop) (obs : list lobs) : bool :=
  match ops, obs with
  | [], [] => true
  | o :: os, ob :: obs' =>
      chk_life_step (fun f => alookup N.eqb f (sh_feeds sh)) (store_goes_down sh o) (sh_gated sh) prev o ob
      && writes_delivered sh prev o ob
      && lwalk (shadow_after sh o (lo_ok ob)) ob os obs'
  | _, _ => false
  end.

Definition chk_life (t : (bool * list lop) * list lobs) : bool :=
  lwalk (mkShadow (fst (fst t)) [] [] []) (mkLobs true []) (snd (fst t)) (snd t).

Definition life_model_chk (t : (bool * list lop) * list lobs) : bool := chk_life (fst t, lrun (fst t)).

(* ---- calls through a handle that is not open (C13) ---- *)
(* the handle a call goes through *)
Definition op_handle (o : lop) : option nat :=
  match o with
  | LCreateColl h _ | LStart _ h _ _ | LWrite h _ | LDrop h _ => Some h
  | _ => None
  end.

(* the handles that may still be open, as the checker remembers them from the calls and their answers alone *)
Definition open_after (opn : list nat) (o : lop) (ok : bool) : list nat :=
  match o with
  | LOpenHandle h => if ok then h :: opn else opn
  | LClose h => filter (fun x => negb (Nat.eqb x h)) opn
  | LCloseAndDelete _ => if ok then [] else opn
  | _ => opn
  end.

(* a call - create / drop a collection, write, start a feed of any kind - through a handle that was never
   opened, has been closed, or whose bucket has been deleted, fails *)
Fixpoint cwalk (opn : list nat) (ops : list lop) (obs : list lobs) : bool :=
  match ops, obs with
  | [], [] => true
  | o :: os, ob :: obs' =>
      match op_handle o with
      | Some h => existsb (Nat.eqb h) opn || negb (lo_ok ob)
      | None => true
      end
      && cwalk (open_after opn o (lo_ok ob)) os obs'
  | _, _ => false
  end.

Definition chk_life_C13 (t : (bool * list lop) * list lobs) : bool :=
  chk_life t && cwalk [] (snd (fst t)) (snd t).

(* ---- theorems about the model ---- *)
(* what a step does to one feed: one of five functions, or nothing *)
Definition feed_step_fns : list (lfeed -> lfeed) := [deliver1; end1; block1; release1; fun f => f].

Lemma alookup_map_feed (g : nat * lfeed -> nat * lfeed) f (fs : list (nat * lfeed)) x :
  (forall y, fst (g y) = fst y) -> alookup Nat.eqb f fs = Some x ->
  alookup Nat.eqb f (map g fs) = Some (snd (g (f, x))).
Proof.
  intros Hk. induction fs as [|[k y] r IH]; cbn; [discriminate|].
  pose proof (Hk (k, y)) as Hk1. cbn in Hk1. destruct (g (k, y)) as [k' y'] eqn:Eg. cbn in Hk1. subst k'.
  destruct (Nat.eqb_spec f k) as [->|Hne]; intros H.
  - inversion H; subst. rewrite Eg. reflexivity.
  - apply IH; exact H.
Qed.

Lemma alookup_snoc_feed f (fs : list (nat * lfeed)) x g y : alookup Nat.eqb f fs = Some x -> alookup Nat.eqb f (fs ++ [(g, y)]) = Some x.
Proof. induction fs as [|[k z] r IH]; cbn; [discriminate|]. destruct (Nat.eqb f k); [auto | exact IH]. Qed.

(* every step maps a feed that exists to deliver1 / end1 / block1 / release1 of itself, or leaves it alone;
   deliver1 only applies to a feed whose done channel is still open *)
Lemma lstep_feed s o f x : alookup Nat.eqb f (ls_feeds s) = Some x ->
  exists x', alookup Nat.eqb f (ls_feeds (fst (lstep s o))) = Some x'
    /\ (x' = x \/ (x' = deliver1 x /\ lf_ended x = false /\ (exists h c, o = LWrite h c /\ lf_coll x = c))
         \/ (x' = end1 x /\ match o with
                            | LTerm g => g = f
                            | LDrop _ c => c = lf_coll x
                            | LClose _ => (open_count s =? 1)%nat && negb (ls_inmem s) && ls_alive s = true
                            | LCloseAndDelete _ => True
                            | _ => False
                            end)
         \/ (x' = block1 x /\ o = LBlock f) \/ (x' = release1 x /\ o = LRelease f)).
Proof.
  intros Hf. destruct o; cbn [lstep].
  - destruct (ls_alive s); cbn [fst ls_feeds]; eauto.
  - destruct (handle_open s h && negb (coll_exists s c)); cbn [fst ls_feeds]; eauto.
  - destruct (handle_open s h && coll_exists s c); cbn [fst ls_feeds]; [|eauto].
    eexists. split; [apply alookup_snoc_feed; exact Hf | left; reflexivity].
  - destruct (handle_open s h && coll_exists s c); cbn [fst ls_feeds]; [|eauto].
    eexists. split; [apply alookup_map_feed; [intros [k y]; cbn; destruct (_ && _); reflexivity | exact Hf]|].
    cbn [fst snd]. destruct (String.eqb_spec (lf_coll x) c) as [E|]; cbn [andb]; [|left; reflexivity].
    destruct (lf_ended x) eqn:Ee; cbn [negb]; [left; reflexivity|]. right; left. cbn [snd]. split; [reflexivity|]. split; [reflexivity|]. eauto.
  - cbn [fst ls_feeds]. eexists. split; [apply alookup_map_feed; [intros [k y]; cbn; destruct (Nat.eqb k f0); reflexivity | exact Hf]|].
    cbn [fst snd]. destruct (Nat.eqb_spec f f0) as [->|]; [right; right; left; split; reflexivity | left; reflexivity].
  - destruct (handle_open s h && coll_exists s c && negb (String.eqb c "_default._default")); cbn [fst ls_feeds]; [|eauto].
    unfold end_feeds. eexists. split; [apply alookup_map_feed; [intros [k y]; cbn; destruct (String.eqb _ _); reflexivity | exact Hf]|].
    cbn [fst snd]. destruct (String.eqb_spec (lf_coll x) c) as [E|]; [right; right; left; split; [reflexivity | symmetry; exact E] | left; reflexivity].
  - destruct (alookup Nat.eqb h (ls_handles s)) as [[|]|]; cbn [fst ls_feeds]; eauto.
    destruct ((open_count s =? 1)%nat && negb (ls_inmem s) && ls_alive s) eqn:El; cbn [fst ls_feeds]; [|eauto].
    unfold end_feeds. eexists. split; [apply alookup_map_feed; [intros [k y]; reflexivity | exact Hf]|].
    right; right; left. split; [reflexivity | exact eq_refl].
  - destruct (alookup Nat.eqb h (ls_handles s)); cbn [fst ls_feeds]; [|eauto].
    unfold end_feeds. eexists. split; [apply alookup_map_feed; [intros [k y]; reflexivity | exact Hf]|].
    right; right; left. split; [reflexivity | exact I].
  - cbn [fst ls_feeds]. eexists. split; [apply alookup_map_feed; [intros [k y]; cbn; destruct (Nat.eqb k f0); reflexivity | exact Hf]|].
    cbn [fst snd]. destruct (Nat.eqb_spec f f0) as [->|]; [right; right; right; left; split; reflexivity | left; reflexivity].
  - cbn [fst ls_feeds]. eexists. split; [apply alookup_map_feed; [intros [k y]; cbn; destruct (Nat.eqb k f0); reflexivity | exact Hf]|].
    cbn [fst snd]. destruct (Nat.eqb_spec f f0) as [->|]; [right; right; right; right; split; reflexivity | left; reflexivity].
Qed.

(* a feed whose done channel is closed has no blocked consumer *)
Definition feed_wf (x : lfeed) : Prop := lf_ended x = true -> lf_gate x = GOpen.

Lemma feed_fns_wf x : feed_wf x -> feed_wf (deliver1 x) /\ feed_wf (end1 x) /\ feed_wf (block1 x) /\ feed_wf (release1 x).
Proof.
  unfold feed_wf, deliver1, end1, block1, release1. intros H. destruct x as [c d e g gt]. destruct gt as [| |p b]; [| |destruct b];
    cbn in *; repeat split; intros; try discriminate; auto;
    destruct e; cbn in *; try discriminate; auto; destruct d; cbn in *; try discriminate; auto.
Qed.

Definition lwf (s : lstate) : Prop := forall f x, alookup Nat.eqb f (ls_feeds s) = Some x -> feed_wf x.

Lemma alookup_map_inv (g : nat * lfeed -> nat * lfeed) f (fs : list (nat * lfeed)) x' :
  (forall y, fst (g y) = fst y) -> alookup Nat.eqb f (map g fs) = Some x' ->
  exists x, alookup Nat.eqb f fs = Some x.
Proof.
  intros Hk. induction fs as [|[k y] r IH]; cbn; [discriminate|].
  pose proof (Hk (k, y)) as Hk1. cbn in Hk1. destruct (g (k, y)) as [k' y'] eqn:Eg. cbn in Hk1. subst k'.
  destruct (Nat.eqb f k); intros H; [eauto | apply IH; exact H].
Qed.

Lemma lstep_feed_inv s o f x' : alookup Nat.eqb f (ls_feeds (fst (lstep s o))) = Some x' ->
  (exists x, alookup Nat.eqb f (ls_feeds s) = Some x) \/ (exists h c dump, o = LStart f h c dump /\ lf_ended x' = lf_dump x' /\ lf_gate x' = GOpen).
Proof.
  destruct o; cbn [lstep].
  - destruct (ls_alive s); cbn [fst ls_feeds]; eauto.
  - destruct (handle_open s h && negb (coll_exists s c)); cbn [fst ls_feeds]; eauto.
  - destruct (handle_open s h && coll_exists s c); cbn [fst ls_feeds]; [|eauto].
    intros H. destruct (alookup Nat.eqb f (ls_feeds s)) as [x|] eqn:E; [eauto|]. right.
    assert (forall fs, alookup Nat.eqb f fs = None -> alookup Nat.eqb f (fs ++ [(f0, mkLfeed c dump dump (if dump then match alookup String.eqb c (ls_colls s) with Some n => n | None => 0 end else 0) GOpen)]) = Some x' ->
              f = f0 /\ x' = mkLfeed c dump dump (if dump then match alookup String.eqb c (ls_colls s) with Some n => n | None => 0 end else 0) GOpen) as Hs.
    { induction fs as [|[k z] r IH]; cbn.
      - intros _. destruct (Nat.eqb_spec f f0); [intros Hx; inversion Hx; auto | discriminate].
      - destruct (Nat.eqb f k); [discriminate | exact IH]. }
    destruct (Hs _ E H) as [-> ->]. exists h, c, dump. cbn. auto.
  - destruct (handle_open s h && coll_exists s c); cbn [fst ls_feeds]; [|eauto].
    intros H. left. eapply alookup_map_inv; [|exact H]. intros [k y]; cbn; destruct (_ && _); reflexivity.
  - cbn [fst ls_feeds]. intros H. left. eapply alookup_map_inv; [|exact H]. intros [k y]; cbn; destruct (Nat.eqb k f0); reflexivity.
  - destruct (handle_open s h && coll_exists s c && negb (String.eqb c "_default._default")); cbn [fst ls_feeds]; [|eauto].
    intros H. left. eapply alookup_map_inv; [|exact H]. intros [k y]; cbn; destruct (String.eqb _ _); reflexivity.
  - destruct (alookup Nat.eqb h (ls_handles s)) as [[|]|]; cbn [fst ls_feeds]; eauto.
    destruct ((open_count s =? 1)%nat && negb (ls_inmem s) && ls_alive s); cbn [fst ls_feeds]; [|eauto].
    intros H. left. eapply alookup_map_inv; [|exact H]. intros [k y]; reflexivity.
  - destruct (alookup Nat.eqb h (ls_handles s)); cbn [fst ls_feeds]; [|eauto].
    intros H. left. eapply alookup_map_inv; [|exact H]. intros [k y]; reflexivity.
  - cbn [fst ls_feeds]. intros H. left. eapply alookup_map_inv; [|exact H]. intros [k y]; cbn; destruct (Nat.eqb k f0); reflexivity.
  - cbn [fst ls_feeds]. intros H. left. eapply alookup_map_inv; [|exact H]. intros [k y]; cbn; destruct (Nat.eqb k f0); reflexivity.
Qed.

Theorem lstep_wf s o : lwf s -> lwf (fst (lstep s o)).
Proof.
  intros Hs f x' H. destruct (lstep_feed_inv s o f x' H) as [(x & Hx)|(h & c & d & _ & _ & Hg)]; [|intros _; exact Hg].
  destruct (lstep_feed s o f x Hx) as (x2 & H2 & Hc). rewrite H in H2. inversion H2; subst x2.
  destruct (feed_fns_wf x (Hs f x Hx)) as (A & B & C & D).
  destruct Hc as [->|[(-> & _)|[(-> & _)|[(-> & _)|(-> & _)]]]]; auto. apply (Hs f x Hx).
Qed.

Theorem reachable_wf inmem ops : lwf (fold_left (fun s o => fst (lstep s o)) ops (lstate0 inmem)).
Proof.
  assert (forall ops s, lwf s -> lwf (fold_left (fun s o => fst (lstep s o)) ops s)) as H.
  { induction ops0 as [|o r IH]; intros s Hs; cbn [fold_left]; [exact Hs | apply IH, lstep_wf, Hs]. }
  apply H. intros f x Hx. discriminate Hx.
Qed.

(* ending is for ever: no step revives a feed, and an ended feed receives nothing more *)
Theorem ended_is_final s o f x : alookup Nat.eqb f (ls_feeds s) = Some x -> lf_ended x = true -> feed_wf x ->
  match alookup Nat.eqb f (ls_feeds (fst (lstep s o))) with
  | Some x' => lf_ended x' = true /\ lf_got x' = lf_got x
  | None => False
  end.
Proof.
  intros Hf He Hwf. destruct (lstep_feed s o f x Hf) as (x' & -> & Hc). specialize (Hwf He).
  destruct Hc as [->|[(_ & Hne & _)|[(-> & _)|[(-> & _)|(-> & _)]]]]; [auto | congruence | | |];
    unfold end1, block1, release1; rewrite Hwf; cbn; rewrite ?He; cbn; auto.
Qed.

(* the events queued behind a blocked consumer when the feed is ended are never delivered: from then on the
   count stands still, and the done channel is closed when the consumer returns *)
Theorem queued_never_delivered s o f x p : alookup Nat.eqb f (ls_feeds s) = Some x -> lf_ended x = false -> lf_gate x = GHold p true ->
  match alookup Nat.eqb f (ls_feeds (fst (lstep s o))) with
  | Some x' => lf_got x' = lf_got x
               /\ ((lf_ended x' = false /\ lf_gate x' = GHold p true) \/ (lf_ended x' = true /\ lf_gate x' = GOpen /\ o = LRelease f))
  | None => False
  end.
Proof.
  intros Hf He Hg. destruct (lstep_feed s o f x Hf) as (x' & -> & Hc).
  destruct Hc as [->|[(-> & _)|[(-> & _)|[(-> & _)|(-> & Ho)]]]];
    unfold deliver1, end1, block1, release1; rewrite ?Hg, ?He; cbn; rewrite ?Hg, ?He; auto 6.
Qed.

(* independence: closing one feed's terminator, dropping another collection, or closing a handle that is
   not the last one of an on-disk bucket ends no other feed, nor marks it for ending *)
Definition running (y : lfeed) : Prop :=
  lf_ended y = false /\ match lf_gate y with GHold _ true => False | _ => True end.

Theorem others_keep_running s o g y : alookup Nat.eqb g (ls_feeds s) = Some y -> running y ->
  match o with
  | LTerm f => f <> g
  | LDrop _ c => c <> lf_coll y
  | LClose h => (open_count s =? 1)%nat && negb (ls_inmem s) && ls_alive s = false
  | LCloseAndDelete _ => False
  | _ => True
  end ->
  match alookup Nat.eqb g (ls_feeds (fst (lstep s o))) with
  | Some y' => running y'
  | None => False
  end.
Proof.
  intros Hg [He Hgate] Hside. destruct (lstep_feed s o g y Hg) as (y' & -> & Hc).
  destruct Hc as [->|[(-> & _)|[(-> & Hcause)|[(-> & _)|(-> & _)]]]].
  - split; assumption.
  - unfold running, deliver1. destruct (lf_gate y) as [| |p [|]] eqn:Eg; cbn; rewrite ?Eg; auto; contradiction.
  - exfalso. destruct o; try contradiction; congruence.
  - unfold running, block1. destruct (lf_gate y) as [| |p [|]] eqn:Eg; cbn; rewrite ?He, ?Eg; cbn; rewrite ?He, ?Eg; auto; try contradiction.
    destruct (lf_dump y); cbn; rewrite ?He, ?Eg; auto.
  - unfold running, release1. destruct (lf_gate y) as [| |p [|]] eqn:Eg; cbn; rewrite ?He, ?Eg; cbn; auto; contradiction.
Qed.

(* ---- a handle that is not open (C13) ---- *)
Lemma not_open_fails s o h : op_handle o = Some h -> handle_open s h = false -> lstep s o = (s, false).
Proof.
  intros Ho Hh. destruct o; cbn in Ho; try discriminate; inversion Ho; subst; cbn [lstep]; rewrite Hh; reflexivity.
Qed.

Lemma existsb_nat_filter h k l : h <> k -> existsb (Nat.eqb h) l = true ->
  existsb (Nat.eqb h) (filter (fun x => negb (Nat.eqb x k)) l) = true.
Proof.
  intros Hne. induction l as [|a r IH]; cbn; [auto|].
  destruct (Nat.eqb_spec h a) as [<-|Hha]; cbn.
  - intros _. destruct (Nat.eqb_spec h k) as [E|_]; [contradiction|]. cbn. rewrite Nat.eqb_refl. reflexivity.
  - intros H. destruct (negb (Nat.eqb a k)); cbn; [|auto].
    destruct (Nat.eqb_spec h a) as [E|_]; [contradiction|]. cbn. auto.
Qed.

Definition covers (s : lstate) (opn : list nat) : Prop := forall h, handle_open s h = true -> existsb (Nat.eqb h) opn = true.

Lemma nat_eqb_iff a b : Nat.eqb a b = true <-> a = b.
Proof. apply Nat.eqb_eq. Qed.

Lemma covers_step s opn o : covers s opn -> covers (fst (lstep s o)) (open_after opn o (snd (lstep s o))).
Proof.
  intros Hc. unfold covers in *.
  assert (Hsame : forall s', ls_alive s' = ls_alive s -> ls_handles s' = ls_handles s ->
            forall h, handle_open s' h = true -> existsb (Nat.eqb h) opn = true).
  { intros s' Ha Hh h. unfold handle_open. rewrite Ha, Hh. apply Hc. }
  destruct o; cbn [lstep open_after].
  - destruct (ls_alive s) eqn:Ea; cbn [fst snd]; [|exact Hc].
    intros h'. unfold handle_open. cbn [ls_alive ls_handles andb].
    destruct (Nat.eqb_spec h' h) as [->|Hne]; [intros _; cbn; rewrite Nat.eqb_refl; reflexivity|].
    rewrite (alookup_aset_other Nat.eqb nat_eqb_iff _ _ _ _ Hne). intros H. cbn.
    destruct (Nat.eqb_spec h' h) as [E|_]; [contradiction|]. cbn. apply Hc. unfold handle_open. rewrite Ea. exact H.
  - destruct (handle_open s h && negb (coll_exists s c)); cbn [fst snd]; [apply Hsame; reflexivity | exact Hc].
  - destruct (handle_open s h && coll_exists s c); cbn [fst snd]; [apply Hsame; reflexivity | exact Hc].
  - destruct (handle_open s h && coll_exists s c); cbn [fst snd]; [apply Hsame; reflexivity | exact Hc].
  - cbn [fst snd]. apply Hsame; reflexivity.
  - destruct (handle_open s h && coll_exists s c && negb (String.eqb c "_default._default")); cbn [fst snd]; [apply Hsame; reflexivity | exact Hc].
  - assert (Hk : forall s', (ls_alive s' = true -> ls_alive s = true) ->
               (forall h', h' <> h -> alookup Nat.eqb h' (ls_handles s') = alookup Nat.eqb h' (ls_handles s)) ->
               handle_open s' h = false ->
               forall h', handle_open s' h' = true -> existsb (Nat.eqb h') (filter (fun x => negb (Nat.eqb x h)) opn) = true).
    { intros s' Ha Hl Hcl h' Ho. destruct (Nat.eq_dec h' h) as [->|Hne]; [rewrite Hcl in Ho; discriminate|].
      apply existsb_nat_filter; [exact Hne|]. apply Hc. unfold handle_open in *.
      apply andb_true_iff in Ho. destruct Ho as [Ho1 Ho2]. rewrite (Ha Ho1). rewrite <- (Hl _ Hne). exact Ho2. }
    destruct (alookup Nat.eqb h (ls_handles s)) as [[|]|] eqn:El.
    + destruct ((open_count s =? 1)%nat && negb (ls_inmem s) && ls_alive s); cbn [fst snd]; apply Hk; cbn [ls_alive ls_handles];
        try discriminate; try (intros; apply (alookup_aset_other Nat.eqb nat_eqb_iff); assumption); try tauto;
        unfold handle_open; cbn [ls_alive ls_handles]; rewrite ?(alookup_aset_same Nat.eqb nat_eqb_iff); rewrite ?andb_false_r; reflexivity.
    + cbn [fst snd]. apply Hk; [tauto | reflexivity | unfold handle_open; rewrite El; apply andb_false_r].
    + cbn [fst snd]. apply Hk; [tauto | reflexivity | unfold handle_open; rewrite El; apply andb_false_r].
  - destruct (alookup Nat.eqb h (ls_handles s)); cbn [fst snd]; [|exact Hc].
    intros h'. unfold handle_open. cbn [ls_alive andb]. discriminate.
  - cbn [fst snd]. apply Hsame; reflexivity.
  - cbn [fst snd]. apply Hsame; reflexivity.
Qed.

Lemma cwalk_model ops : forall s opn, covers s opn -> cwalk opn ops (lrun_from s ops) = true.
Proof.
  induction ops as [|o r IH]; intros s opn Hc; cbn [lrun_from cwalk]; [reflexivity|].
  pose proof (covers_step s opn o Hc) as Hn.
  destruct (lstep s o) as [s' ok] eqn:Es. cbn [fst snd] in Hn. cbn [cwalk lobserve lo_ok].
  apply andb_true_iff. split; [|apply IH; exact Hn].
  destruct (op_handle o) as [h|] eqn:Eo; [|reflexivity].
  destruct (existsb (Nat.eqb h) opn) eqn:Ex; [reflexivity|]. cbn.
  assert (Hh : handle_open s h = false).
  { destruct (handle_open s h) eqn:E; [|reflexivity]. rewrite (Hc _ E) in Ex. discriminate. }
  rewrite (not_open_fails _ _ _ Eo Hh) in Es. inversion Es; subst. reflexivity.
Qed.

(* in every history of the model, every call through a handle that is not open fails (and, by not_open_fails,
   changes nothing) *)
Theorem not_open_calls_fail inmem ops : cwalk [] ops (lrun (inmem, ops)) = true.
Proof. unfold lrun. cbn [fst snd]. apply cwalk_model. intros h H. unfold handle_open, lstate0 in H. cbn in H. discriminate. Qed.
