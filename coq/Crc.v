(* Crc.v — CRC-32C (Castagnoli) as computed by hash/crc32, and the hex renderings used by the
   macro expansions and the virtual xattr:  encodedCRC32c = "0x%08x", casAsString = "0x" + hex of
   the 8 little-endian bytes. *)
From Rosmar Require Import Base.

Definition crc_poly : N := 2197175160.  (* 0x82F63B78 *)
Definition mask32 : N := 4294967295.

Fixpoint crc_bits (n : nat) (c : N) : N :=
  match n with
  | O => c
  | S k => crc_bits k (if N.testbit c 0 then N.lxor (N.shiftr c 1) crc_poly else N.shiftr c 1)
  end.

Fixpoint crc_update (c : N) (s : string) : N :=
  match s with
  | EmptyString => c
  | String a r => crc_update (crc_bits 8 (N.lxor c (N_of_ascii a))) r
  end.

Definition crc32c (s : string) : N := N.lxor (crc_update mask32 s) mask32.

Definition hex_digit (n : N) : ascii :=
  ascii_of_N (if n <? 10 then 48 + n else 87 + n).

Fixpoint hex_fixed (digits : nat) (n : N) (acc : string) : string :=
  match digits with
  | O => acc
  | S k => hex_fixed k (n / 16) (String (hex_digit (n mod 16)) acc)
  end.

(* "0x%08x" *)
Definition crc_string (body : option string) : string :=
  ("0x" ++ hex_fixed 8 (crc32c (match body with Some b => b | None => "" end)) "")%string.

(* bytes little-endian, each as two hex digits *)
Fixpoint le_bytes_hex (n : nat) (v : N) : string :=
  match n with
  | O => ""
  | S k => (hex_fixed 2 (v mod 256) "" ++ le_bytes_hex k (v / 256))%string
  end.

Definition cas_string (cas : N) : string := ("0x" ++ le_bytes_hex 8 cas)%string.

Example crc_check : crc_string (Some "123456789") = "0xe3069283".
Proof. vm_compute. reflexivity. Qed.
Example cas_check : cas_string 1311768467463790320 = "0xf0debc9a78563412".
Proof. vm_compute. reflexivity. Qed.
