(* Conc.v - interleavings.  A generic scheduler semantics, and the read-modify-write loop that
   Update / WriteUpdateWithXattrs / subdocWrite are instances of: read the document and its CAS,
   compute, write back on condition that the CAS is unchanged, retry otherwise.  For every number of
   threads, every number of updates per thread and EVERY schedule, no update is lost or applied
   twice, and each is applied on top of exactly the version the thread was shown.                *)
From Rosmar Require Import Base.

(* ---- generic ---- *)
Section Sched.
  Variables (cfg : Type) (step : nat -> cfg -> cfg).      (* thread id -> one atomic action *)

  Fixpoint exec (sched : list nat) (c : cfg) : cfg :=
    match sched with [] => c | t :: r => exec r (step t c) end.

  Lemma exec_inv (Inv : cfg -> Prop) :
    (forall t c, Inv c -> Inv (step t c)) -> forall sched c, Inv c -> Inv (exec sched c).
  Proof. intros H sched. induction sched as [|t r IH]; intros c Hc; cbn; [exact Hc | apply IH, H, Hc]. Qed.
End Sched.
Arguments exec {cfg} step sched c.
Arguments exec_inv {cfg} step Inv _ sched c _.

(* ---- the CAS loop ---- *)
(* shared: the document (value, cas) and the clock; the value is the list of updates applied so far,
   so "nothing lost, nothing applied twice" is visible in it *)
Record shared := mkShared { sh_val : list nat; sh_cas : N; sh_clock : N }.

Inductive tstate :=
| TIdle (todo : list nat)                                        (* updates (ids) still to perform *)
| THasRead (v : list nat) (c : N) (u : nat) (todo : list nat).   (* was shown (v,c); about to write v ++ [u] *)

Record ccfg := mkCcfg { c_sh : shared; c_threads : list (nat * tstate); c_done : list nat (* acknowledged updates *) }.

Lemma nat_eqb_spec a b : Nat.eqb a b = true <-> a = b. Proof. apply Nat.eqb_eq. Qed.

(* one atomic action of thread t: either its read (a SELECT outside the lock sees a committed
   snapshot) or its conditional write (one transaction under the bucket mutex, drawing a fresh CAS) *)
Definition cstep (t : nat) (c : ccfg) : ccfg :=
  match alookup Nat.eqb t (c_threads c) with
  | None => c
  | Some (TIdle []) => c
  | Some (TIdle (u :: todo)) =>
      mkCcfg (c_sh c) (aset Nat.eqb t (THasRead (sh_val (c_sh c)) (sh_cas (c_sh c)) u todo) (c_threads c)) (c_done c)
  | Some (THasRead v cas u todo) =>
      if cas =? sh_cas (c_sh c) then
        let clk := sh_clock (c_sh c) + 1 in
        mkCcfg (mkShared (v ++ [u]) clk clk) (aset Nat.eqb t (TIdle todo) (c_threads c)) (c_done c ++ [u])
      else
        (* CAS mismatch: retry from the read *)
        mkCcfg (c_sh c) (aset Nat.eqb t (TIdle (u :: todo)) (c_threads c)) (c_done c)
  end.

Definition cinit (programs : list (list nat)) : ccfg :=
  mkCcfg (mkShared [] 0 0) (combine (seq 0 (List.length programs)) (map TIdle programs)) [].

(* invariant: the stored value is exactly the acknowledged updates, in order; the CAS never exceeds
   the clock; and a thread that remembers the CURRENT CAS remembers the CURRENT value *)
Definition cinv (c : ccfg) : Prop :=
  sh_val (c_sh c) = c_done c
  /\ sh_cas (c_sh c) <= sh_clock (c_sh c)
  /\ forall t v cas u todo, alookup Nat.eqb t (c_threads c) = Some (THasRead v cas u todo) ->
       cas <= sh_clock (c_sh c) /\ (cas = sh_cas (c_sh c) -> v = sh_val (c_sh c)).

Ltac look_other H Hne := rewrite (alookup_aset_other Nat.eqb nat_eqb_spec) in H by exact Hne.
Ltac look_same H := rewrite (alookup_aset_same Nat.eqb nat_eqb_spec) in H.

Lemma cinv_step t c : cinv c -> cinv (cstep t c).
Proof.
  intros (Hv & Hc & Ht). unfold cstep.
  destruct (alookup Nat.eqb t (c_threads c)) as [[[|u todo]|v cas u todo]|] eqn:E; try (split; [|split]; assumption).
  - (* a read *)
    split; [|split]; cbn [c_sh c_threads c_done]; try assumption.
    intros t0 v0 cas0 u0 todo0 H. destruct (Nat.eqb_spec t0 t) as [->|Hne].
    + look_same H. inversion H; subst. split; [exact Hc | reflexivity].
    + look_other H Hne. apply (Ht _ _ _ _ _ H).
  - (* a conditional write *)
    destruct (N.eqb_spec cas (sh_cas (c_sh c))) as [Eq|Hne].
    + destruct (Ht _ _ _ _ _ E) as [Hle Hsame]. specialize (Hsame Eq).
      split; [|split]; cbn [c_sh c_threads c_done sh_val sh_cas sh_clock].
      * rewrite Hsame, Hv. reflexivity.
      * lia.
      * intros t0 v0 cas0 u0 todo0 H. destruct (Nat.eqb_spec t0 t) as [->|Hne'].
        -- look_same H. discriminate.
        -- look_other H Hne'. destruct (Ht _ _ _ _ _ H) as [Hle' _]. split; lia.
    + split; [|split]; cbn [c_sh c_threads c_done]; try assumption.
      intros t0 v0 cas0 u0 todo0 H. destruct (Nat.eqb_spec t0 t) as [->|Hne'].
      * look_same H. discriminate.
      * look_other H Hne'. apply (Ht _ _ _ _ _ H).
Qed.

Lemma cinv_init programs : cinv (cinit programs).
Proof.
  split; [|split]; cbn [cinit c_sh c_threads c_done sh_val sh_cas sh_clock]; try reflexivity; try lia.
  intros t v cas u todo H. exfalso. revert H. generalize 0%nat.
  induction programs as [|p r IH]; intros n H; cbn in H; [discriminate|].
  destruct (Nat.eqb t n); [discriminate | exact (IH _ H)].
Qed.

(* for all programs and all schedules: the document holds exactly the acknowledged updates *)
Theorem no_lost_update programs sched :
  let c := exec cstep sched (cinit programs) in sh_val (c_sh c) = c_done c.
Proof. exact (proj1 (exec_inv cstep cinv cinv_step sched _ (cinv_init programs))). Qed.

(* ... and every successful write extended exactly the version its thread had been shown
   (the write checks the CAS it read; equal CAS means equal version, by freshness of CAS values) *)
Theorem write_on_shown_version t c v cas u todo : cinv c ->
  alookup Nat.eqb t (c_threads c) = Some (THasRead v cas u todo) -> cas = sh_cas (c_sh c) ->
  sh_val (c_sh (cstep t c)) = sh_val (c_sh c) ++ [u].
Proof.
  intros (Hv & Hc & Ht) E Eq. unfold cstep. rewrite E. rewrite Eq, N.eqb_refl. cbn.
  destruct (Ht _ _ _ _ _ E) as [_ Hs]. rewrite (Hs Eq). reflexivity.
Qed.

(* non-vacuity: two threads, an interleaving in which one write loses the race and retries *)
Example race_example :
  let c := exec cstep [0; 1; 0; 1; 1; 1]%nat (cinit [[7]; [8]]%nat) in
  sh_val (c_sh c) = [7; 8]%nat /\ c_done c = [7; 8]%nat.
Proof. cbn. split; reflexivity. Qed.
