(* C19 - SQL queries see exactly the live documents of their collection. Property theorems only. *)
From Rosmar Require Import Base Json Crc Hlc Kv Store Trace KvTac KvRowOk KvLift KvFrame.

(* $_keyspace of a collection = the documents of that collection that have a body, with their current
   id, body and xattrs - never a tombstone, never another collection's document *)
Theorem C19_keyspace_is_live_docs : forall s cid k v xs, tables_ok s ->
  (In (k, v, xs) (keyspace s cid) <->
   exists r, get_doc s (cid, k) = Some r /\ r_value r = Some v /\ xs = xlist (r_xattrs r)).
Proof. exact keyspace_spec. Qed.
Print Assumptions C19_keyspace_is_live_docs.

(* each of them once *)
Theorem C19_each_once : forall s cid, tables_ok s -> NoDup (map (fun d : qdoc => fst (fst d)) (keyspace s cid)).
Proof. exact keyspace_each_once. Qed.
Print Assumptions C19_each_once.

(* ORDER BY id permutes, it neither drops nor invents rows *)
Theorem C19_order_keeps_rows : forall l x, In x (sort_by_id l) <-> In x l.
Proof. exact sort_by_id_In. Qed.
Print Assumptions C19_order_keeps_rows.

Theorem C19_order_keeps_count : forall l, List.length (sort_by_id l) = List.length l.
Proof. exact sort_by_id_length. Qed.
Print Assumptions C19_order_keeps_count.

Theorem C19_tables_ok : forall steps, tables_ok (sfinal_from store0 steps).
Proof. intros steps. exact (reachable_tables_ok steps store0 store0_tables_ok). Qed.
Print Assumptions C19_tables_ok.
