(* C12 - views. Property theorems only. *)
From Rosmar Require Import Base Json Crc Hlc Kv Store Trace KvTac KvRowOk KvLift KvFrame.

(* sorting the index rows for a query neither drops nor invents rows *)
Lemma insert_vrow_In d l x : In x (insert_vrow d l) <-> x = d \/ In x l.
Proof. induction l as [|d' r IH]; cbn; [intuition|]. destruct (vrow_lt d d'); cbn; rewrite ?IH; intuition. Qed.

Theorem C12_sort_keeps_rows : forall l x, In x (sort_vrows l) <-> In x l.
Proof.
  intros l x. unfold sort_vrows.
  assert (forall acc, In x (fold_left (fun a d => insert_vrow d a) l acc) <-> In x l \/ In x acc) as H.
  { induction l as [|d r IH]; intros acc; cbn [fold_left]; [cbn; intuition|]. rewrite IH, insert_vrow_In. cbn. intuition. }
  rewrite H. cbn. intuition.
Qed.
Print Assumptions C12_sort_keeps_rows.

(* the structural invariants views rely on (unique documents per collection and key) hold in every reachable store *)
Theorem C12_tables_ok : forall steps, tables_ok (sfinal_from store0 steps).
Proof. intros steps. exact (reachable_tables_ok steps store0 store0_tables_ok). Qed.
Print Assumptions C12_tables_ok.
