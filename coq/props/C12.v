(* C12 - views. Property theorems only. *)
From Rosmar Require Import Base Json Crc Hlc Kv Store Trace KvTac KvRowOk KvLift KvFrame ViewProofs ViewInv.

(* In every store any history of well-formed calls reaches - all key-value entry points, purge, collection
   create/drop, design-document replacement, stale and non-stale view queries anywhere, expiry firing, reopen -
   a view query without stale=ok answers from an index which holds, for every document id k, exactly the
   rows the map function emits for the current version of document k of that collection (scratch_for: none
   if there is no such document), collated, filtered and limited by select_rows and, for a view with a reduce
   function queried with reduce=true, counted by reduce_rows.                          *)
Theorem C12_nonstale_query_is_map_of_current_docs :
  forall steps x coll ddoc name p cid v rest, wf_steps steps ->
  let s := sfinal_from store0 steps in
  coll_id s coll = Some cid -> filter (is_view cid ddoc name) (s_views s) = v :: rest -> vp_stale p = false ->
  exists rows,
    sr_resp (sstep s x (SView coll ddoc name p)) = RRows (map render_vrow (reduce_rows p (vd_map v) (select_rows p rows)))
    /\ (forall k, filter (fun row : vrow => String.eqb (fst (fst row)) k) rows = scratch_for s cid (vd_map v) k).
Proof. exact C12_reachable. Qed.
Print Assumptions C12_nonstale_query_is_map_of_current_docs.

(* the invariant behind it is kept by every step: each document is indexed or pending re-mapping, and no row
   belongs to a document that no longer exists *)
Theorem C12_invariant_every_step : forall s x o, wf_sop o -> views_inv s -> views_inv (sr_store (sstep s x o)).
Proof. exact sstep_views_inv. Qed.
Print Assumptions C12_invariant_every_step.

Theorem C12_index_membership : forall s v row, views_inv s -> view_ok s v ->
  In row (vd_rows (update_view s v)) <->
  exists r, get_doc s (vd_coll v, fst (fst row)) = Some r /\ In row (expected_rows (vd_map v) (fst (fst row)) r).
Proof. exact nonstale_index_membership. Qed.
Print Assumptions C12_index_membership.

(* the result does not depend on how many times or when the index was updated *)
Theorem C12_independent_of_update_history : forall s1 s2 v1 v2 k, views_inv s1 -> views_inv s2 -> view_ok s1 v1 -> view_ok s2 v2 ->
  vd_map v1 = vd_map v2 -> (forall key, get_doc s1 (vd_coll v1, key) = get_doc s2 (vd_coll v2, key)) ->
  rows_of (update_view s1 v1) k = rows_of (update_view s2 v2) k.
Proof. exact index_independent_of_history. Qed.
Print Assumptions C12_independent_of_update_history.

(* sorting the index rows for a query neither drops nor invents rows *)
Theorem C12_sort_keeps_rows : forall l x, In x (sort_vrows l) <-> In x l.
Proof. exact sort_vrows_In. Qed.
Print Assumptions C12_sort_keeps_rows.

(* the structural invariants views rely on (unique documents per collection and key) hold in every reachable store *)
Theorem C12_tables_ok : forall steps, tables_ok (sfinal_from store0 steps).
Proof. intros steps. exact (reachable_tables_ok steps store0 store0_tables_ok). Qed.
Print Assumptions C12_tables_ok.
