(* C12 - views. Property theorems only. *)
From Rosmar Require Import Base Json Crc Hlc Kv Store Trace KvTac KvRowOk KvLift KvFrame.

(* sorting the index rows for a query neither drops nor invents rows *)
Theorem C12_sort_keeps_rows : forall l x, In x (sort_vrows l) <-> In x l.
Proof. exact sort_vrows_In. Qed.
Print Assumptions C12_sort_keeps_rows.

(* the structural invariants views rely on (unique documents per collection and key) hold in every reachable store *)
Theorem C12_tables_ok : forall steps, tables_ok (sfinal_from store0 steps).
Proof. intros steps. exact (reachable_tables_ok steps store0 store0_tables_ok). Qed.
Print Assumptions C12_tables_ok.
