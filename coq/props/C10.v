(* C10 - durability and crash atomicity. Property theorems only. *)
From Rosmar Require Import Base Json Crc Hlc Kv Store Trace KvTac KvRowOk KvLift KvFrame ExpProofs.

(* In the model a call is one step: its document row, both high-water marks, the revision number and the
   view invalidation change together or not at all.  That each step is ONE SQLite transaction is an
   assumption about the code which the crash family checks by killing a child process at hook points
   inside and around every transaction (Trace.chk_crash / Corr... crash_corr_ok).  What is proved: *)

(* reopening changes nothing persistent (documents, collections, design documents / views, high-water mark)
   and seeds the clock at or above the persisted high-water mark, so later CAS values exceed earlier ones *)
Theorem C10_reopen_preserves : forall s x,
  let s' := sr_store (sstep s x SReopen) in
  s_docs s' = s_docs s /\ s_colls s' = s_colls s /\ s_views s' = s_views s /\ s_lastcas s' = s_lastcas s
  /\ s_lastcas s <= s_high s' /\ s_high s <= s_high s'.
Proof. exact reopen_preserves. Qed.
Print Assumptions C10_reopen_preserves.

(* pending expirations survive: after the reopen a timer is armed at or before the earliest stored expiry *)
Theorem C10_reopen_rearms_expiry : forall s next x,
  covered (sr_store (sstep s x SReopen)) (next_after next s SReopen (sstep s x SReopen)).
Proof. exact reopen_rearms. Qed.
Print Assumptions C10_reopen_rearms_expiry.
