(* C13 - bucket handle lifecycle. Property theorems only; proofs in RegProofs.v. *)
From Rosmar Require Import Base Registry RegProofs.

(* the reference count of a registered bucket is exactly the number of handles opened on it and not
   yet closed - after any history of opens (every mode), closes, repeated closes, deletes and writes
   over any handles, names and URLs in which no stale handle of a re-created name is closed *)
Theorem C13_refcount : forall ops n i, ops_ok rstate0 ops ->
  let s := rfinal rstate0 ops in
  alookup String.eqb n (r_buckets s) = Some i -> count_of s n = open_on s i.
Proof. exact refcount_exact. Qed.
Print Assumptions C13_refcount.

(* closing a handle - even a second time - never changes what any other handle sees: its status
   (working / closed / database closed) and, while it works, its data *)
Theorem C13_close_is_local : forall s h, rinv s -> op_ok s (RClose h) ->
  let s' := fst (rstep s (RClose h)) in
  forall h', h' <> h -> status s' h' = status s h' /\ (status s h' <> HClosed -> data_of s' h' = data_of s h').
Proof. exact close_is_local. Qed.
Print Assumptions C13_close_is_local.

Theorem C13_invariant_reachable : forall ops, ops_ok rstate0 ops -> rinv (rfinal rstate0 ops).
Proof. intros ops H. exact (reachable_rinv ops rstate0 rinv0 H). Qed.
Print Assumptions C13_invariant_reachable.
