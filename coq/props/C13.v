(* C13 - bucket handle lifecycle. Property theorems only; proofs in RegProofs.v, RegModes.v and (calls through a handle that is not open) Life.v. *)
From Rosmar Require Import Base Registry RegProofs RegModes Life.

(* the reference count of a registered bucket is exactly the number of handles opened on it and not
   yet closed - after any history of opens (every mode), closes, repeated closes, deletes and writes
   over any handles, names and URLs in which no stale handle of a re-created name is closed *)
Theorem C13_refcount : forall ops n i, ops_ok rstate0 ops ->
  let s := rfinal rstate0 ops in
  alookup String.eqb n (r_buckets s) = Some i -> count_of s n = open_on s i.
Proof. exact refcount_exact. Qed.
Print Assumptions C13_refcount.

(* closing a handle - even a second time - never changes what any other handle sees: its status
   (working / closed / database closed) and, while it works, its data *)
Theorem C13_close_is_local : forall s h, rinv s -> op_ok s (RClose h) ->
  let s' := fst (rstep s (RClose h)) in
  forall h', h' <> h -> status s' h' = status s h' /\ (status s h' <> HClosed -> data_of s' h' = data_of s h').
Proof. exact close_is_local. Qed.
Print Assumptions C13_close_is_local.

Theorem C13_invariant_reachable : forall ops, ops_ok rstate0 ops -> rinv (rfinal rstate0 ops).
Proof. intros ops H. exact (reachable_rinv ops rstate0 rinv0 H). Qed.
Print Assumptions C13_invariant_reachable.

(* ---- open modes ---- *)

(* every reachable state satisfies the three invariants the theorems below assume *)
Theorem C13_invariants_reachable : forall ops, ops_ok rstate0 ops ->
  let s := rfinal rstate0 ops in rinv s /\ dense s /\ bounded s.
Proof.
  intros ops H. split; [exact (reachable_rinv ops rstate0 rinv0 H) | split; [exact (reachable_dense ops rstate0 dense0) | exact (reachable_bounded ops rstate0 bounded0)]].
Qed.
Print Assumptions C13_invariants_reachable.

(* what OpenBucket answers, for every mode, URL, name, in-memory or on disk, in every such state: CreateNew
   succeeds iff the bucket does not exist (name not registered and, on disk, no directory); ReOpenExisting iff it
   exists and is not open at another URL; CreateOrOpen unless it is open at another URL; with the errors named *)
Theorem C13_open_modes : forall s mem url name mode, rinv s -> dense s ->
  snd (do_open s mem url name mode) =
    (if match mode with
        | CreateNew => negb (bucket_exists s mem url name)
        | ReOpenExisting => bucket_exists s mem url name && negb (at_other_url s mem url name)
        | CreateOrOpen => negb (at_other_url s mem url name)
        end
     then RROpened (next_id (r_handles s))
     else RRErr (match mode with
                 | CreateNew => REExist
                 | _ => if at_other_url s mem url name then REOtherUrl else RENotExist
                 end)).
Proof. exact open_outcome. Qed.
Print Assumptions C13_open_modes.

Theorem C13_create_new_fails_iff_exists : forall s mem url name, rinv s -> dense s ->
  is_opened (snd (do_open s mem url name CreateNew)) = negb (bucket_exists s mem url name).
Proof. exact create_new_fails_iff_exists. Qed.
Print Assumptions C13_create_new_fails_iff_exists.

Theorem C13_reopen_fails_iff_missing : forall s mem url name, rinv s -> dense s -> at_other_url s mem url name = false ->
  is_opened (snd (do_open s mem url name ReOpenExisting)) = bucket_exists s mem url name.
Proof. exact reopen_fails_iff_missing. Qed.
Print Assumptions C13_reopen_fails_iff_missing.

Theorem C13_other_url_refused : forall s mem url name mode, rinv s -> dense s -> at_other_url s mem url name = true ->
  snd (do_open s mem url name mode) = RRErr (match mode with CreateNew => REExist | _ => REOtherUrl end).
Proof. exact other_url_refused. Qed.
Print Assumptions C13_other_url_refused.

(* a refused open leaves registry, handles, stores and directories exactly as they were *)
Theorem C13_refused_open_changes_nothing : forall s mem url name mode,
  is_opened (snd (do_open s mem url name mode)) = false -> fst (do_open s mem url name mode) = s.
Proof. exact refused_open_is_identity. Qed.
Print Assumptions C13_refused_open_changes_nothing.

(* ---- a closed handle ---- *)

(* Close closes the handle; whatever happens afterwards - any calls through any handles - it stays closed, and
   every call through it answers "bucket closed" and changes nothing *)
Theorem C13_close_closes : forall s h hd, get_handle s h = Some hd -> closed_handle (fst (do_close s h)) h.
Proof. exact close_closes. Qed.
Print Assumptions C13_close_closes.

Theorem C13_closed_is_final : forall ops s h, closed_handle s h -> closed_handle (rfinal s ops) h.
Proof. exact closed_forever. Qed.
Print Assumptions C13_closed_is_final.

Theorem C13_closed_handle_refuses : forall s h k v, closed_handle s h -> do_write s h k v = (s, RRErr REClosed).
Proof. exact closed_handle_refuses. Qed.
Print Assumptions C13_closed_handle_refuses.

(* ---- what survives, what is removed ---- *)

Theorem C13_close_keeps_disk : forall s h, r_disk (fst (do_close s h)) = r_disk s.
Proof. exact close_keeps_disk. Qed.
Print Assumptions C13_close_keeps_disk.

Theorem C13_close_keeps_memory : forall s h hd x, get_handle s h = Some hd -> get_inst s (h_inst hd) = Some x -> i_mem x = true ->
  let s' := fst (do_close s h) in
  r_buckets s' = r_buckets s /\ get_inst s' (h_inst hd) = Some x.
Proof. exact close_keeps_memory. Qed.
Print Assumptions C13_close_keeps_memory.

(* opening a name that is not registered on a directory: the new handle works and shows what the directory holds *)
Theorem C13_reopen_sees_disk : forall s url name mode, rinv s -> bounded s ->
  alookup String.eqb name (r_buckets s) = None ->
  is_opened (snd (do_open s false url name mode)) = true ->
  let s' := fst (do_open s false url name mode) in
  let h := next_id (r_handles s) in
  status s' h = HLive false url /\
  data_of s' h = Some (match alookup String.eqb url (r_disk s) with Some d => d | None => [] end).
Proof. exact open_unregistered_on_disk. Qed.
Print Assumptions C13_reopen_sees_disk.

Theorem C13_delete_removes : forall s h hd x, get_handle s h = Some hd -> get_inst s (h_inst hd) = Some x ->
  let s' := fst (do_close_and_delete s h) in
  alookup String.eqb (h_name hd) (r_buckets s') = None
  /\ (i_mem x = false -> alookup String.eqb (i_url x) (r_disk s') = None)
  /\ bucket_exists s' (i_mem x) (i_url x) (h_name hd) = false.
Proof. exact cad_removes. Qed.
Print Assumptions C13_delete_removes.

(* non-vacuity: write, close the last handle, reopen - the premises of C13_reopen_sees_disk hold and the data is there *)
Example C13_reopen_example :
  let s := rfinal rstate0 [ROpen false "U0" "nA" CreateNew; RWrite 0 "k" "v"; RClose 0] in
  alookup String.eqb "nA" (r_buckets s) = None
  /\ is_opened (snd (do_open s false "U0" "nA" ReOpenExisting)) = true
  /\ data_of (fst (do_open s false "U0" "nA" ReOpenExisting)) 1 = Some [("k", "v")]
  /\ is_opened (snd (do_open s false "U0" "nA" CreateNew)) = false.
Proof. vm_compute. repeat split. Qed.

(* ---- one store per bucket name ---- *)

(* opening a registered name again yields a handle on the very instance that serves the name; two handles on one
   instance read the same data; a write through one of them is read through all of them *)
Theorem C13_open_registered_shares : forall s mem url name mode i x, rinv s ->
  alookup String.eqb name (r_buckets s) = Some i -> get_inst s i = Some x ->
  String.eqb (i_url x) (the_url mem url) = true -> mode <> CreateNew ->
  let s' := fst (do_open s mem url name mode) in
  let h := next_id (r_handles s) in
  snd (do_open s mem url name mode) = RROpened h
  /\ get_handle s' h = Some (mkHandle name i false)
  /\ get_inst s' i = Some x /\ r_disk s' = r_disk s.
Proof. exact open_registered_shares. Qed.
Print Assumptions C13_open_registered_shares.

Theorem C13_same_instance_same_data : forall s h1 h2 hd1 hd2,
  get_handle s h1 = Some hd1 -> get_handle s h2 = Some hd2 -> h_inst hd1 = h_inst hd2 -> data_of s h1 = data_of s h2.
Proof. exact same_instance_same_data. Qed.
Print Assumptions C13_same_instance_same_data.

Theorem C13_write_shows_through_every_handle : forall s h k v hd x, get_handle s h = Some hd -> h_closed hd = false ->
  get_inst s (h_inst hd) = Some x -> i_dbopen x = true -> (i_mem x = false -> alookup String.eqb (i_url x) (r_disk s) <> None) ->
  let s' := fst (do_write s h k v) in
  snd (do_write s h k v) = RROk
  /\ forall h' hd', get_handle s h' = Some hd' -> h_inst hd' = h_inst hd ->
       match data_of s' h' with Some d => alookup String.eqb k d = Some v | None => False end.
Proof. exact write_shows_through_the_instance. Qed.
Print Assumptions C13_write_shows_through_every_handle.

(* non-vacuity: two handles on one on-disk bucket - the premises of C13_open_registered_shares and of
   C13_write_shows_through_every_handle hold, and the second handle reads what the first wrote *)
Example C13_sharing_example :
  let s := rfinal rstate0 [ROpen false "U0" "nA" CreateNew] in
  alookup String.eqb "nA" (r_buckets s) = Some 0
  /\ (exists x, get_inst s 0 = Some x /\ String.eqb (i_url x) (the_url false "U0") = true /\ i_dbopen x = true)
  /\ snd (do_open s false "U0" "nA" CreateOrOpen) = RROpened 1
  /\ let s2 := fst (do_open s false "U0" "nA" CreateOrOpen) in
     data_of (fst (do_write s2 0 "k" "v")) 1 = Some [("k", "v")].
Proof. vm_compute. repeat split. eexists. repeat split. Qed.

(* ---- calls through a handle that is not open, feeds included (Life.v) ---- *)

(* in every history of opens, closes (repeated too), CloseAndDelete, collection creation and drops, writes and
   feed starts (live or dump) over any handles of a bucket: every call made through a handle that was never
   opened, has been closed, or whose bucket has been deleted fails - the set of open handles being the one an
   observer derives from the calls and their answers alone (cwalk) - and such a call changes nothing *)
Theorem C13_not_open_calls_fail : forall inmem ops, cwalk [] ops (lrun (inmem, ops)) = true.
Proof. exact not_open_calls_fail. Qed.
Print Assumptions C13_not_open_calls_fail.

Theorem C13_not_open_call_changes_nothing : forall s o h, op_handle o = Some h -> handle_open s h = false -> lstep s o = (s, false).
Proof. exact not_open_fails. Qed.
Print Assumptions C13_not_open_call_changes_nothing.

(* non-vacuity: a dump feed started through a closed handle while another handle stays open is refused, the
   other handle's write and feed go on; and the checker rejects a trace in which that start succeeds *)
Example C13_not_open_example :
  let ops := [LOpenHandle 0; LOpenHandle 1; LClose 1; LStart 1 1 "_default._default" true; LWrite 0 "_default._default"] in
  map lo_ok (lrun (true, ops)) = [true; true; true; false; true]
  /\ cwalk [] ops (map (fun b => mkLobs b []) [true; true; true; true; true]) = false.
Proof. vm_compute. split; reflexivity. Qed.
