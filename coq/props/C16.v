(* C16 - feeds terminate cleanly and independently. Property theorems only; proofs in Life.v. *)
From Rosmar Require Import Base Life.

(* once a feed has ended it stays ended and its callback receives nothing more, whatever happens next
   (feed_wf - a feed whose done channel is closed has no blocked consumer - holds in every reachable state:
   C16_wf_reachable) *)
Theorem C16_ended_is_final : forall s o f x, alookup Nat.eqb f (ls_feeds s) = Some x -> lf_ended x = true -> feed_wf x ->
  match alookup Nat.eqb f (ls_feeds (fst (lstep s o))) with
  | Some x' => lf_ended x' = true /\ lf_got x' = lf_got x
  | None => False
  end.
Proof. exact ended_is_final. Qed.
Print Assumptions C16_ended_is_final.

Theorem C16_wf_reachable : forall inmem ops, lwf (fold_left (fun s o => fst (lstep s o)) ops (lstate0 inmem)).
Proof. exact reachable_wf. Qed.
Print Assumptions C16_wf_reachable.

(* a feed ended while its consumer is blocked in the callback: what was queued behind it is never delivered,
   whatever happens next, and the done channel is closed when the consumer returns *)
Theorem C16_queued_never_delivered : forall s o f x p,
  alookup Nat.eqb f (ls_feeds s) = Some x -> lf_ended x = false -> lf_gate x = GHold p true ->
  match alookup Nat.eqb f (ls_feeds (fst (lstep s o))) with
  | Some x' => lf_got x' = lf_got x
               /\ ((lf_ended x' = false /\ lf_gate x' = GHold p true) \/ (lf_ended x' = true /\ lf_gate x' = GOpen /\ o = LRelease f))
  | None => False
  end.
Proof. exact queued_never_delivered. Qed.
Print Assumptions C16_queued_never_delivered.

(* ending another feed, dropping another collection, or closing a handle that is not the last one of an
   on-disk bucket never ends a running feed, nor marks it for ending *)
Theorem C16_independent : forall s o g y, alookup Nat.eqb g (ls_feeds s) = Some y -> running y ->
  match o with
  | LTerm f => f <> g
  | LDrop _ c => c <> lf_coll y
  | LClose h => (open_count s =? 1)%nat && negb (ls_inmem s) && ls_alive s = false
  | LCloseAndDelete _ => False
  | _ => True
  end ->
  match alookup Nat.eqb g (ls_feeds (fst (lstep s o))) with
  | Some y' => running y'
  | None => False
  end.
Proof. exact others_keep_running. Qed.
Print Assumptions C16_independent.
