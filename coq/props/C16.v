(* C16 - feeds terminate cleanly and independently. Property theorems only; proofs in Life.v. *)
From Rosmar Require Import Base Life.

(* once a feed has ended it stays ended and its callback receives nothing more, whatever happens next *)
Theorem C16_ended_is_final : forall s o f x, alookup Nat.eqb f (ls_feeds s) = Some x -> lf_ended x = true ->
  NoDup (map fst (ls_feeds s)) ->
  match alookup Nat.eqb f (ls_feeds (fst (lstep s o))) with
  | Some x' => lf_ended x' = true /\ lf_got x' = lf_got x
  | None => False
  end.
Proof. exact ended_is_final. Qed.
Print Assumptions C16_ended_is_final.

(* ending another feed, dropping another collection, or closing a handle that is not the last one of an
   on-disk bucket never ends a running feed *)
Theorem C16_independent : forall s o g y, alookup Nat.eqb g (ls_feeds s) = Some y -> lf_ended y = false ->
  match o with
  | LTerm f => f <> g
  | LDrop _ c => c <> lf_coll y
  | LClose h => (open_count s =? 1)%nat && negb (ls_inmem s) && ls_alive s = false
  | LCloseAndDelete _ => False
  | _ => True
  end ->
  match alookup Nat.eqb g (ls_feeds (fst (lstep s o))) with
  | Some y' => lf_ended y' = false
  | None => False
  end.
Proof. exact others_keep_running. Qed.
Print Assumptions C16_independent.
