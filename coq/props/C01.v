(* C01 - property theorems only; proofs live in KvC01.v (row level) and KvLift.v (histories). *)
From Rosmar Require Import Base Json Crc Hlc Kv Store Trace KvTac KvRowOk KvLift KvFrame KvC01 KvTrace.

(* one call, any entry point, any arguments, any document state, any clock: the checker accepts *)
Theorem C01_every_call : rc_sound chk_row_C01.
Proof. exact C01_row_sound. Qed.
Print Assumptions C01_every_call.

(* every history of the model - any collections, keys, handles' calls in any order, clocks, times,
   size limits, purges, collection creation/drop, expiry firings - is accepted by the executable
   checker that is also run on the traces recorded from the implementation *)
Theorem C01_holds : forall c : scase, wf_case c -> chk_C01_kv (c, srun c) = true.
Proof. exact C01_kv_sound. Qed.
Print Assumptions C01_holds.

(* ... and so is the purge rule (PurgeTombstones takes away body-less documents only): the whole checker *)
Theorem C01_holds_with_purge : forall c : scase, wf_case c -> chk_C01_full (c, srun c) = true.
Proof. exact C01_full_sound. Qed.
Print Assumptions C01_holds_with_purge.
