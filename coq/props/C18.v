(* C18 - sub-document writes change only the addressed property. Property theorems only. *)
From Rosmar Require Import Base Json JsonProofs Kv Store Trace KvTac KvLift KvC02 KvC18.

(* every property on a path that diverges from the written one keeps its value or its absence *)
Theorem C18_frame : forall p j v j' p', upsert_path j p v = inl j' -> diverges p p' = true ->
  eval_path j' p' = eval_path j p'.
Proof. exact upsert_frame. Qed.
Print Assumptions C18_frame.

Theorem C18_set : forall p j v j', upsert_path j p (Some v) = inl j' -> v <> JNull -> eval_path j' p = inl v.
Proof. exact upsert_get. Qed.
Print Assumptions C18_set.

Theorem C18_remove : forall p j j', upsert_path j p None = inl j' -> eval_path j' p = inr PENotFound.
Proof. exact upsert_del. Qed.
Print Assumptions C18_remove.

(* a supplied CAS is honoured, a failed call changes nothing (WriteSubDoc and SubdocInsert are among
   the conditional entry points of C02) *)
Theorem C18_cas : rc_sound chk_row_C02.
Proof. exact C02_row_sound. Qed.
Print Assumptions C18_cas.

(* the whole call, in every history of the model: a sub-document write that succeeds stores the old document
   with exactly the addressed property set or removed (an insert only where the property was absent), one that
   fails changes nothing, a read answers the addressed property of the current body - and a write given no CAS
   never reports a CAS mismatch: it retries when it loses a race.  chk_C18_kv is the checker the
   correspondence runs on every implementation trace. *)
Theorem C18_checker_accepts_every_model_history : forall c, wf_case c -> chk_C18_kv (c, srun c) = true.
Proof. exact (chk_kv_sound chk_row_C18 C18_row_sound). Qed.
Print Assumptions C18_checker_accepts_every_model_history.
