(* C07 - property theorems only; proofs live in KvC07.v (row level) and KvLift.v (histories). *)
From Rosmar Require Import Base Json Crc Hlc Kv Store Trace KvTac KvRowOk KvLift KvC07.

(* one call, any entry point, any arguments, any document state, any clock: the checker accepts *)
Theorem C07_every_call : rc_sound chk_row_C07.
Proof. exact C07_row_sound. Qed.
Print Assumptions C07_every_call.

(* every history of the model - any collections, keys, handles' calls in any order, clocks, times,
   size limits, purges, collection creation/drop, expiry firings - is accepted by the executable
   checker that is also run on the traces recorded from the implementation *)
Theorem C07_holds : forall c : scase, wf_case c -> chk_C07_kv (c, srun c) = true.
Proof. exact (chk_kv_sound chk_row_C07 C07_row_sound). Qed.
Print Assumptions C07_holds.

(* ... and the frame in full: a key-value call - an xattr-only write in particular - leaves every document but the
   addressed one, in its own collection and in every other (the same key too), exactly as it was: body, CAS, expiry,
   every xattr, revision, what a dump says of it.  The checker of C07 includes this rule. *)
From Rosmar Require Import KvFrame KvTrace.
Theorem C07_frame_in_full : forall c : scase, wf_case c -> chk_C07_full (c, srun c) = true.
Proof. exact C07_full_sound. Qed.
Print Assumptions C07_frame_in_full.
