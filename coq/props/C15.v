(* C15 - checkpointed feeds. Property theorems only; proofs in FeedProofs.v. *)
From Rosmar Require Import Base Feed FeedProofs.

(* in every state reached by ANY interleaving of writers, feed starts, deliveries, stops and resumes, a
   persisted checkpoint is 0 or at most a CAS that the feed of that name has actually delivered *)
Theorem C15_checkpoint_le_delivered : forall acts name c,
  nlookup name (ckpt (frun_all acts)) = Some c -> c = 0 \/ exists e, In e (del_of (frun_all acts) name) /\ c <= snd e.
Proof. exact ckpt_le_delivered. Qed.
Print Assumptions C15_checkpoint_le_delivered.

(* "no run placement skips a mutation" is FALSE of the faithful model: a feed stopped after delivering a
   later CAS while an earlier-committed write is still unposted resumes beyond it (KF-C15-skip, a
   consequence of KF-C08-order) *)
Theorem C15_skip_refuted :
  ~ (forall acts name, In name (names_of acts) -> settled (frun_all acts) name = true -> complete_for (frun_all acts) name = true).
Proof. exact resume_skip_refuted. Qed.
Print Assumptions C15_skip_refuted.
