(* C14 - expiry. Property theorems only; proofs in ExpProofs.v, KvC14.v, KvLift.v. *)
From Rosmar Require Import Base Json Crc Hlc Kv Store Trace KvTac KvRowOk KvLift KvFrame KvC14 ExpProofs.

(* the expiry in force is the one given by the most recent successful write or touch (absolute, or
   now + offset for offsets up to 30 days), kept by PreserveExpiry, cleared by deletes - for every
   entry point, argument and document state *)
Theorem C14_exp_in_force : forall c : scase, wf_case c -> chk_kv chk_row_C14 (c, srun c) = true.
Proof. exact (chk_kv_sound chk_row_C14 C14_row_sound). Qed.
Print Assumptions C14_exp_in_force.

(* in every reachable state, if a document carries an expiry T then the expiry manager's timer is
   armed for a time <= T (liveness then rests on the Go timer firing) *)
Theorem C14_timer_covers_min_exp : forall c : scase, wf_case c ->
  let '(s, next) := next_final store0 0 (sc_steps c) in
  forall k r, get_doc s k = Some r -> r_exp r <> 0 -> next <> 0 /\ next <= r_exp r.
Proof. exact timer_covers_min_exp. Qed.
Print Assumptions C14_timer_covers_min_exp.

(* a firing at time t tombstones exactly the documents with 0 < exp <= t (posting a deletion event for
   each) and leaves every other document exactly as it was - in particular none is expired early *)
Theorem C14_fire_correct : forall s x, tables_ok s ->
  let res := sstep s x SExpire in
  (forall k r, get_doc s k = Some r -> due (x_now x) r ->
     is_expired (sr_store res) k /\ exists e, In (fst k, snd k, e) (sr_events res) /\ e_isDel e = true)
  /\ (forall k r, get_doc s k = Some r -> ~ due (x_now x) r -> get_doc (sr_store res) k = Some r).
Proof. exact fire_correct. Qed.
Print Assumptions C14_fire_correct.

Theorem C14_never_early : forall s x k r, tables_ok s -> get_doc s k = Some r -> x_now x < r_exp r ->
  get_doc (sr_store (sstep s x SExpire)) k = Some r.
Proof. exact fire_never_early. Qed.
Print Assumptions C14_never_early.

(* the whole executable checker of C14 - after every step the armed deadline covers every stored expiry; a
   firing tombstones exactly the due documents, each with a deletion event, and leaves every other row as it
   was; a call leaves the expiry its arguments say - accepts every history of the model *)
From Rosmar Require Import KvC14Trace.
Theorem C14_checker_accepts_every_model_history : forall c : scase, wf_case c -> chk_C14_kv (c, srun c) = true.
Proof. exact C14_kv_sound. Qed.
Print Assumptions C14_checker_accepts_every_model_history.

(* A firing is not atomic: the sweep reads, collection by collection, the keys whose expiry has passed and then removes
   them one by one, and other calls run in between.  Store.v splits such a firing into SExpireScan wc (the sweep has
   read the keys of collection wc) and SExpireK wc keys parked (it goes on), with any calls between them; the checker
   above judges those steps too.  For every store, time, collection, EVERY list of keys (whatever the sweep's query
   had returned) and whatever was done since: each step of a sweep removes exactly the documents it is about whose
   expiry has passed when the step is taken, and leaves every other document exactly as it was ... *)
From Rosmar Require Import Sweep.
Theorem C14_sweep_correct : forall s x o, tables_ok s -> is_sweep o = true ->
  let res := sstep s x o in
  (forall k r, get_doc s k = Some r -> due (x_now x) r -> takes s o k = true ->
     is_expired (sr_store res) k /\ exists e, In (fst k, snd k, e) (sr_events res) /\ e_isDel e = true)
  /\ (forall k r, get_doc s k = Some r -> (~ due (x_now x) r \/ takes s o k = false) -> get_doc (sr_store res) k = Some r)
  /\ (forall k, get_doc s k = None -> get_doc (sr_store res) k = None)
  /\ (forall name, coll_id (sr_store res) name = coll_id s name).
Proof. exact sweep_correct. Qed.
Print Assumptions C14_sweep_correct.

(* ... so a document whose expiry is 0, or lies after the time of the step, survives every step of every sweep, also
   one whose key the sweep had read before the document was given its new expiry: never early *)
Theorem C14_never_early_in_an_interrupted_sweep : forall s x o k r, tables_ok s -> is_sweep o = true ->
  get_doc s k = Some r -> (r_exp r = 0 \/ x_now x < r_exp r) -> get_doc (sr_store (sstep s x o)) k = Some r.
Proof. exact never_early. Qed.
Print Assumptions C14_never_early_in_an_interrupted_sweep.

(* The sweep of the pinned tree deleted every key its query had returned without looking again: the statement is false
   of it.  Witness (replayed on the code: corpus/kv/w19_sweep_window.jsonl; repaired by fix 2068c64 of /repo): a document
   whose deadline has passed, the sweep's query, the document rewritten with no expiry, the sweep goes on. *)
Theorem C14_unchecked_sweep_refuted :
  let s := sfinal_from store0 window_history in
  exists r, get_doc s (1, "k") = Some r /\ r_exp r = 0 /\ r_value r = Some "v2"
            /\ get_doc (sstep_unchecked s (mkSctx 4 3000000001 60) default_coll ["k"]) (1, "k") <> Some r
            /\ get_doc (sr_store (sstep s (mkSctx 4 3000000001 60) (SExpireK default_coll ["k"] []))) (1, "k") = Some r.
Proof. exact unchecked_sweep_refuted. Qed.
Print Assumptions C14_unchecked_sweep_refuted.
