(* C17 - property theorems only; proofs live in KvC17.v (row level) and KvLift.v (histories). *)
From Rosmar Require Import Base Json Crc Hlc Kv Store Trace KvTac KvRowOk KvLift KvC17.

(* one call, any entry point, any arguments, any document state, any clock: the checker accepts *)
Theorem C17_every_call : rc_sound chk_row_C17.
Proof. exact C17_row_sound. Qed.
Print Assumptions C17_every_call.

(* every history of the model - any collections, keys, handles' calls in any order, clocks, times,
   size limits, purges, collection creation/drop, expiry firings - is accepted by the executable
   checker that is also run on the traces recorded from the implementation *)
Theorem C17_holds : forall c : scase, wf_case c -> chk_C17_kv (c, srun c) = true.
Proof. exact (chk_kv_sound chk_row_C17 C17_row_sound). Qed.
Print Assumptions C17_holds.
