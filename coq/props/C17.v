(* C17 - property theorems only; proofs live in KvC17.v (row level) and KvLift.v (histories). *)
From Rosmar Require Import Base Json Crc Hlc Kv Store Trace KvTac KvRowOk KvLift KvC17.

(* one call, any entry point, any arguments, any document state, any clock: the checker accepts *)
Theorem C17_every_call : rc_sound chk_row_C17.
Proof. exact C17_row_sound. Qed.
Print Assumptions C17_every_call.

(* every history of the model - any collections, keys, handles' calls in any order, clocks, times,
   size limits, purges, collection creation/drop, expiry firings - is accepted by the executable
   checker that is also run on the traces recorded from the implementation *)
Theorem C17_holds : forall c : scase, wf_case c -> chk_C17_kv (c, srun c) = true.
Proof. exact (chk_kv_sound chk_row_C17 C17_row_sound). Qed.
Print Assumptions C17_holds.

(* the removal of a document by a firing of the expiry timer adds exactly one to its revision number, and the event and the virtual xattrs say so: the step checker chk_step_expiry applies the row rule of Delete to every document a firing removed, with
   the events the firing posted for it; it accepts every history of the model (KvExpiry.v: each due document is
   removed exactly once) and is evaluated on the implementation's traces *)
From Rosmar Require Import KvExpiry.
Theorem C17_expiry_is_a_removal : forall c : scase, wf_case c -> chk_expiry_kv chk_row_C17 (c, srun c) = true.
Proof. exact (expiry_sound chk_row_C17 C17_row_sound). Qed.
Print Assumptions C17_expiry_is_a_removal.
