(* C03 - linearizability of concurrent operations. Property theorems only; proofs in Conc.v. *)
From Rosmar Require Import Base Conc.

(* the read / compute / conditional-write loop of Update, WriteUpdateWithXattrs and sub-document writes:
   for every number of threads, every list of updates per thread and EVERY schedule, the document
   holds exactly the acknowledged updates - none lost, none applied twice *)
Theorem C03_no_lost_update : forall programs sched,
  let c := exec cstep sched (cinit programs) in sh_val (c_sh c) = c_done c.
Proof. exact no_lost_update. Qed.
Print Assumptions C03_no_lost_update.

(* a successful write extends exactly the version its thread was shown: the write checks the CAS that
   was read, and an equal CAS means an equal version because CAS values are never reused (C04) *)
Theorem C03_write_on_shown_version : forall t c v cas u todo, cinv c ->
  alookup Nat.eqb t (c_threads c) = Some (THasRead v cas u todo) -> cas = sh_cas (c_sh c) ->
  sh_val (c_sh (cstep t c)) = sh_val (c_sh c) ++ [u].
Proof. exact write_on_shown_version. Qed.
Print Assumptions C03_write_on_shown_version.

(* the invariant behind both holds in every configuration any schedule can reach *)
Theorem C03_invariant_reachable : forall programs sched, cinv (exec cstep sched (cinit programs)).
Proof. intros programs sched. exact (exec_inv cstep cinv cinv_step sched _ (cinv_init programs)). Qed.
Print Assumptions C03_invariant_reachable.
