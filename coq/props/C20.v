(* C20 - shutdown safety. Property theorems only; proofs in Locks.v. *)
From Rosmar Require Import Base Locks.

(* lock-rank discipline: threads that take locks in strictly increasing rank and release what they took
   never deadlock - for every number of threads and every schedule *)
Theorem C20_rank_discipline_no_deadlock : forall progs sched,
  forallb (ranked []) progs = true -> stuck (lexec sched (linit progs)) = false.
Proof. exact no_deadlock. Qed.
Print Assumptions C20_rank_discipline_no_deadlock.

(* ... and leave no lock held when they are done *)
Theorem C20_no_lock_left : forall progs sched, forallb (ranked []) progs = true ->
  all_done (lexec sched (linit progs)) = true -> lc_held (lexec sched (linit progs)) = [].
Proof. exact nothing_left_held. Qed.
Print Assumptions C20_no_lock_left.

(* rosmar's code paths (writes, reads, feed start, CloseAndDelete, last Close, DropDataStore, OpenBucket, view
   update; transcribed by hand in Locks.v) follow the discipline, so any number of them in any interleaving
   cannot deadlock ... *)
Theorem C20_paths_no_deadlock : forall progs sched,
  (forall p, In p progs -> In p disciplined_paths) -> stuck (lexec sched (linit progs)) = false.
Proof. exact rosmar_paths_no_deadlock. Qed.
Print Assumptions C20_paths_no_deadlock.

(* ... except the expiry timer's callback, which takes bucket.mutex while holding expiryManager.mutex:
   against CloseAndDelete a stuck configuration is reachable (KNOWN_FINDINGS KF-C20-deadlock) *)
Theorem C20_timer_deadlock_refuted : exists sched, stuck (lexec sched (linit [path_timer; path_close_and_delete])) = true.
Proof. exact timer_vs_delete_deadlocks. Qed.
Print Assumptions C20_timer_deadlock_refuted.
