(* C20 - shutdown safety. Property theorems only; proofs in Locks.v. *)
From Rosmar Require Import Base Locks LockStop.

(* lock-rank discipline: threads that take locks in strictly increasing rank and release what they took
   never deadlock - for every number of threads and every schedule *)
Theorem C20_rank_discipline_no_deadlock : forall progs sched,
  forallb (ranked []) progs = true -> stuck (lexec sched (linit progs)) = false.
Proof. exact no_deadlock. Qed.
Print Assumptions C20_rank_discipline_no_deadlock.

(* ... and leave no lock held when they are done *)
Theorem C20_no_lock_left : forall progs sched, forallb (ranked []) progs = true ->
  all_done (lexec sched (linit progs)) = true -> lc_held (lexec sched (linit progs)) = [].
Proof. exact nothing_left_held. Qed.
Print Assumptions C20_no_lock_left.

(* rosmar's code paths (writes, reads, feed start, CloseAndDelete, last Close, DropDataStore, OpenBucket, view
   update; transcribed by hand in Locks.v) follow the discipline, so any number of them in any interleaving
   cannot deadlock ... *)
Theorem C20_paths_no_deadlock : forall progs sched,
  (forall p, In p progs -> In p disciplined_paths) -> stuck (lexec sched (linit progs)) = false.
Proof. exact rosmar_paths_no_deadlock. Qed.
Print Assumptions C20_paths_no_deadlock.

(* ... except the expiry timer's callback, which takes bucket.mutex while holding expiryManager.mutex. Against the
   CloseAndDelete of the pinned tree (bucket.mutex, then expiryManager.mutex) a stuck configuration is reachable:
   the defect recorded as KF-C20-deadlock and repaired by fix 2f1f33b of /repo *)
Theorem C20_timer_deadlock_before_the_fix : exists sched, stuck (lexec sched (linit [path_timer; path_close_and_delete])) = true.
Proof. exact timer_vs_delete_deadlocks. Qed.
Print Assumptions C20_timer_deadlock_before_the_fix.

(* Since the fixes the store carries a shut-down flag: CloseAndDelete sets it and waits for a running sweep before
   it takes bucket.mutex, the callback does nothing once the flag is set (LockStop.v: threads of Acq / Rel / SetStop /
   IfStopped actions).  For the timer callback together with CloseAndDelete, a writer and a feed start - every
   schedule - no reachable configuration is stuck ... *)
Theorem C20_timer_vs_close_and_delete_no_deadlock : forall sched,
  gstuck (gexec sched (ginit [g_timer; g_close_and_delete; g_write; g_start_feed])) = false.
Proof. exact timer_vs_close_and_delete_no_deadlock. Qed.
Print Assumptions C20_timer_vs_close_and_delete_no_deadlock.

(* ... nor with the last Close of an on-disk bucket, a writer and DropDataStore ... *)
Theorem C20_timer_vs_last_close_no_deadlock : forall sched,
  gstuck (gexec sched (ginit [g_timer; g_close_last; g_write; g_drop])) = false.
Proof. exact timer_vs_last_close_no_deadlock. Qed.
Print Assumptions C20_timer_vs_last_close_no_deadlock.

(* ... nor with both shutdown calls at once (the three-lock cycle cluster.lock -> expiryManager.mutex -> bucket.mutex ->
   cluster.lock is not reachable either), and when all have finished no lock is held *)
Theorem C20_timer_vs_both_shutdowns_no_deadlock : forall sched,
  gstuck (gexec sched (ginit [g_timer; g_close_and_delete; g_close_last; g_write])) = false.
Proof. exact timer_vs_both_shutdowns_no_deadlock. Qed.
Print Assumptions C20_timer_vs_both_shutdowns_no_deadlock.

Theorem C20_shutdown_leaves_no_lock : forall sched,
  gall_done (gexec sched (ginit [g_timer; g_close_and_delete; g_close_last; g_write])) = true ->
  gc_held (gexec sched (ginit [g_timer; g_close_and_delete; g_close_last; g_write])) = [].
Proof. exact shutdown_leaves_no_lock. Qed.
Print Assumptions C20_shutdown_leaves_no_lock.

(* the sweep never waits for bucket.mutex while CloseAndDelete holds it: in no reachable configuration is the
   callback past its test of the flag, holding expiryManager.mutex, with CloseAndDelete inside its locked part *)
Theorem C20_sweep_never_inside_a_shutdown : forall sched,
  sweep_inside_shutdown (gexec sched (ginit [g_timer; g_close_and_delete; g_write; g_start_feed])) = false.
Proof. exact sweep_never_waits_for_close_and_delete. Qed.
Print Assumptions C20_sweep_never_inside_a_shutdown.
