(* C04 — CAS values are unique and strictly increasing, whatever the clock does.
   Property theorems only; proofs live in HlcProofs.v. *)
From Rosmar Require Import Base Hlc HlcProofs.

(* every list of clock readings yields strictly increasing (hence pairwise distinct) timestamps *)
Theorem C04_strict : forall h ps, strictly_increasing (fst (hlc_draws h ps)) = true.
Proof. exact hlc_strict. Qed.
Print Assumptions C04_strict.

(* ... all above the value the clock was seeded with (the reopened bucket's persisted lastCas) *)
Theorem C04_above_seed : forall h ps t, In t (fst (hlc_draws h ps)) -> h < t.
Proof. exact hlc_above_seed. Qed.
Print Assumptions C04_above_seed.

(* the unbounded model is the uint64 code below 2^64-1 *)
Theorem C04_no_wrap : forall h p, h < two64 - 1 -> p < two64 -> hlc_now64 h p = hlc_now h p.
Proof. exact hlc_no_wrap. Qed.
Print Assumptions C04_no_wrap.

(* process-wide statement: any buckets, any readings, failed calls, closes, restarts, reopens *)
Theorem C04_holds : forall ops, chk_C04 (crun proc0 ops) = true.
Proof. exact C04_model_holds. Qed.
Print Assumptions C04_holds.

(* what an accepting verdict of the executable checker means *)
Theorem C04_chk_means_increasing_within_run : forall tr1 b c cm tr2 c',
  chk_C04 (tr1 ++ EvCas b c cm :: tr2) = true -> In c' (cas_between_restarts tr2) -> c < c'.
Proof. exact chk_C04_sound_run. Qed.
Print Assumptions C04_chk_means_increasing_within_run.

Theorem C04_chk_means_increasing_per_bucket_across_restarts : forall tr1 b c tr2 c' cm',
  chk_C04 (tr1 ++ EvCas b c true :: tr2 ++ [EvCas b c' cm']) = true -> c < c'.
Proof. exact chk_C04_sound_bucket. Qed.
Print Assumptions C04_chk_means_increasing_per_bucket_across_restarts.

(* The same statement over whole key-value histories of one bucket (any collections, keys, entry points, arguments,
   scripted clocks - standing still, going back -, purges, drops, expiry sweeps whole or interrupted, failed attempts of
   compare-and-swap loops, reopen): every CAS stamped by the regular API is greater than every CAS stamped before it, in
   the order in which the events were posted.  The executable checker that says so (it is also run on the
   implementation's traces) accepts every history of the model.  WithMeta writes carry a CAS of the caller's choosing
   and are not part of the statement; they never turn the clock back (KvC04.sstep_high_mono). *)
From Rosmar Require Import Json Crc Kv Store Trace KvLift KvC04.
Theorem C04_checker_accepts_every_model_history : forall c : scase, wf_case c -> chk_C04_kv (c, srun c) = true.
Proof. exact C04_kv_sound. Qed.
Print Assumptions C04_checker_accepts_every_model_history.
