(* C08 - property theorems only; proofs live in KvC08.v (row level) and KvLift.v (histories). *)
From Rosmar Require Import Base Json Crc Hlc Kv Store Trace KvTac KvRowOk KvLift KvC08.

(* one call, any entry point, any arguments, any document state, any clock: the checker accepts *)
Theorem C08_every_call : rc_sound chk_row_C08.
Proof. exact C08_row_sound. Qed.
Print Assumptions C08_every_call.

(* every history of the model - any collections, keys, handles' calls in any order, clocks, times,
   size limits, purges, collection creation/drop, expiry firings - is accepted by the executable
   checker that is also run on the traces recorded from the implementation *)
Theorem C08_holds : forall c : scase, wf_case c -> chk_C08_kv (c, srun c) = true.
Proof. exact (chk_kv_sound chk_row_C08 C08_row_sound). Qed.
Print Assumptions C08_holds.

(* Ordering under concurrent writers.  On the faithful interleaving model (a write is Commit, then the
   read of the feed list, then the Push, as in collection.go / feeds.go) the full statement "every run of
   every feed receives its events in increasing CAS order, in every interleaving" is FALSE: *)
From Rosmar Require Import Feed FeedProofs.
Theorem C08_order_refuted : ~ (forall acts, forallb (fun fs => order_ok_feed (snd fs)) (feeds (frun_all acts)) = true).
Proof. exact order_refuted. Qed.
Print Assumptions C08_order_refuted.
(* the witness (writer 1 commits, writer 2 commits and posts, writer 1 posts) is KNOWN_FINDINGS KF-C08-order;
   the sched family replays it on the code and checks every schedule outside that window *)

(* ... and the inversion needs exactly that window: in every schedule - any number of writers, feeds, runs,
   deliveries, stops and resumes - in which a write's commit, feed-list snapshot and push are not separated by
   other actions, nor a feed's backfill from its registration, every run of every feed has received its
   events in strictly increasing CAS order *)
From Rosmar Require Import FeedOrder.
Theorem C08_order_holds_when_posting_is_atomic : forall bs f st, NoDup (starts bs) ->
  nlookup f (feeds (frun_all (flat_map expand bs))) = Some st -> order_ok_feed st = true.
Proof. exact order_holds_when_posting_is_atomic. Qed.
Print Assumptions C08_order_holds_when_posting_is_atomic.

(* the removal of a document by a firing of the expiry timer posts exactly one event, the rendering of the tombstone as stored: the step checker chk_step_expiry applies the row rule of Delete to every document a firing removed, with
   the events the firing posted for it; it accepts every history of the model (KvExpiry.v: each due document is
   removed exactly once) and is evaluated on the implementation's traces *)
From Rosmar Require Import KvExpiry.
Theorem C08_expiry_is_a_removal : forall c : scase, wf_case c -> chk_expiry_kv chk_row_C08 (c, srun c) = true.
Proof. exact (expiry_sound chk_row_C08 C08_row_sound). Qed.
Print Assumptions C08_expiry_is_a_removal.
