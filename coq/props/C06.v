(* C06 - property theorems only; proofs live in KvC06.v (row level) and KvLift.v (histories). *)
From Rosmar Require Import Base Json Crc Hlc Kv Store Trace KvTac KvRowOk KvLift KvC06.

(* one call, any entry point, any arguments, any document state, any clock: the checker accepts *)
Theorem C06_every_call : rc_sound chk_row_C06.
Proof. exact C06_row_sound. Qed.
Print Assumptions C06_every_call.

(* every history of the model - any collections, keys, handles' calls in any order, clocks, times,
   size limits, purges, collection creation/drop, expiry firings - is accepted by the executable
   checker that is also run on the traces recorded from the implementation *)
Theorem C06_holds : forall c : scase, wf_case c -> chk_C06_kv (c, srun c) = true.
Proof. exact (chk_kv_sound chk_row_C06 C06_row_sound). Qed.
Print Assumptions C06_holds.
