(* C09 - backfill is a faithful, CAS-ordered snapshot (sequential part). Property theorems only. *)
From Rosmar Require Import Base Json Crc Hlc Kv Store Trace KvTac KvRowOk KvLift KvFrame KvC08.

(* between the markers: exactly the current version of every document of the collection (tombstones
   included) whose CAS is at least the start CAS ... *)
Theorem C09_complete : forall s cid start key r, tables_ok s ->
  (In ((cid, key), r) (backfill_rows s cid start) <-> get_doc s (cid, key) = Some r /\ start <= r_cas r).
Proof. exact C09_backfill_complete. Qed.
Print Assumptions C09_complete.

(* ... in CAS order ... *)
Theorem C09_sorted : forall s cid start, cas_sorted (backfill_rows s cid start).
Proof. exact C09_backfill_sorted. Qed.
Print Assumptions C09_sorted.

(* ... each rendered by the very function that renders live events (opcode from the tombstone column,
   which equals "no body" in every reachable store: C05_flag_iff_nobody) ... *)
Theorem C09_same_rendering : forall s cid start f, In f (backfill_events s cid start) ->
  exists key r, In ((cid, key), r) (backfill_rows s cid start) /\ f = as_feed_event (cid - 1) key (event_of_row r).
Proof. exact C09_backfill_event_is_live_event. Qed.
Print Assumptions C09_same_rendering.

(* ... and a later start CAS is a filter of the full snapshot *)
Theorem C09_from_start : forall s cid start,
  backfill_events s cid start = filter (fun f => start <=? f_cas f) (backfill_events s cid 0).
Proof. exact C09_backfill_from_start. Qed.
Print Assumptions C09_from_start.

(* the tables invariants used above hold in every reachable store *)
Theorem C09_tables_ok : forall steps, tables_ok (sfinal_from store0 steps).
Proof. intros steps. exact (reachable_tables_ok steps store0 store0_tables_ok). Qed.
Print Assumptions C09_tables_ok.

(* a live event equals the rendering of the stored document, for every call (shared with C08) *)
Theorem C09_live_equals_stored : rc_sound chk_row_C08.
Proof. exact C08_row_sound. Qed.
Print Assumptions C09_live_equals_stored.

(* No gap between backfill and live.  On the faithful interleaving model (Backfill and Register are two
   actions, as in StartDCPFeed) the full statement is FALSE: *)
From Rosmar Require Import Feed FeedProofs.
Theorem C09_gap_refuted :
  ~ (forall acts name, In name (names_of acts) -> settled (frun_all acts) name = true -> complete_for (frun_all acts) name = true).
Proof. exact gap_refuted. Qed.
Print Assumptions C09_gap_refuted.
(* the witness (a write commits after the backfill query and reads the feed list before registration) is
   KNOWN_FINDINGS KF-C09-gap; the sched family replays it on the code and checks every other schedule *)
