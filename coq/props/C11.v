(* C11 - collections are isolated from one another. Property theorems only; proofs in KvFrame.v. *)
From Rosmar Require Import Base Json Crc Hlc Kv Store Trace KvTac KvRowOk KvLift KvFrame KvTrace.

(* any call addressed to collection c - every entry point, every argument - leaves the documents,
   the backfill (hence xattrs, expiry, CAS, revision) and the identity of every other collection c'
   unchanged, and posts no event to c' *)
Theorem C11_frame : forall s x c key op c' cid' k' start, tables_ok s ->
  c' <> c -> coll_id s c' = Some cid' ->
  let res := sstep s x (SKv c key op) in
  get_doc (sr_store res) (cid', k') = get_doc s (cid', k')
  /\ backfill_events (sr_store res) cid' start = backfill_events s cid' start
  /\ coll_id (sr_store res) c' = Some cid'
  /\ (forall e, In e (sr_events res) -> fst (fst e) <> cid').
Proof. exact C11_kv_isolated. Qed.
Print Assumptions C11_frame.

Theorem C11_drop : forall s x name cid, tables_ok s ->
  String.eqb name default_coll = false -> coll_id s name = Some cid ->
  let s' := sr_store (sstep s x (SDropColl name)) in
  (forall k, get_doc s' (cid, k) = None)
  /\ (forall c' k, c' <> cid -> get_doc s' (c', k) = get_doc s (c', k))
  /\ coll_id s' name = None
  /\ (forall n', n' <> name -> coll_id s' n' = coll_id s n').
Proof. exact C11_drop_exact. Qed.
Print Assumptions C11_drop.

Theorem C11_recreate : forall s x name, tables_ok s -> coll_id s name = None ->
  let s' := sr_store (sstep s x (SCreateColl name)) in
  coll_id s' name = Some (s_nextcoll s)
  /\ (forall k, get_doc s' (s_nextcoll s, k) = None)
  /\ backfill_events s' (s_nextcoll s) 0 = []
  /\ (forall k, get_doc s' k = get_doc s k)
  /\ (forall n', n' <> name -> coll_id s' n' = coll_id s n').
Proof. exact C11_recreate_empty. Qed.
Print Assumptions C11_recreate.

Theorem C11_tables_ok : forall steps, tables_ok (sfinal_from store0 steps).
Proof. intros steps. exact (reachable_tables_ok steps store0 store0_tables_ok). Qed.
Print Assumptions C11_tables_ok.

(* the executable checker that is run on the traces recorded from the implementation (a step addressed to one
   collection leaves the rows, the dump order and the list of collections outside it as they were; a drop
   removes exactly the collection; a creation yields an empty collection) accepts every history of the model *)
Theorem C11_checker_accepts_every_model_history : forall c : scase, wf_case c -> chk_C11_kv (c, srun c) = true.
Proof. exact C11_kv_sound. Qed.
Print Assumptions C11_checker_accepts_every_model_history.
