(* C05 - property theorems only; proofs live in KvC05.v (row level) and KvLift.v (histories). *)
From Rosmar Require Import Base Json Crc Hlc Kv Store Trace KvTac KvRowOk KvLift KvC05.

(* one call, any entry point, any arguments, any document state, any clock: the checker accepts *)
Theorem C05_every_call : rc_sound chk_row_C05.
Proof. exact C05_row_sound. Qed.
Print Assumptions C05_every_call.

(* every history of the model - any collections, keys, handles' calls in any order, clocks, times,
   size limits, purges, collection creation/drop, expiry firings - is accepted by the executable
   checker that is also run on the traces recorded from the implementation *)
Theorem C05_holds : forall c : scase, wf_case c -> chk_C05_kv (c, srun c) = true.
Proof. exact (chk_kv_sound chk_row_C05 C05_row_sound). Qed.
Print Assumptions C05_holds.

(* the redundant tombstone column equals "value IS NULL" in every reachable store *)
Theorem C05_flag_iff_nobody : forall c : scase, wf_case c -> flag_coherent (sfinal_from store0 (sc_steps c)).
Proof. exact reachable_flag_coherent. Qed.
Print Assumptions C05_flag_iff_nobody.

(* PurgeTombstones removes exactly the documents without a body, in every collection *)
From Rosmar Require Import KvFrame.
Theorem C05_purge : forall s x k, tables_ok s ->
  get_doc (sr_store (sstep s x SPurge)) k
  = match get_doc s k with Some r => if is_some (r_value r) then Some r else None | None => None end.
Proof. exact C05_purge_exact. Qed.
Print Assumptions C05_purge.

(* the whole executable checker of C05 (row rules and the purge rule) accepts every history of the model *)
From Rosmar Require Import KvTrace.
Theorem C05_holds_with_purge : forall c : scase, wf_case c -> chk_C05_full (c, srun c) = true.
Proof. exact C05_full_sound. Qed.
Print Assumptions C05_holds_with_purge.

(* removal by expiry is a removal: in every history of the model, every document that a firing of the expiry
   timer removes satisfies what C05 says of Delete - no body, no expiry, and of its xattrs exactly the system
   ones (chk_step_expiry applies the row rule of Delete to each such document; the same checker runs on the
   implementation's traces) *)
From Rosmar Require Import KvExpiry.
Theorem C05_expiry_is_a_removal : forall c : scase, wf_case c -> chk_expiry_kv chk_row_C05 (c, srun c) = true.
Proof. exact C05_expiry_sound. Qed.
Print Assumptions C05_expiry_is_a_removal.

(* non-vacuity: a document with a user and a system xattr and an expiry; the timer fires after the deadline: the
   history is well formed, the step checker has a removal to judge, and what is left is the tombstone with the
   system xattr only *)
Example C05_expiry_example :
  let c := mkScase ["_default._default"] ["k1"] ["u1"]
             [(mkSctx 1 100 60, SKv "_default._default" "k1" (KSetRaw 3000000000 false "x"));
              (mkSctx 2 100 60, SKv "_default._default" "k1" (KSetXattrs [("u1", Some "1"); ("_sync", Some "2")]));
              (mkSctx 3 3000000001 60, SExpire)] in
  wf_case c
  /\ map (fun o => map (fun e => (o_exists (snd e), option_map f_xattrs (o_dump (snd e)))) (sn_rows (os_snap o))) (srun c)
     = [[(true, Some [])]; [(true, Some [("_sync", "2"); ("u1", "1")])]; [(false, Some [("_sync", "2")])]]
  /\ chk_expiry_kv chk_row_C05 (c, srun c) = true.
Proof. split; [repeat constructor | split; vm_compute; reflexivity]. Qed.
