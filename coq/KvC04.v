(* KvC04.v - C04 on whole key-value histories: the executable checker chk_C04_kv (every CAS stamped by the regular API
   exceeds every CAS stamped before it - across collections, drops, purges, expiry sweeps whole or interrupted, failed
   attempts of compare-and-swap loops, reopen; WithMeta writes carry a CAS of the caller's choosing and are not part of
   the statement) accepts every history of the model.                                                              *)
From Rosmar Require Import Base Json Crc Hlc HlcProofs Kv Store Trace KvTac KvRowOk KvLift KvFrame.

(* h < c1 < c2 < ... < cn <= h' *)
Fixpoint above (h : N) (l : list N) (h' : N) : Prop :=
  match l with
  | [] => h <= h'
  | c :: r => h < c /\ above c r h'
  end.

Lemma above_le h l h' : above h l h' -> h <= h'.
Proof. revert h. induction l as [|c r IH]; intros h H; cbn in H; [exact H|]. destruct H as [H1 H2]. specialize (IH c H2). lia. Qed.

Lemma above_weaken h0 h l h' : h0 <= h -> above h l h' -> above h0 l h'.
Proof. destruct l as [|c r]; cbn; [lia|]. intros H [H1 H2]. split; [lia | exact H2]. Qed.

Lemma above_raise h l h1 h2 : h1 <= h2 -> above h l h1 -> above h l h2.
Proof. revert h. induction l as [|c r IH]; intros h H; cbn; [lia|]. intros [H1 H2]. split; [exact H1 | apply IH; assumption]. Qed.

Lemma above_app h l1 h1 l2 h2 : above h l1 h1 -> above h1 l2 h2 -> above h (l1 ++ l2) h2.
Proof.
  revert h. induction l1 as [|c r IH]; intros h H1 H2; cbn [app].
  - cbn in H1. exact (above_weaken h h1 l2 h2 H1 H2).
  - cbn in H1 |- *. destruct H1 as [A B]. split; [exact A | apply IH; assumption].
Qed.

Lemma above_checks h l h' m : above h l h' -> m <= h ->
  forallb (fun c => m <? c) l = true /\ strictly_increasing l = true /\ fold_left N.max l m <= h'.
Proof.
  revert h m. induction l as [|c r IH]; intros h m H Hm.
  - cbn in *. repeat split; lia.
  - cbn [above] in H. destruct H as [H1 H2].
    destruct (IH c (N.max m c) H2 ltac:(lia)) as (A & B & C).
    split; [|split].
    + cbn [forallb]. rewrite (proj2 (N.ltb_lt m c)) by lia. cbn [andb].
      apply forallb_forall. intros y Hy. rewrite forallb_forall in A. specialize (A y Hy). apply N.ltb_lt in A. apply N.ltb_lt. lia.
    + cbn [strictly_increasing]. destruct r as [|y r']; [reflexivity|]. cbn [above] in H2. rewrite (proj2 (N.ltb_lt c y)) by (apply H2). exact B.
    + cbn [fold_left]. exact C.
Qed.

(* ---- one call: a regular write stamps its one event with the timestamp it drew ---- *)
Lemma kstep_event_cas ctx op r : wf_op op -> orow_ok r -> is_withmeta op = false ->
  let res := kstep ctx op r in
  kr_events res = [] \/ (exists e, kr_events res = [e] /\ e_cas e = k_cas ctx /\ kr_draws res = 1).
Proof.
  intros Hwf H Hm. cbv zeta.
  match goal with |- context [kstep ?cc ?oo ?rr] =>
    let res := fresh "res" in let Hres := fresh "Hres" in
    remember (kstep cc oo rr) as res eqn:Hres;
    destruct r as [[v0 j0 c0 e0 x0 t0 rv0]|]; cbn in H; [unfold row_ok in H; cbn in H; subst t0|];
    destruct op; try discriminate Hm; cbn [kstep] in Hres; unf; unf; unfold wwx, with_resp in Hres;
    cbn [r_value r_tomb r_cas r_rev r_xattrs r_isJSON r_exp option_map kr_row kr_resp kr_events kr_draws kr_commit kfail fst snd] in Hres;
    brkH Hres; subst res; inv_all
  end;
  cbn [r_value r_tomb r_cas r_rev r_xattrs r_isJSON r_exp kr_row kr_resp kr_events kr_draws kr_commit kfail fst snd new_row].
  all: first [ left; reflexivity
             | right; eexists; split; [reflexivity | split; reflexivity]
             | idtac ].
Qed.

(* ---- the store: every step's events are stamped above everything stamped before, in increasing order ---- *)
Definition ev_cass (evs : list (N * string * event)) : list N := map (fun e => e_cas (snd e)) evs.

Lemma fevents_cas evs : map f_cas (fevents_of evs) = ev_cass evs.
Proof. unfold fevents_of, ev_cass. rewrite map_map. apply map_ext. intros [[c k] e]. reflexivity. Qed.

Lemma kv_on_high s x cid key op :
  s_high (sr_store (kv_on s x cid key op))
  = let c1 := hlc_now (s_high s) (x_clock x) in
    let res := kstep (mkCtx (x_now x) c1 (x_maxdoc x)) op (get_doc s (cid, key)) in
    if kr_draws res =? 0 then s_high s else c1 + (kr_draws res - 1).
Proof. reflexivity. Qed.

Lemma kv_on_high_mono s x cid key op : s_high s <= s_high (sr_store (kv_on s x cid key op)).
Proof.
  rewrite kv_on_high. cbv zeta. pose proof (hlc_now_gt (s_high s) (x_clock x)). destruct (_ =? 0); lia.
Qed.

Lemma kv_on_above s x cid key op : wf_op op -> store_ok s -> is_withmeta op = false ->
  above (s_high s) (ev_cass (sr_events (kv_on s x cid key op))) (s_high (sr_store (kv_on s x cid key op))).
Proof.
  intros Hwf Hs Hm. rewrite kv_on_high. cbv zeta.
  pose proof (hlc_now_gt (s_high s) (x_clock x)) as Hgt.
  set (ctx := mkCtx (x_now x) (hlc_now (s_high s) (x_clock x)) (x_maxdoc x)).
  pose proof (kstep_event_cas ctx op (get_doc s (cid, key)) Hwf (proj1 (get_doc_orow_ok s (cid, key) Hs)) Hm) as H. cbv zeta in H.
  unfold kv_on; cbv zeta; cbn [sr_events]. fold ctx. unfold ev_cass. rewrite map_map. cbn [snd].
  destruct H as [->|(e & -> & Hc & ->)].
  - cbn [map above]. destruct (_ =? 0); lia.
  - cbn [map above N.eqb]. rewrite Hc. cbn [k_cas ctx]. lia.
Qed.

Lemma delete_not_withmeta : is_withmeta KDelete = false. Proof. reflexivity. Qed.

Lemma ev_cass_app a b : ev_cass (a ++ b) = ev_cass a ++ ev_cass b.
Proof. apply map_app. Qed.

Lemma expire_keys_above x cid keys : forall s acc, store_ok s ->
  exists new, snd (expire_keys s x cid keys acc) = acc ++ new
              /\ above (s_high s) (ev_cass new) (s_high (fst (expire_keys s x cid keys acc))).
Proof.
  induction keys as [|k r IH]; intros s acc Hs; cbn [expire_keys].
  - exists []. rewrite app_nil_r. split; [reflexivity | cbn; lia].
  - destruct (IH (sr_store (kv_on s x cid k KDelete)) (acc ++ sr_events (kv_on s x cid k KDelete)) (kv_on_ok s x cid k KDelete I Hs)) as (new & E & A).
    exists (sr_events (kv_on s x cid k KDelete) ++ new). rewrite E, app_assoc. split; [reflexivity|].
    rewrite ev_cass_app. eapply above_app; [apply (kv_on_above s x cid k KDelete I Hs delete_not_withmeta) | exact A].
Qed.

Lemma burn_high s x : s_high s < s_high (burn s x).
Proof. cbn. apply hlc_now_gt. Qed.

Lemma expire_keys_chk_above x cid keys : forall s acc, store_ok s ->
  exists new, snd (expire_keys_chk s x cid keys acc) = acc ++ new
              /\ above (s_high s) (ev_cass new) (s_high (fst (expire_keys_chk s x cid keys acc))).
Proof.
  induction keys as [|k r IH]; intros s acc Hs; cbn [expire_keys_chk].
  - exists []. rewrite app_nil_r. split; [reflexivity | cbn; lia].
  - destruct (is_due (get_doc s (cid, k)) (x_now x)).
    + destruct (IH (sr_store (kv_on s x cid k KDelete)) (acc ++ sr_events (kv_on s x cid k KDelete)) (kv_on_ok s x cid k KDelete I Hs)) as (new & E & A).
      exists (sr_events (kv_on s x cid k KDelete) ++ new). rewrite E, app_assoc. split; [reflexivity|].
      rewrite ev_cass_app. eapply above_app; [apply (kv_on_above s x cid k KDelete I Hs delete_not_withmeta) | exact A].
    + destruct (IH (burn s x) acc (burn_ok s x Hs)) as (new & E & A). exists new. split; [exact E|].
      apply (above_weaken _ (s_high (burn s x))); [pose proof (burn_high s x); lia | exact A].
Qed.

Lemma expire_colls_above x cids : forall s acc, store_ok s ->
  exists new, snd (expire_colls s x cids acc) = acc ++ new
              /\ above (s_high s) (ev_cass new) (s_high (fst (expire_colls s x cids acc))).
Proof.
  induction cids as [|cid r IH]; intros s acc Hs; cbn [expire_colls].
  - exists []. rewrite app_nil_r. split; [reflexivity | cbn; lia].
  - destruct (expire_keys_above x cid (due_keys s cid (x_now x)) s acc Hs) as (n1 & E1 & A1).
    pose proof (expire_keys_ok x cid (due_keys s cid (x_now x)) s acc Hs) as Hs1.
    destruct (expire_keys s x cid (due_keys s cid (x_now x)) acc) as [s1 acc1]. cbn [fst snd] in *. subst acc1.
    destruct (IH s1 (acc ++ n1) Hs1) as (n2 & E2 & A2). exists (n1 ++ n2). rewrite E2, app_assoc. split; [reflexivity|].
    rewrite ev_cass_app. eapply above_app; eassumption.
Qed.

Lemma sstep_above s x o : wf_sop o -> store_ok s -> is_withmeta_step o = false ->
  above (s_high s) (ev_cass (sr_events (sstep s x o))) (s_high (sr_store (sstep s x o))).
Proof.
  intros Hwf Hs Hm. destruct o; cbn [sstep wf_sop] in *.
  - destruct (coll_id s coll); [|cbn; lia]. apply kv_on_above; try assumption. all: destruct op; try reflexivity; discriminate.
  - cbn. lia.
  - destruct (coll_id s name); cbn; lia.
  - destruct (String.eqb name default_coll); [cbn; lia|]. destruct (coll_id s name); cbn; lia.
  - destruct (coll_id s coll); cbn; lia.
  - cbn. apply hlc_update_ge_l.
  - destruct (coll_id s coll); cbn; lia.
  - destruct (coll_id s coll); [|cbn; lia]. destruct (same_ddoc _ _ _ _); cbn; lia.
  - destruct (coll_id s coll); [|cbn; lia]. destruct (existsb _ _); cbn; lia.
  - destruct (coll_id s coll); [|cbn; lia]. destruct (filter _ _); cbn; lia.
  - destruct (expire_colls_above x (map fst (s_colls s)) s [] Hs) as (new & E & A).
    destruct (expire_colls s x (map fst (s_colls s)) []) as [s' evs]. cbn [fst snd sr_events sr_store app] in *. subst evs. exact A.
  - destruct (coll_id s coll); cbn; lia.
  - destruct (coll_id s coll); cbn; lia.
  - cbn. destruct (_ =? 0); [lia|]. pose proof (hlc_now_gt (s_high s) (x_clock x)). lia.
  - destruct (coll_id s wc); [|cbn; lia].
    destruct (expire_colls_above x (ids_before (s_colls s) wc) s [] Hs) as (new & E & A).
    destruct (expire_colls s x (ids_before (s_colls s) wc) []) as [s' evs]. cbn [fst snd sr_events sr_store app] in *. subst evs. exact A.
  - destruct (coll_id s wc) as [w|]; [|cbn; lia].
    destruct (expire_keys_chk_above x w keys s [] Hs) as (n1 & E1 & A1).
    pose proof (expire_keys_chk_ok x w keys s [] Hs) as Hs1.
    destruct (expire_keys_chk s x w keys []) as [s1 evs1]. cbn [fst snd app] in *. subst evs1.
    destruct (expire_colls_above x (ids_after (s_colls s) wc) s1 n1 Hs1) as (n2 & E2 & A2).
    destruct (expire_colls s1 x (ids_after (s_colls s) wc) n1) as [s2 evs2]. cbn [fst snd sr_events sr_store] in *. subst evs2.
    rewrite ev_cass_app. eapply above_app; eassumption.
Qed.

(* a WithMeta write hands out no timestamp of the clock's to a document, and never turns the clock back *)
Lemma sstep_high_mono s x o : wf_sop o -> store_ok s -> s_high s <= s_high (sr_store (sstep s x o)).
Proof.
  intros Hwf Hs. destruct (is_withmeta_step o) eqn:Hm.
  - destruct o; try discriminate. cbn [sstep]. destruct (coll_id s coll); [apply kv_on_high_mono | cbn; lia].
  - exact (above_le _ _ _ (sstep_above s x o Hwf Hs Hm)).
Qed.

Theorem cas_walk_sound c : forall steps s n m, store_ok s -> wf_steps steps -> m <= s_high s ->
  cas_increasing_walk m steps (srun_from s n c steps) = true.
Proof.
  induction steps as [|[x o] r IH]; intros s n m Hs Hwf Hm; cbn [srun_from cas_increasing_walk]; [reflexivity|].
  inversion Hwf as [|? ? Hwo Hwr]; subst. cbn [snd] in Hwo.
  pose proof (sstep_ok s x o Hwo Hs) as Hs'. pose proof (sstep_high_mono s x o Hwo Hs) as Hmono.
  destruct (is_withmeta_step o) eqn:Ew.
  - apply IH; [exact Hs' | exact Hwr | lia].
  - cbn [os_live]. rewrite fevents_cas.
    destruct (above_checks _ _ _ m (sstep_above s x o Hwo Hs Ew) Hm) as (A & B & C).
    rewrite A, B. cbn [andb]. apply IH; [exact Hs' | exact Hwr | exact C].
Qed.

Theorem C04_kv_sound c : wf_case c -> chk_C04_kv (c, srun c) = true.
Proof. intros Hwf. unfold chk_C04_kv, srun. cbn [fst snd]. apply cas_walk_sound; [exact store0_ok | exact Hwf | cbn; lia]. Qed.
