(* Kv.v — row-level model of every key-value / xattr / subdoc entry point of rosmar
   (collection.go, collection+xattrs.go, collection+subdoc.go), statement by statement.

   A document is one row of the `documents` table.  Every entry point is a function
       option row  ->  kres
   where the argument is the row addressed by (collection, key) before the call (None: no row) and
   the result carries the row afterwards, the response, the events posted, the number of HLC
   timestamps drawn and the value (if any) written to bucket.lastCas / collections.lastCas.
   The redundant `tombstone` column is kept as its own field (r_tomb) and every statement's SET
   list is transcribed, so that "tombstone = 1 <-> value IS NULL" is a theorem (KvProofs.v), not a
   definition. *)
From Rosmar Require Import Base Json Crc.

(* ------------------------------------------------------------------------------------------ *)
(* Rows                                                                                         *)

(* the xattrs column: SQL NULL, the blob `null` (json.Marshal of a nil map), or a JSON object whose
   member values are kept as raw JSON text (json.RawMessage), names sorted as Marshal emits them *)
Inductive xcol :=
| XNull
| XBlobNull
| XObj (m : list (string * string)).

Record row := mkRow {
  r_value : option string;   (* None: SQL NULL *)
  r_isJSON : bool;
  r_cas : N;
  r_exp : N;
  r_xattrs : xcol;
  r_tomb : bool;
  r_rev : N
}.

Record event := mkEvent {
  e_value : option string;
  e_isDel : bool;
  e_isJSON : bool;
  e_xattrs : xcol;
  e_cas : N;
  e_exp : N;
  e_rev : N
}.

Inductive err :=
| EMissing | ECasMismatch | EKeyExists
| EPathNotFound | EPathExists | EPathMismatch
| ETooBig | ENeedXattrs | ENeedBody | ENilXattr
| EDeleteXattrOnInsert | EDeleteXattrOnTombstone | EUpsertAndDelete
| EXattrMissing | EClosed | EOther
| EAmbiguous.   (* model-only: two xattr arguments fail for different reasons and Go's map iteration
                   order decides which error is reported *)

Inductive resp :=
| ROk
| RCas (cas : N)
| RAdded (b : bool)
| RVal (v : string) (cas : N)
| RBool (b : bool)
| RNum (n : N)
| RDoc (body : option string) (xs : list (string * string)) (cas : N)
| RXattrs (xs : list (string * string)) (cas : N)
| RRows (rows : list string)              (* the rows of a query, as the JSON text NextBytes returns *)
| RErr (e : err).

Record kres := mkRes {
  kr_row : option row;
  kr_resp : resp;
  kr_events : list event;
  kr_draws : N;              (* hlc.Now() calls made *)
  kr_commit : option N       (* setLastCas argument of the committed transaction, if any *)
}.

Record kctx := mkCtx {
  k_now : N;        (* time.Now().Unix() *)
  k_cas : N;        (* the first timestamp hlc.Now() would hand out; the n-th is k_cas + (n-1) *)
  k_maxdoc : N      (* MaxDocSize; 0 = unlimited *)
}.

Definition kfail (draws : N) (e : err) (r : option row) : kres := mkRes r (RErr e) [] draws None.

Definition with_resp (f : resp -> resp) (res : kres) : kres :=
  mkRes (kr_row res) (f (kr_resp res)) (kr_events res) (kr_draws res) (kr_commit res).
Definition cas_to_ok (r : resp) : resp := match r with RCas _ => ROk | x => x end.

(* ------------------------------------------------------------------------------------------ *)
(* helpers                                                                                      *)

Definition max_delta_ttl : N := 2592000.

Definition abs_exp (now exp : N) : N :=
  if (exp <=? max_delta_ttl) && (0 <? exp) then (exp + now) mod 4294967296 else exp.

Definition slen (s : string) : N := N.of_nat (String.length s).
Definition olen (s : option string) : N := match s with Some x => slen x | None => 0 end.

Definition too_big (ctx : kctx) (size : N) : bool := (0 <? k_maxdoc ctx) && (k_maxdoc ctx <? size).

(* looksLikeJSON *)
Definition looks_like_json (s : string) : bool :=
  match s with
  | String "{" (String _ _ as r) => match last_char r with Some "}"%char => true | _ => false end
  | _ => false
  end.

(* json.Unmarshal(e.xattrs, &map) when e.xattrs != nil; a nil Go map is None *)
Definition xparse (x : xcol) : option (list (string * string)) :=
  match x with XObj m => Some m | _ => None end.

(* json.Marshal(map) *)
Definition xmarshal (m : option (list (string * string))) : xcol :=
  match m with Some l => XObj l | None => XBlobNull end.

Definition xcol_text (x : xcol) : option string :=
  match x with
  | XNull => None
  | XBlobNull => Some "null"
  | XObj m => Some ("{" ++ str_join "," (map (fun kv => (quote (fst kv) ++ ":" ++ snd kv)%string) m) ++ "}")%string
  end.

Definition xcol_len (x : xcol) : N := olen (xcol_text x).

(* validateXattrKey: no $ . [ ] *)
Definition valid_xattr_key (k : string) : bool := negb (contains_any ["$"; "."; "["; "]"]%char k).

(* remove(): user xattrs go, system (underscore) xattrs stay; an empty result is stored as NULL.
   `if len(rawXattrs) > 0 { unmarshal; filter; if len(xattrs) > 0 {marshal} else {nil} }` *)
Definition xattrs_system_only (x : xcol) : xcol :=
  match x with
  | XNull => XNull
  | XBlobNull => XNull
  | XObj m => match filter (fun kv => is_system_name (fst kv)) m with [] => XNull | l => XObj l end
  end.

(* removeXattrs(raw, keys...) via processXattrs: nothing happens (not even key validation) when the
   column is NULL; otherwise the named keys are deleted, and an empty result is stored as NULL.
   An invalid key makes the call fail (after the column has been processed). *)
Definition xattrs_remove (x : xcol) (names : list string) : option xcol :=
  match x with
  | XNull => Some XNull
  | XBlobNull => if forallb valid_xattr_key names then Some XNull else None
  | XObj m =>
      if forallb valid_xattr_key names then
        match fold_left (fun acc k => obj_del k acc) names m with [] => Some XNull | l => Some (XObj l) end
      else None
  end.

Definition new_row (v : option string) (isj : bool) (cas exp : N) (x : xcol) (tomb : bool) (rev : N) : row :=
  mkRow v isj cas exp x tomb rev.

(* ------------------------------------------------------------------------------------------ *)
(* Reads                                                                                        *)

Definition do_getraw (r : option row) : kres :=
  match r with
  | Some r0 => match r_value r0 with
               | Some v => mkRes r (RVal v (r_cas r0)) [] 0 None
               | None => kfail 0 EMissing r
               end
  | None => kfail 0 EMissing r
  end.

Definition do_exists (r : option row) : kres :=
  mkRes r (RBool (match r with Some r0 => is_some (r_value r0) | None => false end)) [] 0 None.

Definition do_getexpiry (r : option row) : kres :=
  match r with
  | Some r0 => mkRes r (RNum (r_exp r0)) [] 0 None
  | None => kfail 0 EMissing r
  end.

(* the virtual xattrs: $document = {"value_crc32c": crc of the body, "revid": revSeqNo as a string} *)
Definition docx_string (body : option string) (rev : N) : string :=
  ("{""value_crc32c"":" ++ quote (crc_string body) ++ ",""revid"":" ++ quote (N_to_dec rev) ++ "}")%string.
Definition revx_string (rev : N) : string := quote (N_to_dec rev).

Definition virtual_document (r0 : row) : string := docx_string (r_value r0) (r_rev r0).

(* getRawWithXattrs: the requested names that exist (virtual ones always do), in request order,
   later duplicates overwriting earlier ones (a Go map) - returned sorted by name *)
Definition collect_xattrs (r0 : row) (names : list string) : list (string * string) :=
  let m := match xparse (r_xattrs r0) with Some l => l | None => [] end in
  fold_left (fun acc k =>
    if String.eqb k "$document" then obj_set k (virtual_document r0) acc
    else if String.eqb k "$document.revid" then obj_set k (revx_string (r_rev r0)) acc
    else match obj_get k m with Some v => obj_set k v acc | None => acc end) names [].

Definition do_getwithxattrs (names : list string) (r : option row) : kres :=
  match r with
  | None => kfail 0 EMissing r
  | Some r0 =>
      let xs := collect_xattrs r0 names in
      match r_value r0, xs with
      | None, [] => kfail 0 EMissing r
      | _, _ => mkRes r (RDoc (r_value r0) xs (r_cas r0)) [] 0 None
      end
  end.

Definition do_getxattrs (names : list string) (r : option row) : kres :=
  match r with
  | None => kfail 0 EMissing r
  | Some r0 =>
      match collect_xattrs r0 names with
      | [] => kfail 0 EXattrMissing r
      | xs => mkRes r (RXattrs xs (r_cas r0)) [] 0 None
      end
  end.

Definition perr (e : path_err) : err :=
  match e with
  | PEInvalid => EOther | PENotFound => EPathNotFound | PEMismatch => EPathMismatch | PEExists => EPathExists
  end.

Definition do_getsubdoc (path : string) (r : option row) : kres :=
  match parse_path path with
  | None => kfail 0 EOther r
  | Some p =>
      match r with
      | Some r0 =>
          match r_value r0 with
          | Some v =>
              match jparse_obj v with
              | None => kfail 0 EOther r
              | Some om =>
                  match eval_path (JObj (match om with Some m => m | None => [] end)) p with
                  | inl j => mkRes r (RVal (jprint j) (r_cas r0)) [] 0 None
                  | inr e => kfail 0 (perr e) r
                  end
              end
          | None => kfail 0 EMissing r
          end
      | None => kfail 0 EMissing r
      end
  end.

(* ------------------------------------------------------------------------------------------ *)
(* Add / AddRaw                                                                                 *)

Definition do_add (ctx : kctx) (exp : N) (v : string) (isj : bool) (r : option row) : kres :=
  if too_big ctx (slen v) then kfail 0 ETooBig r else
  let c := k_cas ctx in
  let exp' := abs_exp (k_now ctx) exp in
  match r with
  | None =>
      (* INSERT ... VALUES (coll,key,value,cas,exp,isJSON,revSeqNo=1) *)
      let r' := new_row (Some v) isj c exp' XNull false 1 in
      mkRes (Some r') (RAdded true) [mkEvent (Some v) false isj XNull c exp' 1] 1 (Some c)
  | Some r0 =>
      if r_tomb r0 then
        (* ON CONFLICT DO UPDATE SET value, xattrs=null, cas, exp, isJSON, tombstone=0, revSeqNo
           WHERE tombstone != 0 *)
        let rev := r_rev r0 + 1 in
        let r' := new_row (Some v) isj c exp' XNull false rev in
        mkRes (Some r') (RAdded true) [mkEvent (Some v) false isj XNull c exp' rev] 1 (Some c)
      else
        (* no row affected: added=false, nothing posted; the transaction still commits lastCas *)
        mkRes r (RAdded false) [] 1 (Some c)
  end.

(* ------------------------------------------------------------------------------------------ *)
(* Set / SetRaw / Incr  (_set)                                                                  *)

Definition set_core (ctx : kctx) (exp : N) (preserve : bool) (v : string) (isj : bool) (r : option row)
  : row * event :=
  let c := k_cas ctx in
  let exp' := abs_exp (k_now ctx) exp in
  match r with
  | Some r0 =>
      let x := if is_some (r_value r0) then r_xattrs r0 else XNull in  (* cleared on resurrection *)
      let exp'' := if preserve then r_exp r0 else exp' in
      let rev := r_rev r0 + 1 in
      (new_row (Some v) isj c exp'' x false rev, mkEvent (Some v) false isj x c exp'' rev)
  | None =>
      (new_row (Some v) isj c exp' XNull false 1, mkEvent (Some v) false isj XNull c exp' 1)
  end.

Definition do_set (ctx : kctx) (exp : N) (preserve : bool) (v : string) (isj : bool) (r : option row) : kres :=
  if too_big ctx (slen v) then kfail 0 ETooBig r else
  let p := set_core ctx exp preserve v isj r in
  mkRes (Some (fst p)) ROk [snd p] 1 (Some (k_cas ctx)).

Definition do_incr (ctx : kctx) (amt deflt exp : N) (r : option row) : kres :=
  let cur :=
    match match r with Some r0 => r_value r0 | None => None end with
    | Some v =>
        match jparse_uint v with
        | Some n => if n <? two64 then inl ((n + amt) mod two64) else inr EOther
        | None => inr EOther
        end
    | None => inl deflt           (* MissingError: start from the default *)
    end in
  match cur with
  | inr e => kfail 1 e r
  | inl n =>
      let p := set_core ctx exp false (N_to_dec n) true r in
      mkRes (Some (fst p)) (RNum n) [snd p] 1 (Some (k_cas ctx))
  end.

(* ------------------------------------------------------------------------------------------ *)
(* WriteCas                                                                                     *)

Record wopts := mkWopts { w_raw : bool; w_append : bool; w_addonly : bool }.

(* "SQLite didn't insert/update anything. Why not?" *)
Definition writecas_why_not (o : wopts) (r : option row) : kres :=
  match match r with Some r0 => r_value r0 | None => None end with
  | Some _ => kfail 1 (if w_addonly o then EKeyExists else ECasMismatch) r
  | None => kfail 1 EMissing r
  end.

Definition do_writecas (ctx : kctx) (exp cas : N) (v : option string) (o : wopts) (r : option row) : kres :=
  if too_big ctx (olen v) then kfail 0 ETooBig r else
  let isj := negb (w_raw o || w_append o) && is_some v in
  let c := k_cas ctx in
  let exp' := abs_exp (k_now ctx) exp in
  match r, (cas =? 0) with
  | None, false => kfail 1 EMissing r       (* SELECT revSeqNo, tombstone: no rows *)
  | _, _ =>
    let rev := match r with Some r0 => r_rev r0 + 1 | None => 1 end in
    let was_tomb := match r with Some r0 => r_tomb r0 | None => false end in
    (* WriteCas is the one call that hands the expected CAS to SQLite as a statement parameter, and database/sql
       refuses a uint64 with the high bit set: the statement is not run, the call fails with the driver's error
       (after the two checks made in Go: no row at all, nothing to append to) *)
    (* AddOnly holds with the append option too: a key that has a value is refused (fix of /repo: before it the
       append went ahead wherever the expected CAS matched) *)
    if w_append o && w_addonly o && is_some r && negb was_tomb then kfail 1 EKeyExists r else
    if (9223372036854775808 <=? cas) && negb (w_append o && was_tomb) then kfail 1 EOther r else
    if w_append o then
      match r, v with
      | Some r0, Some suffix =>
          if was_tomb && negb (cas =? 0) then kfail 1 EMissing r   (* nothing to append to *)
          else if r_cas r0 =? cas then
            (* UPDATE SET value=value||?, cas, exp, isJSON, revSeqNo, xattrs=iif(tombstone,null,xattrs)
               WHERE cas=? *)
            match r_value r0 with
            | Some old =>
                let nv := (old ++ suffix)%string in
                let x := if r_tomb r0 then XNull else r_xattrs r0 in
                let r' := new_row (Some nv) false c exp' x (r_tomb r0) rev in
                mkRes (Some r') (RCas c) [mkEvent (Some nv) false false x c exp' rev] 1 (Some c)
            | None => writecas_why_not o r  (* unreachable when flag and body agree *)
            end
          else writecas_why_not o r
      | Some r0, None =>
          (* value || NULL is NULL: the statement succeeds where the CAS matches, the read of the whole body
             for the event then reports the key missing and the transaction is rolled back *)
          if was_tomb && negb (cas =? 0) then kfail 1 EMissing r
          else if r_cas r0 =? cas then kfail 1 EMissing r
          else writecas_why_not o r
      | None, _ => writecas_why_not o r      (* cas=0 matches no row *)
      end
    else if w_addonly o || (cas =? 0) then
      match r with
      | None =>
          (* INSERT (value,cas,exp,isJSON,revSeqNo,tombstone) *)
          let r' := new_row v isj c exp' XNull (is_none v) rev in
          mkRes (Some r') (RCas c) [mkEvent v (is_none v) isj XNull c exp' rev] 1 (Some c)
      | Some r0 =>
          (* ON CONFLICT DO UPDATE ... WHERE tombstone == 1 [AND cas=? when the row was live and cas!=0] *)
          if r_tomb r0 && (was_tomb || (cas =? 0) || (r_cas r0 =? cas)) then
            let r' := new_row v isj c exp' XNull (is_none v) rev in
            mkRes (Some r') (RCas c) [mkEvent v (is_none v) isj XNull c exp' rev] 1 (Some c)
          else writecas_why_not o r
      end
    else
      match r with
      | Some r0 =>
          if r_cas r0 =? cas then
            (* UPDATE SET value, cas, exp, isJSON, revSeqNo, xattrs=iif(tombstone,null,xattrs),
               tombstone=(value IS NULL)  WHERE cas=? *)
            let x := if r_tomb r0 then XNull else r_xattrs r0 in
            let r' := new_row v isj c exp' x (is_none v) rev in
            mkRes (Some r') (RCas c) [mkEvent v (is_none v) isj x c exp' rev] 1 (Some c)
          else writecas_why_not o r
      | None => writecas_why_not o r
      end
  end.

(* ------------------------------------------------------------------------------------------ *)
(* Remove / Delete                                                                              *)

Definition do_remove (ctx : kctx) (ifcas : option N) (r : option row) : kres :=
  match r with
  | None => kfail 1 EMissing r
  | Some r0 =>
      if match ifcas with Some c' => negb (r_cas r0 =? c') | None => false end
      then kfail 1 ECasMismatch r
      else
        let c := k_cas ctx in
        let x := xattrs_system_only (r_xattrs r0) in
        let rev := r_rev r0 + 1 in
        (* UPDATE SET value=null, cas, exp=0, isJSON=0, xattrs, tombstone=1, revSeqNo *)
        let r' := new_row None false c 0 x true rev in
        mkRes (Some r') (RCas c) [mkEvent None true false x c 0 rev] 1 (Some c)
  end.

(* ------------------------------------------------------------------------------------------ *)
(* Touch / GetAndTouchRaw: expiry and revSeqNo change, CAS does not; no event                   *)

Definition do_touch (ctx : kctx) (exp : N) (want_val : bool) (r : option row) : kres :=
  match r with
  | Some r0 =>
      match r_value r0 with
      | Some v =>
          let r' := mkRow (Some v) (r_isJSON r0) (r_cas r0) (abs_exp (k_now ctx) exp) (r_xattrs r0) (r_tomb r0) (r_rev r0 + 1) in
          mkRes (Some r') (if want_val then RVal v (r_cas r0) else RCas (r_cas r0)) [] 1 (Some (k_cas ctx))
      | None => kfail 1 EMissing r
      end
  | None => kfail 1 EMissing r
  end.

(* ------------------------------------------------------------------------------------------ *)
(* Update: read, callback, WriteCas(cas read, opt 0).  The callback is data.                    *)

Inductive upd_cb :=
| UCancel                                      (* (nil, nil, false, nil) *)
| UFail                                        (* returns an error *)
| USet (v : string) (newexp : option N)
| UAppend (suffix : string) (newexp : option N) (* new body = body shown ++ suffix *)
| UDelete (newexp : option N)
| UExpOnly (e : N).                            (* (nil, &e, false, nil): body as read *)

Definition do_update (ctx : kctx) (exp : N) (cb : upd_cb) (r : option row) : kres :=
  let raw := match r with Some r0 => r_value r0 | None => None end in
  let cas := match r with Some r0 => r_cas r0 | None => 0 end in
  let go (body : option string) (e : N) :=
      do_writecas ctx e cas body (mkWopts false false false) r in
  match cb with
  | UCancel => mkRes r (RCas 0) [] 0 None
  | UFail => kfail 0 EOther r
  | USet v ne => go (Some v) (match ne with Some e => e | None => exp end)
  | UAppend s ne => go (Some (match raw with Some b => b ++ s | None => s end)%string)
                       (match ne with Some e => e | None => exp end)
  | UDelete ne => go None (match ne with Some e => e | None => exp end)
  | UExpOnly e => go raw e
  end.

(* ------------------------------------------------------------------------------------------ *)
(* SetWithMeta / DeleteWithMeta (writeWithMeta + storeDocument): the document gets the caller-chosen
   CAS; one HLC timestamp is drawn for the high-water marks (setLastCas) only                     *)

Definition do_withmeta (ctx : kctx) (oldcas newcas exp : N) (x : xcol) (body : option string) (isj : bool) (r : option row) : kres :=
  let prev := match r with Some r0 => r_cas r0 | None => 0 end in
  if negb (oldcas =? prev) then kfail 0 ECasMismatch r else
  let rev := match r with Some r0 => r_rev r0 + 1 | None => 1 end in
  let del := is_none body in
  let r' := new_row body isj newcas exp x del rev in
  mkRes (Some r') ROk [mkEvent body del isj x newcas exp rev] 1 (Some (k_cas ctx)).

(* ------------------------------------------------------------------------------------------ *)
(* DeleteWithXattrs / DeleteSubDocPaths                                                         *)

Definition do_deletewithxattrs (ctx : kctx) (names : list string) (r : option row) : kres :=
  match r with
  | None => kfail 1 EMissing r
  | Some r0 =>
      match xattrs_remove (r_xattrs r0) names with
      | None => kfail 1 EOther r
      | Some x =>
          let c := k_cas ctx in
          let rev := r_rev r0 + 1 in
          (* UPDATE SET value=null, xattrs, cas, revSeqNo, exp=0, isJSON=0, tombstone=1 *)
          let r' := new_row None false c 0 x true rev in
          mkRes (Some r') ROk [mkEvent None true false x c 0 rev] 1 (Some c)
      end
  end.

Definition do_deletesubdocpaths (ctx : kctx) (names : list string) (r : option row) : kres :=
  match r with
  | None => kfail 1 EMissing r
  | Some r0 =>
      match xattrs_remove (r_xattrs r0) names with
      | None => kfail 1 EOther r
      | Some x =>
          let c := k_cas ctx in
          let rev := r_rev r0 + 1 in
          (* UPDATE SET xattrs, cas, revSeqNo *)
          let r' := mkRow (r_value r0) (r_isJSON r0) c (r_exp r0) x (r_tomb r0) rev in
          mkRes (Some r') ROk [mkEvent (r_value r0) (is_none (r_value r0)) (r_isJSON r0) x c (r_exp r0) rev] 1 (Some c)
      end
  end.

(* ------------------------------------------------------------------------------------------ *)
(* writeWithXattrs                                                                              *)

Inductive bodyarg := BKeep | BDelete | BSet (v : string).

Inductive macro_kind := MCas | MCrc.
Definition macro := (string * macro_kind)%type.     (* (path, type) *)

Record wxo := mkWxo { wx_insert : bool; wx_require : bool; wx_delbody : bool }.
Definition wxo0 := mkWxo false false false.

(* expandXattrMacros for one xattr being set; a failure to upsert wraps the path error (%w) *)
Fixpoint expand_macros (name : string) (j : json) (ms : list macro) (cas : N) (body : option string) : json + err :=
  match ms with
  | [] => inl j
  | (path, kind) :: rest =>
      match parse_path path with
      | None => inr EOther
      | Some [] => inr EOther
      | Some (p0 :: ptl) =>
          if negb (String.eqb p0 name) then expand_macros name j rest cas body
          else
            let s := match kind with MCas => cas_string cas | MCrc => crc_string body end in
            match upsert_path j ptl (Some (JStr s)) with
            | inl j' => expand_macros name j' rest cas body
            | inr e => inr (perr e)
            end
      end
  end.

(* the loop over xattrsPayload (a Go map: iteration order is unspecified, the result does not depend
   on it unless two different errors compete; processed here in the order given) *)
Fixpoint apply_xattrs (xs : list (string * option string)) (m : option (list (string * string)))
         (ms : list macro) (cas : N) (body : option string) : (option (list (string * string))) + err :=
  match xs with
  | [] => inl m
  | (k, Some v) :: rest =>
      match jparse v with
      | None => inr EOther
      | Some j =>
          let j' := match ms with
                    | [] => inl j
                    | _ => match j with JObj _ => expand_macros k j ms cas body | _ => inr EOther end
                    end in
          match j' with
          | inr e => inr e
          | inl j2 =>
              apply_xattrs rest (Some (obj_set k (jprint j2) (match m with Some l => l | None => [] end))) ms cas body
          end
      end
  | (k, None) :: rest =>
      match m with
      | Some l => match obj_get k l with
                  | Some _ => apply_xattrs rest (Some (obj_del k l)) ms cas body
                  | None => inr EPathNotFound
                  end
      | None => inr EPathNotFound
      end
  end.

(* the outcome of one entry taken alone (entries have distinct names, so they do not interact) *)
Definition entry_err (kv : string * option string) (m : option (list (string * string)))
           (ms : list macro) (cas : N) (body : option string) : option err :=
  match apply_xattrs [kv] m ms cas body with inr e => Some e | inl _ => None end.

Definition err_eqb (a b : err) : bool :=
  match a, b with
  | EMissing, EMissing | ECasMismatch, ECasMismatch | EKeyExists, EKeyExists
  | EPathNotFound, EPathNotFound | EPathExists, EPathExists | EPathMismatch, EPathMismatch
  | ETooBig, ETooBig | ENeedXattrs, ENeedXattrs | ENeedBody, ENeedBody | ENilXattr, ENilXattr
  | EDeleteXattrOnInsert, EDeleteXattrOnInsert | EDeleteXattrOnTombstone, EDeleteXattrOnTombstone
  | EUpsertAndDelete, EUpsertAndDelete | EXattrMissing, EXattrMissing | EClosed, EClosed
  | EOther, EOther | EAmbiguous, EAmbiguous => true
  | _, _ => false
  end.

Definition apply_xattrs_any_order (xs : list (string * option string)) (m : option (list (string * string)))
           (ms : list macro) (cas : N) (body : option string) : (option (list (string * string))) + err :=
  match apply_xattrs xs m ms cas body with
  | inl r => inl r
  | inr e =>
      if existsb (fun kv => match entry_err kv m ms cas body with
                            | Some e' => negb (err_eqb e e')
                            | None => false
                            end) xs
      then inr EAmbiguous else inr e
  end.

Definition xs_parse_ok (xs : list (string * option string)) : bool :=
  forallb (fun kv => match snd kv with Some v => is_some (jparse v) | None => true end) xs.
Definition xs_keys_ok (xs : list (string * option string)) : bool :=
  forallb (fun kv => valid_xattr_key (fst kv)) xs.

Definition wwx (ctx : kctx) (val : bodyarg) (xs : list (string * option string)) (ifcas : option N)
           (exp : option N) (o : wxo) (ms : list macro) (r : option row) : kres :=
  (* validation before the transaction *)
  if negb (xs_keys_ok xs) then kfail 0 EOther r else
  if negb (xs_parse_ok xs) then kfail 0 EOther r else
  let c := k_cas ctx in
  let nonzero_cas := match ifcas with Some x => negb (x =? 0) | None => false end in
  let is_set := match val with BSet _ => true | _ => false end in
  (* read the existing doc *)
  let pre : (option string * bool * N * N * xcol * N) + err :=
    match r with
    | Some r0 =>
        if r_tomb r0 && is_set then
          if nonzero_cas then inr EKeyExists
          else inl (r_value r0, r_isJSON r0, r_cas r0, r_exp r0, XNull, r_rev r0)
        else if wx_insert o then inr EKeyExists
        else inl (r_value r0, r_isJSON r0, r_cas r0, r_exp r0, r_xattrs r0, r_rev r0)
    | None =>
        if wx_require o then inr EMissing
        else if nonzero_cas then inr ECasMismatch
        else inl (None, false, 0, 0, XNull, 0)
    end in
  match pre with
  | inr e => kfail 1 e r
  | inl (value0, isj0, prevcas, exp0, x0, rev0) =>
    let rev := rev0 + 1 in
    if is_none value0 && wx_delbody o && wx_require o then kfail 1 EMissing r else
    if match ifcas with Some x => negb (x =? prevcas) | None => false end then kfail 1 ECasMismatch r else
    let m0 := xparse x0 in
    let '(value1, isj1, m1) :=
      match val with
      | BKeep => (value0, isj0, m0)
      | BDelete => (None, false, option_map (filter (fun kv => is_system_name (fst kv))) m0)
      | BSet v => (Some v, true, m0)
      end in
    match apply_xattrs_any_order xs m1 ms c value1 with
    | inr e => kfail 1 e r
    | inl m2 =>
        let x := xmarshal m2 in
        if too_big ctx (olen value1 + xcol_len x) then kfail 1 ETooBig r else
        let exp1 := match exp with Some e => abs_exp (k_now ctx) e | None => exp0 end in
        let del := is_none value1 in
        let r' := new_row value1 isj1 c exp1 x del rev in
        mkRes (Some r') (RCas c) [mkEvent value1 del isj1 x c exp1 rev] 1 (Some c)
    end
  end.

(* the public entry points that funnel into writeWithXattrs *)

Definition dup_name (xs : list (string * option string)) (dels : list string) : bool :=
  existsb (fun d => existsb (fun kv => String.eqb d (fst kv)) xs) dels.

Definition has_nil (xs : list (string * option string)) : bool :=
  existsb (fun kv => is_none (snd kv)) xs.

(* xattrsToDelete entries land in a Go map keyed by name: duplicates collapse *)
Definition dels_of (d : option (list string)) : list (string * option string) :=
  map (fun k => (k, None)) (nodup string_dec (match d with Some l => l | None => [] end)).

Definition do_setxattrs (ctx : kctx) (xs : list (string * option string)) (r : option row) : kres :=
  (* SetXattrs: a nil value is a nil payload, i.e. a deletion *)
  wwx ctx BKeep xs None None wxo0 [] r.

Definition do_removexattrs (ctx : kctx) (names : list string) (cas : N) (r : option row) : kres :=
  wwx ctx BKeep (map (fun k => (k, None)) names) (Some cas) None wxo0 [] r.

Definition do_writewithxattrs (ctx : kctx) (exp cas : N) (value : option string)
           (xs : list (string * option string)) (dels : option (list string)) (preserve : bool)
           (ms : list macro) (r : option row) : kres :=
  if has_nil xs then kfail 0 ENilXattr r else
  if (cas =? 0) && is_some dels then kfail 0 EDeleteXattrOnInsert r else
  if (olen value =? 0) && (match xs with [] => true | _ => false end) then kfail 0 ENeedXattrs r else
  if dup_name xs (match dels with Some l => l | None => [] end) then kfail 0 EUpsertAndDelete r else
  wwx ctx (match value with Some v => BSet v | None => BKeep end) (xs ++ dels_of dels) (Some cas)
      (if preserve then None else Some exp) wxo0 ms r.

Definition do_writetombstonewithxattrs (ctx : kctx) (exp cas : N) (xs : list (string * option string))
           (dels : option (list string)) (delete_body : bool) (ms : list macro) (r : option row) : kres :=
  if match xs with [] => true | _ => false end then kfail 0 ENeedXattrs r else
  if (cas =? 0) && is_some dels then kfail 0 EDeleteXattrOnInsert r else
  if has_nil xs then kfail 0 ENilXattr r else
  if dup_name xs (match dels with Some l => l | None => [] end) then kfail 0 EUpsertAndDelete r else
  wwx ctx BDelete (xs ++ dels_of dels) (Some cas) (Some exp)
      (mkWxo false (delete_body || negb (cas =? 0)) delete_body) ms r.

Definition do_writeresurrectionwithxattrs (ctx : kctx) (exp : N) (value : option string)
           (xs : list (string * option string)) (preserve : bool) (ms : list macro) (r : option row) : kres :=
  match value with
  | None => kfail 0 ENeedBody r
  | Some v =>
      if has_nil xs then kfail 0 ENilXattr r else
      wwx ctx (BSet v) xs None (if preserve then None else Some exp) (mkWxo true false false) ms r
  end.

Definition do_updatexattrs (ctx : kctx) (exp cas : N) (xs : list (string * option string)) (ms : list macro)
           (r : option row) : kres :=
  wwx ctx BKeep xs (Some cas) (Some exp) wxo0 ms r.

Definition do_updatexattrdeletebody (ctx : kctx) (name : string) (exp cas : N) (xv : string) (ms : list macro)
           (r : option row) : kres :=
  wwx ctx BDelete [(name, Some xv)] (Some cas) (Some exp) wxo0 ms r.

(* WriteUpdateWithXattrs with previous=nil: read, callback (data), dispatch *)
Record wu_result := mkWu {
  wu_doc : option string;
  wu_xattrs : list (string * option string);
  wu_dels : option (list string);
  wu_tombstone : bool;
  wu_expiry : option N;
  wu_spec : list macro;
  wu_preserve : bool       (* not part of the callback's answer: the PreserveExpiry option of the call, which the
                              write it dispatches to receives *)
}.

Inductive wu_cb := WUFail | WUResult (u : wu_result).

Definition do_writeupdatewithxattrs (ctx : kctx) (cb : wu_cb) (ms : list macro) (r : option row) : kres :=
  match cb with
  | WUFail => kfail 0 EOther r
  | WUResult u =>
      let exp := match wu_expiry u with Some e => e | None => 0 end in
      let ms' := ms ++ wu_spec u in
      let prev_cas := match r with Some r0 => r_cas r0 | None => 0 end in
      let prev_body := match r with Some r0 => r_value r0 | None => None end in
      let prev_tomb := match r with Some r0 => r_tomb r0 | None => false end in
      if wu_tombstone u then
        do_writetombstonewithxattrs ctx exp prev_cas (wu_xattrs u) (wu_dels u) (is_some prev_body) ms' r
      else if prev_tomb then
        if match wu_dels u with Some (_ :: _) => true | _ => false end then kfail 0 EDeleteXattrOnTombstone r
        else do_writeresurrectionwithxattrs ctx exp (wu_doc u) (wu_xattrs u) (wu_preserve u) ms' r
      else do_writewithxattrs ctx exp prev_cas (wu_doc u) (wu_xattrs u) (wu_dels u) (wu_preserve u) ms' r
  end.

(* ------------------------------------------------------------------------------------------ *)
(* Sub-document writes                                                                          *)

(* value: None = remove the property (WriteSubDoc with an empty or `null` value) *)
Definition subdoc_apply (doc : list (string * json)) (p : list string) (v : option json) (insert : bool)
  : json + path_err :=
  match List.rev p with
  | [] => inr PEInvalid
  | last :: rparent =>
      match eval_path (JObj doc) (List.rev rparent) with
      | inr e => inr e
      | inl (JObj pm) =>
          if insert && match obj_get last pm with Some JNull | None => false | Some _ => true end
          then inr PEExists
          else upsert_path (JObj doc) p v
      | inl _ => inr PEMismatch
      end
  end.

Definition do_subdocwrite (ctx : kctx) (path : string) (cas : N) (v : option json) (insert : bool) (r : option row) : kres :=
  match parse_path path with
  | None => kfail 0 EOther r
  | Some p =>
      (* Get(key, &fullDoc) *)
      let got : (option (list (string * json)) * N) + err :=
        match r with
        | Some r0 =>
            match r_value r0 with
            | Some body => match jparse_obj body with Some om => inl (om, r_cas r0) | None => inr EOther end
            | None => if insert then inr EMissing else inl (None, r_cas r0)
            end
        | None => if insert then inr EMissing else inl (None, 0)
        end in
      match got with
      | inr e => kfail 0 e r
      | inl (om, cas_out) =>
          if negb (cas =? 0) && negb (cas_out =? cas) then kfail 0 ECasMismatch r else
          match subdoc_apply (match om with Some m => m | None => [] end) p v insert with
          | inr e => kfail 0 (perr e) r
          | inl j =>
              with_resp (if insert then cas_to_ok else fun x => x)
                        (do_writecas ctx 0 cas_out (Some (jprint j)) (mkWopts false false false) r)
          end
      end
  end.

(* ------------------------------------------------------------------------------------------ *)
(* The operation alphabet                                                                       *)

(* a nil value given to Add / AddRaw / Set / SetRaw is an empty body (raw) or JSON null; only deletions store NULL *)
Definition nil_raw : string := "".
Definition nil_json : string := "null".

Inductive kop :=
(* reads *)
| KGetRaw | KExists | KGetExpiry
| KGetWithXattrs (names : list string)
| KGetXattrs (names : list string)
| KGetSubDocRaw (path : string)
(* writes *)
| KAdd (exp : N) (v : string)
| KAddRaw (exp : N) (v : string)
| KSet (exp : N) (preserve : bool) (v : string)
| KSetRaw (exp : N) (preserve : bool) (v : string)
| KWriteCas (exp cas : N) (v : option string) (raw append addonly : bool)
| KRemove (cas : N)
| KDelete
| KIncr (amt deflt exp : N)
| KTouch (exp : N)
| KGetAndTouch (exp : N)
| KUpdate (exp : N) (cb : upd_cb)
| KSetWithMeta (oldcas newcas exp : N) (x : xcol) (body : option string) (isj : bool)
| KDeleteWithMeta (oldcas newcas exp : N) (x : xcol)
| KSetXattrs (xs : list (string * option string))
| KRemoveXattrs (names : list string) (cas : N)
| KDeleteSubDocPaths (names : list string)
| KDeleteWithXattrs (names : list string)
| KWriteWithXattrs (exp cas : N) (value : option string) (xs : list (string * option string))
                   (dels : option (list string)) (preserve : bool) (ms : list macro)
| KWriteTombstoneWithXattrs (exp cas : N) (xs : list (string * option string)) (dels : option (list string))
                            (delete_body : bool) (ms : list macro)
| KWriteResurrectionWithXattrs (exp : N) (value : option string) (xs : list (string * option string))
                               (preserve : bool) (ms : list macro)
| KUpdateXattrs (exp cas : N) (xs : list (string * option string)) (ms : list macro)
| KUpdateXattrDeleteBody (name : string) (exp cas : N) (xv : string) (ms : list macro)
| KWriteUpdateWithXattrs (cb : wu_cb) (ms : list macro)
| KWriteSubDoc (path : string) (cas : N) (v : string)
| KSubdocInsert (path : string) (cas : N) (v : string).

(* WriteSubDoc: `if len(rawValue) > 0 { json.Unmarshal }` - a parse failure fails the call; an empty
   value or `null` removes the property *)
Definition subdoc_value (v : string) : option (option json) :=
  if String.eqb v "" then Some None
  else match jparse v with
       | Some JNull => Some None
       | Some j => Some (Some j)
       | None => None
       end.

Definition kstep (ctx : kctx) (op : kop) (r : option row) : kres :=
  match op with
  | KGetRaw => do_getraw r
  | KExists => do_exists r
  | KGetExpiry => do_getexpiry r
  | KGetWithXattrs names => do_getwithxattrs names r
  | KGetXattrs names => do_getxattrs names r
  | KGetSubDocRaw path => do_getsubdoc path r
  | KAdd exp v => do_add ctx exp v true r
  | KAddRaw exp v => do_add ctx exp v (looks_like_json v) r
  | KSet exp p v => do_set ctx exp p v true r
  | KSetRaw exp p v => do_set ctx exp p v false r
  | KWriteCas exp cas v raw app ao => do_writecas ctx exp cas v (mkWopts raw app ao) r
  | KRemove cas => do_remove ctx (Some cas) r
  | KDelete => with_resp cas_to_ok (do_remove ctx None r)
  | KIncr amt deflt exp => do_incr ctx amt deflt exp r
  | KTouch exp => do_touch ctx exp false r
  | KGetAndTouch exp => do_touch ctx exp true r
  | KUpdate exp cb => do_update ctx exp cb r
  | KSetWithMeta oc nc exp x body isj => do_withmeta ctx oc nc exp x body isj r
  | KDeleteWithMeta oc nc exp x => do_withmeta ctx oc nc exp x None false r
  | KSetXattrs xs => do_setxattrs ctx xs r
  | KRemoveXattrs names cas => with_resp cas_to_ok (do_removexattrs ctx names cas r)
  | KDeleteSubDocPaths names => do_deletesubdocpaths ctx names r
  | KDeleteWithXattrs names => do_deletewithxattrs ctx names r
  | KWriteWithXattrs exp cas value xs dels p ms => do_writewithxattrs ctx exp cas value xs dels p ms r
  | KWriteTombstoneWithXattrs exp cas xs dels db ms => do_writetombstonewithxattrs ctx exp cas xs dels db ms r
  | KWriteResurrectionWithXattrs exp value xs p ms => do_writeresurrectionwithxattrs ctx exp value xs p ms r
  | KUpdateXattrs exp cas xs ms => do_updatexattrs ctx exp cas xs ms r
  | KUpdateXattrDeleteBody name exp cas xv ms => do_updatexattrdeletebody ctx name exp cas xv ms r
  | KWriteUpdateWithXattrs cb ms => do_writeupdatewithxattrs ctx cb ms r
  | KWriteSubDoc path cas v =>
      match subdoc_value v with
      | None => kfail 0 EOther r
      | Some jv => do_subdocwrite ctx path cas jv false r
      end
  | KSubdocInsert path cas v =>
      match subdoc_value v with
      | None => kfail 0 EOther r
      | Some jv => do_subdocwrite ctx path cas jv true r
      end
  end.

(* ------------------------------------------------------------------------------------------ *)
(* asFeedEvent: what a feed callback receives (value and xattrs decoded again by the harness)    *)

Inductive fopcode := FBegin | FEnd | FMutation | FDeletion.

Record fevent := mkFevent {
  f_op : fopcode;
  f_key : string;
  f_body : string;                       (* nil and empty are not distinguished *)
  f_xattrs : list (string * string);
  f_json : bool;                         (* FeedDataTypeJSON *)
  f_xbit : bool;                         (* FeedDataTypeXattr *)
  f_cas : N;
  f_exp : N;
  f_rev : N;
  f_coll : N                             (* public collection id = row id - 1 *)
}.

Definition as_feed_event (coll : N) (key : string) (e : event) : fevent :=
  mkFevent (if e_isDel e then FDeletion else FMutation) key
           (match e_value e with Some v => v | None => "" end)
           (match xparse (e_xattrs e) with Some m => m | None => [] end)
           (e_isJSON e)
           (match e_xattrs e with XNull => false | _ => true end)
           (e_cas e) (e_exp e) (e_rev e) coll.

(* the event a backfill emits for a row: SELECT key, value, xattrs, isJSON, cas, tombstone, revSeqNo, exp *)
Definition event_of_row (r0 : row) : event :=
  mkEvent (r_value r0) (r_tomb r0) (r_isJSON r0) (r_xattrs r0) (r_cas r0) (r_exp r0) (r_rev r0).
