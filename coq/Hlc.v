(* Hlc.v — the hybrid logical clock of hlc.go and the per-bucket persisted high-water mark
   (bucket.lastCas, written by setLastCas inside the write transaction; read back by
   OpenBucket -> hlc.updateLatestTime(bucket.getLastTimestamp())).

   Go:   physicalTime := c.clock.getTime() &^ 0xFFFF
         if c.highestTime >= physicalTime { c.highestTime++ } else { c.highestTime = physicalTime }
         return c.highestTime                                                              *)
From Rosmar Require Import Base.

Definition mask48 (p : N) : N := N.ldiff p 65535.

Definition hlc_now (h p : N) : N :=
  let p' := mask48 p in if p' <=? h then h + 1 else p'.

Definition hlc_update (h t : N) : N := if h <? t then t else h.

(* the same on uint64, wrap written out *)
Definition hlc_now64 (h p : N) : N :=
  let p' := mask48 (p mod two64) in if p' <=? h then (h + 1) mod two64 else p'.

(* A list of physical readings -> the list of timestamps handed out, and the final state. *)
Fixpoint hlc_draws (h : N) (ps : list N) : list N * N :=
  match ps with
  | [] => ([], h)
  | p :: r => let t := hlc_now h p in let '(l, h') := hlc_draws t r in (t :: l, h')
  end.

(* ------------------------------------------------------------------------------------------ *)
(* Process-level model: one process-wide clock, any number of buckets, restart and reopen.     *)

Inductive cop :=
| CDraw (b : string) (p : N) (commit : bool)  (* a regular-API write on bucket b; the physical
                                                 clock reads p; commit=false: the call failed
                                                 after drawing (transaction rolled back)      *)
| COpen (b : string)                          (* OpenBucket: seeds the clock from the bucket  *)
| CClose (b : string)
| CDropColl (b : string)                      (* DropDataStore of a named collection of bucket b: the
                                                 persisted high-water mark is the bucket's, so the
                                                 clock and the mark are untouched - whichever
                                                 collection issued the newest CAS                *)
| CRestart.                                   (* process dies / exits: clock state is lost,
                                                 every bucket is closed, persisted marks stay *)

Record proc := mkProc {
  p_high : N;                       (* hlc.highestTime *)
  p_persist : list (string * N);    (* bucket.lastCas on disk *)
  p_open : list string              (* buckets open in this process *)
}.

Definition proc0 : proc := mkProc 0 [] [].

Definition persisted (b : string) (s : proc) : N :=
  match alookup String.eqb b (p_persist s) with Some c => c | None => 0 end.

Definition is_open (b : string) (s : proc) : bool := existsb (String.eqb b) (p_open s).

Inductive cev :=
| EvCas (b : string) (cas : N) (committed : bool)
| EvRestart.

Definition cstep (s : proc) (o : cop) : proc * list cev :=
  match o with
  | CDraw b p commit =>
      if is_open b s then
        let t := hlc_now (p_high s) p in
        (mkProc t (if commit then aset String.eqb b t (p_persist s) else p_persist s) (p_open s),
         [EvCas b t commit])
      else (s, [])
  | COpen b =>
      (mkProc (hlc_update (p_high s) (persisted b s)) (p_persist s)
              (if is_open b s then p_open s else b :: p_open s), [])
  | CClose b =>
      (mkProc (p_high s) (p_persist s) (filter (fun x => negb (String.eqb b x)) (p_open s)), [])
  | CDropColl _ => (s, [])
  | CRestart => (mkProc 0 (p_persist s) [], [EvRestart])
  end.

Fixpoint crun (s : proc) (ops : list cop) : list cev :=
  match ops with
  | [] => []
  | o :: r => let '(s', evs) := cstep s o in evs ++ crun s' r
  end.

(* ------------------------------------------------------------------------------------------ *)
(* The trace checker for C04.  State carried along the trace:
     run_max  : the largest CAS seen since the last restart (None: none yet)
     commits  : per bucket, the largest *committed* CAS seen so far (across restarts)         *)

Definition chk_cas_step (st : option N * list (string * N)) (e : cev)
  : option (option N * list (string * N)) :=
  let '(run_max, commits) := st in
  match e with
  | EvRestart => Some (None, commits)
  | EvCas b c committed =>
      let ok_run := match run_max with Some m => m <? c | None => true end in
      let ok_bkt := match alookup String.eqb b commits with Some m => m <? c | None => true end in
      if ok_run && ok_bkt
      then Some (Some c, if committed then aset String.eqb b c commits else commits)
      else None
  end.

Fixpoint chk_cas_from (st : option N * list (string * N)) (tr : list cev) : bool :=
  match tr with
  | [] => true
  | e :: r => match chk_cas_step st e with Some st' => chk_cas_from st' r | None => false end
  end.

Definition chk_C04 (tr : list cev) : bool := chk_cas_from (None, []) tr.
