(* KvC02.v - the row-level checker chk_row_C02 accepts every step of the model *)
From Rosmar Require Import Base Json Crc Kv Store Trace KvTac.

Theorem C02_row_sound : rc_sound chk_row_C02.
Proof. start_rc. all: unfold chk_row_C02; fin. Qed.

