(* KvC01.v - the row-level checker chk_row_C01 accepts every step of the model *)
From Rosmar Require Import Base Json Crc Kv Store Trace KvTac.

Theorem C01_row_sound : rc_sound chk_row_C01.
Proof. start_rc. all: unfold chk_row_C01; fin. Qed.

