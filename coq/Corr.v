(* Corr.v — correspondence helpers: run the model's executable definitions on recorded inputs and
   report the indices of the cases whose projected observables differ from what the
   implementation produced.  Evaluated by vm_compute inside cases_*.v files written by bin/check. *)
From Rosmar Require Import Base Hlc.

Fixpoint find_bad_from {A} (f : A -> bool) (i : N) (l : list A) : list N :=
  match l with
  | [] => []
  | x :: r => if f x then find_bad_from f (i + 1) r else i :: find_bad_from f (i + 1) r
  end.
Definition find_bad {A} (f : A -> bool) (l : list A) : list N := find_bad_from f 0 l.

Fixpoint list_eqb {A} (eqb : A -> A -> bool) (a b : list A) : bool :=
  match a, b with
  | [], [] => true
  | x :: a', y :: b' => eqb x y && list_eqb eqb a' b'
  | _, _ => false
  end.

Definition option_eqb {A} (eqb : A -> A -> bool) (a b : option A) : bool :=
  match a, b with
  | Some x, Some y => eqb x y
  | None, None => true
  | _, _ => false
  end.

Definition pair_eqb {A B} (ea : A -> A -> bool) (eb : B -> B -> bool) (a b : A * B) : bool :=
  ea (fst a) (fst b) && eb (snd a) (snd b).

(* ---------------- family c04 ---------------- *)
Definition cev_eqb (a b : cev) : bool :=
  match a, b with
  | EvRestart, EvRestart => true
  | EvCas b1 c1 m1, EvCas b2 c2 m2 => String.eqb b1 b2 && (c1 =? c2) && Bool.eqb m1 m2
  | _, _ => false
  end.

Definition committed_only (tr : list cev) : list cev :=
  filter (fun e => match e with EvCas _ _ false => false | _ => true end) tr.

Definition c04_model (ops : list cop) : list cev := committed_only (crun proc0 ops).
Definition c04_corr_ok (c : list cop * list cev) : bool := list_eqb cev_eqb (c04_model (fst c)) (snd c).
Definition c04_chk_ok (c : list cop * list cev) : bool := chk_C04 (snd c).

(* ---------------- family kv ---------------- *)
From Rosmar Require Import Json Crc Kv Store Trace.

Definition snapshot_eq_dec : forall a b : snapshot, {a = b} + {a <> b}.
Proof.
  decide equality.
  - apply list_eq_dec. decide equality; [apply N.eq_dec | apply string_dec].
  - apply list_eq_dec. decide equality; [apply list_eq_dec; apply string_dec | apply string_dec].
  - apply list_eq_dec. decide equality; [apply obsrow_eq_dec | apply sspair_eq_dec].
  - apply list_eq_dec; apply string_dec.
Defined.
Definition ostep_eq_dec : forall a b : ostep, {a = b} + {a <> b}.
Proof.
  decide equality; [apply snapshot_eq_dec | apply list_eq_dec; apply fevent_eq_dec | apply resp_eq_dec].
Defined.

Definition kv_model (c : scase) : list ostep := srun c.

Fixpoint first_diff {A} (dec : forall a b : A, {a = b} + {a <> b}) (i : N) (a b : list A) : option (N * option A * option A) :=
  match a, b with
  | [], [] => None
  | x :: a', y :: b' => if dec x y then first_diff dec (i + 1) a' b' else Some (i, Some x, Some y)
  | x :: _, [] => Some (i, Some x, None)
  | [], y :: _ => Some (i, None, Some y)
  end.

(* model step vs observed step: equal, except that a model error EAmbiguous matches any error *)
Definition resp_match (m o : resp) : bool :=
  match m, o with
  | RErr EAmbiguous, RErr _ => true
  | _, _ => if resp_eq_dec m o then true else false
  end.
Definition ostep_match (m o : ostep) : bool :=
  resp_match (os_resp m) (os_resp o)
  && (if list_eq_dec fevent_eq_dec (os_live m) (os_live o) then true else false)
  && (if snapshot_eq_dec (os_snap m) (os_snap o) then true else false).

Fixpoint first_mismatch (i : N) (a b : list ostep) : option (N * option ostep * option ostep) :=
  match a, b with
  | [], [] => None
  | x :: a', y :: b' => if ostep_match x y then first_mismatch (i + 1) a' b' else Some (i, Some x, Some y)
  | x :: _, [] => Some (i, Some x, None)
  | [], y :: _ => Some (i, None, Some y)
  end.

Definition kv_corr_ok (c : scase * list ostep) : bool :=
  match first_mismatch 0 (srun (fst c)) (snd c) with None => true | Some _ => false end.

(* for replay files: the first differing step, reduced to the parts that differ
   (model value first, observed value second) *)
Record kv_diff := mkKvDiff {
  d_step : N;
  d_resp : option (resp * resp);
  d_live : option (list fevent * list fevent);
  d_colls : option (list string * list string);
  d_rows : list (string * string * option obsrow * option obsrow);
  d_order : option (list (string * list string) * list (string * list string))
}.

Definition rows_diff (a b : list ((string * string) * obsrow)) : list (string * string * option obsrow * option obsrow) :=
  let look k l := alookup (fun x y : string * string => if sspair_eq_dec x y then true else false) k l in
  flat_map (fun e => match look (fst e) b with
                     | Some o => if obsrow_eq_dec (snd e) o then [] else [(fst (fst e), snd (fst e), Some (snd e), Some o)]
                     | None => [(fst (fst e), snd (fst e), Some (snd e), None)]
                     end) a
  ++ flat_map (fun e => match look (fst e) a with Some _ => [] | None => [(fst (fst e), snd (fst e), None, Some (snd e))] end) b.

Definition kv_explain (c : scase * list ostep) : option kv_diff + string :=
  match first_mismatch 0 (srun (fst c)) (snd c) with
  | None => inl None
  | Some (i, Some m, Some o) =>
      inl (Some (mkKvDiff i
        (if resp_eq_dec (os_resp m) (os_resp o) then None else Some (os_resp m, os_resp o))
        (if list_eq_dec fevent_eq_dec (os_live m) (os_live o) then None else Some (os_live m, os_live o))
        (if list_eq_dec string_dec (sn_colls (os_snap m)) (sn_colls (os_snap o)) then None else Some (sn_colls (os_snap m), sn_colls (os_snap o)))
        (rows_diff (sn_rows (os_snap m)) (sn_rows (os_snap o)))
        (if snapshot_eq_dec (mkSnap [] [] (sn_order (os_snap m)) []) (mkSnap [] [] (sn_order (os_snap o)) []) then None
         else Some (sn_order (os_snap m), sn_order (os_snap o)))))
  | Some (i, _, None) => inr "the implementation trace is shorter than the model's (the run stopped early)"
  | Some (i, None, _) => inr "the implementation trace is longer than the model's (extra feed events after the end?)"
  end.

Definition kv_chk_ok (c : scase * list ostep) : bool := chk_all_kv c.

(* one checker per property, over the same recorded kv histories *)
Definition kv_chk_C01 (c : scase * list ostep) : bool := chk_C01_kv c.
Definition kv_chk_C02 (c : scase * list ostep) : bool := chk_C02_kv c.
Definition kv_chk_C05 (c : scase * list ostep) : bool := chk_C05_kv c.
Definition kv_chk_C06 (c : scase * list ostep) : bool := chk_C06_kv c.
Definition kv_chk_C07 (c : scase * list ostep) : bool := chk_C07_kv c.
Definition kv_chk_C08 (c : scase * list ostep) : bool := chk_C08_kv c.
Definition kv_chk_C17 (c : scase * list ostep) : bool := chk_C17_kv c.
