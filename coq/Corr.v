(* Corr.v — correspondence helpers: run the model's executable definitions on recorded inputs and
   report the indices of the cases whose projected observables differ from what the
   implementation produced.  Evaluated by vm_compute inside cases_*.v files written by bin/check. *)
From Rosmar Require Import Base Hlc.

Fixpoint find_bad_from {A} (f : A -> bool) (i : N) (l : list A) : list N :=
  match l with
  | [] => []
  | x :: r => if f x then find_bad_from f (i + 1) r else i :: find_bad_from f (i + 1) r
  end.
Definition find_bad {A} (f : A -> bool) (l : list A) : list N := find_bad_from f 0 l.

Fixpoint list_eqb {A} (eqb : A -> A -> bool) (a b : list A) : bool :=
  match a, b with
  | [], [] => true
  | x :: a', y :: b' => eqb x y && list_eqb eqb a' b'
  | _, _ => false
  end.

Definition option_eqb {A} (eqb : A -> A -> bool) (a b : option A) : bool :=
  match a, b with
  | Some x, Some y => eqb x y
  | None, None => true
  | _, _ => false
  end.

Definition pair_eqb {A B} (ea : A -> A -> bool) (eb : B -> B -> bool) (a b : A * B) : bool :=
  ea (fst a) (fst b) && eb (snd a) (snd b).

(* ---------------- family c04 ---------------- *)
Definition cev_eqb (a b : cev) : bool :=
  match a, b with
  | EvRestart, EvRestart => true
  | EvCas b1 c1 m1, EvCas b2 c2 m2 => String.eqb b1 b2 && (c1 =? c2) && Bool.eqb m1 m2
  | _, _ => false
  end.

Definition committed_only (tr : list cev) : list cev :=
  filter (fun e => match e with EvCas _ _ false => false | _ => true end) tr.

Definition c04_model (ops : list cop) : list cev := committed_only (crun proc0 ops).
Definition c04_corr_ok (c : list cop * list cev) : bool := list_eqb cev_eqb (c04_model (fst c)) (snd c).
Definition c04_chk_ok (c : list cop * list cev) : bool := chk_C04 (snd c).
