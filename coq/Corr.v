(* Corr.v — correspondence helpers: run the model's executable definitions on recorded inputs and
   report the indices of the cases whose projected observables differ from what the
   implementation produced.  Evaluated by vm_compute inside cases_*.v files written by bin/check. *)
From Rosmar Require Import Base Hlc.

Fixpoint list_eqb {A} (eqb : A -> A -> bool) (a b : list A) : bool :=
  match a, b with
  | [], [] => true
  | x :: a', y :: b' => eqb x y && list_eqb eqb a' b'
  | _, _ => false
  end.

Definition option_eqb {A} (eqb : A -> A -> bool) (a b : option A) : bool :=
  match a, b with
  | Some x, Some y => eqb x y
  | None, None => true
  | _, _ => false
  end.

Definition pair_eqb {A B} (ea : A -> A -> bool) (eb : B -> B -> bool) (a b : A * B) : bool :=
  ea (fst a) (fst b) && eb (snd a) (snd b).

(* ---------------- family c04 ---------------- *)
Definition cev_eqb (a b : cev) : bool :=
  match a, b with
  | EvRestart, EvRestart => true
  | EvCas b1 c1 m1, EvCas b2 c2 m2 => String.eqb b1 b2 && (c1 =? c2) && Bool.eqb m1 m2
  | _, _ => false
  end.

Definition committed_only (tr : list cev) : list cev :=
  filter (fun e => match e with EvCas _ _ false => false | _ => true end) tr.

Definition c04_model (ops : list cop) : list cev := committed_only (crun proc0 ops).
Definition c04_corr_ok (c : list cop * list cev) : bool := list_eqb cev_eqb (c04_model (fst c)) (snd c).
Definition c04_chk_ok (c : list cop * list cev) : bool := chk_C04 (snd c).

(* ---------------- family kv ---------------- *)
From Rosmar Require Import Json Crc Kv Store Trace.

Definition snapshot_eq_dec : forall a b : snapshot, {a = b} + {a <> b}.
Proof.
  decide equality.
  - apply list_eq_dec. decide equality; [apply N.eq_dec | apply string_dec].
  - apply list_eq_dec. decide equality; [apply list_eq_dec; apply string_dec | apply string_dec].
  - apply list_eq_dec. decide equality; [apply obsrow_eq_dec | apply sspair_eq_dec].
  - apply list_eq_dec; apply string_dec.
Defined.
Definition ostep_eq_dec : forall a b : ostep, {a = b} + {a <> b}.
Proof.
  decide equality; [apply snapshot_eq_dec | apply list_eq_dec; apply fevent_eq_dec | apply list_eq_dec; apply fevent_eq_dec | apply resp_eq_dec].
Defined.

Definition kv_model (c : scase) : list ostep := srun c.

Fixpoint first_diff {A} (dec : forall a b : A, {a = b} + {a <> b}) (i : N) (a b : list A) : option (N * option A * option A) :=
  match a, b with
  | [], [] => None
  | x :: a', y :: b' => if dec x y then first_diff dec (i + 1) a' b' else Some (i, Some x, Some y)
  | x :: _, [] => Some (i, Some x, None)
  | [], y :: _ => Some (i, None, Some y)
  end.

(* model step vs observed step: equal, except that a model error EAmbiguous matches any error *)
Definition resp_match (m o : resp) : bool :=
  match m, o with
  | RErr EAmbiguous, RErr _ => true
  | _, _ => if resp_eq_dec m o then true else false
  end.
Definition ostep_match (m o : ostep) : bool :=
  resp_match (os_resp m) (os_resp o)
  && (if list_eq_dec fevent_eq_dec (os_live m) (os_live o) then true else false)
  && (if list_eq_dec fevent_eq_dec (os_dump m) (os_dump o) then true else false)
  && (if snapshot_eq_dec (os_snap m) (os_snap o) then true else false).

Fixpoint first_mismatch (i : N) (a b : list ostep) : option (N * option ostep * option ostep) :=
  match a, b with
  | [], [] => None
  | x :: a', y :: b' => if ostep_match x y then first_mismatch (i + 1) a' b' else Some (i, Some x, Some y)
  | x :: _, [] => Some (i, Some x, None)
  | [], y :: _ => Some (i, None, Some y)
  end.

Definition kv_corr_ok (c : scase * list ostep) : bool :=
  match first_mismatch 0 (srun (fst c)) (snd c) with None => true | Some _ => false end.

(* for replay files: the first differing step, reduced to the parts that differ
   (model value first, observed value second) *)
Record kv_diff := mkKvDiff {
  d_step : N;
  d_resp : option (resp * resp);
  d_live : option (list fevent * list fevent);
  d_dump : option (list fevent * list fevent);
  d_colls : option (list string * list string);
  d_rows : list (string * string * option obsrow * option obsrow);
  d_order : option (list (string * list string) * list (string * list string))
}.

Definition rows_diff (a b : list ((string * string) * obsrow)) : list (string * string * option obsrow * option obsrow) :=
  let look k l := alookup (fun x y : string * string => if sspair_eq_dec x y then true else false) k l in
  flat_map (fun e => match look (fst e) b with
                     | Some o => if obsrow_eq_dec (snd e) o then [] else [(fst (fst e), snd (fst e), Some (snd e), Some o)]
                     | None => [(fst (fst e), snd (fst e), Some (snd e), None)]
                     end) a
  ++ flat_map (fun e => match look (fst e) a with Some _ => [] | None => [(fst (fst e), snd (fst e), None, Some (snd e))] end) b.

Definition kv_explain (c : scase * list ostep) : option kv_diff + string :=
  match first_mismatch 0 (srun (fst c)) (snd c) with
  | None => inl None
  | Some (i, Some m, Some o) =>
      inl (Some (mkKvDiff i
        (if resp_eq_dec (os_resp m) (os_resp o) then None else Some (os_resp m, os_resp o))
        (if list_eq_dec fevent_eq_dec (os_live m) (os_live o) then None else Some (os_live m, os_live o))
        (if list_eq_dec fevent_eq_dec (os_dump m) (os_dump o) then None else Some (os_dump m, os_dump o))
        (if list_eq_dec string_dec (sn_colls (os_snap m)) (sn_colls (os_snap o)) then None else Some (sn_colls (os_snap m), sn_colls (os_snap o)))
        (rows_diff (sn_rows (os_snap m)) (sn_rows (os_snap o)))
        (if snapshot_eq_dec (mkSnap [] [] (sn_order (os_snap m)) []) (mkSnap [] [] (sn_order (os_snap o)) []) then None
         else Some (sn_order (os_snap m), sn_order (os_snap o)))))
  | Some (i, _, None) => inr "the implementation trace is shorter than the model's (the run stopped early)"
  | Some (i, None, _) => inr "the implementation trace is longer than the model's (extra feed events after the end?)"
  end.

Definition kv_chk_ok (c : scase * list ostep) : bool := chk_all_kv c.

(* one checker per property, over the same recorded kv histories *)
Definition kv_chk_C01 (c : scase * list ostep) : bool := chk_C01_full c.
Definition kv_chk_C02 (c : scase * list ostep) : bool := chk_C02_kv c.
Definition kv_chk_C05 (c : scase * list ostep) : bool := chk_C05_full c && chk_expiry_kv chk_row_C05 c.
Definition kv_chk_C06 (c : scase * list ostep) : bool := chk_C06_kv c.
Definition kv_chk_C07 (c : scase * list ostep) : bool := chk_C07_full c.
Definition kv_chk_C08 (c : scase * list ostep) : bool := chk_C08_kv c && chk_expiry_kv chk_row_C08 c.
Definition kv_chk_C17 (c : scase * list ostep) : bool := chk_C17_kv c && chk_expiry_kv chk_row_C17 c.

(* ------------------------------------------------------------------------------------------ *)
(* Property-specific projections.  The model is compared with the implementation at the FIRST step
   at which they differ in anything (after that step the model no longer tracks the
   implementation's state).  A property's correspondence is broken only if that first divergence
   shows in what the property talks about: its mask of observable fields, and the calls it
   concerns.                                                                                    *)

Record pmask := mkMask {
  pm_resp : bool; pm_body : bool; pm_cas : bool; pm_exp : bool; pm_xattrs : bool;
  pm_rev : bool; pm_json : bool; pm_del : bool; pm_live : bool; pm_order : bool
}.

Definition mN (b : bool) (n : N) : N := if b then n else 0.
Definition mS (b : bool) (s : string) : string := if b then s else "".

Definition is_virtual (k : string) : bool := String.eqb k "$document" || String.eqb k "$document.revid".

Definition mask_fevent (m : pmask) (f : fevent) : fevent :=
  mkFevent (if pm_del m then f_op f else FMutation) (f_key f) (mS (pm_body m) (f_body f))
           (if pm_xattrs m then f_xattrs f else []) (pm_json m && f_json f) (pm_xattrs m && f_xbit f)
           (mN (pm_cas m) (f_cas f)) (mN (pm_exp m) (f_exp f)) (mN (pm_rev m) (f_rev f)) (f_coll f).

Definition mask_xs (m : pmask) (xs : list (string * string)) : list (string * string) :=
  filter (fun kv => if String.eqb (fst kv) "$document.revid" then pm_rev m
                    else if String.eqb (fst kv) "$document" then pm_rev m && pm_body m
                    else pm_xattrs m) xs.

Definition mask_resp (m : pmask) (r : resp) : resp :=
  match r with
  | RVal v c => RVal (mS (pm_body m) v) (mN (pm_cas m) c)
  | RCas c => RCas (mN (pm_cas m) c)
  | RDoc b xs c => RDoc (if pm_body m then b else None) (mask_xs m xs) (mN (pm_cas m) c)
  | RXattrs xs c => RXattrs (mask_xs m xs) (mN (pm_cas m) c)
  | RNum n => RNum n
  | x => x
  end.

Definition mask_obs (m : pmask) (o : obsrow) : obsrow :=
  mkObs (if pm_body m || pm_cas m then mask_resp m (o_get o) else ROk)
        (if pm_exp m then o_exp o else ROk)
        (if pm_body m || pm_xattrs m || pm_rev m then mask_resp m (o_doc o) else ROk)
        (pm_body m && o_exists o)
        (option_map (mask_fevent m) (o_dump o)).

Definition mask_snap (m : pmask) (s : snapshot) : snapshot :=
  mkSnap (sn_colls s) (map (fun e => (fst e, mask_obs m (snd e))) (sn_rows s))
         (if pm_order m then sn_order s else []) (if pm_exp m && pm_del m then sn_lastcas s else []).

Definition mask_ostep (m : pmask) (o : ostep) : ostep :=
  mkOstep (if pm_resp m then mask_resp m (os_resp o) else ROk)
          (if pm_live m then map (mask_fevent m) (os_live o) else [])
          (if pm_order m || pm_del m then map (mask_fevent m) (os_dump o) else [])
          (mask_snap m (os_snap o)).

Definition step_relevant := sop -> bool.

(* per-key properties look only at the document the call addressed *)
Definition only_addressed (o : sop) (ob : ostep) : ostep :=
  match o with
  | SKv c k _ =>
      let sn := os_snap ob in
      mkOstep (os_resp ob) (os_live ob) (os_dump ob)
              (mkSnap (sn_colls sn) (filter (fun e => sspair_eqb (fst e) (c, k)) (sn_rows sn)) (sn_order sn) (sn_lastcas sn))
  | _ => ob
  end.

Definition kv_corr_proj_gen (addr : bool) (m : pmask) (rel : step_relevant) (c : scase * list ostep) : bool :=
  match first_mismatch 0 (srun (fst c)) (snd c) with
  | None => true
  | Some (i, Some mo, Some ob) =>
      match nth_error (sc_steps (fst c)) (N.to_nat i) with
      | Some (_, o) =>
          if rel o then
            let f := if addr then only_addressed o else (fun x => x) in
            ostep_match (mask_ostep m (f mo)) (mask_ostep m (f ob))
          else true
      | None => false
      end
  | Some _ => false      (* the implementation trace stopped early or ran on: every property is concerned *)
  end.
Definition kv_corr_proj := kv_corr_proj_gen false.
Definition kv_corr_addr := kv_corr_proj_gen true.

Definition rel_all : step_relevant := fun _ => true.
Definition rel_kv (f : kop -> bool) : step_relevant := fun o => match o with SKv _ _ op => f op | _ => false end.
Definition rel_kv_or_admin (f : kop -> bool) : step_relevant := fun o => match o with SKv _ _ op => f op | _ => true end.

Definition xattr_op (op : kop) : bool :=
  match op with
  | KSetXattrs _ | KRemoveXattrs _ _ | KDeleteSubDocPaths _ | KDeleteWithXattrs _ | KWriteWithXattrs _ _ _ _ _ _ _
  | KWriteTombstoneWithXattrs _ _ _ _ _ _ | KWriteResurrectionWithXattrs _ _ _ _ _ | KUpdateXattrs _ _ _ _
  | KUpdateXattrDeleteBody _ _ _ _ _ | KWriteUpdateWithXattrs _ _ | KGetWithXattrs _ | KGetXattrs _ => true
  | _ => body_only op
  end.

(*                               resp  body  cas   exp   xattr rev   json  del   live  order *)
Definition mask_C01 := mkMask    true  true  true  true  false false false false false false.
Definition mask_C02 := mkMask    true  true  true  true  true  false false false false false.
Definition mask_C05 := mkMask    true  true  false true  true  false false true  true  false.
Definition mask_C06 := mkMask    true  true  true  true  true  false false false false false.
Definition mask_C07 := mkMask    true  true  true  true  true  false false false false false.
Definition mask_C08 := mkMask    true  true  true  true  true  true  true  true  true  false.
Definition mask_C17 := mkMask    false false false false false true  false false true  false.

Definition kv_corr_C01 := kv_corr_proj mask_C01 rel_all.
Definition kv_corr_C02 := kv_corr_addr mask_C02 (rel_kv (fun op => is_some (cas_arg op))).
Definition kv_corr_C05 := kv_corr_proj mask_C05 rel_all.
Definition kv_corr_C06 := kv_corr_addr mask_C06 (rel_kv (fun op => is_insert op || match op with KWriteWithXattrs _ 0 _ _ _ _ _ => true | _ => false end)).
Definition kv_corr_C07 := kv_corr_addr mask_C07 (rel_kv xattr_op).
Definition kv_corr_C08 := kv_corr_proj mask_C08 (rel_kv_or_admin (fun op => negb (is_read op))).
Definition kv_corr_C17 := kv_corr_addr mask_C17 rel_all.

Definition kv_chk_C09 (c : scase * list ostep) : bool := chk_C09_kv c.
Definition kv_chk_C11 (c : scase * list ostep) : bool := chk_C11_kv c && chk_C11_ddocs c && chk_C11_views c.
Definition kv_chk_C18 (c : scase * list ostep) : bool := chk_C18_kv c.

(* the same checkers applied to the MODEL's own trace of the recorded inputs (evaluated, not proved:
   for C09 / C11 / C18 the theorems are stated on the store and on Json.v, see props/) *)
Definition kv_model_chk (chk : scase * list ostep -> bool) (c : scase * list ostep) : bool := chk (fst c, srun (fst c)).

(*                               resp  body  cas   exp   xattr rev   json  del   live  order *)
Definition mask_C09 := mkMask    false true  true  true  true  true  true  true  true  true.
Definition mask_C11 := mkMask    true  true  true  true  true  true  true  true  true  true.
Definition mask_C18 := mkMask    true  true  true  false false false false false false false.

Definition is_dump (o : sop) : bool := match o with SDump _ _ | SDumpKeys _ _ => true | _ => false end.
Definition subdoc_op (op : kop) : bool :=
  match op with KWriteSubDoc _ _ _ | KSubdocInsert _ _ _ | KGetSubDocRaw _ => true | _ => false end.

Definition coll_only (f : fevent) : fevent := mkFevent FMutation "" "" [] false false 0 0 0 (f_coll f).

(* C11 looks only at the collections the step did NOT address *)
Definition mask_other_colls (o : sop) (ob : ostep) : ostep :=
  match o with
  | SKv c _ _ => mkOstep ROk (map coll_only (os_live ob)) []     (* of the events: which collection they claim to come from *)
                         (mkSnap (sn_colls (os_snap ob)) (rows_outside c (os_snap ob)) (order_outside c (os_snap ob)) [])
  | SDropColl c | SCreateColl c =>
      mkOstep (os_resp ob) [] [] (mkSnap (sn_colls (os_snap ob)) (rows_outside c (os_snap ob)) (order_outside c (os_snap ob)) [])
  | _ => ob
  end.

Definition kv_corr_C09 := kv_corr_proj mask_C09 (fun o => match o with SDump _ _ | SDumpKeys _ _ | SKv _ _ _ => true | _ => false end).
Definition kv_corr_C18 := kv_corr_addr mask_C18 (rel_kv subdoc_op).
Definition kv_corr_C11 (c : scase * list ostep) : bool :=
  match first_mismatch 0 (srun (fst c)) (snd c) with
  | None => true
  | Some (i, Some mo, Some ob) =>
      match nth_error (sc_steps (fst c)) (N.to_nat i) with
      | Some (_, o) => ostep_match (mask_other_colls o mo) (mask_other_colls o ob)
      | None => false
      end
  | Some _ => false
  end.

(* family ttl (real time): the model supplies the expiry in force, the checker judges the poll times *)
Definition ttl_chk_ok (t : scase * ttl_run) : bool := chk_ttl t.
Definition ttl_model (c : scase) := map (fun d => (fst d, r_exp (snd d), is_some (r_value (snd d)))) (s_docs (sfinal_from store0 (sc_steps c))).
Definition kv_chk_C14 (c : scase * list ostep) : bool := chk_C14_kv c.
(*                               resp  body  cas   exp   xattr rev   json  del   live  order *)
Definition mask_C14 := mkMask    false false false true  false false false true  false false.
Definition kv_corr_C14 := kv_corr_addr mask_C14 rel_all.

Definition kv_chk_C19 (c : scase * list ostep) : bool := chk_C19_kv c.
Definition kv_corr_C19 := kv_corr_proj mask_C11 (fun o => match o with SQuery _ _ => true | _ => false end).

Definition kv_chk_C12 (c : scase * list ostep) : bool := chk_C12_kv c.
Definition kv_corr_C12 := kv_corr_proj mask_C11 (fun o => match o with SView _ _ _ _ | SPutDDoc _ _ _ | SDelDDoc _ _ => true | _ => false end).

Definition kv_chk_C04 (c : scase * list ostep) : bool := chk_C04_kv c.

(* C03 on kv histories: the read-modify-write calls (Update, WriteUpdateWithXattrs, sub-document writes, Incr), in
   particular those with another call nested in their read-to-write window (the harness emits the nested call,
   an SDraw step and the enclosing call): the enclosing call must act on the document the nested call left *)
Definition rmw_op (op : kop) : bool :=
  match op with
  | KUpdate _ _ | KWriteUpdateWithXattrs _ _ | KWriteSubDoc _ _ _ | KSubdocInsert _ _ _ | KIncr _ _ _ => true
  | _ => false
  end.
Definition kv_chk_C03 (c : scase * list ostep) : bool := chk_C01_full c && chk_C18_kv c && chk_C17_kv c.
Definition kv_corr_C03 := kv_corr_addr mask_C08 (fun o => match o with SKv _ _ op => rmw_op op | SDraw _ _ _ _ => true | _ => false end).
(*                               resp  body  cas   exp   xattr rev   json  del   live  order *)
Definition mask_C04 := mkMask    false false true  false false false false false true  false.
Definition kv_corr_C04 := kv_corr_proj mask_C04 (fun o => negb (is_withmeta_step o)).
