(* ViewInv.v - C12: views_inv is preserved by every step of the bucket model; consequences. *)
From Rosmar Require Import Base Json Crc Hlc HlcProofs Kv Store Trace KvTac KvRowOk KvLift KvFrame ViewProofs.

Lemma kv_on_keeps s x cid key op k' : wf_op op -> store_ok s ->
  get_doc s k' <> None -> get_doc (sr_store (kv_on s x cid key op)) k' <> None.
Proof.
  intros Hwf Hs Hk. destruct (dkey_eqb k' (cid, key)) eqn:E.
  - apply dkey_eqb_spec in E. subst k'. rewrite get_doc_kv_on.
    pose proof (kstep_view_cases (mkCtx (x_now x) (hlc_now (s_high s) (x_clock x)) (x_maxdoc x)) op (get_doc s (cid, key)) Hwf
                  (proj1 (get_doc_orow_ok s (cid, key) Hs))) as [_ Hrow]. cbv zeta in Hrow.
    destruct (kr_row _); [discriminate | contradiction].
  - rewrite kv_on_frame; [exact Hk|]. intros ->. rewrite (proj2 (dkey_eqb_spec _ _) eq_refl) in E. discriminate.
Qed.

Lemma kv_on_views_inv s x cid key op : wf_op op -> In cid (coll_ids s) -> views_inv s -> views_inv (sr_store (kv_on s x cid key op)).
Proof.
  intros Hwf Hcid [Ht Hs Hv Hc Hw].
  pose proof (kv_on_tables_ok s x cid key op Hcid Ht) as Ht'.
  pose proof (kv_on_ok s x cid key op Hwf Hs) as Hs'.
  pose proof (get_doc_kv_on s x cid key op) as Hsame. fold (kres_of s x cid key op) in Hsame.
  pose proof (fun k' => kv_on_frame s x cid key op k') as Hother.
  pose proof (fun k' => kv_on_keeps s x cid key op k' Hwf Hs) as Hkeeps.
  pose proof (fun cid' => kv_on_coll_lastcas s x cid key op cid' Hcid) as Hcl.
  pose proof (kv_on_high s x cid key op) as Hhigh.
  pose proof (kv_on_views s x cid key op) as Hviews.
  pose proof (kstep_view_cases (mkCtx (x_now x) (hlc_now (s_high s) (x_clock x)) (x_maxdoc x)) op (get_doc s (cid, key)) Hwf
                (proj1 (get_doc_orow_ok s (cid, key) Hs))) as [Hcommit Hrow].
  pose proof (kstep_meta_commit (mkCtx (x_now x) (hlc_now (s_high s) (x_clock x)) (x_maxdoc x)) op (get_doc s (cid, key)) Hwf
                (proj1 (get_doc_orow_ok s (cid, key) Hs))) as Hmeta.
  cbv zeta in Hcommit, Hrow, Hmeta. fold (kres_of s x cid key op) in Hcommit, Hrow, Hmeta. cbn [k_cas] in Hcommit, Hrow, Hmeta.
  pose proof (hlc_now_gt (s_high s) (x_clock x)) as Hgt.
  set (c1 := hlc_now (s_high s) (x_clock x)) in *.
  set (res := kres_of s x cid key op) in *.
  set (s' := sr_store (kv_on s x cid key op)) in *.
  assert (s_high s <= s_high s') as Hmono.
  { rewrite Hhigh. destruct (kr_draws res =? 0); lia. }
  assert (kr_commit res = Some c1 -> c1 <= s_high s') as Hc1.
  { intros E. destruct Hcommit as [E'|[_ Hd]]; [congruence|]. rewrite Hhigh. destruct (N.eqb_spec (kr_draws res) 0); [contradiction | lia]. }
  (* a view of another collection is untouched, and so is everything it depends on *)
  assert (forall v, In v (s_views s) -> vd_coll v <> cid -> view_ok s' v) as Hothercoll.
  { intros v Hin Hne. destruct (Hv v Hin) as [Hd Ho Hb]. split.
    - intros k r Hg. rewrite Hother in Hg by congruence. destruct (Hd k r Hg) as [H|[H1 H2]]; [left; exact H | right].
      split; [exact H1|]. rewrite Hcl. destruct (kr_commit res); [|exact H2]. destruct (N.eqb_spec (vd_coll v) cid); [contradiction | exact H2].
    - intros row Hr. apply Hkeeps, Ho, Hr.
    - lia. }
  split; [exact Ht' | exact Hs' | | | ].
  - (* views *)
    intros v' Hin'. rewrite Hviews in Hin'.
    destruct (is_withmeta op && negb (resp_is_err (kr_resp res))) eqn:Emeta.
    + (* a successful WithMeta write: views.lastCas of the collection reset *)
      apply andb_true_iff in Emeta. destruct Emeta as [Ewm Eok]. apply negb_true_iff in Eok.
      pose proof (Hmeta Ewm Eok) as Ecm.
      apply in_map_iff in Hin'. destruct Hin' as (v & <- & Hin). unfold vreset.
      destruct (N.eqb_spec (vd_coll v) cid) as [Ec|Hne]; [|apply Hothercoll; assumption].
      destruct (Hv v Hin) as [Hd Ho Hb]. split; cbn [vd_coll vd_rows vd_lastcas vd_map].
      * intros k r Hg. right. split; cbn [vd_coll vd_lastcas].
        -- destruct (get_doc_ok s' _ r Hs' Hg) as [_ Hz]. lia.
        -- rewrite Hcl, Ecm, Ec, N.eqb_refl. pose proof Hgt. lia.
      * intros row Hr. apply Hkeeps, Ho, Hr.
      * lia.
    + destruct (N.eq_dec (vd_coll v') cid) as [Ec|Hne]; [|apply Hothercoll; assumption].
      destruct (Hv v' Hin') as [Hd Ho Hb]. split.
      * intros k r Hg. rewrite Ec in Hg.
        assert (forall r0, get_doc s (cid, k) = Some r0 -> (r0 = r \/ same_map r0 r) ->
                  indexed v' k r \/ pending s' v' r) as Hkeep.
        { intros r0 Hg0 Hrel. rewrite <- Ec in Hg0. destruct (Hd k r0 Hg0) as [H|[H1 H2]].
          - left. unfold indexed in *. rewrite H. destruct Hrel as [->|Hsm]; [reflexivity | apply expected_same_map, Hsm].
          - right. split.
            + destruct Hrel as [->|(_ & _ & _ & Hcas)]; [exact H1 | rewrite <- Hcas; exact H1].
            + rewrite Hcl. destruct (kr_commit res) as [c|] eqn:Ecm; [|exact H2].
              rewrite Ec, N.eqb_refl. destruct Hcommit as [|[E' _]]; [discriminate|]. inversion E'; subst c. lia. }
        destruct (String.eqb_spec k key) as [->|Hk].
        -- rewrite Hsame in Hg. rewrite Hg in Hrow.
           destruct Hrow as [(r0 & Hr0 & Hsm)|[(Hcas & Ecm)|(Ewm & Eok & _)]].
           ++ apply (Hkeep r0 Hr0). right. exact Hsm.
           ++ right. split; [rewrite Hcas; lia|]. rewrite Hcl, Ecm, Ec, N.eqb_refl. lia.
           ++ rewrite Ewm, Eok in Emeta. discriminate.
        -- rewrite Hother in Hg by congruence. apply (Hkeep r Hg). left. reflexivity.
      * intros row Hr. apply Hkeeps, Ho, Hr.
      * lia.
  - (* collection lastCas below the clock *)
    intros cid'. rewrite Hcl. destruct (kr_commit res) as [c|] eqn:Ecm; [|pose proof (Hc cid'); lia].
    destruct Hcommit as [|[E' _]]; [discriminate|]. inversion E'; subst c.
    destruct (cid' =? cid); [apply Hc1; reflexivity | pose proof (Hc cid'); lia].
  - (* a collection that holds a document has been written to *)
    intros cid' k r Hg. rewrite Hcl.
    destruct (kr_commit res) as [c|] eqn:Ecm.
    + destruct Hcommit as [|[E' _]]; [discriminate|]. inversion E'; subst c.
      destruct (N.eqb_spec cid' cid) as [->|Hne]; [lia|].
      rewrite Hother in Hg by congruence. apply (Hw cid' k r Hg).
    + destruct (dkey_eqb (cid', k) (cid, key)) eqn:E.
      * apply dkey_eqb_spec in E. inversion E; subst cid' k. rewrite Hsame in Hg. rewrite Hg in Hrow.
        destruct Hrow as [(r0 & Hr0 & _)|[(_ & Ecm')|(_ & _ & Ecm')]]; [apply (Hw cid key r0 Hr0) | congruence | congruence].
      * rewrite Hother in Hg; [apply (Hw cid' k r Hg)|]. intros E'. rewrite (proj2 (dkey_eqb_spec _ _) E') in E. discriminate.
Qed.

(* ---- expiry: a sequence of Delete calls ---- *)
Lemma expire_keys_views_inv x cid keys : forall s acc, In cid (coll_ids s) -> views_inv s ->
  views_inv (fst (expire_keys s x cid keys acc)) /\ coll_ids (fst (expire_keys s x cid keys acc)) = coll_ids s.
Proof.
  induction keys as [|k r IH]; intros s acc Hc Hs; cbn [expire_keys]; [split; [exact Hs | reflexivity]|].
  destruct (IH (sr_store (kv_on s x cid k KDelete)) (acc ++ sr_events (kv_on s x cid k KDelete))) as [A B].
  - rewrite kv_on_ids. exact Hc.
  - apply kv_on_views_inv; [exact I | exact Hc | exact Hs].
  - split; [exact A | rewrite B; apply kv_on_ids].
Qed.

Lemma expire_colls_views_inv x cids : forall s acc, (forall c, In c cids -> In c (coll_ids s)) -> views_inv s ->
  views_inv (fst (expire_colls s x cids acc)).
Proof.
  induction cids as [|cid r IH]; intros s acc Hc Hs; cbn [expire_colls]; [exact Hs|].
  destruct (expire_keys_views_inv x cid (due_keys s cid (x_now x)) s acc (Hc cid (or_introl eq_refl)) Hs) as [A B].
  destruct (expire_keys s x cid (due_keys s cid (x_now x)) acc) as [s' acc']. cbn [fst] in A, B.
  apply IH; [|exact A]. intros c Hin. rewrite B. apply Hc. right; exact Hin.
Qed.

(* ---- a view only depends on its collection's documents and lastCas, and on the clock bound ---- *)
Lemma view_ok_ext s s' v :
  (forall k, get_doc s' (vd_coll v, k) = get_doc s (vd_coll v, k)) ->
  coll_lastcas s' (vd_coll v) = coll_lastcas s (vd_coll v) -> s_high s <= s_high s' ->
  view_ok s v -> view_ok s' v.
Proof.
  intros Hg Hc Hh [Hd Ho Hb]. split.
  - intros k r H. rewrite Hg in H. destruct (Hd k r H) as [H0|[H1 H2]]; [left; exact H0 | right; split; [exact H1 | rewrite Hc; exact H2]].
  - intros row Hr. rewrite Hg. apply Ho, Hr.
  - lia.
Qed.

Lemma views_inv_same_data s s' : tables_ok s' -> store_ok s' ->
  (forall k, get_doc s' k = get_doc s k) -> (forall c, coll_lastcas s' c = coll_lastcas s c) -> s_high s <= s_high s' ->
  (forall v, In v (s_views s') -> view_ok s v) -> views_inv s -> views_inv s'.
Proof.
  intros Ht Hs Hg Hc Hh Hv [_ _ _ Hcl Hw]. split; [exact Ht | exact Hs | | |].
  - intros v Hin. apply (view_ok_ext s s' v); [intros k; apply Hg | apply Hc | exact Hh | apply Hv, Hin].
  - intros c. rewrite Hc. pose proof (Hcl c). lia.
  - intros c k r H. rewrite Hg in H. rewrite Hc. apply (Hw c k r H).
Qed.

(* a transaction that rolls back spends a timestamp and nothing else *)
Lemma burn_views_inv s x : views_inv s -> views_inv (burn s x).
Proof.
  intros Hinv. pose proof Hinv as [Ht Hs Hv Hc Hw].
  apply (views_inv_same_data s); try reflexivity; [apply burn_tables_ok; exact Ht | apply burn_ok; exact Hs | | exact Hv | exact Hinv].
  cbn. pose proof (hlc_now_gt (s_high s) (x_clock x)). lia.
Qed.

Lemma expire_keys_chk_views_inv x cid keys : forall s acc, In cid (coll_ids s) -> views_inv s ->
  views_inv (fst (expire_keys_chk s x cid keys acc)) /\ coll_ids (fst (expire_keys_chk s x cid keys acc)) = coll_ids s.
Proof.
  induction keys as [|k r IH]; intros s acc Hc Hs; cbn [expire_keys_chk]; [split; [exact Hs | reflexivity]|].
  destruct (is_due (get_doc s (cid, k)) (x_now x)).
  - destruct (IH (sr_store (kv_on s x cid k KDelete)) (acc ++ sr_events (kv_on s x cid k KDelete))) as [A B].
    + rewrite kv_on_ids. exact Hc.
    + apply kv_on_views_inv; [exact I | exact Hc | exact Hs].
    + split; [exact A | rewrite B; apply kv_on_ids].
  - destruct (IH (burn s x) acc Hc (burn_views_inv s x Hs)) as [A B]. split; [exact A | rewrite B; reflexivity].
Qed.


(* ---- purge ---- *)
Lemma existsb_alookup (k : dkey) (m : list (dkey * row)) :
  existsb (fun d : dkey * row => dkey_eqb (fst d) k) m = is_some (alookup dkey_eqb k m).
Proof.
  induction m as [|[k' r] rest IH]; cbn; [reflexivity|].
  destruct (dkey_eqb k' k) eqn:E.
  - apply dkey_eqb_spec in E. subst k'. rewrite (proj2 (dkey_eqb_spec k k) eq_refl). reflexivity.
  - destruct (dkey_eqb k k') eqn:E'; [apply dkey_eqb_spec in E'; subst; rewrite (proj2 (dkey_eqb_spec k' k') eq_refl) in E; discriminate|].
    cbn. exact IH.
Qed.

Lemma purge_views_inv s x : views_inv s -> views_inv (sr_store (sstep s x SPurge)).
Proof.
  intros Hinv. pose proof Hinv as [Ht Hs Hv Hc Hw].
  pose proof (sstep_tables_ok s x SPurge Ht) as Ht'. pose proof (sstep_ok s x SPurge I Hs) as Hs'.
  pose proof (fun k => C05_purge_exact s x k Ht) as Hg.
  set (s' := sr_store (sstep s x SPurge)) in *.
  assert (forall c, coll_lastcas s' c = coll_lastcas s c) as Hcl by reflexivity.
  assert (s_high s' = s_high s) as Hh by reflexivity.
  assert (forall k r, get_doc s' k = Some r -> get_doc s k = Some r) as Hsub.
  { intros k r H. rewrite Hg in H. destruct (get_doc s k) as [r0|]; [|discriminate]. destruct (is_some (r_value r0)); [exact H | discriminate]. }
  split; [exact Ht' | exact Hs' | | |].
  - intros v' Hin. cbn [sstep sr_store s_views] in Hin. apply in_map_iff in Hin. destruct Hin as (v & <- & Hin).
    destruct (Hv v Hin) as [Hd Ho Hb].
    set (keep := filter (fun d : dkey * row => is_some (r_value (snd d))) (s_docs s)) in *.
    assert (forall k, negb (negb (existsb (fun d : dkey * row => dkey_eqb (fst d) (vd_coll v, k)) keep)) = is_some (get_doc s' (vd_coll v, k))) as Hgone.
    { intros k. rewrite negb_involutive. apply existsb_alookup. }
    split; cbn [vd_coll vd_rows vd_lastcas vd_map].
    + intros k r H. destruct (Hd k r (Hsub _ _ H)) as [H0|[H1 H2]]; [left | right; split; [exact H1 | rewrite Hcl; exact H2]].
      unfold indexed, rows_of in *. cbn [vd_rows vd_map].
      rewrite (filter_key_filter (fun key => negb (negb (existsb (fun d : dkey * row => dkey_eqb (fst d) (vd_coll v, key)) keep))) k (vd_rows v)).
      rewrite Hgone, H. cbn [is_some]. exact H0.
    + intros row Hr. apply filter_In in Hr. destruct Hr as [_ Hr]. rewrite Hgone in Hr.
      destruct (get_doc s' (vd_coll v, fst (fst row))); [discriminate | discriminate Hr].
    + rewrite Hh. exact Hb.
  - intros c. rewrite Hcl, Hh. apply Hc.
  - intros c k r H. rewrite Hcl. apply (Hw c k r (Hsub _ _ H)).
Qed.

(* ---- collections ---- *)
Lemma alookup_N_app {V} c (l1 l2 : list (N * V)) :
  alookup N.eqb c (l1 ++ l2) = match alookup N.eqb c l1 with Some v => Some v | None => alookup N.eqb c l2 end.
Proof. induction l1 as [|[i v] r IH]; cbn; [reflexivity|]. destruct (c =? i); [reflexivity | exact IH]. Qed.

Lemma alookup_N_filter_other {V} c cid (l : list (N * V)) : c <> cid ->
  alookup N.eqb c (filter (fun e => negb (fst e =? cid)) l) = alookup N.eqb c l.
Proof.
  intros Hne. induction l as [|[i v] r IH]; cbn; [reflexivity|].
  destruct (N.eqb_spec i cid) as [->|Hi]; cbn.
  - destruct (N.eqb_spec c cid); [contradiction | exact IH].
  - destruct (c =? i); [reflexivity | exact IH].
Qed.

Lemma alookup_N_filter_same {V} cid (l : list (N * V)) :
  alookup N.eqb cid (filter (fun e => negb (fst e =? cid)) l) = None.
Proof.
  induction l as [|[i v] r IH]; cbn; [reflexivity|].
  destruct (N.eqb_spec i cid) as [->|Hi]; cbn; [exact IH|].
  destruct (N.eqb_spec cid i); [congruence | exact IH].
Qed.

Lemma create_views_inv s x name : views_inv s -> views_inv (sr_store (sstep s x (SCreateColl name))).
Proof.
  intros Hinv. pose proof Hinv as [Ht Hs Hv Hc Hw].
  pose proof (sstep_tables_ok s x (SCreateColl name) Ht) as Ht'. pose proof (sstep_ok s x (SCreateColl name) I Hs) as Hs'.
  cbn [sstep] in *. destruct (coll_id s name); [exact Hinv|]. cbn [sr_store create_coll fst] in *.
  apply (views_inv_same_data s); try assumption; try reflexivity.
  intros c. unfold coll_lastcas; cbn [s_colls]. rewrite alookup_N_app. destruct (alookup N.eqb c (s_colls s)); [reflexivity|].
  cbn. destruct (c =? s_nextcoll s); reflexivity.
Qed.

Lemma drop_views_inv s x name : views_inv s -> views_inv (sr_store (sstep s x (SDropColl name))).
Proof.
  intros Hinv. pose proof Hinv as [Ht Hs Hv Hc Hw].
  pose proof (sstep_tables_ok s x (SDropColl name) Ht) as Ht'. pose proof (sstep_ok s x (SDropColl name) I Hs) as Hs'.
  cbn [sstep] in *. destruct (String.eqb name default_coll); [exact Hinv|]. destruct (coll_id s name) as [cid|]; [|exact Hinv].
  cbn [sr_store] in *.
  set (s' := mkStore _ _ _ _ _ _ _) in *.
  assert (forall c k, get_doc s' (c, k) = if c =? cid then None else get_doc s (c, k)) as Hg.
  { intros c k. unfold get_doc; cbn [s' s_docs]. rewrite alookup_filter by apply Ht. cbn [fst].
    destruct (alookup dkey_eqb (c, k) (s_docs s)); destruct (c =? cid); reflexivity. }
  assert (forall c, c <> cid -> coll_lastcas s' c = coll_lastcas s c) as Hcl.
  { intros c Hne. unfold coll_lastcas; cbn [s' s_colls]. rewrite alookup_N_filter_other by exact Hne. reflexivity. }
  split; [exact Ht' | exact Hs' | | |].
  - intros v Hin. cbn [s' s_views] in Hin. apply filter_In in Hin. destruct Hin as [Hin Hne]. apply negb_true_iff, N.eqb_neq in Hne.
    apply (view_ok_ext s s' v); [| apply Hcl, Hne | cbn; lia | apply Hv, Hin].
    intros k. rewrite Hg. destruct (N.eqb_spec (vd_coll v) cid); [contradiction | reflexivity].
  - intros c. destruct (N.eq_dec c cid) as [->|Hne].
    + unfold coll_lastcas; cbn [s' s_colls]. rewrite alookup_N_filter_same. lia.
    + rewrite (Hcl c Hne). apply Hc.
  - intros c k r H. rewrite Hg in H. destruct (N.eqb_spec c cid); [discriminate|]. rewrite (Hcl c n). apply (Hw c k r H).
Qed.

(* ---- design documents and queries ---- *)
Lemma view_ok_fresh s cid ddoc name m : views_inv s -> view_ok s (mkVdef cid ddoc name m 0 []).
Proof.
  intros [Ht Hs Hv Hc Hw]. split; cbn [vd_coll vd_rows vd_lastcas].
  - intros k r H. right. split; cbn [vd_coll vd_lastcas].
    + destruct (get_doc_ok s _ r Hs H) as [_ Hz]. lia.
    + apply (Hw cid k r H).
  - intros row [].
  - lia.
Qed.

Lemma view_ok_updated s v : views_inv s -> view_ok s v -> view_ok s (update_view s v).
Proof.
  intros [Ht Hs Hv Hc Hw] Hok. destruct (update_view_indexed s v Ht Hok) as (Hi & Ho & Hl & Hcoll & _). split.
  - intros k r H. left. apply Hi. rewrite <- Hcoll. exact H.
  - intros row Hr. rewrite Hcoll. apply Ho, Hr.
  - rewrite Hl. apply Hc.
Qed.

Theorem sstep_views_inv s x o : wf_sop o -> views_inv s -> views_inv (sr_store (sstep s x o)).
Proof.
  intros Hwf Hinv. destruct o.
  - cbn [sstep wf_sop] in *. destruct (coll_id s coll) as [cid|] eqn:E; [|exact Hinv].
    apply kv_on_views_inv; [exact Hwf | eapply coll_id_in_ids; eauto | exact Hinv].
  - apply purge_views_inv, Hinv.
  - apply create_views_inv, Hinv.
  - apply drop_views_inv, Hinv.
  - cbn [sstep]. destruct (coll_id s coll); exact Hinv.
  - (* reopen: the clock is re-seeded, never lowered *)
    pose proof Hinv as [Ht Hs Hv Hc Hw].
    apply (views_inv_same_data s); try reflexivity; [apply (sstep_tables_ok s x SReopen Ht) | apply (sstep_ok s x SReopen I Hs) | | exact Hv | exact Hinv].
    cbn. apply hlc_update_ge_l.
  - cbn [sstep]. destruct (coll_id s coll); exact Hinv.
  - (* put design document *)
    pose proof Hinv as [Ht Hs Hv Hc Hw].
    pose proof (sstep_tables_ok s x (SPutDDoc coll ddoc views) Ht) as Ht'. pose proof (sstep_ok s x (SPutDDoc coll ddoc views) I Hs) as Hs'.
    cbn [sstep] in *. destruct (coll_id s coll) as [cid|]; [|exact Hinv]. destruct (same_ddoc _ _ _ _); [exact Hinv|].
    apply (views_inv_same_data s); try assumption; try reflexivity; try (cbn; lia).
    intros v Hin. cbn [sr_store with_views s_views] in Hin. apply in_app_iff in Hin. destruct Hin as [Hin|Hin].
    + apply filter_In in Hin. apply Hv, Hin.
    + apply in_map_iff in Hin. destruct Hin as (nv & <- & _). apply view_ok_fresh, Hinv.
  - (* delete design document *)
    pose proof Hinv as [Ht Hs Hv Hc Hw].
    pose proof (sstep_tables_ok s x (SDelDDoc coll ddoc) Ht) as Ht'. pose proof (sstep_ok s x (SDelDDoc coll ddoc) I Hs) as Hs'.
    cbn [sstep] in *. destruct (coll_id s coll) as [cid|]; [|exact Hinv]. destruct (existsb _ _); [|exact Hinv].
    apply (views_inv_same_data s); try assumption; try reflexivity; try (cbn; lia).
    intros v Hin. cbn [sr_store with_views s_views] in Hin. apply filter_In in Hin. apply Hv, Hin.
  - (* view query *)
    pose proof Hinv as [Ht Hs Hv Hc Hw].
    pose proof (sstep_tables_ok s x (SView coll ddoc view p) Ht) as Ht'. pose proof (sstep_ok s x (SView coll ddoc view p) I Hs) as Hs'.
    cbn [sstep] in *. destruct (coll_id s coll) as [cid|]; [|exact Hinv]. destruct (filter _ _); [exact Hinv|].
    apply (views_inv_same_data s); try assumption; try reflexivity; try (cbn; lia).
    intros v1 Hin. cbn [sr_store with_views s_views] in Hin. apply in_map_iff in Hin. destruct Hin as (w & <- & Hin).
    destruct (is_view cid ddoc view w); [|apply Hv, Hin]. destruct (vp_stale p); [apply Hv, Hin|].
    apply view_ok_updated; [exact Hinv | apply Hv, Hin].
  - (* expiry *)
    cbn [sstep].
    pose proof (expire_colls_views_inv x (map fst (s_colls s)) s [] (fun c H => H) Hinv) as H.
    destruct (expire_colls s x (map fst (s_colls s)) []) as [s' evs]. exact H.
  - cbn [sstep]. destruct (coll_id s coll); exact Hinv.
  - cbn [sstep]. destruct (coll_id s coll); exact Hinv.
  - (* failed attempts: the clock only moves forward *)
    pose proof Hinv as [Ht Hs Hv Hc Hw].
    apply (views_inv_same_data s); try reflexivity; [apply (sstep_tables_ok s x (SDraw coll key op b) Ht) | apply (sstep_ok s x (SDraw coll key op b) I Hs) | | exact Hv | exact Hinv].
    cbn. destruct (_ =? 0); [lia|]. pose proof (hlc_now_gt (s_high s) (x_clock x)). lia.
  - (* a sweep, as far as collection wc *)
    cbn [sstep]. destruct (coll_id s wc); [|exact Hinv].
    pose proof (expire_colls_views_inv x (ids_before (s_colls s) wc) s [] (fun c H => ids_before_in _ _ _ H) Hinv) as H.
    destruct (expire_colls s x (ids_before (s_colls s) wc) []) as [s' evs]. exact H.
  - (* ... and the rest of it *)
    cbn [sstep]. destruct (coll_id s wc) as [w|] eqn:Ew; [|exact Hinv].
    destruct (expire_keys_chk_views_inv x w keys s [] (coll_id_in_ids _ _ _ Ew) Hinv) as [A B].
    destruct (expire_keys_chk s x w keys []) as [s1 evs1]. cbn [fst] in A, B.
    pose proof (expire_colls_views_inv x (ids_after (s_colls s) wc) s1 evs1) as H.
    destruct (expire_colls s1 x (ids_after (s_colls s) wc) evs1) as [s2 evs2]. cbn [sr_store fst] in *. apply H; [|exact A].
    intros c Hc. rewrite B. exact (ids_after_in _ _ _ Hc).
Qed.

Lemma store0_views_inv : views_inv store0.
Proof.
  split; [apply store0_tables_ok | apply store0_ok | intros v [] | | intros c k r H; discriminate H].
  intros c. unfold coll_lastcas, store0; cbn. destruct (c =? 1); cbn; lia.
Qed.

Theorem reachable_views_inv : forall steps s, views_inv s -> wf_steps steps -> views_inv (sfinal_from s steps).
Proof.
  induction steps as [|[x o] r IH]; intros s Hs Hwf; cbn [sfinal_from]; [exact Hs|].
  inversion Hwf as [|? ? Ho Hr]; subst. apply IH; [apply sstep_views_inv; assumption | exact Hr].
Qed.

(* ------------------------------------------------------------------------------------------ *)
(* C12.  What a from-scratch evaluation of the map function over the current documents yields for
   document id k of collection cid: the rows emitted for its current version, or nothing if there is
   no such document (never written, purged, or its collection dropped).                          *)
Definition scratch_for (s : store) (cid m : N) (k : string) : list vrow :=
  match get_doc s (cid, k) with Some r => expected_rows m k r | None => [] end.

Lemma filter_nil_iff {A} (f : A -> bool) l : (forall a, In a l -> f a = false) -> filter f l = [].
Proof.
  induction l as [|a r IH]; cbn; intros H; [reflexivity|]. rewrite (H a (or_introl eq_refl)). apply IH. intros b Hb. apply H. right; exact Hb.
Qed.

Lemma updated_rows_exact s v k : views_inv s -> view_ok s v ->
  rows_of (update_view s v) k = scratch_for s (vd_coll v) (vd_map v) k.
Proof.
  intros Hinv Hok. destruct (update_view_indexed s v (vi_tables s Hinv) Hok) as (Hi & Ho & _ & _ & Hm & _).
  unfold scratch_for. destruct (get_doc s (vd_coll v, k)) as [r|] eqn:Hg.
  - rewrite <- Hm. apply (Hi k r Hg).
  - unfold rows_of. apply filter_nil_iff. intros row Hr. destruct (String.eqb_spec (fst (fst row)) k) as [E|]; [|reflexivity].
    exfalso. apply (Ho row Hr). rewrite E. exact Hg.
Qed.

Theorem nonstale_query_exact s x coll ddoc name p cid v rest :
  views_inv s -> coll_id s coll = Some cid -> filter (is_view cid ddoc name) (s_views s) = v :: rest -> vp_stale p = false ->
  let res := sstep s x (SView coll ddoc name p) in
  exists rows,
    sr_resp res = RRows (map render_vrow (reduce_rows p (vd_map v) (select_rows p rows)))
    /\ (forall k, filter (fun row : vrow => String.eqb (fst (fst row)) k) rows = scratch_for s cid (vd_map v) k)
    /\ (forall k, get_doc (sr_store res) k = get_doc s k).
Proof.
  intros Hinv Hc Hf Hst. cbv zeta. cbn [sstep]. rewrite Hc, Hf, Hst. cbn [sr_resp sr_store].
  assert (In v (filter (is_view cid ddoc name) (s_views s))) as Hin by (rewrite Hf; left; reflexivity).
  apply filter_In in Hin. destruct Hin as [Hin Hv]. unfold is_view in Hv.
  assert (vd_map (update_view s v) = vd_map v) as Hmap
    by (destruct (update_view_indexed s v (vi_tables s Hinv) (vi_views s Hinv v Hin)) as (_ & _ & _ & _ & Hm & _); exact Hm).
  exists (vd_rows (update_view s v)). split; [rewrite Hmap; reflexivity|]. split; [|reflexivity].
  apply andb_true_iff in Hv. destruct Hv as [Hv _]. apply andb_true_iff in Hv. destruct Hv as [Hv _]. apply N.eqb_eq in Hv.
  intros k. rewrite <- Hv. apply (updated_rows_exact s v k Hinv). apply (vi_views s Hinv v Hin).
Qed.

(* membership form: a row is in the index the query reads iff the map function emits it for the current
   version of an existing document of the collection *)
Theorem nonstale_index_membership s v row : views_inv s -> view_ok s v ->
  In row (vd_rows (update_view s v)) <->
  exists r, get_doc s (vd_coll v, fst (fst row)) = Some r /\ In row (expected_rows (vd_map v) (fst (fst row)) r).
Proof.
  intros Hinv Hok. pose proof (updated_rows_exact s v (fst (fst row)) Hinv Hok) as H. unfold rows_of, scratch_for in H.
  split.
  - intros Hin. assert (In row (filter (fun row0 : vrow => String.eqb (fst (fst row0)) (fst (fst row))) (vd_rows (update_view s v)))) as Hf
      by (apply filter_In; split; [exact Hin | apply String.eqb_refl]).
    rewrite H in Hf. destruct (get_doc s (vd_coll v, fst (fst row))) as [r|]; [exists r; split; [reflexivity | exact Hf] | destruct Hf].
  - intros (r & Hg & Hin). rewrite Hg in H. rewrite <- H in Hin. apply filter_In in Hin. apply Hin.
Qed.

(* the answer does not depend on how or when the index was maintained: two reachable states whose
   collections hold the same documents give, after the update a non-stale query performs, the same rows
   per document, whatever their views' earlier rows and lastCas were *)
Theorem index_independent_of_history s1 s2 v1 v2 k : views_inv s1 -> views_inv s2 -> view_ok s1 v1 -> view_ok s2 v2 ->
  vd_map v1 = vd_map v2 -> (forall key, get_doc s1 (vd_coll v1, key) = get_doc s2 (vd_coll v2, key)) ->
  rows_of (update_view s1 v1) k = rows_of (update_view s2 v2) k.
Proof.
  intros H1 H2 Hv1 Hv2 Hm Hd. rewrite (updated_rows_exact s1 v1 k H1 Hv1), (updated_rows_exact s2 v2 k H2 Hv2).
  unfold scratch_for. rewrite Hd, Hm. reflexivity.
Qed.

Theorem C12_reachable steps x coll ddoc name p cid v rest : wf_steps steps ->
  let s := sfinal_from store0 steps in
  coll_id s coll = Some cid -> filter (is_view cid ddoc name) (s_views s) = v :: rest -> vp_stale p = false ->
  exists rows,
    sr_resp (sstep s x (SView coll ddoc name p)) = RRows (map render_vrow (reduce_rows p (vd_map v) (select_rows p rows)))
    /\ (forall k, filter (fun row : vrow => String.eqb (fst (fst row)) k) rows = scratch_for s cid (vd_map v) k).
Proof.
  intros Hwf s Hc Hf Hst.
  destruct (nonstale_query_exact s x coll ddoc name p cid v rest (reachable_views_inv steps store0 store0_views_inv Hwf) Hc Hf Hst) as (rows & A & B & _).
  exists rows. split; assumption.
Qed.

(* non-vacuity: a concrete reachable state with a view whose index is behind (a pending document) *)
Definition ex_ctx (n : N) : sctx := mkSctx (n * 65536 * 1000) 100 20000000.
Definition ex_p : vparams := mkVparams false false None None None true None true.
Definition ex_steps : list (sctx * sop) :=
  [(ex_ctx 1, SPutDDoc default_coll "dd" [("v", 1)]);
   (ex_ctx 2, SKv default_coll "a" (KSetRaw 0 false "{""a"":1}"));
   (ex_ctx 3, SView default_coll "dd" "v" ex_p);
   (ex_ctx 4, SKv default_coll "b" (KSetRaw 0 false "{""a"":2}"));
   (ex_ctx 5, SKv default_coll "a" KDelete)].

Example C12_premises_met :
  wf_steps ex_steps
  /\ coll_id (sfinal_from store0 ex_steps) default_coll = Some 1
  /\ (exists v rest, filter (is_view 1 "dd" "v") (s_views (sfinal_from store0 ex_steps)) = v :: rest
        /\ vd_rows v = [("a", JStr "a", JNull)]                                   (* the index is behind: a deleted, b unseen *)
        /\ sr_resp (sstep (sfinal_from store0 ex_steps) (ex_ctx 6) (SView default_coll "dd" "v" ex_p)) = RRows ["b|""b""|null"]).
Proof.
  split; [repeat constructor|]. split; [vm_compute; reflexivity|].
  eexists; eexists. split; [vm_compute; reflexivity|]. split; vm_compute; reflexivity.
Qed.
