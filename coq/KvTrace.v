(* KvTrace.v - the step checkers of Trace.v accept every step of the model (soundness), lifted to whole
   histories by KvFrame.walk_sound_gen.  With these the statements "chk_Cxx_kv accepts the model's trace of
   every well-formed case" are theorems, not evaluations.                                           *)
From Rosmar Require Import Base Json Crc Hlc HlcProofs Kv Store Trace KvTac KvRowOk KvLift KvFrame KvC01 KvC05 KvC07.

Lemma obs_absent cid k xn : row_absent (obs_of cid k xn None) = true.
Proof. reflexivity. Qed.

Lemma obs_exists cid k xn r0 : row_ok r0 -> o_exists (obs_of cid k xn (Some r0)) = is_some (r_value r0).
Proof.
  intros H. unfold obs_of; cbn [o_exists]. destruct r0 as [v j c e x t rv]. unfold row_ok in H; cbn in H. subst t.
  destruct v; reflexivity.
Qed.

Lemma obsrow_eqb_refl o : obsrow_eqb o o = true.
Proof. unfold obsrow_eqb. destruct (obsrow_eq_dec o o); [reflexivity | congruence]. Qed.

(* ---- the frame of a key-value call, in full ---- *)
Lemma frame_full_step s x o colls keys xn n0 n1 : store_ok s -> tables_ok s -> wf_sop o ->
  let res := sstep s x o in
  chk_step_frame_full (with_next (snap s colls keys xn) n0) x o
    (mkOstep (sr_resp res) (fevents_of (sr_events res)) (sr_dump res) (with_next (snap (sr_store res) colls keys xn) n1)) = true.
Proof.
  intros Hs Ht Hwf. cbv zeta. destruct o; cbn [chk_step_frame_full]; try reflexivity.
  cbn [os_snap with_next sn_rows]. apply forallb_forall. intros e He.
  destruct (sspair_eqb (fst e) (coll, key)) eqn:Eq; [reflexivity|]. cbn [orb].
  destruct (look (fst e) (sn_rows (snap s colls keys xn))) as [o0|] eqn:El; [|reflexivity].
  destruct e as [[c' k'] ob]. cbn [fst snd] in *.
  apply look_snap in El. destruct El as (cid0 & Ec0 & ->).
  apply In_snap_rows in He. cbn [fst snd] in He. destruct He as (cid' & Ec' & ->).
  cbn [sstep] in *. destruct (coll_id s coll) as [cid|] eqn:Ec.
  - rewrite coll_id_kv_on in Ec'. rewrite Ec0 in Ec'. inversion Ec'; subst cid'.
    rewrite kv_on_frame; [apply obsrow_eqb_refl|].
    intros E. inversion E; subst.
    assert (c' = coll) by (eapply coll_id_inj; eauto; apply Ht). subst.
    unfold sspair_eqb in Eq. cbn in Eq. rewrite !String.eqb_refl in Eq. discriminate.
  - cbn [sr_store] in Ec'. rewrite Ec0 in Ec'. inversion Ec'; subst. apply obsrow_eqb_refl.
Qed.

Theorem frame_full_sound c : wf_case c -> walk chk_step_frame_full (snap0 c) (sc_steps c) (srun c) = true.
Proof.
  intros Hwf. unfold snap0, srun.
  apply (walk_sound_gen chk_step_frame_full frame_full_step c (sc_steps c) store0 0 store0_ok store0_tables_ok Hwf).
Qed.

Theorem C07_full_sound c : wf_case c -> chk_C07_full (c, srun c) = true.
Proof.
  intros H. unfold chk_C07_full, chk_C07_kv. cbn [fst snd].
  rewrite (chk_kv_sound chk_row_C07 KvC07.C07_row_sound c H). exact (frame_full_sound c H).
Qed.

(* ---- which rows a snapshot has ---- *)
Lemma In_snap_rows_keys s colls keys xn e : In e (sn_rows (snap s colls keys xn)) ->
  In (fst (fst e)) colls /\ In (snd (fst e)) keys.
Proof.
  cbn [snap sn_rows]. intros H. apply in_flat_map in H. destruct H as (c' & Hc' & Hin).
  apply filter_In in Hc'. destruct Hc' as [Hc' _].
  destruct (coll_id s c') as [cid|]; [|destruct Hin].
  apply in_map_iff in Hin. destruct Hin as (k' & <- & Hk). cbn. split; assumption.
Qed.

Lemma alookup_sspair_in (k : string * string) (l : list ((string * string) * obsrow)) :
  In k (map fst l) -> alookup sspair_eqb k l <> None.
Proof.
  induction l as [|[k' v] r IH]; cbn; [intros []|]. intros [E|Hin].
  - subst k'. rewrite (proj2 (sspair_eqb_spec k k) eq_refl). discriminate.
  - destruct (sspair_eqb k k'); [discriminate | apply IH, Hin].
Qed.

Lemma look_some s colls keys xn c k cid : In c colls -> coll_id s c = Some cid -> In k keys ->
  look (c, k) (sn_rows (snap s colls keys xn)) <> None.
Proof.
  intros Hc Hid Hk. unfold look. apply alookup_sspair_in. cbn [snap sn_rows].
  apply in_map_iff. exists ((c, k), obs_of cid k xn (get_doc s (cid, k))). split; [reflexivity|].
  apply in_flat_map. exists c. split; [apply filter_In; split; [exact Hc | rewrite Hid; reflexivity]|].
  rewrite Hid. apply in_map_iff. exists k. split; [reflexivity | exact Hk].
Qed.

(* ---- purge ---- *)
Lemma purge_step_sound s x o colls keys xn n0 n1 : store_ok s -> tables_ok s -> wf_sop o ->
  let res := sstep s x o in
  chk_step_purge (with_next (snap s colls keys xn) n0) x o
    (mkOstep (sr_resp res) (fevents_of (sr_events res)) (sr_dump res) (with_next (snap (sr_store res) colls keys xn) n1)) = true.
Proof.
  intros Hs Ht Hwf. cbv zeta. destruct o; cbn [chk_step_purge]; try reflexivity.
  cbn [os_snap with_next sn_rows]. apply forallb_forall. intros e He.
  pose proof (In_snap_rows_keys _ _ _ _ _ He) as [Hcin Hkin].
  destruct e as [[c' k'] ob]. cbn [fst snd] in *.
  apply In_snap_rows in He. cbn [fst snd] in He. destruct He as (cid' & Ec' & ->).
  assert (coll_id s c' = Some cid') as Ec by exact Ec'.
  destruct (look (c', k') (sn_rows (snap s colls keys xn))) as [o0|] eqn:El.
  - apply look_snap in El. destruct El as (cid0 & Ec0 & ->). rewrite Ec in Ec0. inversion Ec0; subst cid0.
    rewrite (C05_purge_exact s x (cid', k') Ht).
    destruct (get_doc s (cid', k')) as [r0|] eqn:Eg.
    + destruct (get_doc_ok s _ r0 Hs Eg) as [Hok _]. rewrite (obs_exists _ _ _ _ Hok).
      destruct (is_some (r_value r0)); [apply obsrow_eqb_refl | apply obs_absent].
    + cbn. reflexivity.
  - exfalso. exact (look_some s colls keys xn c' k' cid' Hcin Ec Hkin El).
Qed.

Theorem chk_purge_sound c : wf_case c ->
  walk chk_step_purge (snap0 c) (sc_steps c) (srun c) = true.
Proof.
  intros Hwf. unfold snap0, srun.
  apply (walk_sound_gen chk_step_purge purge_step_sound c (sc_steps c) store0 0 store0_ok store0_tables_ok Hwf).
Qed.

Theorem C01_kv_sound c : wf_case c -> chk_C01_kv (c, srun c) = true.
Proof.
  intros Hwf. unfold chk_C01_kv. rewrite (chk_kv_sound chk_row_C01 C01_row_sound c Hwf). cbn [andb].
  exact (walk_sound_gen chk_step_others_kept others_kept_step c (sc_steps c) store0 0 store0_ok store0_tables_ok Hwf).
Qed.

Theorem C01_full_sound c : wf_case c -> chk_C01_full (c, srun c) = true.
Proof. intros Hwf. unfold chk_C01_full. rewrite (C01_kv_sound c Hwf). cbn [andb fst snd]. exact (chk_purge_sound c Hwf). Qed.

Theorem C05_full_sound c : wf_case c -> chk_C05_full (c, srun c) = true.
Proof.
  intros Hwf. unfold chk_C05_full, chk_C05_kv. rewrite (chk_kv_sound chk_row_C05 C05_row_sound c Hwf). cbn [andb fst snd].
  exact (chk_purge_sound c Hwf).
Qed.

(* ------------------------------------------------------------------------------------------ *)
(* C11 *)
Lemma rows_eqb_refl a : rows_eqb a a = true.
Proof. unfold rows_eqb. destruct (list_eq_dec _ a a); [reflexivity | congruence]. Qed.
Lemma order_eqb_refl a : order_eqb a a = true.
Proof. unfold order_eqb. destruct (list_eq_dec _ a a); [reflexivity | congruence]. Qed.
Lemma strs_eqb_refl a : strs_eqb a a = true.
Proof. unfold strs_eqb. destruct (list_eq_dec string_dec a a); [reflexivity | congruence]. Qed.

Definition rows_of_coll (s : store) (keys xn : list string) (c : string) : list ((string * string) * obsrow) :=
  match coll_id s c with
  | Some cid => map (fun k => ((c, k), obs_of cid k xn (get_doc s (cid, k)))) keys
  | None => []
  end.

Lemma snap_rows_flat s colls keys xn : sn_rows (snap s colls keys xn) = flat_map (rows_of_coll s keys xn) colls.
Proof.
  change (sn_rows (snap s colls keys xn))
    with (flat_map (rows_of_coll s keys xn) (filter (fun c => is_some (coll_id s c)) colls)).
  induction colls as [|c r IH]; cbn [filter flat_map]; [reflexivity|].
  destruct (coll_id s c) as [cid|] eqn:E; cbn [is_some flat_map].
  - rewrite IH. reflexivity.
  - rewrite IH. unfold rows_of_coll at 2. rewrite E. reflexivity.
Qed.

Lemma filter_flat_map {A B} (p : B -> bool) (f : A -> list B) l : filter p (flat_map f l) = flat_map (fun a => filter p (f a)) l.
Proof. induction l as [|a r IH]; cbn; [reflexivity|]. rewrite filter_app, IH. reflexivity. Qed.

Lemma filter_rows_of_coll (P : string -> bool) s keys xn c :
  filter (fun e : (string * string) * obsrow => P (fst (fst e))) (rows_of_coll s keys xn c) = if P c then rows_of_coll s keys xn c else [].
Proof.
  unfold rows_of_coll. destruct (coll_id s c); [|destruct (P c); reflexivity].
  induction keys as [|k r IH]; cbn; [destruct (P c); reflexivity|]. rewrite IH. destruct (P c); reflexivity.
Qed.

(* two stores that agree on the collections selected by P show the same rows for them *)
Lemma snap_rows_ext (P : string -> bool) s s' colls keys xn :
  (forall c, P c = true -> coll_id s' c = coll_id s c) ->
  (forall c cid k, P c = true -> coll_id s c = Some cid -> get_doc s' (cid, k) = get_doc s (cid, k)) ->
  filter (fun e : (string * string) * obsrow => P (fst (fst e))) (sn_rows (snap s' colls keys xn))
  = filter (fun e : (string * string) * obsrow => P (fst (fst e))) (sn_rows (snap s colls keys xn)).
Proof.
  intros Hid Hdoc. rewrite !snap_rows_flat, !filter_flat_map. induction colls as [|c r IH]; cbn [flat_map]; [reflexivity|].
  rewrite IH. f_equal. rewrite !filter_rows_of_coll. destruct (P c) eqn:Ep; [|reflexivity].
  unfold rows_of_coll. rewrite (Hid c Ep). destruct (coll_id s c) as [cid|] eqn:E; [|reflexivity].
  apply map_ext. intros k. rewrite (Hdoc c cid k Ep E). reflexivity.
Qed.

Lemma snap_order_ext (P : string -> bool) s s' colls keys xn :
  (forall c, P c = true -> coll_id s' c = coll_id s c) ->
  (forall c cid, P c = true -> coll_id s c = Some cid -> backfill_rows s' cid 0 = backfill_rows s cid 0) ->
  filter (fun e : string * list string => P (fst e)) (sn_order (snap s' colls keys xn))
  = filter (fun e : string * list string => P (fst e)) (sn_order (snap s colls keys xn)).
Proof.
  intros Hid Hbf. cbn [snap sn_order]. induction colls as [|c r IH]; cbn [filter map]; [reflexivity|].
  destruct (P c) eqn:Ep.
  - rewrite (Hid c Ep). destruct (coll_id s c) as [cid|] eqn:E; cbn [is_some map filter fst]; [|exact IH].
    rewrite Ep, (Hid c Ep), E, (Hbf c cid Ep E), IH. reflexivity.
  - destruct (coll_id s' c); destruct (coll_id s c); cbn [is_some map filter fst]; rewrite ?Ep; exact IH.
Qed.

Lemma snap_same s s' colls keys xn : s_docs s' = s_docs s -> s_colls s' = s_colls s ->
  snap s' colls keys xn = snap s colls keys xn.
Proof. intros Hd Hc. unfold snap, coll_id, get_doc, backfill_rows. rewrite Hd, Hc. reflexivity. Qed.

Lemma snap_colls s colls keys xn : sn_colls (snap s colls keys xn) = coll_names s.
Proof. reflexivity. Qed.

Lemma other_coll_id s c c' cid cid' : tables_ok s -> coll_id s c = Some cid -> coll_id s c' = Some cid' -> c' <> c -> cid' <> cid.
Proof. intros Ht H1 H2 Hne E. subst cid'. apply Hne. eapply coll_id_inj; eauto. apply Ht. Qed.

Lemma c11_kv_sound s x coll key op colls keys xn n0 n1 : store_ok s -> tables_ok s ->
  let res := sstep s x (SKv coll key op) in
  chk_step_C11 (with_next (snap s colls keys xn) n0) x (SKv coll key op)
    (mkOstep (sr_resp res) (fevents_of (sr_events res)) (sr_dump res) (with_next (snap (sr_store res) colls keys xn) n1)) = true.
Proof.
  intros Hs Ht. cbv zeta. cbn [chk_step_C11 os_snap os_live]. cbn [sstep].
  destruct (coll_id s coll) as [cid|] eqn:Ec.
  2:{ cbn [sr_store sr_events fevents_of map forallb]. unfold rows_outside, order_outside. cbn [with_next sn_rows sn_order sn_colls].
      rewrite rows_eqb_refl, order_eqb_refl, strs_eqb_refl. reflexivity. }
  set (P := fun c' : string => negb (String.eqb c' coll)).
  assert (forall c', P c' = true -> c' <> coll) as HP.
  { intros c' H E. subst c'. unfold P in H. rewrite String.eqb_refl in H. discriminate. }
  repeat (apply andb_true_iff; split).
  - assert (rows_outside coll (with_next (snap (sr_store (kv_on s x cid key op)) colls keys xn) n1)
            = rows_outside coll (with_next (snap s colls keys xn) n0)) as ->; [|apply rows_eqb_refl].
    apply (snap_rows_ext P s (sr_store (kv_on s x cid key op)) colls keys xn).
    + intros c' _. apply coll_id_kv_on.
    + intros c' cid' k Hp Hc'. apply kv_on_frame. intros E. inversion E; subst.
      exact (other_coll_id s coll c' cid cid Ht Ec Hc' (HP c' Hp) eq_refl).
  - assert (order_outside coll (with_next (snap (sr_store (kv_on s x cid key op)) colls keys xn) n1)
            = order_outside coll (with_next (snap s colls keys xn) n0)) as ->; [|apply order_eqb_refl].
    apply (snap_order_ext P s (sr_store (kv_on s x cid key op)) colls keys xn).
    + intros c' _. apply coll_id_kv_on.
    + intros c' cid' Hp Hc'. apply kv_on_backfill_other. exact (other_coll_id s coll c' cid cid' Ht Ec Hc' (HP c' Hp)).
  - cbn [with_next sn_colls]. rewrite !snap_colls, kv_on_names. apply strs_eqb_refl.
  - apply forallb_forall. intros e He. unfold fevents_of in He. apply in_map_iff in He. destruct He as (ev & <- & Hev).
    pose proof (kv_on_events_local s x cid key op ev Hev) as Hloc. destruct ev as [[ci ki] ee]. cbn in Hloc. inversion Hloc; subst ci ki.
    cbn [fst snd as_feed_event f_key f_coll]. rewrite String.eqb_refl. cbn [andb with_next sn_rows].
    destruct (look (coll, key) (sn_rows (snap (sr_store (kv_on s x cid key op)) colls keys xn))) as [o'|] eqn:El; [|reflexivity].
    apply look_snap in El. destruct El as (cid' & Ec' & ->). rewrite coll_id_kv_on, Ec in Ec'. inversion Ec'; subst cid'.
    unfold obs_of; cbn [o_dump]. destruct (get_doc _ _); [cbn [as_feed_event f_coll]; apply N.eqb_refl | reflexivity].
Qed.

Lemma filter_notin (name : string) (l : list string) : ~ In name l -> filter (fun n => negb (String.eqb n name)) l = l.
Proof.
  induction l as [|a r IH]; cbn; intros H; [reflexivity|].
  destruct (String.eqb_spec a name) as [->|Hne]; [exfalso; apply H; left; reflexivity|].
  cbn. rewrite IH; [reflexivity|]. intros Hin. apply H. right; exact Hin.
Qed.

Lemma filter_all_false {A} (f : A -> bool) l : (forall a, In a l -> f a = false) -> filter f l = [].
Proof.
  induction l as [|a r IH]; cbn; intros H; [reflexivity|]. rewrite (H a (or_introl eq_refl)). apply IH. intros b Hb. apply H. right; exact Hb.
Qed.

Lemma rows_inside_none s colls keys xn n name : coll_id s name = None ->
  rows_inside name (with_next (snap s colls keys xn) n) = [].
Proof.
  intros Hc. unfold rows_inside. cbn [with_next sn_rows]. apply filter_all_false. intros e He.
  destruct (String.eqb_spec (fst (fst e)) name) as [E|]; [|reflexivity].
  apply In_snap_rows in He. destruct He as (cid & Hid & _). rewrite E, Hc in Hid. discriminate.
Qed.

Lemma names_after_drop s cid name lc : tables_ok s -> In (cid, (name, lc)) (s_colls s) ->
  map (fun c : N * (string * N) => fst (snd c)) (filter (fun c => negb (fst c =? cid)) (s_colls s))
  = filter (fun n => negb (String.eqb n name)) (coll_names s).
Proof.
  intros Ht Hin. unfold coll_names.
  assert (forall e, In e (s_colls s) -> (fst e =? cid) = String.eqb (fst (snd e)) name) as Hiff.
  { intros [i [n l]] He. cbn. destruct (N.eqb_spec i cid) as [->|Hi]; destruct (String.eqb_spec n name) as [->|Hn]; try reflexivity; exfalso.
    - apply Hn. assert ((n, l) = (name, lc)) as E by (eapply NoDup_map_fst_unique; [apply (t_ids_nodup s Ht) | exact He | exact Hin]). congruence.
    - (* same name, different ids: names are unique *)
      pose proof (t_names_nodup s Ht) as Hnn. unfold coll_names in Hnn. clear - He Hin Hnn Hi.
      induction (s_colls s) as [|[i0 [n0 l0]] t IHt]; [destruct Hin|]. cbn in Hnn. inversion Hnn as [|? ? Hn Hd]; subst.
      destruct He as [He|He], Hin as [Hin|Hin].
      + congruence.
      + inversion He; subst. apply Hn. apply in_map_iff. exists (cid, (name, lc)). auto.
      + inversion Hin; subst. apply Hn. apply in_map_iff. exists (i, (name, l)). auto.
      + auto. }
  revert Hiff. generalize (s_colls s). intros l. induction l as [|e r IH]; intros Hiff; cbn; [reflexivity|].
  assert (forall e', In e' r -> (fst e' =? cid) = String.eqb (fst (snd e')) name) as Hr by (intros e' He'; apply Hiff; right; exact He').
  rewrite (Hiff e (or_introl eq_refl)). destruct (String.eqb (fst (snd e)) name); cbn; rewrite (IH Hr); reflexivity.
Qed.

Lemma backfill_rows_drop_other s cid cid' start : cid' <> cid ->
  backfill_rows (mkStore (filter (fun d => negb (fst (fst d) =? cid)) (s_docs s))
                         (filter (fun c => negb (fst c =? cid)) (s_colls s))
                         (s_nextcoll s) (s_lastcas s) (s_high s) (s_log s)
                         (filter (fun v => negb (vd_coll v =? cid)) (s_views s))) cid' start
  = backfill_rows s cid' start.
Proof.
  intros Hne. unfold backfill_rows; cbn [s_docs]. f_equal.
  induction (s_docs s) as [|[[c k] r0] r IH]; cbn [filter fst snd negb]; [reflexivity|].
  destruct (N.eqb_spec c cid) as [E|Hd]; cbn [negb filter fst snd].
  - subst c. destruct (N.eqb_spec cid cid'); [congruence|]. cbn [andb]. exact IH.
  - destruct ((c =? cid') && (start <=? r_cas r0)); rewrite IH; reflexivity.
Qed.

Lemma c11_drop_sound s x name colls keys xn n0 n1 : store_ok s -> tables_ok s ->
  let res := sstep s x (SDropColl name) in
  chk_step_C11 (with_next (snap s colls keys xn) n0) x (SDropColl name)
    (mkOstep (sr_resp res) (fevents_of (sr_events res)) (sr_dump res) (with_next (snap (sr_store res) colls keys xn) n1)) = true.
Proof.
  intros Hs Ht. cbv zeta. cbn [chk_step_C11 os_snap os_resp].
  pose proof (C11_drop_exact s x name) as Hex. cbn [sstep] in *.
  destruct (String.eqb name default_coll) eqn:Ed.
  { cbn [sr_resp sr_store with_next sn_rows sn_colls]. rewrite rows_eqb_refl, strs_eqb_refl. reflexivity. }
  destruct (coll_id s name) as [cid|] eqn:Ec; cbn [sr_resp sr_store].
  2:{ (* no such collection: nothing happens, and the answer is ok *)
      rewrite rows_eqb_refl, order_eqb_refl. cbn [andb with_next sn_colls]. rewrite !snap_colls.
      rewrite (filter_notin name (coll_names s) (coll_id_none s name Ec)), strs_eqb_refl. cbn [andb].
      rewrite (rows_inside_none s colls keys xn n1 name Ec). reflexivity. }
  specialize (Hex cid Ht eq_refl eq_refl). cbv zeta in Hex. cbn [sr_store] in Hex. destruct Hex as (_ & Hother & Hgone & Hids).
  set (s' := mkStore _ _ _ _ _ _ _) in *.
  set (P := fun c' : string => negb (String.eqb c' name)).
  assert (forall c', P c' = true -> c' <> name) as HP.
  { intros c' H E. subst c'. unfold P in H. rewrite String.eqb_refl in H. discriminate. }
  repeat (apply andb_true_iff; split).
  - assert (rows_outside name (with_next (snap s' colls keys xn) n1) = rows_outside name (with_next (snap s colls keys xn) n0)) as <-; [|apply rows_eqb_refl].
    apply (snap_rows_ext P s s' colls keys xn).
    + intros c' Hp. apply Hids, HP, Hp.
    + intros c' cid' k Hp Hc'. apply Hother. exact (other_coll_id s name c' cid cid' Ht Ec Hc' (HP c' Hp)).
  - assert (order_outside name (with_next (snap s' colls keys xn) n1) = order_outside name (with_next (snap s colls keys xn) n0)) as <-; [|apply order_eqb_refl].
    apply (snap_order_ext P s s' colls keys xn).
    + intros c' Hp. apply Hids, HP, Hp.
    + intros c' cid' Hp Hc'. apply backfill_rows_drop_other. exact (other_coll_id s name c' cid cid' Ht Ec Hc' (HP c' Hp)).
  - cbn [with_next sn_colls]. rewrite !snap_colls. destruct (coll_id_entry s name cid Ec) as (lc & Hin).
    unfold coll_names at 1. cbn [s' s_colls]. rewrite (names_after_drop s cid name lc Ht Hin). apply strs_eqb_refl.
  - rewrite (rows_inside_none s' colls keys xn n1 name Hgone). reflexivity.
Qed.

Lemma c11_create_sound s x name colls keys xn n0 n1 : store_ok s -> tables_ok s ->
  let res := sstep s x (SCreateColl name) in
  chk_step_C11 (with_next (snap s colls keys xn) n0) x (SCreateColl name)
    (mkOstep (sr_resp res) (fevents_of (sr_events res)) (sr_dump res) (with_next (snap (sr_store res) colls keys xn) n1)) = true.
Proof.
  intros Hs Ht. cbv zeta. cbn [chk_step_C11 os_snap os_resp].
  pose proof (C11_recreate_empty s x name Ht) as Hex. cbn [sstep] in *.
  destruct (coll_id s name) as [cid|] eqn:Ec; cbn [sr_resp sr_store].
  { cbn [with_next sn_rows sn_colls]. rewrite rows_eqb_refl, strs_eqb_refl. reflexivity. }
  specialize (Hex eq_refl). cbv zeta in Hex. cbn [sr_store] in Hex. destruct Hex as (Hnew & Hempty & _ & Hdocs & Hids).
  set (s' := fst (create_coll s name)) in *.
  set (P := fun c' : string => negb (String.eqb c' name)).
  assert (forall c', P c' = true -> c' <> name) as HP.
  { intros c' H E. subst c'. unfold P in H. rewrite String.eqb_refl in H. discriminate. }
  repeat (apply andb_true_iff; split).
  - assert (rows_outside name (with_next (snap s' colls keys xn) n1) = rows_outside name (with_next (snap s colls keys xn) n0)) as <-; [|apply rows_eqb_refl].
    apply (snap_rows_ext P s s' colls keys xn).
    + intros c' Hp. apply Hids, HP, Hp.
    + intros c' cid' k _ _. apply Hdocs.
  - cbn [with_next sn_colls]. rewrite !snap_colls. unfold s', create_coll, coll_names; cbn [fst s_colls]. rewrite map_app. cbn. apply strs_eqb_refl.
  - apply forallb_forall. intros e He. unfold rows_inside in He. cbn [with_next sn_rows] in He. apply filter_In in He. destruct He as [He Hn].
    apply String.eqb_eq in Hn. apply In_snap_rows in He. destruct He as (cid' & Hid & ->). rewrite Hn, Hnew in Hid. inversion Hid; subst cid'.
    rewrite Hempty. apply obs_absent.
Qed.

Lemma expire_keys_names x cid keys : forall s acc, coll_names (fst (expire_keys s x cid keys acc)) = coll_names s.
Proof. induction keys as [|k r IH]; intros s acc; cbn [expire_keys]; [reflexivity|]. rewrite IH. apply kv_on_names. Qed.

Lemma expire_colls_names x cids : forall s acc, coll_names (fst (expire_colls s x cids acc)) = coll_names s.
Proof.
  induction cids as [|cid r IH]; intros s acc; cbn [expire_colls]; [reflexivity|].
  pose proof (expire_keys_names x cid (due_keys s cid (x_now x)) s acc) as H.
  destruct (expire_keys s x cid (due_keys s cid (x_now x)) acc) as [s' acc']. cbn [fst] in H. rewrite IH. exact H.
Qed.

Lemma expire_keys_chk_names x cid keys : forall s acc, coll_names (fst (expire_keys_chk s x cid keys acc)) = coll_names s.
Proof.
  induction keys as [|k r IH]; intros s acc; cbn [expire_keys_chk]; [reflexivity|].
  destruct (is_due (get_doc s (cid, k)) (x_now x)); rewrite IH; [apply kv_on_names | reflexivity].
Qed.

Lemma c11_step_sound s x o colls keys xn n0 n1 : store_ok s -> tables_ok s -> wf_sop o ->
  let res := sstep s x o in
  chk_step_C11 (with_next (snap s colls keys xn) n0) x o
    (mkOstep (sr_resp res) (fevents_of (sr_events res)) (sr_dump res) (with_next (snap (sr_store res) colls keys xn) n1)) = true.
Proof.
  intros Hs Ht Hwf. destruct o.
  - apply c11_kv_sound; assumption.
  - cbv zeta. cbn [chk_step_C11 os_snap with_next sn_colls]. apply strs_eqb_refl.
  - apply c11_create_sound; assumption.
  - apply c11_drop_sound; assumption.
  - cbv zeta. cbn [chk_step_C11 os_snap sstep]. destruct (coll_id s coll); cbn [sr_store with_next sn_rows sn_colls]; rewrite rows_eqb_refl, strs_eqb_refl; reflexivity.
  - cbv zeta. cbn [chk_step_C11 os_snap with_next sn_colls]. apply strs_eqb_refl.
  - cbv zeta. cbn [chk_step_C11 os_snap sstep]. destruct (coll_id s coll); cbn [sr_store with_next sn_rows sn_colls]; rewrite rows_eqb_refl, strs_eqb_refl; reflexivity.
  - cbv zeta. cbn [chk_step_C11 os_snap sstep]. destruct (coll_id s coll); [destruct (same_ddoc _ _ _ _)|]; cbn [sr_store with_next sn_rows sn_colls];
      rewrite ?(snap_same (with_views s _) s colls keys xn eq_refl eq_refl), rows_eqb_refl, strs_eqb_refl; reflexivity.
  - cbv zeta. cbn [chk_step_C11 os_snap sstep]. destruct (coll_id s coll); [destruct (existsb _ _)|]; cbn [sr_store with_next sn_rows sn_colls];
      rewrite ?(snap_same (with_views s _) s colls keys xn eq_refl eq_refl), rows_eqb_refl, strs_eqb_refl; reflexivity.
  - cbv zeta. cbn [chk_step_C11 os_snap sstep]. destruct (coll_id s coll); [destruct (filter _ _)|]; cbn [sr_store with_next sn_rows sn_colls];
      rewrite ?(snap_same (with_views s _) s colls keys xn eq_refl eq_refl), rows_eqb_refl, strs_eqb_refl; reflexivity.
  - (* expiry *)
    cbv zeta. cbn [chk_step_C11 os_snap sstep].
    pose proof (expire_colls_names x (map fst (s_colls s)) s []) as H.
    destruct (expire_colls s x (map fst (s_colls s)) []) as [s' evs]. cbn [fst] in H. cbn [sr_store with_next sn_colls].
    rewrite !snap_colls, H. apply strs_eqb_refl.
  - cbv zeta. cbn [chk_step_C11 os_snap sstep]. destruct (coll_id s coll); cbn [sr_store with_next sn_rows sn_colls]; rewrite rows_eqb_refl, strs_eqb_refl; reflexivity.
  - cbv zeta. cbn [chk_step_C11 os_snap sstep]. destruct (coll_id s coll); cbn [sr_store with_next sn_rows sn_colls]; rewrite rows_eqb_refl, strs_eqb_refl; reflexivity.
  - cbv zeta. cbn [chk_step_C11 os_snap sstep]. cbn [sr_store with_next sn_rows sn_colls].
    set (s' := mkStore _ _ _ _ _ _ _).
    rewrite (snap_same s' s colls keys xn eq_refl eq_refl), rows_eqb_refl, strs_eqb_refl. reflexivity.
  - (* a sweep, as far as collection wc *)
    cbv zeta. cbn [chk_step_C11 os_snap sstep]. destruct (coll_id s wc); [|cbn [sr_store with_next sn_colls]; apply strs_eqb_refl].
    pose proof (expire_colls_names x (ids_before (s_colls s) wc) s []) as H.
    destruct (expire_colls s x (ids_before (s_colls s) wc) []) as [s' evs]. cbn [fst] in H. cbn [sr_store with_next sn_colls].
    rewrite !snap_colls, H. apply strs_eqb_refl.
  - (* the rest of it *)
    cbv zeta. cbn [chk_step_C11 os_snap sstep]. destruct (coll_id s wc) as [cid|]; [|cbn [sr_store with_next sn_colls]; apply strs_eqb_refl].
    pose proof (expire_keys_chk_names x cid keys0 s []) as H1.
    destruct (expire_keys_chk s x cid keys0 []) as [s1 evs1]. cbn [fst] in H1.
    pose proof (expire_colls_names x (ids_after (s_colls s) wc) s1 evs1) as H2.
    destruct (expire_colls s1 x (ids_after (s_colls s) wc) evs1) as [s2 evs2]. cbn [fst] in H2. cbn [sr_store with_next sn_colls].
    rewrite !snap_colls, H2, H1. apply strs_eqb_refl.
Qed.

Theorem C11_kv_sound c : wf_case c -> chk_C11_kv (c, srun c) = true.
Proof.
  intros Hwf. unfold chk_C11_kv, snap0, srun. cbn [fst snd].
  apply (walk_sound_gen chk_step_C11 c11_step_sound c (sc_steps c) store0 0 store0_ok store0_tables_ok Hwf).
Qed.
