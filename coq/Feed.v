(* Feed.v - writers, event posting and feeds as interleaved atomic actions (feeds.go, collection.go
   withNewCas / postNewEvent / postEvent, queue.go).  The pieces the Go code executes under no common
   lock are separate actions, so every interleaving the code allows is a list of actions:
     a writer   : Commit (transaction: new CAS, row)  ;  Snapshot (postEvent reads the feed list)  ;  Push
     a feed     : Backfill (SELECT ... ORDER BY cas into its queue)  ;  Register  ;  Deliver*  ;  Stop
   Each writer w writes its own key once, so an event is identified by its key.                     *)
From Rosmar Require Import Base.

Definition ev := (string * N)%type.          (* key, cas *)

Record feedst := mkFeedst {
  fq : list ev;            (* queue, oldest first *)
  fclosed : bool;
  flast : N;               (* feed.lastCas *)
  fchanged : bool;         (* feed.lastCasChanged *)
  frun : list ev;          (* delivered in this run *)
  fname : nat              (* FeedArguments.ID: names the checkpoint document; a restarted feed is a new run
                              (a new dcpFeed object) of the same name *)
}.

Record fstate := mkFstate {
  rows : list (string * N);                       (* key -> current CAS *)
  clock : N;
  pending : list (nat * (ev * option (list nat))); (* writer -> committed event, feed-list snapshot once taken *)
  feeds : list (nat * feedst);
  registered : list nat;                          (* bucket.collectionFeeds[collection], in order *)
  ckpt : list (nat * N);                          (* persisted checkpoint documents: feed -> last_seq *)
  delivered : list (nat * list ev)                (* per feed: everything its callback ever received, all runs *)
}.

Definition fstate0 : fstate := mkFstate [] 0 [] [] [] [] [].

Inductive start_mode := FromCas (n : N) | Resume.

Inductive action :=
| ACommit (w : nat) (key : string)
| ASnapshot (w : nat)
| APush (w : nat)
| ABackfill (f : nat) (name : nat) (m : start_mode)   (* run f of the feed called name *)
| ARegister (f : nat)
| ADeliver (f : nat)
| AStop (f : nat).

Definition nlookup {V} (k : nat) (l : list (nat * V)) : option V := alookup Nat.eqb k l.
Definition nset {V} (k : nat) (v : V) (l : list (nat * V)) : list (nat * V) := aset Nat.eqb k v l.

Fixpoint insert_cas (e : ev) (l : list ev) : list ev :=
  match l with [] => [e] | e' :: r => if snd e <? snd e' then e :: l else e' :: insert_cas e r end.
Definition sort_cas (l : list ev) : list ev := fold_left (fun acc e => insert_cas e acc) l [].

Definition push_to (e : ev) (fs : list (nat * feedst)) (targets : list nat) : list (nat * feedst) :=
  fold_left (fun fs f => match nlookup f fs with
                         | Some st => if fclosed st then fs else nset f (mkFeedst (fq st ++ [e]) false (flast st) (fchanged st) (frun st) (fname st)) fs
                         | None => fs
                         end) targets fs.

Definition add_delivered (f : nat) (e : ev) (d : list (nat * list ev)) : list (nat * list ev) :=
  nset f (match nlookup f d with Some l => l ++ [e] | None => [e] end) d.

Definition cp_key (f : nat) : string := String (ascii_of_nat (48 + f)) "cp".   (* the checkpoint document of feed f *)

Definition deliver_one (s : fstate) (f : nat) : fstate :=
  match nlookup f (feeds s) with
  | Some st =>
      match fq st, fclosed st with
      | e :: q, false =>
          let ch := flast st <? snd e in
          mkFstate (rows s) (clock s) (pending s)
                   (nset f (mkFeedst q false (if ch then snd e else flast st) (fchanged st || ch) (frun st ++ [e]) (fname st)) (feeds s))
                   (registered s) (ckpt s) (add_delivered (fname st) e (delivered s))
      | _, _ => s
      end
  | None => s
  end.

Definition fstep (s : fstate) (a : action) : fstate :=
  match a with
  | ACommit w key =>
      let c := clock s + 1 in
      mkFstate (aset String.eqb key c (rows s)) c (nset w ((key, c), None) (pending s)) (feeds s) (registered s) (ckpt s) (delivered s)
  | ASnapshot w =>
      match nlookup w (pending s) with
      | Some (e, None) => mkFstate (rows s) (clock s) (nset w (e, Some (registered s)) (pending s)) (feeds s) (registered s) (ckpt s) (delivered s)
      | _ => s
      end
  | APush w =>
      match nlookup w (pending s) with
      | Some (e, Some targets) =>
          mkFstate (rows s) (clock s) (aremove Nat.eqb w (pending s)) (push_to e (feeds s) targets) (registered s) (ckpt s) (delivered s)
      | _ => s
      end
  | ABackfill f name m =>
      let last := match m with Resume => match nlookup name (ckpt s) with Some c => c | None => 0 end | FromCas _ => 0 end in
      let start := match m with Resume => last + 1 | FromCas n => n end in
      let q := sort_cas (filter (fun e : ev => start <=? snd e) (rows s)) in
      mkFstate (rows s) (clock s) (pending s) (nset f (mkFeedst q false last false [] name) (feeds s)) (registered s) (ckpt s) (delivered s)
  | ARegister f => mkFstate (rows s) (clock s) (pending s) (feeds s) (registered s ++ [f]) (ckpt s) (delivered s)
  | ADeliver f => deliver_one s f
  | AStop f =>
      (* terminator closed.  The run loop had already pulled the next event (if any) and delivers it; the
         rest of the queue is discarded; the loop exits and writes the checkpoint document (a regular
         Set: it takes a CAS and is posted to the feeds still registered) *)
      let s := deliver_one s f in
      match nlookup f (feeds s) with
      | Some st =>
          if fclosed st then s else
          let fs := nset f (mkFeedst [] true (flast st) (fchanged st) (frun st) (fname st)) (feeds s) in
          if fchanged st then
            let c := clock s + 1 in
            let e := (cp_key (fname st), c) in
            mkFstate (aset String.eqb (cp_key (fname st)) c (rows s)) c (pending s) (push_to e fs (registered s)) (registered s)
                     (nset (fname st) (flast st) (ckpt s)) (delivered s)
          else mkFstate (rows s) (clock s) (pending s) fs (registered s) (ckpt s) (delivered s)
      | None => s
      end
  end.

Definition frun_all (acts : list action) : fstate := fold_left fstep acts fstate0.

(* ---- observations and the properties ---- *)
Definition keys_of (l : list ev) : list string := map fst l.

Fixpoint dedup (seen : list ev) (l : list ev) : list ev :=
  match l with
  | [] => []
  | e :: r => if existsb (fun x => String.eqb (fst x) (fst e) && (snd x =? snd e)) seen then dedup seen r else e :: dedup (e :: seen) r
  end.

Fixpoint increasing (l : list ev) : bool :=
  match l with a :: ((b :: _) as r) => (snd a <? snd b) && increasing r | _ => true end.

(* C08: each run of each feed receives its events in increasing CAS order (a re-delivery of an event the
   run already received does not count) *)
Definition order_ok_feed (st : feedst) : bool := increasing (dedup [] (frun st)).

(* C09 / C15: the final version of every document (checkpoint documents aside) has been delivered to
   the feed of this name in some run *)
Definition is_cp (k : string) : bool := match k with String _ "cp" => true | _ => false end.
Definition complete_for (s : fstate) (f : nat) : bool :=
  let d := match nlookup f (delivered s) with Some l => l | None => [] end in
  forallb (fun r : string * N => is_cp (fst r) || existsb (fun e : ev => String.eqb (fst e) (fst r) && (snd e =? snd r)) d) (rows s).

(* C15: a persisted checkpoint never exceeds the highest CAS the feed delivered *)
Definition ckpt_ok (s : fstate) (f : nat) : bool :=
  match nlookup f (ckpt s) with
  | Some c => let d := match nlookup f (delivered s) with Some l => l | None => [] end in
              (c =? 0) || existsb (fun e : ev => c <=? snd e) d
  | None => true
  end.

(* the two windows in which the code is known to misbehave (KNOWN_FINDINGS.json) *)
(* (1) a later-committed write is pushed before an earlier-committed one *)
Fixpoint index_of_act (p : action -> bool) (l : list action) (i : nat) : option nat :=
  match l with [] => None | a :: r => if p a then Some i else index_of_act p r (S i) end.
Definition is_commit w a := match a with ACommit w' _ => Nat.eqb w w' | _ => false end.
Definition is_snapshot w a := match a with ASnapshot w' => Nat.eqb w w' | _ => false end.
Definition is_push w a := match a with APush w' => Nat.eqb w w' | _ => false end.
Definition is_backfill f a := match a with ABackfill f' _ _ => Nat.eqb f f' | _ => false end.
Definition is_register f a := match a with ARegister f' => Nat.eqb f f' | _ => false end.
Definition writers (l : list action) : list nat := flat_map (fun a => match a with ACommit w _ => [w] | _ => [] end) l.
Definition feed_ids (l : list action) : list nat := nodup Nat.eq_dec (flat_map (fun a => match a with ABackfill f _ _ => [f] | _ => [] end) l).

Definition lt_opt (a b : option nat) : bool := match a, b with Some x, Some y => Nat.ltb x y | _, _ => false end.

(* ... the later write may also be a feed's checkpoint document, written (commit and push at once) when the
   feed stops *)
Fixpoint stop_between (l : list action) (i lo hi : nat) : bool :=
  match l with
  | [] => false
  | a :: r => (match a with AStop _ => Nat.ltb lo i && Nat.ltb i hi | _ => false end) || stop_between r (S i) lo hi
  end.

Definition has_inversion (l : list action) : bool :=
  existsb (fun w1 => existsb (fun w2 =>
    lt_opt (index_of_act (is_commit w1) l 0) (index_of_act (is_commit w2) l 0)
    && lt_opt (index_of_act (is_push w2) l 0) (index_of_act (is_push w1) l 0)) (writers l)
    || match index_of_act (is_commit w1) l 0, index_of_act (is_push w1) l 0 with
       | Some lo, Some hi => stop_between l 0 lo hi
       | _, _ => false
       end) (writers l).

(* (2) a write commits after a feed's backfill query and reads the feed list before the feed registers *)
Definition has_gap_window (l : list action) : bool :=
  existsb (fun w => existsb (fun f =>
    lt_opt (index_of_act (is_backfill f) l 0) (index_of_act (is_commit w) l 0)
    && lt_opt (index_of_act (is_snapshot w) l 0) (index_of_act (is_register f) l 0)) (feed_ids l)) (writers l).

(* the observed deliveries of a name, cut into runs of the lengths the model's runs have, are each in
   increasing CAS order (re-deliveries aside) *)
Definition run_lengths (s : fstate) (name : nat) : list nat :=
  map (fun fs => List.length (frun (snd fs))) (filter (fun fs => Nat.eqb (fname (snd fs)) name) (feeds s)).
Fixpoint cut_runs (l : list ev) (lens : list nat) : list (list ev) :=
  match lens with [] => [l] | n :: r => firstn n l :: cut_runs (skipn n l) r end.
Definition increasing_per_name (d : list (nat * list ev)) (s : fstate) : bool :=
  forallb (fun nd => forallb (fun run => increasing (dedup [] run)) (cut_runs (snd nd) (run_lengths s (fst nd)))) d.

(* ---- what the harness compares, and the checkers ---- *)
Definition sched_obs := (list (N * list ev) * list (N * N))%type.   (* feed name -> deliveries ; feed name -> checkpoint *)
Definition nkeys {V} (l : list (nat * V)) : list (N * V) := map (fun p => (N.of_nat (fst p), snd p)) l.
Definition natkeys {V} (l : list (N * V)) : list (nat * V) := map (fun p => (N.to_nat (fst p), snd p)) l.

Definition ev_eq_dec : forall a b : ev, {a = b} + {a <> b}.
Proof. decide equality; [apply N.eq_dec | apply string_dec]. Defined.

Fixpoint sort_nat_assoc {V} (l : list (nat * V)) : list (nat * V) :=
  match l with
  | [] => []
  | x :: r => (fix ins (x : nat * V) (l : list (nat * V)) : list (nat * V) :=
                 match l with [] => [x] | y :: t => if Nat.ltb (fst x) (fst y) then x :: l else y :: ins x t end) x (sort_nat_assoc r)
  end.

Definition sched_model (acts : list action) : sched_obs :=
  let s := frun_all acts in (nkeys (sort_nat_assoc (delivered s)), nkeys (sort_nat_assoc (ckpt s))).

Definition sched_obs_eqb (a b : sched_obs) : bool :=
  (if list_eq_dec (fun x y : N * list ev => match N.eq_dec (fst x) (fst y), list_eq_dec ev_eq_dec (snd x) (snd y) with
                                              | left p, left q => left (match x, y return fst x = fst y -> snd x = snd y -> x = y with (a1,b1),(a2,b2) => fun p q => f_equal2 pair p q end p q)
                                              | right n, _ => right (fun e => n (f_equal fst e))
                                              | _, right n => right (fun e => n (f_equal snd e))
                                              end) (fst a) (fst b) then true else false)
  && (if list_eq_dec (fun x y : N * N => match N.eq_dec (fst x) (fst y), N.eq_dec (snd x) (snd y) with
                                           | left p, left q => left (match x, y return fst x = fst y -> snd x = snd y -> x = y with (a1,b1),(a2,b2) => fun p q => f_equal2 pair p q end p q)
                                           | right n, _ => right (fun e => n (f_equal fst e))
                                           | _, right n => right (fun e => n (f_equal snd e))
                                           end) (snd a) (snd b) then true else false).

Definition sched_corr_ok (t : list action * sched_obs) : bool := sched_obs_eqb (sched_model (fst t)) (snd t).

(* the properties, judged on what the implementation's feeds received.  The rows (final versions) and
   the runs are the model's: they are determined by the action list alone. *)
Definition names_of (acts : list action) : list nat := nodup Nat.eq_dec (flat_map (fun a => match a with ABackfill _ n _ => [n] | _ => [] end) acts).

(* completeness is owed once everything has settled: no write is still on its way to the feeds, and
   the feed's latest run is registered, open and has drained its queue *)
Definition settled (s : fstate) (name : nat) : bool :=
  match pending s with [] => true | _ => false end
  && match rev (filter (fun fs => Nat.eqb (fname (snd fs)) name) (feeds s)) with
     | (f, st) :: _ => negb (fclosed st) && existsb (Nat.eqb f) (registered s) && match fq st with [] => true | _ => false end
     | [] => false
     end.

Definition obs_complete (s : fstate) (d : list (nat * list ev)) (name : nat) : bool :=
  let l := match nlookup name d with Some l => l | None => [] end in
  negb (settled s name) ||
  forallb (fun r : string * N => is_cp (fst r) || existsb (fun e : ev => String.eqb (fst e) (fst r) && (snd e =? snd r)) l) (rows s).

Definition obs_ckpt_ok (d : list (nat * list ev)) (c : nat * N) : bool :=
  let l := match nlookup (fst c) d with Some l => l | None => [] end in
  (snd c =? 0) || existsb (fun e : ev => snd c <=? snd e) l.

Definition run_count (s : fstate) (name : nat) : nat := List.length (filter (fun fs => Nat.eqb (fname (snd fs)) name) (feeds s)).

(* C08 (ordering part): every run of every feed receives its events in increasing CAS order *)
Definition sched_strict_C08 (t : list action * sched_obs) : bool :=
  let s := frun_all (fst t) in
  forallb (fun fs => order_ok_feed (snd fs)) (feeds s) && increasing_per_name (natkeys (fst (snd t))) s.
Definition sched_excused_C08 (t : list action * sched_obs) : bool := sched_strict_C08 t || has_inversion (fst t).

(* C09 (no-gap part): a feed that was started once and never stopped has received every document *)
Definition sched_strict_C09 (t : list action * sched_obs) : bool :=
  let s := frun_all (fst t) in
  forallb (fun name => negb (Nat.eqb (run_count s name) 1) || obs_complete s (natkeys (fst (snd t))) name) (names_of (fst t)).
Definition sched_excused_C09 (t : list action * sched_obs) : bool := sched_strict_C09 t || has_gap_window (fst t).

(* C15: a feed stopped and resumed from its checkpoint has, over all its runs, received every document;
   its persisted checkpoint never exceeds what it delivered *)
Definition sched_strict_C15 (t : list action * sched_obs) : bool :=
  let s := frun_all (fst t) in
  forallb (fun name => Nat.leb (run_count s name) 1 || obs_complete s (natkeys (fst (snd t))) name) (names_of (fst t))
  && forallb (obs_ckpt_ok (natkeys (fst (snd t)))) (natkeys (snd (snd t))).
Definition sched_excused_C15 (t : list action * sched_obs) : bool :=
  sched_strict_C15 t || has_inversion (fst t) || has_gap_window (fst t).

Definition sched_chk_strict (t : list action * sched_obs) : bool := sched_strict_C08 t && sched_strict_C09 t && sched_strict_C15 t.
Definition sched_chk_excused (t : list action * sched_obs) : bool := sched_excused_C08 t && sched_excused_C09 t && sched_excused_C15 t.

(* ---- family ckpt: runs of one checkpointed feed recorded without hooks ---- *)
(* input: the final CAS of every document; observation: per run, what the callback received and the
   checkpoint document read after the run *)
Definition ckpt_runs := list (list ev * N).

Fixpoint chk_ckpt_prefix (seen : list ev) (runs : ckpt_runs) : bool :=
  match runs with
  | [] => true
  | (got, cp) :: r =>
      let seen' := seen ++ got in
      ((cp =? 0) || existsb (fun e : ev => cp <=? snd e) seen') && chk_ckpt_prefix seen' r
  end.

Definition chk_ckpt_runs (t : list (string * N) * ckpt_runs) : bool :=
  let all := flat_map fst (snd t) in
  chk_ckpt_prefix [] (snd t)
  && forallb (fun f : string * N => existsb (fun e : ev => String.eqb (fst e) (fst f) && (snd e =? snd f)) all) (fst t)
  && forallb (fun run : list ev * N => increasing (dedup [] (fst run))) (snd t).
