(* KvProofs.v — row-level theorems about Kv.kstep, for every entry point, every argument, every
   pre-state and every clock/CAS context. *)
From Rosmar Require Import Base Json Crc Kv.

(* ------------------------------------------------------------------------------------------ *)
(* C05: the tombstone column says exactly "no body"                                            *)

Definition row_ok (r : row) : Prop := r_tomb r = is_none (r_value r).
Definition orow_ok (r : option row) : Prop := match r with Some r0 => row_ok r0 | None => True end.

Ltac brk :=
  repeat match goal with
  | |- context [match ?x with _ => _ end] => destruct x eqn:?; cbn [kr_row kr_resp kr_events kr_draws kr_commit kfail] in *
  end.

Lemma wwx_ok ctx val xs ifcas exp o ms r : orow_ok r -> orow_ok (kr_row (wwx ctx val xs ifcas exp o ms r)).
Proof.
  intros H. unfold wwx. brk; cbn; auto.
  all: unfold row_ok, new_row; cbn; reflexivity.
Qed.
