(* Sweep.v - the expiry sweep, whole or interrupted (C14, never early).

   bucket.doExpiration goes through the collections in the order of their creation; in each it reads the keys whose
   expiry has passed and then removes them one by one, each in a transaction of its own.  Other calls can run
   between the query and the removals.  Store.v splits such a firing in two steps: SExpireScan wc (the sweep has
   come as far as the query of collection wc) and SExpireK wc keys parked (it goes on).  Since fix 2068c64 of /repo
   every removal looks at the expiry again (Store.expire_keys_chk); before it, every key the query had returned was
   deleted (Store.expire_keys).

   Proved here, for every store with consistent tables, every clock and time, every collection wc, EVERY list of
   keys (whatever the query returned) and every list of calls in between (they are ordinary steps of the history):
     sweep_correct   what a step of a sweep removes is exactly the documents it is about (`takes`) whose expiry has
                     passed at the moment of the step - each becomes a tombstone without expiry, with a deletion
                     event - and every other document is exactly as it was;
     never_early     in particular a document whose expiry is 0 or later than the time of the step survives it;
     unchecked_sweep_refuted
                     the sweep of the pinned tree does not have that property: a document rewritten without expiry
                     after the query is deleted (the defect, with the history that shows it). *)
From Rosmar Require Import Base Json Crc Hlc HlcProofs Kv Store Trace KvTac KvRowOk KvLift KvFrame KvC14 ExpProofs KvTrace.

(* ---- small facts ---- *)
Lemma get_doc_burn s x k : get_doc (burn s x) k = get_doc s k.
Proof. reflexivity. Qed.
Lemma coll_id_burn s x name : coll_id (burn s x) name = coll_id s name.
Proof. reflexivity. Qed.

Lemma kv_on_delete_absent s x cid key k' : get_doc s k' = None -> get_doc (sr_store (kv_on s x cid key KDelete)) k' = None.
Proof.
  intros Hn. destruct (dkey_eqb k' (cid, key)) eqn:E.
  - apply dkey_eqb_spec in E. subst k'. rewrite get_doc_kv_on, Hn. reflexivity.
  - rewrite kv_on_frame; [exact Hn|]. intros ->. rewrite (proj2 (dkey_eqb_spec _ _) eq_refl) in E. discriminate.
Qed.

Lemma expire_keys_absent x cid keys k' : forall s acc, get_doc s k' = None -> get_doc (fst (expire_keys s x cid keys acc)) k' = None.
Proof. induction keys as [|k r IH]; intros s acc Hn; cbn [expire_keys]; [exact Hn|]. apply IH. apply kv_on_delete_absent. exact Hn. Qed.

Lemma expire_colls_absent x cids k' : forall s acc, get_doc s k' = None -> get_doc (fst (expire_colls s x cids acc)) k' = None.
Proof.
  induction cids as [|cid r IH]; intros s acc Hn; cbn [expire_colls]; [exact Hn|].
  pose proof (expire_keys_absent x cid (due_keys s cid (x_now x)) k' s acc Hn) as H.
  destruct (expire_keys s x cid (due_keys s cid (x_now x)) acc) as [s' acc']. apply IH. exact H.
Qed.

Lemma expire_keys_coll_id x cid keys name : forall s acc, coll_id (fst (expire_keys s x cid keys acc)) name = coll_id s name.
Proof. induction keys as [|k r IH]; intros s acc; cbn [expire_keys]; [reflexivity|]. rewrite IH. apply coll_id_kv_on. Qed.

Lemma expire_colls_coll_id x cids name : forall s acc, coll_id (fst (expire_colls s x cids acc)) name = coll_id s name.
Proof.
  induction cids as [|cid r IH]; intros s acc; cbn [expire_colls]; [reflexivity|].
  pose proof (expire_keys_coll_id x cid (due_keys s cid (x_now x)) name s acc) as H.
  destruct (expire_keys s x cid (due_keys s cid (x_now x)) acc) as [s' acc']. cbn [fst] in H. rewrite IH. exact H.
Qed.

Lemma expire_colls_other x cids k' : forall s acc, ~ In (fst k') cids -> get_doc (fst (expire_colls s x cids acc)) k' = get_doc s k'.
Proof.
  induction cids as [|cid r IH]; intros s acc Hn; cbn [expire_colls]; [reflexivity|].
  pose proof (expire_keys_spec x cid (due_keys s cid (x_now x)) s acc) as K. cbv zeta in K. destruct K as (K1 & _).
  destruct (expire_keys s x cid (due_keys s cid (x_now x)) acc) as [s1 acc1]. cbn [fst] in K1.
  rewrite IH; [|intros H; apply Hn; right; exact H]. apply K1. left. intros E. apply Hn. left. symmetry. exact E.
Qed.

(* ---- the removals of an interrupted sweep: every one looks again ---- *)
Lemma is_due_spec r now : is_due (Some r) now = true <-> due now r.
Proof.
  unfold is_due, due. rewrite andb_true_iff, N.ltb_lt, N.leb_le. tauto.
Qed.

Lemma expire_keys_chk_spec x cid keys : forall s acc,
  let res := expire_keys_chk s x cid keys acc in
  (forall k' r, get_doc s k' = Some r -> ~ due (x_now x) r -> get_doc (fst res) k' = Some r)
  /\ (forall k', get_doc s k' = None -> get_doc (fst res) k' = None)
  /\ (forall k', (fst k' <> cid \/ ~ In (snd k') keys) -> get_doc (fst res) k' = get_doc s k')
  /\ (forall k r, In k keys -> get_doc s (cid, k) = Some r -> due (x_now x) r ->
        is_expired (fst res) (cid, k) /\ exists e, In (cid, k, e) (snd res) /\ e_isDel e = true)
  /\ (forall k', is_expired s k' -> is_expired (fst res) k')
  /\ (forall e, In e acc -> In e (snd res))
  /\ (forall name, coll_id (fst res) name = coll_id s name).
Proof.
  induction keys as [|k0 rest IH]; intros s acc; cbn [expire_keys_chk].
  - cbn. repeat split; auto; intros; contradiction.
  - destruct (is_due (get_doc s (cid, k0)) (x_now x)) eqn:Ed.
    + (* still due: removed *)
      destruct (get_doc s (cid, k0)) as [r0|] eqn:Eg0; [|discriminate]. apply is_due_spec in Ed.
      assert (get_doc s (cid, k0) <> None) as Hn0 by congruence.
      specialize (IH (sr_store (kv_on s x cid k0 KDelete)) (acc ++ sr_events (kv_on s x cid k0 KDelete))). cbv zeta in IH.
      destruct IH as (I1 & I2 & I3 & I4 & I5 & I6 & I7). cbv zeta. split; [|split; [|split; [|split; [|split; [|split]]]]].
      * intros k' r Hg Hnd. apply I1; [|exact Hnd]. rewrite kv_on_frame; [exact Hg|]. intros ->. rewrite Eg0 in Hg. inversion Hg; subst. contradiction.
      * intros k' Hg. apply I2. apply kv_on_delete_absent. exact Hg.
      * intros k' Hk'. rewrite I3.
        -- apply kv_on_frame. intros ->. cbn in Hk'. destruct Hk' as [H|H]; [contradiction | apply H; left; reflexivity].
        -- destruct Hk' as [H|H]; [left; exact H | right; intros Hin; apply H; right; exact Hin].
      * intros k r Hin Hg Hd. destruct (string_dec k k0) as [->|Hne].
        -- split; [apply I5; apply delete_makes_expired; exact Hn0|].
           destruct (delete_event s x cid k0 Hn0) as (e & He & Hde). exists e. split; [|exact Hde]. apply I6. apply in_app_iff. right; exact He.
        -- destruct Hin as [E|Hin]; [congruence|]. apply (I4 k r Hin); [|exact Hd].
           rewrite kv_on_frame; [exact Hg | intros E; inversion E; contradiction].
      * intros k' He. apply I5. apply delete_keeps_expired. exact He.
      * intros e He. apply I6. apply in_app_iff. left; exact He.
      * intros name. rewrite I7. apply coll_id_kv_on.
    + (* gone, or no longer due: the transaction rolls back, only its timestamp is spent *)
      specialize (IH (burn s x) acc). cbv zeta in IH. destruct IH as (I1 & I2 & I3 & I4 & I5 & I6 & I7). cbv zeta. split; [|split; [|split; [|split; [|split; [|split]]]]].
      * exact I1.
      * exact I2.
      * intros k' Hk'. rewrite I3; [reflexivity|]. destruct Hk' as [H|H]; [left; exact H | right; intros Hin; apply H; right; exact Hin].
      * intros k r Hin Hg Hd. destruct (string_dec k k0) as [->|Hne].
        -- exfalso. rewrite Hg in Ed. apply is_due_spec in Hd. congruence.
        -- destruct Hin as [E|Hin]; [congruence|]. exact (I4 k r Hin Hg Hd).
      * exact I5.
      * exact I6.
      * exact I7.
Qed.

(* ---- the order of the collections ---- *)
Lemma existsb_N_In a l : existsb (N.eqb a) l = true <-> In a l.
Proof.
  rewrite existsb_exists. split; [intros (y & Hy & E); apply N.eqb_eq in E; subst; exact Hy | intros H; exists a; split; [exact H | apply N.eqb_refl]].
Qed.
Lemma existsb_str_In a l : existsb (String.eqb a) l = true <-> In a l.
Proof.
  rewrite existsb_exists. split; [intros (y & Hy & E); apply String.eqb_eq in E; subst; exact Hy | intros H; exists a; split; [exact H | apply String.eqb_refl]].
Qed.

Definition cnames (cs : list (N * (string * N))) : list string := map (fun c => fst (snd c)) cs.

Lemma before_in_notin_a l a b : ~ In a l -> before_in l a b = false.
Proof.
  induction l as [|c r IH]; intros Hn; cbn [before_in]; [reflexivity|].
  destruct (String.eqb c b); [reflexivity|]. destruct (String.eqb_spec c a) as [->|Hne]; [exfalso; apply Hn; left; reflexivity|].
  apply IH. intros H. apply Hn. right; exact H.
Qed.
Lemma before_in_notin_b l a b : ~ In b l -> before_in l a b = false.
Proof.
  induction l as [|c r IH]; intros Hn; cbn [before_in]; [reflexivity|].
  destruct (String.eqb_spec c b) as [->|Hne]; [reflexivity|]. destruct (String.eqb c a).
  - destruct (existsb (String.eqb b) r) eqn:E; [|reflexivity]. apply existsb_str_In in E. exfalso. apply Hn. right; exact E.
  - apply IH. intros H. apply Hn. right; exact H.
Qed.

(* c strictly before wc in the list of names  <->  its id is among the ids before wc, and wc is there *)
Lemma before_in_ids_before cs c cid lc wc : NoDup (map fst cs) -> NoDup (cnames cs) -> In (cid, (c, lc)) cs ->
  before_in (cnames cs) c wc = (existsb (String.eqb wc) (cnames cs) && existsb (N.eqb cid) (ids_before cs wc)).
Proof.
  induction cs as [|[id [nm l]] r IH]; intros Hi Hn Hin; [destruct Hin|].
  cbn [cnames map fst snd before_in ids_before existsb] in *. inversion Hi as [|? ? Hi1 Hi2]; subst. inversion Hn as [|? ? Hn1 Hn2]; subst.
  rewrite (String.eqb_sym wc nm).
  destruct (String.eqb_spec nm wc) as [->|Hw]; cbn [orb andb existsb]; [reflexivity|].
  destruct (String.eqb_spec nm c) as [->|Hc].
  - (* the entry is the head *)
    assert (cid = id) as ->.
    { destruct Hin as [E|Hin]; [inversion E; reflexivity|]. exfalso. apply Hn1. apply in_map_iff. exists (cid, (c, lc)). split; [reflexivity | exact Hin]. }
    rewrite N.eqb_refl. cbn [orb]. rewrite andb_true_r. reflexivity.
  - destruct Hin as [E|Hin]; [inversion E; subst; contradiction|].
    assert (cid <> id) as Hne by (intros ->; apply Hi1; apply in_map_iff; exists (id, (c, lc)); split; [reflexivity | exact Hin]).
    rewrite (proj2 (N.eqb_neq cid id) Hne). cbn [orb]. apply IH; assumption.
Qed.

(* wc strictly before c  <->  the id of c is among the ids after wc *)
Lemma before_in_ids_after cs c cid lc wc : NoDup (map fst cs) -> NoDup (cnames cs) -> In (cid, (c, lc)) cs ->
  before_in (cnames cs) wc c = existsb (N.eqb cid) (ids_after cs wc).
Proof.
  induction cs as [|[id [nm l]] r IH]; intros Hi Hn Hin; [destruct Hin|].
  cbn [cnames map fst snd before_in ids_after] in *. inversion Hi as [|? ? Hi1 Hi2]; subst. inversion Hn as [|? ? Hn1 Hn2]; subst.
  destruct (String.eqb_spec nm c) as [->|Hc].
  - (* the entry is the head: nothing after it has its id *)
    assert (cid = id) as ->.
    { destruct Hin as [E|Hin]; [inversion E; reflexivity|]. exfalso. apply Hn1. apply in_map_iff. exists (cid, (c, lc)). split; [reflexivity | exact Hin]. }
    symmetry. apply not_true_is_false. intros H. apply existsb_N_In in H. apply Hi1.
    destruct (String.eqb c wc); [exact H|]. clear -H. induction r as [|d r IH]; cbn [ids_after] in H; [destruct H|].
    cbn [map]. destruct (String.eqb (fst (snd d)) wc); right; [exact H | apply IH; exact H].
  - destruct Hin as [E|Hin]; [inversion E; subst; contradiction|].
    destruct (String.eqb_spec nm wc) as [->|Hw].
    + (* wc is the head: everything after it is after it *)
      assert (In cid (map fst r)) as Hid by (apply in_map_iff; exists (cid, (c, lc)); split; [reflexivity | exact Hin]).
      rewrite (proj2 (existsb_N_In cid (map fst r)) Hid). apply existsb_str_In. apply in_map_iff. exists (cid, (c, lc)). split; [reflexivity | exact Hin].
    + apply IH; assumption.
Qed.

(* ---- which documents a step of a sweep is about, in terms of the store ---- *)
Definition takes (s : store) (o : sop) (k : dkey) : bool :=
  match o with
  | SExpire => true
  | SExpireScan wc => is_some (coll_id s wc) && existsb (N.eqb (fst k)) (ids_before (s_colls s) wc)
  | SExpireK wc keys _ =>
      match coll_id s wc with
      | Some w => ((fst k =? w) && existsb (String.eqb (snd k)) keys) || existsb (N.eqb (fst k)) (ids_after (s_colls s) wc)
      | None => false
      end
  | _ => false
  end.

Lemma coll_id_some_in s name cid : coll_id s name = Some cid -> In name (coll_names s).
Proof. intros H. destruct (coll_id_entry s name cid H) as (lc & Hin). apply in_map_iff. exists (cid, (name, lc)). split; [reflexivity | exact Hin]. Qed.

Lemma coll_id_fun s c cid lc : NoDup (coll_names s) -> In (cid, (c, lc)) (s_colls s) -> coll_id s c = Some cid.
Proof.
  unfold coll_id, coll_names. induction (s_colls s) as [|[id [nm l]] r IH]; intros Hn Hin; [destruct Hin|].
  cbn [map fst snd filter] in *. inversion Hn as [|? ? Hn1 Hn2]; subst. destruct (String.eqb_spec nm c) as [->|Hc].
  - destruct Hin as [E|Hin]; [inversion E; reflexivity|]. exfalso. apply Hn1. apply in_map_iff. exists (cid, (c, lc)). split; [reflexivity | exact Hin].
  - destruct Hin as [E|Hin]; [inversion E; subst; contradiction|]. apply IH; assumption.
Qed.

Lemma sweep_takes_takes s o c cid k : tables_ok s -> coll_id s c = Some cid ->
  sweep_takes (coll_names s) o c k = takes s o (cid, k).
Proof.
  intros Ht Hc. destruct (coll_id_entry s c cid Hc) as (lc & Hin).
  destruct o; cbn [sweep_takes takes fst snd]; try reflexivity.
  - (* as far as wc *)
    change (coll_names s) with (cnames (s_colls s)).
    rewrite (before_in_ids_before (s_colls s) c cid lc wc (t_ids_nodup s Ht) (t_names_nodup s Ht) Hin). f_equal.
    destruct (coll_id s wc) as [w|] eqn:Ew; cbn [is_some].
    + apply existsb_str_In. exact (coll_id_some_in s wc w Ew).
    + apply not_true_is_false. intros H. apply existsb_str_In in H. exact (coll_id_none s wc Ew H).
  - (* from wc on *)
    change (coll_names s) with (cnames (s_colls s)).
    destruct (coll_id s wc) as [w|] eqn:Ew.
    + rewrite (before_in_ids_after (s_colls s) c cid lc wc (t_ids_nodup s Ht) (t_names_nodup s Ht) Hin). f_equal. f_equal.
      destruct (String.eqb_spec c wc) as [->|Hne].
      * rewrite Hc in Ew. inversion Ew; subst. symmetry. apply N.eqb_refl.
      * symmetry. apply N.eqb_neq. intros ->. apply Hne. exact (coll_id_inj s c wc w (t_ids_nodup s Ht) Hc Ew).
    + assert (String.eqb c wc = false) as -> by (apply String.eqb_neq; intros ->; congruence).
      cbn [andb orb]. apply before_in_notin_a. exact (coll_id_none s wc Ew).
Qed.

Lemma ids_after_not_self cs wc w lc : NoDup (map fst cs) -> NoDup (cnames cs) -> In (w, (wc, lc)) cs -> ~ In w (ids_after cs wc).
Proof.
  intros Hi Hn Hin H. apply existsb_N_In in H. rewrite <- (before_in_ids_after cs wc w lc wc Hi Hn Hin) in H.
  clear -H. induction (cnames cs) as [|c r IH]; cbn [before_in] in H; [discriminate|]. destruct (String.eqb c wc); [discriminate | exact (IH H)].
Qed.

(* ---- what a step of a sweep does ---- *)
Theorem sweep_correct s x o : tables_ok s -> is_sweep o = true ->
  let res := sstep s x o in
  (forall k r, get_doc s k = Some r -> due (x_now x) r -> takes s o k = true ->
     is_expired (sr_store res) k /\ exists e, In (fst k, snd k, e) (sr_events res) /\ e_isDel e = true)
  /\ (forall k r, get_doc s k = Some r -> (~ due (x_now x) r \/ takes s o k = false) -> get_doc (sr_store res) k = Some r)
  /\ (forall k, get_doc s k = None -> get_doc (sr_store res) k = None)
  /\ (forall name, coll_id (sr_store res) name = coll_id s name).
Proof.
  intros Ht Ho. destruct o; try discriminate; cbv zeta; cbn [sstep takes].
  - (* the whole firing *)
    destruct (fire_correct s x Ht) as [Hdue Hkeep]. cbv zeta in *. cbn [sstep] in *.
    pose proof (fun name => expire_colls_coll_id x (map fst (s_colls s)) name s []) as H1.
    pose proof (fun k => expire_colls_absent x (map fst (s_colls s)) k s []) as H2.
    destruct (expire_colls s x (map fst (s_colls s)) []) as [s' evs]. cbn [fst sr_store sr_events] in *.
    split; [|split; [|split]].
    + intros k r Hg Hd _. exact (Hdue k r Hg Hd).
    + intros k r Hg [Hnd|Hf]; [exact (Hkeep k r Hg Hnd) | discriminate].
    + exact H2.
    + exact H1.
  - (* as far as wc *)
    destruct (coll_id s wc) as [w|] eqn:Ew; cbn [is_some andb].
    2:{ cbn [sr_store sr_events]. split; [|split; [|split]]; auto; intros; discriminate. }
    pose proof (expire_colls_spec x (ids_before (s_colls s) wc) s [] Ht) as H. cbv zeta in H.
    pose proof (fun name => expire_colls_coll_id x (ids_before (s_colls s) wc) name s []) as H1.
    pose proof (fun k => expire_colls_absent x (ids_before (s_colls s) wc) k s []) as H2.
    pose proof (fun k => expire_colls_other x (ids_before (s_colls s) wc) k s []) as H3.
    destruct (expire_colls s x (ids_before (s_colls s) wc) []) as [s' evs]. cbn [fst snd sr_store sr_events] in *.
    destruct H as (J1 & J2 & _ & _). split; [|split; [|split]].
    + intros k r Hg Hd Hk. apply existsb_N_In in Hk. exact (J2 k r Hk Hg Hd).
    + intros k r Hg [Hnd|Hf]; [exact (J1 k r Hg Hnd)|]. rewrite H3; [exact Hg|]. intros Hin. apply existsb_N_In in Hin. congruence.
    + exact H2.
    + exact H1.
  - (* from wc on *)
    destruct (coll_id s wc) as [w|] eqn:Ew.
    2:{ cbn [sr_store sr_events]. split; [|split; [|split]]; auto; intros; discriminate. }
    destruct (coll_id_entry s wc w Ew) as (lcw & Hinw).
    pose proof (ids_after_not_self (s_colls s) wc w lcw (t_ids_nodup s Ht) (t_names_nodup s Ht) Hinw) as Hself.
    pose proof (expire_keys_chk_spec x w keys s []) as K. cbv zeta in K.
    destruct (expire_keys_chk_tables x w keys s [] (coll_id_in_ids _ _ _ Ew) Ht) as [Ht1 _].
    destruct (expire_keys_chk s x w keys []) as [s1 evs1]. cbn [fst snd] in K, Ht1.
    destruct K as (K1 & K2 & K3 & K4 & K5 & K6 & K7).
    pose proof (expire_colls_spec x (ids_after (s_colls s) wc) s1 evs1 Ht1) as H. cbv zeta in H.
    pose proof (fun name => expire_colls_coll_id x (ids_after (s_colls s) wc) name s1 evs1) as H1.
    pose proof (fun k => expire_colls_absent x (ids_after (s_colls s) wc) k s1 evs1) as H2.
    pose proof (fun k => expire_colls_other x (ids_after (s_colls s) wc) k s1 evs1) as H3.
    destruct (expire_colls s1 x (ids_after (s_colls s) wc) evs1) as [s2 evs2]. cbn [fst snd sr_store sr_events] in *.
    destruct H as (J1 & J2 & J3 & J4).
    assert (forall k r, get_doc s k = Some r -> due (x_now x) r ->
              ((fst k =? w) && existsb (String.eqb (snd k)) keys) || existsb (N.eqb (fst k)) (ids_after (s_colls s) wc) = true ->
              is_expired s2 k /\ exists e, In (fst k, snd k, e) evs2 /\ e_isDel e = true) as Hdue.
    { intros [c k] r Hg Hd Hk. cbn [fst snd] in *. apply orb_true_iff in Hk. destruct Hk as [Hk|Hk].
      - apply andb_true_iff in Hk. destruct Hk as [Hc Hin]. apply N.eqb_eq in Hc. subst c. apply existsb_str_In in Hin.
        destruct (K4 k r Hin Hg Hd) as [He (e & Hev & Hde)]. split; [apply J3; exact He | exists e; split; [apply J4; exact Hev | exact Hde]].
      - apply existsb_N_In in Hk. assert (c <> w) as Hne by (intros ->; exact (Hself Hk)).
        apply (J2 (c, k) r Hk); [|exact Hd]. rewrite K3; [exact Hg | left; exact Hne]. }
    split; [|split; [|split]].
    + exact Hdue.
    + intros [c k] r Hg [Hnd|Hf]; cbn [fst snd] in *.
      * apply J1; [apply K1; assumption | exact Hnd].
      * apply orb_false_iff in Hf. destruct Hf as [Hf1 Hf2].
        rewrite H3; [|cbn [fst]; intros Hin; apply existsb_N_In in Hin; congruence].
        rewrite K3; [exact Hg|]. cbn [fst snd]. apply andb_false_iff in Hf1. destruct Hf1 as [Hf1|Hf1].
        -- left. apply N.eqb_neq. exact Hf1.
        -- right. intros Hin. apply existsb_str_In in Hin. congruence.
    + intros k Hg. apply H2, K2. exact Hg.
    + intros name. rewrite H1. apply K7.
Qed.

(* never early: a document whose expiry is 0, or later than the time of the step, survives every step of every
   sweep - whatever keys the sweep's query had returned and whatever was done to the document since *)
Corollary never_early s x o k r : tables_ok s -> is_sweep o = true -> get_doc s k = Some r ->
  (r_exp r = 0 \/ x_now x < r_exp r) -> get_doc (sr_store (sstep s x o)) k = Some r.
Proof.
  intros Ht Ho Hg He. apply (proj1 (proj2 (sweep_correct s x o Ht Ho)) k r Hg). left. unfold due. lia.
Qed.

(* ... which the sweep of the pinned tree did not guarantee: it deleted every key its query had returned.
   The history: a document with a deadline that has passed; the sweep's query; the document is rewritten with no
   expiry; the sweep goes on. *)
Definition sstep_unchecked (s : store) (x : sctx) (wc : string) (keys : list string) : store :=
  match coll_id s wc with
  | Some cid => fst (expire_keys_unchecked s x cid keys [])
  | None => s
  end.

Definition window_history : list (sctx * sop) :=
  [ (mkSctx 1 100 60, SKv default_coll "k" (KSetRaw 3000000000 false "v1"));
    (mkSctx 2 3000000001 60, SExpireScan default_coll);
    (mkSctx 3 3000000001 60, SKv default_coll "k" (KSetRaw 0 false "v2")) ].

Theorem unchecked_sweep_refuted :
  let s := sfinal_from store0 window_history in
  exists r, get_doc s (1, "k") = Some r /\ r_exp r = 0 /\ r_value r = Some "v2"
            /\ get_doc (sstep_unchecked s (mkSctx 4 3000000001 60) default_coll ["k"]) (1, "k") <> Some r
            /\ get_doc (sr_store (sstep s (mkSctx 4 3000000001 60) (SExpireK default_coll ["k"] []))) (1, "k") = Some r.
Proof.
  cbv zeta. eexists. split; [vm_compute; reflexivity|]. split; [reflexivity|]. split; [reflexivity|]. split; [vm_compute; discriminate | vm_compute; reflexivity].
Qed.

(* the query of that history did return the key (the premises are met by a real history) *)
Example window_scan_returns_the_key :
  sr_resp (sstep (sfinal_from store0 [ (mkSctx 1 100 60, SKv default_coll "k" (KSetRaw 3000000000 false "v1")) ])
                 (mkSctx 2 3000000001 60) (SExpireScan default_coll)) = RRows ["k"].
Proof. vm_compute. reflexivity. Qed.
