(* KvRowOk.v - the tombstone column says "no body" after every call (C05 invariant) *)
From Rosmar Require Import Base Json Crc Kv Store Trace KvTac.

Theorem kstep_ok ctx op r : wf_op op -> orow_ok r -> orow_ok (kr_row (kstep ctx op r)).
Proof.
  intros Hwf H. destruct op; cbn [kstep with_resp kr_row].
  all: try (apply wwx_ok; exact H); try (apply wtx_ok; exact H); try (apply wrx_ok; exact H); try (apply wxx_ok; exact H).
  all: try (apply writecas_ok; [cbn; intros ->; destruct v; [discriminate | contradiction] | exact H]).
  all: unf; cbn [with_resp kr_row].
  all: try (apply wwx_ok; exact H).
  all: try (brk; row_done; try (apply wtx_ok; exact H); try (apply wrx_ok; exact H); try (apply wxx_ok; exact H);
            try (apply writecas_ok; [cbn; congruence | exact H]); fail).
  all: destruct r as [[v0 j0 c0 e0 x0 t0 rv0]|]; cbn in H; [unfold row_ok in H; cbn in H; subst t0|].
  all: cbn [r_value r_tomb r_cas r_rev r_xattrs r_isJSON r_exp]; brk; row_done.
  all: try (apply writecas_ok; [cbn; congruence | cbn; unfold row_ok; reflexivity]).
Qed.


(* no stored document ever carries CAS 0 *)
Theorem kstep_cas_ok ctx op r : wf_op op -> k_cas ctx <> 0 -> ocas_ok r -> ocas_ok (kr_row (kstep ctx op r)).
Proof.
  intros Hwf Hk H.
  destruct r as [[v0 j0 c0 e0 x0 t0 rv0]|]; cbn in H.
  all: destruct op; cbn [kstep wf_op] in *; unf; unf; unfold wwx, with_resp, new_row;
    cbn [r_value r_tomb r_cas r_rev r_xattrs r_isJSON r_exp kr_row kfail fst snd];
    brk; cbn [ocas_ok kr_row r_cas fst snd]; auto.
  all: match goal with |- ?G => idtac "GOAL" G end.
Qed.
