(* Registry.v - bucket handles, the process-wide registry (bucket_registry.go), OpenBucket's modes
   (bucket.go), Close / CloseAndDelete (bucket_api.go).  A "store instance" is one sql.DB: shared by
   every handle copied from the same registered bucket.  On-disk data lives at the URL and survives
   instances; in-memory data lives in the instance.                                              *)
From Rosmar Require Import Base.

Inductive omode := CreateOrOpen | CreateNew | ReOpenExisting.

Definition kvdata := list (string * string).

Record inst := mkInst { i_url : string; i_mem : bool; i_dbopen : bool; i_data : kvdata }.

Record handle := mkHandle { h_name : string; h_inst : N; h_closed : bool }.

Record rstate := mkR {
  r_buckets : list (string * N);      (* cluster.buckets: name -> instance *)
  r_count : list (string * N);        (* cluster.bucketCount (an unsigned count; absent = 0) *)
  r_insts : list (N * inst);
  r_handles : list (N * handle);      (* handle ids are given out in order of successful opens *)
  r_disk : list (string * kvdata)     (* url -> contents of the directory, if it exists *)
}.

Definition rstate0 : rstate := mkR [] [] [] [] [].

Inductive rop :=
| ROpen (mem : bool) (url name : string) (mode : omode)
| RClose (h : N)
| RCloseAndDelete (h : N)
| RWrite (h : N) (k v : string)
| RCloseOpen (h : N) (mem : bool) (url name : string) (mode : omode).
   (* an OpenBucket that runs while Close(h) is between its unregisterBucket and the marking of the handle:
      unregistering is one atomic step under the registry lock, so the pair reads as Close, then Open;
      the response is the open's *)

Inductive rerr := REExist | RENotExist | REOtherUrl | REClosed | REDbClosed | RENoHandle.
Inductive rresp := RROk | RROpened (h : N) | RRErr (e : rerr).

Definition mem_url : string := "file:/?mode=memory".
(* An in-memory bucket's URL is the canonical one, or - "rosmar:///some/path?mode=memory" - carries a path
   (url is then that path, "" otherwise); either way nothing is created in the file system. *)
Definition the_url (mem : bool) (url : string) : string := if mem then (mem_url ++ url)%string else url.

Definition count_of (s : rstate) (name : string) : N :=
  match alookup String.eqb name (r_count s) with Some c => c | None => 0 end.
Definition get_inst (s : rstate) (i : N) : option inst := alookup N.eqb i (r_insts s).
Definition get_handle (s : rstate) (h : N) : option handle := alookup N.eqb h (r_handles s).

Definition next_id {V} (l : list (N * V)) : N := N.of_nat (List.length l).

Definition add_handle (s : rstate) (name : string) (i : N) : rstate * N :=
  let h := next_id (r_handles s) in
  (mkR (r_buckets s) (r_count s) (r_insts s) (r_handles s ++ [(h, mkHandle name i false)]) (r_disk s), h).

Definition set_count (s : rstate) (name : string) (c : option N) : rstate :=
  mkR (r_buckets s) (aput String.eqb name c (r_count s)) (r_insts s) (r_handles s) (r_disk s).

Definition set_inst (s : rstate) (i : N) (x : inst) : rstate :=
  mkR (r_buckets s) (r_count s) (aset N.eqb i x (r_insts s)) (r_handles s) (r_disk s).

Definition close_db (s : rstate) (i : N) : rstate :=
  match get_inst s i with
  | Some x => set_inst s i (mkInst (i_url x) (i_mem x) false (if i_mem x then [] else i_data x))
  | None => s
  end.

Definition do_open (s : rstate) (mem : bool) (url name : string) (mode : omode) : rstate * rresp :=
  let u := the_url mem url in
  match alookup String.eqb name (r_buckets s) with
  | Some i =>
      (* getCachedBucket *)
      match mode with
      | CreateNew => (s, RRErr REExist)
      | _ =>
          match get_inst s i with
          | Some x =>
              if negb (String.eqb (i_url x) u) then (s, RRErr REOtherUrl)
              else let s1 := set_count s name (Some (count_of s name + 1)) in
                   let '(s2, h) := add_handle s1 name i in (s2, RROpened h)
          | None => (s, RRErr RENoHandle)
          end
      end
  | None =>
      let fresh (disk' : list (string * kvdata)) :=
        let i := next_id (r_insts s) in
        let s1 := mkR ((name, i) :: r_buckets s) (r_count s) (r_insts s ++ [(i, mkInst u mem true [])]) (r_handles s) disk' in
        let s2 := set_count s1 name (Some (count_of s1 name + 1)) in
        let '(s3, h) := add_handle s2 name i in (s3, RROpened h) in
      if mem then
        match mode with ReOpenExisting => (s, RRErr RENotExist) | _ => fresh (r_disk s) end
      else
        match alookup String.eqb u (r_disk s), mode with
        | Some _, CreateNew => (s, RRErr REExist)
        | Some _, _ => fresh (r_disk s)
        | None, ReOpenExisting => (s, RRErr RENotExist)
        | None, _ => fresh (aset String.eqb u [] (r_disk s))
        end
  end.

(* unregisterBucket *)
Definition unregister (s : rstate) (hd : handle) : rstate :=
  let name := h_name hd in
  let c := count_of s name in
  if c =? 0 then s
  else if c =? 1 then
    let s1 := set_count s name None in
    match get_inst s1 (h_inst hd) with
    | Some x =>
        if i_mem x then s1
        else let s2 := close_db s1 (h_inst hd) in
             mkR (aremove String.eqb name (r_buckets s2)) (r_count s2) (r_insts s2) (r_handles s2) (r_disk s2)
    | None => s1
    end
  else set_count s name (Some (c - 1)).

Definition set_handle_closed (s : rstate) (h : N) (hd : handle) : rstate :=
  mkR (r_buckets s) (r_count s) (r_insts s) (aset N.eqb h (mkHandle (h_name hd) (h_inst hd) true) (r_handles s)) (r_disk s).

Definition do_close (s : rstate) (h : N) : rstate * rresp :=
  match get_handle s h with
  | None => (s, RRErr RENoHandle)
  | Some hd =>
      if h_closed hd then (s, RROk)
      else (set_handle_closed (unregister s hd) h hd, RROk)
  end.

Definition do_close_and_delete (s : rstate) (h : N) : rstate * rresp :=
  match get_handle s h with
  | None => (s, RRErr RENoHandle)
  | Some hd =>
      let s1 := close_db s (h_inst hd) in
      let url := match get_inst s (h_inst hd) with Some x => if i_mem x then None else Some (i_url x) | None => None end in
      (mkR (aremove String.eqb (h_name hd) (r_buckets s1)) (aremove String.eqb (h_name hd) (r_count s1)) (r_insts s1) (r_handles s1)
           (match url with Some u => aremove String.eqb u (r_disk s1) | None => r_disk s1 end), RROk)
  end.

(* what a call through handle h meets *)
Inductive hstatus := HClosed | HDbClosed | HLive (mem : bool) (url : string) | HNone.

Definition status (s : rstate) (h : N) : hstatus :=
  match get_handle s h with
  | None => HNone
  | Some hd =>
      if h_closed hd then HClosed
      else match get_inst s (h_inst hd) with
           | Some x => if i_dbopen x then HLive (i_mem x) (i_url x) else HDbClosed
           | None => HNone
           end
  end.

Definition data_of (s : rstate) (h : N) : option kvdata :=
  match get_handle s h with
  | Some hd =>
      match get_inst s (h_inst hd) with
      | Some x => if i_mem x then Some (i_data x) else alookup String.eqb (i_url x) (r_disk s)
      | None => None
      end
  | None => None
  end.

Definition do_write (s : rstate) (h : N) (k v : string) : rstate * rresp :=
  match status s h with
  | HNone => (s, RRErr RENoHandle)
  | HClosed => (s, RRErr REClosed)
  | HDbClosed => (s, RRErr REDbClosed)
  | HLive mem url =>
      match get_handle s h with
      | Some hd =>
          if mem then
            match get_inst s (h_inst hd) with
            | Some x => (set_inst s (h_inst hd) (mkInst (i_url x) (i_mem x) (i_dbopen x) (aset String.eqb k v (i_data x))), RROk)
            | None => (s, RRErr RENoHandle)
            end
          else
            match alookup String.eqb url (r_disk s) with
            | Some d => (mkR (r_buckets s) (r_count s) (r_insts s) (r_handles s) (aset String.eqb url (aset String.eqb k v d) (r_disk s)), RROk)
            | None => (s, RRErr REDbClosed)
            end
      | None => (s, RRErr RENoHandle)
      end
  end.

Definition rstep (s : rstate) (o : rop) : rstate * rresp :=
  match o with
  | ROpen mem url name mode => do_open s mem url name mode
  | RClose h => do_close s h
  | RCloseAndDelete h => do_close_and_delete s h
  | RWrite h k v => do_write s h k v
  | RCloseOpen h mem url name mode => do_open (fst (do_close s h)) mem url name mode
  end.

(* ------------------------------------------------------------------------------------------ *)
(* observation after a step: every handle's view of the probe keys, the registry's names, which
   directories exist                                                                            *)

Inductive hview := VClosed | VDbClosed | VData (vals : list (option string)).

Definition view_handle (s : rstate) (keys : list string) (h : N) : hview :=
  match status s h with
  | HClosed => VClosed
  | HDbClosed | HNone => VDbClosed
  | HLive _ _ =>
      match data_of s h with
      | Some d => VData (map (fun k => alookup String.eqb k d) keys)
      | None => VDbClosed
      end
  end.

Fixpoint insert_str (x : string) (l : list string) : list string :=
  match l with
  | [] => [x]
  | y :: r => match String.compare x y with Gt => y :: insert_str x r | _ => x :: l end
  end.
Definition sort_strs (l : list string) : list string := fold_right insert_str [] l.

Record robs := mkRobs {
  ro_resp : rresp;
  ro_views : list hview;            (* handles 0 .. (number opened so far - 1) *)
  ro_names : list string;           (* GetBucketNames, sorted *)
  ro_dirs : list bool               (* for each URL of the universe: does the directory exist *)
}.

Record rcase := mkRcase { rc_keys : list string; rc_urls : list string; rc_ops : list rop }.

Definition observe (s : rstate) (c : rcase) (r : rresp) : robs :=
  mkRobs r (map (fun hh => view_handle s (rc_keys c) (fst hh)) (r_handles s))
         (sort_strs (map fst (r_buckets s)))
         (map (fun u => is_some (alookup String.eqb u (r_disk s))) (rc_urls c)).

Fixpoint rrun_from (s : rstate) (c : rcase) (ops : list rop) : list robs :=
  match ops with
  | [] => []
  | o :: r => let '(s', resp) := rstep s o in observe s' c resp :: rrun_from s' c r
  end.
Definition rrun (c : rcase) : list robs := rrun_from rstate0 c (rc_ops c).

Fixpoint rfinal (s : rstate) (ops : list rop) : rstate :=
  match ops with [] => s | o :: r => rfinal (fst (rstep s o)) r end.
