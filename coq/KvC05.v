(* KvC05.v - the row-level checker chk_row_C05 accepts every step of the model *)
From Rosmar Require Import Base Json Crc Kv Store Trace KvTac.

Theorem C05_row_sound : rc_sound chk_row_C05.
Proof.
  start_rc. all: unfold chk_row_C05; fin.
  all: try apply system_only_xlist.
  all: try match goal with H : apply_xattrs_any_order (?xs ++ dels_of ?d) _ ?ms ?c ?b = inl ?o |- _ => exact (fresh_xattrs_subset xs d ms c b o H) end.
  all: try match goal with H : apply_xattrs_any_order ?xs _ ?ms ?c ?b = inl ?o |- _ => exact (fresh_xattrs_subset0 xs ms c b o H) end.
  all: try match goal with H : apply_xattrs_any_order (?p :: ?l ++ []) None ?ms ?c ?b = inl ?o |- _ =>
         rewrite app_nil_r in H; exact (fresh_xattrs_subset0 (p :: l) ms c b o H) end.
  all: try (exfalso; match goal with H1 : is_some ?v = false, H2 : is_none ?v = false |- _ => destruct v; discriminate end).
  all: try (exfalso; match goal with H1 : is_some ?v = true, H2 : is_none ?v = true |- _ => destruct v; discriminate end).
Qed.

