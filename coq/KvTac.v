(* KvTac.v — row-level theorems about Kv.kstep, for every entry point, every argument, every
   pre-state and every clock/CAS context. *)
From Rosmar Require Import Base Json Crc Kv Store Trace.

(* ------------------------------------------------------------------------------------------ *)
(* C05: the tombstone column says exactly "no body"                                            *)

Definition row_ok (r : row) : Prop := r_tomb r = is_none (r_value r).
Definition orow_ok (r : option row) : Prop := match r with Some r0 => row_ok r0 | None => True end.

(* CAS 0 means "no document" in every conditional entry point; no stored document carries it
   (the HLC never hands out 0, and a WithMeta write that asks for CAS 0 is outside wf_op) *)
Definition ocas_ok (r : option row) : Prop := match r with Some r0 => r_cas r0 <> 0 | None => True end.

Ltac brk :=
  repeat match goal with
  | |- context [match ?x with _ => _ end] => destruct x eqn:?; cbn [kr_row kr_resp kr_events kr_draws kr_commit kfail] in *
  end.

Ltac unf := unfold do_getraw, do_exists, do_getexpiry, do_getwithxattrs, do_getxattrs, do_getsubdoc,
  do_add, do_set, set_core, do_incr, do_writecas, writecas_why_not, do_remove, do_touch, do_update, do_withmeta,
  do_deletewithxattrs, do_deletesubdocpaths, do_setxattrs, do_removexattrs, do_writewithxattrs,
  do_writetombstonewithxattrs, do_writeresurrectionwithxattrs, do_updatexattrs, do_updatexattrdeletebody,
  do_writeupdatewithxattrs, do_subdocwrite in *.

Ltac row_done :=
  cbn [orow_ok kr_row kfail with_resp fst snd]; auto;
  try (unfold row_ok, new_row; cbn [r_tomb r_value is_none is_some negb]; reflexivity);
  try (subst; cbn in *; congruence).

Lemma wwx_ok ctx val xs ifcas exp o ms r : orow_ok r -> orow_ok (kr_row (wwx ctx val xs ifcas exp o ms r)).
Proof. intros H. unfold wwx. brk; row_done. Qed.

(* well-formed calls: a WithMeta write names a non-zero CAS *)
Definition wf_op (op : kop) : Prop :=
  match op with
  | KSetWithMeta _ nc _ _ _ _ => nc <> 0
  | KDeleteWithMeta _ nc _ _ => nc <> 0
  | _ => True
  end.

Lemma writecas_ok ctx exp cas v o r :
  (w_append o = true -> v <> None) -> orow_ok r -> orow_ok (kr_row (do_writecas ctx exp cas v o r)).
Proof.
  intros Hwf H. destruct r as [[v0 j0 c0 e0 x0 t0 rv0]|]; cbn in H; [unfold row_ok in H; cbn in H; subst t0|].
  all: unfold do_writecas, writecas_why_not; cbn [r_value r_tomb r_cas r_rev r_xattrs]; brk; row_done.
Qed.

Lemma wtx_ok ctx exp cas xs dels db ms r : orow_ok r -> orow_ok (kr_row (do_writetombstonewithxattrs ctx exp cas xs dels db ms r)).
Proof. intros H. unfold do_writetombstonewithxattrs. brk; row_done; apply wwx_ok; exact H. Qed.
Lemma wrx_ok ctx exp v xs p ms r : orow_ok r -> orow_ok (kr_row (do_writeresurrectionwithxattrs ctx exp v xs p ms r)).
Proof. intros H. unfold do_writeresurrectionwithxattrs. brk; row_done; apply wwx_ok; exact H. Qed.
Lemma wxx_ok ctx exp cas v xs dels p ms r : orow_ok r -> orow_ok (kr_row (do_writewithxattrs ctx exp cas v xs dels p ms r)).
Proof. intros H. unfold do_writewithxattrs. brk; row_done; apply wwx_ok; exact H. Qed.


(* ------------------------------------------------------------------------------------------ *)
(* Soundness of the row-level checkers: they accept every step of the model                    *)

Definition rc_sound (rc : rowchk) : Prop :=
  forall key pc x c1 op r, wf_op op -> orow_ok r -> ocas_ok r ->
    let res := kstep (mkCtx (x_now x) c1 (x_maxdoc x)) op r in
    rc key (match kr_row res with Some _ => pc | None => 0 end) x op (option_map view_of_row r) (kr_resp res)
       (map (as_feed_event pc key) (kr_events res)) (option_map view_of_row (kr_row res)) = true.

Lemma same_view_refl v : same_view v v = true.
Proof. unfold same_view. destruct (odocview_eq_dec v v); congruence. Qed.
Lemma xs_eqb_refl v : xs_eqb v v = true.
Proof. unfold xs_eqb. destruct (list_eq_dec sspair_eq_dec v v); congruence. Qed.
Lemma ostr_eqb_refl v : ostr_eqb v v = true.
Proof. destruct v; cbn; [apply String.eqb_refl | reflexivity]. Qed.
Lemma fevent_eq_refl (e : fevent) : (if fevent_eq_dec e e then true else false) = true.
Proof. destruct (fevent_eq_dec e e); congruence. Qed.



Ltac inv_all :=
  repeat match goal with
  | H : inl _ = inl _ |- _ => inversion H; clear H
  | H : inr _ = inr _ |- _ => inversion H; clear H
  | H : inl _ = inr _ |- _ => discriminate H
  | H : inr _ = inl _ |- _ => discriminate H
  | H : Some _ = Some _ |- _ => inversion H; clear H
  | H : Some _ = None |- _ => discriminate H
  | H : None = Some _ |- _ => discriminate H
  | H : (_, _) = (_, _) |- _ => inversion H; clear H
  end; subst.

Ltac norm_hyps :=
  repeat match goal with
  | H : negb _ = false |- _ => apply negb_false_iff in H
  | H : negb _ = true |- _ => apply negb_true_iff in H
  | H : (_ =? _) = true |- _ => apply N.eqb_eq in H; subst
  | H : _ && _ = true |- _ => apply andb_true_iff in H; destruct H
  | H : _ || _ = false |- _ => apply orb_false_iff in H; destruct H
  end.

Ltac fin1 :=
  unfold cas_matches, view_cas, has_body in *;
  cbn -[N.add N.eqb same_view xs_eqb ostr_eqb fevent_eq_dec subset_names xattrs_agree_outside docx_string revx_string] in *; norm_hyps;
  rewrite ?same_view_refl, ?xs_eqb_refl, ?ostr_eqb_refl, ?N.eqb_refl, ?fevent_eq_refl, ?String.eqb_refl, ?Bool.eqb_reflx,
          ?orb_true_r, ?andb_true_r;
  cbn -[N.add N.eqb same_view xs_eqb ostr_eqb fevent_eq_dec subset_names xattrs_agree_outside docx_string revx_string];
  try reflexivity; try (subst; cbn in *; congruence).

Ltac brkG :=
  repeat match goal with
  | |- context [match ?x with _ => _ end] =>
      lazymatch x with
      | context [match _ with _ => _ end] => fail
      | _ => destruct x eqn:?
      end
  end.

Ltac fin := fin1; try (brkG; inv_all; fin1);
  try match goal with v : option string |- _ => destruct v; fin1; try (brkG; inv_all; fin1) end.

(* destruct an innermost scrutinee (one that contains no further match) of the hypothesis *)
Ltac brkH H :=
  repeat match type of H with
  | context [match ?x with _ => _ end] =>
      lazymatch x with
      | context [match _ with _ => _ end] => fail
      | _ => destruct x eqn:?
      end
  end.

(* Stage 1: enumerate the outcomes of kstep as concrete results; stage 2: evaluate the checker. *)
Ltac start_rc :=
  unfold rc_sound; intros key pc x c1 op r Hwf H Hc;
  match goal with |- context [kstep ?cc ?oo ?rr] =>
    let res := fresh "res" in let Hres := fresh "Hres" in
    remember (kstep cc oo rr) as res eqn:Hres;
    destruct r as [[v0 j0 c0 e0 x0 t0 rv0]|]; cbn in H, Hc; [unfold row_ok in H; cbn in H; subst t0|];
    destruct op; cbn [kstep] in Hres; unf; unf; unfold wwx, with_resp in Hres;
    cbn [r_value r_tomb r_cas r_rev r_xattrs r_isJSON r_exp option_map kr_row kr_resp kr_events kr_draws kr_commit kfail fst snd] in Hres;
    brkH Hres; subst res; inv_all
  end;
  cbn [r_value r_tomb r_cas r_rev r_xattrs r_isJSON r_exp option_map kr_row kr_resp kr_events kr_draws kr_commit kfail fst snd map].

(* ---- facts about the xattr maps ---- *)
Lemma obj_set_names {V} k (v : V) m x : In x (map fst (obj_set k v m)) -> x = k \/ In x (map fst m).
Proof.
  induction m as [|[k' v'] r IH]; cbn.
  - intros [<-|[]]; auto.
  - destruct (String.eqb k k') eqn:E.
    + apply String.eqb_eq in E; subst. cbn. intros [<-|Hin]; auto.
    + destruct (str_ltb k k'); cbn.
      * intros [<-|[<-|Hin]]; auto.
      * intros [<-|Hin]; auto. destruct (IH Hin); auto.
Qed.

Lemma obj_del_names {V} k (m : list (string * V)) x : In x (map fst (obj_del k m)) -> In x (map fst m).
Proof. unfold obj_del. apply (akeys_aremove_In String.eqb). Qed.

Definition xl (m : option (list (string * string))) : list (string * string) := match m with Some l => l | None => [] end.

Definition set_names (xs : list (string * option string)) : list string :=
  map fst (filter (fun kv => is_some (snd kv)) xs).

Lemma apply_xattrs_names xs : forall m ms c b o, apply_xattrs xs m ms c b = inl o ->
  forall x, In x (map fst (xl o)) -> In x (map fst (xl m)) \/ In x (set_names xs).
Proof.
  unfold set_names.
  induction xs as [|[k [v|]] rest IH]; intros m ms c b o Hap x Hin; cbn in Hap.
  - inversion Hap; subst. auto.
  - destruct (jparse v) as [j|]; [|discriminate].
    destruct (match ms with [] => inl j | _ :: _ => match j with JObj _ => expand_macros k j ms c b | _ => inr EOther end end) as [j2|e]; [|discriminate].
    destruct (IH _ _ _ _ _ Hap x Hin) as [H1|H1].
    + cbn in H1. apply obj_set_names in H1. destruct H1 as [->|H1]; [right; left; reflexivity | left; exact H1].
    + right; right; exact H1.
  - destruct m as [l|]; [|discriminate].
    destruct (obj_get k l); [|discriminate].
    destruct (IH _ _ _ _ _ Hap x Hin) as [H1|H1].
    + cbn in H1. apply obj_del_names in H1. left; exact H1.
    + right; exact H1.
Qed.

Lemma any_order_inl xs m ms c b o : apply_xattrs_any_order xs m ms c b = inl o -> apply_xattrs xs m ms c b = inl o.
Proof. unfold apply_xattrs_any_order. destruct (apply_xattrs xs m ms c b); [auto|]. destruct (existsb _ xs); discriminate. Qed.

Lemma subset_names_spec a b : subset_names a b = true <-> forall x, In x a -> In x b.
Proof.
  unfold subset_names. rewrite forallb_forall. split; intros H x Hx.
  - specialize (H x Hx). apply existsb_exists in H. destruct H as (y & Hy & E). apply String.eqb_eq in E; subst; auto.
  - apply existsb_exists. exists x. split; [auto | apply String.eqb_refl].
Qed.

Lemma set_names_app_dels xs d x : In x (set_names (xs ++ dels_of d)) -> In x (map fst xs).
Proof.
  unfold set_names. rewrite filter_app, map_app, in_app_iff. intros [H|H].
  - apply in_map_iff in H. destruct H as (kv & <- & Hk). apply filter_In in Hk. apply in_map. apply Hk.
  - exfalso. apply in_map_iff in H. destruct H as (kv & _ & Hk). apply filter_In in Hk. destruct Hk as [Hk1 Hk2].
    unfold dels_of in Hk1. apply in_map_iff in Hk1. destruct Hk1 as (k & <- & _). discriminate.
Qed.

Lemma fresh_xattrs_subset xs d ms c b o :
  apply_xattrs_any_order (xs ++ dels_of d) None ms c b = inl o -> subset_names (map fst (xlist (xmarshal o))) (map fst xs) = true.
Proof.
  intros H. apply any_order_inl in H. apply subset_names_spec. intros x Hx.
  destruct (apply_xattrs_names _ None ms c b o H x) as [[]|H1].
  - destruct o; exact Hx.
  - eapply set_names_app_dels; eauto.
Qed.

Lemma fresh_xattrs_subset0 xs ms c b o :
  apply_xattrs_any_order xs None ms c b = inl o -> subset_names (map fst (xlist (xmarshal o))) (map fst xs) = true.
Proof. intros H. apply (fresh_xattrs_subset xs None ms c b o). cbn. rewrite app_nil_r. exact H. Qed.

Lemma system_only_xlist x0 :
  xs_eqb (xlist (xattrs_system_only x0)) (filter (fun kv : string * string => is_system_name (fst kv)) (xlist x0)) = true.
Proof.
  destruct x0 as [| |m]; cbn -[xs_eqb]; try apply xs_eqb_refl.
  destruct (filter (fun kv : string * string => is_system_name (fst kv)) m) eqn:E; cbn -[xs_eqb]; apply xs_eqb_refl.
Qed.


(* the errors the xattr loop can produce: never a CAS / existence verdict *)
Definition xerr (e : err) : Prop :=
  match e with EOther | EPathNotFound | EPathMismatch | EPathExists | EAmbiguous => True | _ => False end.

Lemma perr_xerr e : xerr (perr e).
Proof. destruct e; exact I. Qed.

Lemma expand_macros_xerr name ms : forall j cas body e, expand_macros name j ms cas body = inr e -> xerr e.
Proof.
  induction ms as [|[path kind] rest IH]; intros j cas body e H; cbn in H; [discriminate|].
  destruct (parse_path path) as [[|p0 ptl]|]; try (inversion H; exact I).
  destruct (negb (String.eqb p0 name)); [eapply IH; eauto|].
  destruct (upsert_path j ptl _) as [j'|pe]; [eapply IH; eauto|].
  inversion H. apply perr_xerr.
Qed.

Lemma apply_xattrs_xerr xs : forall m ms c b e, apply_xattrs xs m ms c b = inr e -> xerr e.
Proof.
  induction xs as [|[k [v|]] rest IH]; intros m ms c b e H; cbn in H; [discriminate| |].
  - destruct (jparse v) as [j|]; [|inversion H; exact I].
    destruct ms as [|m0 ms'].
    + eapply IH; eauto.
    + destruct j; try (inversion H; exact I).
      destruct (expand_macros k _ (m0 :: ms') c b) as [j2|e2] eqn:E.
      * eapply IH; eauto.
      * inversion H; subst. eapply expand_macros_xerr; eauto.
  - destruct m as [l|]; [|inversion H; exact I].
    destruct (obj_get k l); [eapply IH; eauto | inversion H; exact I].
Qed.

Lemma any_order_xerr xs m ms c b e : apply_xattrs_any_order xs m ms c b = inr e -> xerr e.
Proof.
  unfold apply_xattrs_any_order. destruct (apply_xattrs xs m ms c b) as [o|e0] eqn:E; [discriminate|].
  destruct (existsb _ xs); intros H; inversion H; subst; [exact I | eapply apply_xattrs_xerr; eauto].
Qed.

Ltac xerr_contra :=
  match goal with
  | H : apply_xattrs_any_order _ _ _ _ _ = inr _ |- _ => exfalso; exact (any_order_xerr _ _ _ _ _ _ H)
  end.

(* ---- frame: xattrs that a call does not name keep their value ---- *)
Lemma obj_get_set_other {V} k k' (v : V) m : k' <> k -> obj_get k' (obj_set k v m) = obj_get k' m.
Proof.
  intros Hne. unfold obj_get. induction m as [|[k2 v2] r IH]; cbn.
  - rewrite (proj2 (String.eqb_neq k' k) Hne). reflexivity.
  - destruct (String.eqb k k2) eqn:E.
    + apply String.eqb_eq in E; subst k2. cbn. rewrite (proj2 (String.eqb_neq k' k) Hne). reflexivity.
    + destruct (str_ltb k k2); cbn.
      * rewrite (proj2 (String.eqb_neq k' k) Hne). reflexivity.
      * destruct (String.eqb k' k2); [reflexivity | exact IH].
Qed.

Lemma obj_get_del_other {V} k k' (m : list (string * V)) : k' <> k -> obj_get k' (obj_del k m) = obj_get k' m.
Proof. intros Hne. apply (alookup_aremove_other String.eqb String.eqb_eq). exact Hne. Qed.

Lemma apply_xattrs_frame xs : forall m ms c b o, apply_xattrs xs m ms c b = inl o ->
  forall k, ~ In k (map fst xs) -> obj_get k (xl o) = obj_get k (xl m).
Proof.
  induction xs as [|[k0 [v|]] rest IH]; intros m ms c b o Hap k Hk; cbn in Hap.
  - inversion Hap; subst. reflexivity.
  - destruct (jparse v) as [j|]; [|discriminate].
    destruct (match ms with [] => inl j | _ :: _ => match j with JObj _ => expand_macros k0 j ms c b | _ => inr EOther end end) as [j2|e]; [|discriminate].
    rewrite (IH _ _ _ _ _ Hap k) by (intros Hin; apply Hk; right; exact Hin).
    cbn. apply obj_get_set_other. intros ->. apply Hk. left; reflexivity.
  - destruct m as [l|]; [|discriminate].
    destruct (obj_get k0 l); [|discriminate].
    rewrite (IH _ _ _ _ _ Hap k) by (intros Hin; apply Hk; right; exact Hin).
    cbn. apply obj_get_del_other. intros ->. apply Hk. left; reflexivity.
Qed.

Lemma xlist_xmarshal o : xlist (xmarshal o) = xl o.
Proof. destruct o; reflexivity. Qed.

Lemma agree_outside_of_frame names a b :
  (forall k, ~ In k names -> alookup String.eqb k a = alookup String.eqb k b) -> xattrs_agree_outside names a b = true.
Proof.
  intros H. unfold xattrs_agree_outside. apply forallb_forall. intros k _.
  destruct (existsb (String.eqb k) names) eqn:E; [reflexivity|]. cbn.
  rewrite H; [apply ostr_eqb_refl|].
  intros Hin. assert (existsb (String.eqb k) names = true) as E2; [|congruence].
  apply existsb_exists. exists k. split; [exact Hin | apply String.eqb_refl].
Qed.

Lemma wwx_frame xs d m ms c b o :
  apply_xattrs_any_order (xs ++ dels_of d) m ms c b = inl o ->
  xattrs_agree_outside (map fst xs ++ match d with Some l => l | None => [] end) (xl m) (xlist (xmarshal o)) = true.
Proof.
  intros H. apply any_order_inl in H. rewrite xlist_xmarshal. apply agree_outside_of_frame. intros k Hk.
  symmetry. apply (apply_xattrs_frame _ _ _ _ _ _ H). intros Hin. apply Hk.
  rewrite map_app, in_app_iff in Hin. apply in_app_iff. destruct Hin as [Hin|Hin]; [left; exact Hin | right].
  unfold dels_of in Hin. rewrite map_map in Hin. cbn in Hin. rewrite map_id in Hin. apply nodup_In in Hin. exact Hin.
Qed.

Lemma wwx_frame0 xs m ms c b o :
  apply_xattrs_any_order xs m ms c b = inl o ->
  xattrs_agree_outside (map fst xs) (xl m) (xlist (xmarshal o)) = true.
Proof.
  intros H. apply any_order_inl in H. rewrite xlist_xmarshal. apply agree_outside_of_frame. intros k Hk.
  symmetry. apply (apply_xattrs_frame _ _ _ _ _ _ H). exact Hk.
Qed.

Lemma wwx_frame_names names m ms c b o :
  apply_xattrs_any_order (map (fun k => (k, None)) names) m ms c b = inl o ->
  xattrs_agree_outside names (xl m) (xlist (xmarshal o)) = true.
Proof.
  intros H. pose proof (wwx_frame0 _ _ _ _ _ _ H) as H1. rewrite map_map in H1. cbn in H1. rewrite map_id in H1. exact H1.
Qed.

Lemma fold_del_frame names : forall (m : list (string * string)) k, ~ In k names ->
  obj_get k (fold_left (fun acc k0 => obj_del k0 acc) names m) = obj_get k m.
Proof.
  induction names as [|n rest IH]; intros m k Hk; cbn [fold_left]; [reflexivity|].
  rewrite IH by (intros Hin; apply Hk; right; exact Hin).
  apply obj_get_del_other. intros ->. apply Hk. left; reflexivity.
Qed.

Lemma xattrs_remove_frame x0 names x1 :
  xattrs_remove x0 names = Some x1 -> xattrs_agree_outside names (xlist x0) (xlist x1) = true.
Proof.
  intros H. apply agree_outside_of_frame. intros k Hk.
  destruct x0 as [| |m]; cbn in H.
  - inversion H; reflexivity.
  - destruct (forallb valid_xattr_key names); inversion H; reflexivity.
  - destruct (forallb valid_xattr_key names); [|discriminate].
    pose proof (fold_del_frame names m k Hk) as F. unfold obj_get in F.
    destruct (fold_left _ names m) eqn:E; inversion H; subst; cbn; rewrite <- F; reflexivity.
Qed.

Ltac frame_done :=
  match goal with
  | H : xattrs_remove _ _ = Some _ |- _ => exact (xattrs_remove_frame _ _ _ H)
  | H : apply_xattrs_any_order (?p :: ?l ++ ?t) ?m ?ms ?c ?b = inl ?o |- _ =>
      first [ exact (wwx_frame (p :: l) None m ms c b o H)
            | match goal with |- xattrs_agree_outside (_ :: _ ++ ?l0) _ _ = true => exact (wwx_frame (p :: l) (Some l0) m ms c b o H) end ]
  | H : apply_xattrs_any_order (map _ ?names) ?m ?ms ?c ?b = inl ?o |- _ => exact (wwx_frame_names names m ms c b o H)
  | H : apply_xattrs_any_order ?xs ?m ?ms ?c ?b = inl ?o |- _ => exact (wwx_frame0 xs m ms c b o H)
  end.
