(* ExpProofs.v - the expiry timer (C14): whenever a document carries an expiry, a timer is armed at or
   before it (so, assuming an armed Go timer fires, the document is tombstoned soon after its time);
   a firing at time t tombstones every document with 0 < exp <= t and touches no other.          *)
From Rosmar Require Import Base Json Crc Hlc HlcProofs Kv Store Trace KvTac KvRowOk KvLift KvFrame.

Definition cov (next e : N) : Prop := e = 0 \/ (next <> 0 /\ next <= e).

Lemma sched_cov_new n e : cov (sched n e) e.
Proof.
  unfold cov, sched. destruct (N.eqb_spec e 0); [left; assumption|]. right.
  destruct (N.eqb_spec n 0); cbn; [split; [assumption | lia]|].
  destruct (N.ltb_spec e n); split; lia.
Qed.

Lemma sched_cov_keep n e e' : cov n e -> cov (sched n e') e.
Proof.
  unfold cov, sched. intros [H|[H1 H2]]; [left; exact H|]. right.
  destruct (N.eqb_spec e' 0); [split; assumption|].
  destruct (N.eqb_spec n 0); cbn; [contradiction|].
  destruct (N.ltb_spec e' n); split; lia.
Qed.

Lemma fold_sched_keep l : forall n e, cov n e -> cov (fold_left sched l n) e.
Proof. induction l as [|a r IH]; intros n e H; cbn [fold_left]; [exact H|]. apply IH. apply sched_cov_keep. exact H. Qed.

Lemma fold_sched_covers l : forall n e, In e l -> cov (fold_left sched l n) e.
Proof.
  induction l as [|a r IH]; intros n e Hin; [destruct Hin|]. cbn [fold_left]. destruct Hin as [->|Hin].
  - apply fold_sched_keep. apply sched_cov_new.
  - apply IH. exact Hin.
Qed.

Definition covered (s : store) (next : N) : Prop := forall d, In d (s_docs s) -> cov next (r_exp (snd d)).

Lemma min_exp_covers s : covered s (sched 0 (min_exp s)).
Proof.
  intros d Hd. assert (cov (min_exp s) (r_exp (snd d))) as H.
  { unfold min_exp. apply fold_sched_covers. apply in_map_iff. exists d. auto. }
  unfold sched. destruct (N.eqb_spec (min_exp s) 0) as [E|E]; [|cbn; exact H].
  destruct H as [H|[H _]]; [left; exact H | contradiction].
Qed.

(* what one call does to the expiry of the document it addresses *)
Lemma kstep_exp ctx op r : wf_op op -> orow_ok r ->
  let res := kstep ctx op r in
  match kr_row res with
  | None => True
  | Some r' =>
      r_exp r' = 0
      \/ (exists e, In e (kr_events res) /\ e_exp e = r_exp r')
      \/ (exists r0, r = Some r0 /\ r_exp r0 = r_exp r')
      \/ (is_touch op = true /\ resp_is_err (kr_resp res) = false)
  end.
Proof.
  intros Hwf H. cbv zeta.
  match goal with |- context [kstep ?cc ?oo ?rr] =>
    let res := fresh "res" in let Hres := fresh "Hres" in
    remember (kstep cc oo rr) as res eqn:Hres;
    destruct r as [[v0 j0 c0 e0 x0 t0 rv0]|]; cbn in H; [unfold row_ok in H; cbn in H; subst t0|];
    destruct op; cbn [kstep] in Hres; unf; unf; unfold wwx, with_resp in Hres;
    cbn [r_value r_tomb r_cas r_rev r_xattrs r_isJSON r_exp option_map kr_row kr_resp kr_events kr_draws kr_commit kfail fst snd] in Hres;
    brkH Hres; subst res; inv_all
  end;
  cbn [r_value r_tomb r_cas r_rev r_xattrs r_isJSON r_exp kr_row kr_resp kr_events kfail fst snd new_row is_touch resp_is_err].
  all: try exact I.
  all: first [ left; reflexivity
             | right; left; eexists; split; [left; reflexivity | reflexivity]
             | right; right; left; eexists; split; reflexivity
             | right; right; right; split; reflexivity
             | idtac ].
Qed.

Lemma sr_events_exps s x cid key op :
  map (fun e : N * string * event => e_exp (snd e)) (sr_events (kv_on s x cid key op))
  = map e_exp (kr_events (kstep (mkCtx (x_now x) (hlc_now (s_high s) (x_clock x)) (x_maxdoc x)) op (get_doc s (cid, key)))).
Proof. unfold kv_on; cbv zeta; cbn [sr_events]. rewrite map_map. reflexivity. Qed.

(* a removal leaves no expiry behind: whatever covered the documents before covers them afterwards *)
Lemma kv_on_delete_covered s n x cid k : covered s n -> covered (sr_store (kv_on s x cid k KDelete)) n.
Proof.
  intros Hc d Hd. unfold kv_on in Hd; cbv zeta in Hd; cbn [sr_store s_docs] in Hd.
  destruct (get_doc s (cid, k)) as [r0|]; cbn in Hd.
  - apply In_aset in Hd. destruct Hd as [->|Hd]; [left; reflexivity | apply Hc; exact Hd].
  - apply In_aremove in Hd. apply Hc; exact Hd.
Qed.

Lemma expire_keys_covered n x cid keys : forall s acc, covered s n -> covered (fst (expire_keys s x cid keys acc)) n.
Proof. induction keys as [|k r IH]; intros s acc Hc; cbn [expire_keys]; [exact Hc|]. apply IH. apply kv_on_delete_covered. exact Hc. Qed.

Lemma expire_colls_covered n x cids : forall s acc, covered s n -> covered (fst (expire_colls s x cids acc)) n.
Proof.
  induction cids as [|cid r IH]; intros s acc Hc; cbn [expire_colls]; [exact Hc|].
  pose proof (expire_keys_covered n x cid (due_keys s cid (x_now x)) s acc Hc) as H.
  destruct (expire_keys s x cid (due_keys s cid (x_now x)) acc) as [s' acc']. apply IH. exact H.
Qed.

(* the arming invariant is kept by every step, whatever the arguments, clocks and times *)
Theorem cover_step s next x o : wf_sop o -> store_ok s -> covered s next ->
  covered (sr_store (sstep s x o)) (next_after next s o (sstep s x o)).
Proof.
  intros Hwf Hs Hcov. destruct o; cbn [sstep next_after wf_sop] in *.
  - (* a key-value call *)
    destruct (coll_id s coll) as [cid|] eqn:Ec.
    2:{ cbn [sr_store sr_events sr_resp map fold_left]. destruct (is_touch op && _); exact Hcov. }
    set (ctx := mkCtx (x_now x) (hlc_now (s_high s) (x_clock x)) (x_maxdoc x)).
    pose proof (kstep_exp ctx op (get_doc s (cid, key)) Hwf (proj1 (get_doc_orow_ok s (cid, key) Hs))) as Hk. cbv zeta in Hk.
    pose proof (get_doc_kv_on s x cid key op) as Hg. fold ctx in Hg.
    rewrite sr_events_exps. fold ctx.
    set (n1 := fold_left sched (map e_exp (kr_events (kstep ctx op (get_doc s (cid, key))))) next).
    assert (forall e, cov next e -> cov n1 e) as Hkeep by (intros e He; apply fold_sched_keep; exact He).
    assert (forall e, cov n1 e -> cov (if is_touch op && negb (resp_is_err (sr_resp (kv_on s x cid key op)))
                                       then match get_doc (sr_store (kv_on s x cid key op)) (cid, key) with Some r => sched n1 (r_exp r) | None => n1 end
                                       else n1) e) as Hkeep2.
    { intros e He. destruct (is_touch op && _); [|exact He]. destruct (get_doc (sr_store (kv_on s x cid key op)) (cid, key)); [apply sched_cov_keep|]; exact He. }
    intros d Hd. unfold kv_on in Hd; cbv zeta in Hd; cbn [sr_store s_docs] in Hd. fold ctx in Hd.
    destruct (kr_row (kstep ctx op (get_doc s (cid, key)))) as [r'|] eqn:Er; cbn [aput] in Hd.
    + apply In_aset in Hd. destruct Hd as [->|Hd]; [|apply Hkeep2, Hkeep, Hcov; exact Hd]. cbn [snd].
      destruct Hk as [H0|[(e & He & Hee)|[(r0 & Hr0 & Hre)|[Ht He]]]].
      * left. exact H0.
      * apply Hkeep2. unfold n1. rewrite <- Hee. apply fold_sched_covers. apply in_map. exact He.
      * apply Hkeep2, Hkeep. rewrite <- Hre. unfold get_doc in Hr0. apply (alookup_In dkey_eqb dkey_eqb_spec) in Hr0.
        exact (Hcov _ Hr0).
      * assert (sr_resp (kv_on s x cid key op) = kr_resp (kstep ctx op (get_doc s (cid, key)))) as -> by reflexivity.
        rewrite Ht, He. cbn [andb negb]. rewrite Hg. apply sched_cov_new.
    + apply In_aremove in Hd. apply Hkeep2, Hkeep, Hcov; exact Hd.
  - intros d Hd. cbn [sr_store s_docs] in Hd. apply filter_In in Hd. apply Hcov. apply Hd.
  - destruct (coll_id s name); exact Hcov.
  - destruct (String.eqb name default_coll); [exact Hcov|]. destruct (coll_id s name); [|exact Hcov].
    intros d Hd. cbn [sr_store s_docs] in Hd. apply filter_In in Hd. apply Hcov. apply Hd.
  - destruct (coll_id s coll); exact Hcov.
  - cbn [sr_store]. apply min_exp_covers.
  - destruct (coll_id s coll); exact Hcov.
  - destruct (coll_id s coll); [|exact Hcov]. destruct (same_ddoc _ _ _ _); exact Hcov.
  - destruct (coll_id s coll); [|exact Hcov]. destruct (existsb _ _); exact Hcov.
  - destruct (coll_id s coll); [|exact Hcov]. destruct (filter _ _); exact Hcov.
  - apply min_exp_covers.
  - destruct (coll_id s coll); exact Hcov.
  - destruct (coll_id s coll); exact Hcov.
  - exact Hcov.
  - (* the sweep as far as wc: what it removes has no expiry any more, the rest is as it was *)
    destruct (coll_id s wc); [|exact Hcov].
    pose proof (expire_colls_covered next x (ids_before (s_colls s) wc) s [] Hcov) as H.
    destruct (expire_colls s x (ids_before (s_colls s) wc) []) as [s' evs]. exact H.
  - (* the rest of it: the timer is armed again from the earliest expiry there is, and the requests that
       waited for the sweep can only make it earlier *)
    destruct (coll_id s wc) as [cid|]; [|exact Hcov].
    destruct (expire_keys_chk s x cid keys []) as [s1 evs1].
    destruct (expire_colls s1 x (ids_after (s_colls s) wc) evs1) as [s2 evs2]. cbn [sr_resp resp_is_err sr_store].
    intros d Hd. apply fold_sched_keep. exact (min_exp_covers s2 d Hd).
Qed.

Fixpoint next_final (s : store) (next : N) (steps : list (sctx * sop)) : store * N :=
  match steps with
  | [] => (s, next)
  | (x, o) :: r => let res := sstep s x o in next_final (sr_store res) (next_after next s o res) r
  end.

Theorem reachable_covered : forall steps s next, store_ok s -> covered s next -> wf_steps steps ->
  covered (fst (next_final s next steps)) (snd (next_final s next steps)).
Proof.
  induction steps as [|[x o] r IH]; intros s next Hs Hc Hwf; cbn [next_final]; [exact Hc|].
  inversion Hwf as [|? ? Hwo Hwr]; subst. cbn [snd] in Hwo.
  apply IH; [apply sstep_ok; assumption | apply cover_step; assumption | exact Hwr].
Qed.

Theorem timer_covers_min_exp c : wf_case c ->
  let '(s, next) := next_final store0 0 (sc_steps c) in
  forall k r, get_doc s k = Some r -> r_exp r <> 0 -> next <> 0 /\ next <= r_exp r.
Proof.
  intros Hwf. pose proof (reachable_covered (sc_steps c) store0 0 store0_ok (fun d H => match H with end) Hwf) as H.
  destruct (next_final store0 0 (sc_steps c)) as [s next]. cbn [fst snd] in H. intros k r Hg Hne.
  unfold get_doc in Hg. apply (alookup_In dkey_eqb dkey_eqb_spec) in Hg. destruct (H _ Hg) as [E|E]; [contradiction | exact E].
Qed.

(* ------------------------------------------------------------------------------------------ *)
(* a firing of the timer                                                                        *)

Definition expired_row (r' : row) : Prop := r_value r' = None /\ r_exp r' = 0 /\ r_tomb r' = true.
Definition is_expired (s : store) (k : dkey) : Prop := exists r', get_doc s k = Some r' /\ expired_row r'.

Lemma delete_makes_expired s x cid key : get_doc s (cid, key) <> None -> is_expired (sr_store (kv_on s x cid key KDelete)) (cid, key).
Proof.
  intros Hn. unfold is_expired. rewrite get_doc_kv_on. destruct (get_doc s (cid, key)) as [r0|]; [|contradiction].
  cbn. eexists. split; [reflexivity|]. repeat split.
Qed.

Lemma delete_keeps_expired s x cid k2 k : is_expired s k -> is_expired (sr_store (kv_on s x cid k2 KDelete)) k.
Proof.
  intros He. destruct (dkey_eqb k (cid, k2)) eqn:E.
  - apply dkey_eqb_spec in E. subst k. apply delete_makes_expired. destruct He as (r' & Hg & _). congruence.
  - unfold is_expired. rewrite kv_on_frame; [exact He|]. intros ->. rewrite (proj2 (dkey_eqb_spec _ _) eq_refl) in E. discriminate.
Qed.

Lemma delete_event s x cid key : get_doc s (cid, key) <> None ->
  exists e, In (cid, key, e) (sr_events (kv_on s x cid key KDelete)) /\ e_isDel e = true.
Proof.
  intros Hn. unfold kv_on; cbv zeta; cbn [sr_events]. destruct (get_doc s (cid, key)) as [r0|]; [|contradiction].
  cbn. eexists. split; [left; reflexivity | reflexivity].
Qed.

Lemma expire_keys_spec x cid keys : forall s acc,
  let res := expire_keys s x cid keys acc in
  (forall k', (fst k' <> cid \/ ~ In (snd k') keys) -> get_doc (fst res) k' = get_doc s k')
  /\ (forall k, In k keys -> get_doc s (cid, k) <> None -> is_expired (fst res) (cid, k))
  /\ (forall k', is_expired s k' -> is_expired (fst res) k')
  /\ (forall e, In e acc -> In e (snd res))
  /\ (forall k, In k keys -> get_doc s (cid, k) <> None -> exists e, In (cid, k, e) (snd res) /\ e_isDel e = true).
Proof.
  induction keys as [|k r IH]; intros s acc; cbn [expire_keys].
  - cbn. repeat split; auto; intros ? [].
  - specialize (IH (sr_store (kv_on s x cid k KDelete)) (acc ++ sr_events (kv_on s x cid k KDelete))). cbv zeta in IH.
    destruct IH as (I1 & I2 & I3 & I4 & I5). cbv zeta. repeat split.
    + intros k' Hk'. rewrite I1.
      * apply kv_on_frame. intros ->. cbn in Hk'. destruct Hk' as [H|H]; [contradiction | apply H; left; reflexivity].
      * destruct Hk' as [H|H]; [left; exact H | right; intros Hin; apply H; right; exact Hin].
    + intros k0 [<-|Hin] Hn.
      * apply I3. apply delete_makes_expired. exact Hn.
      * destruct (string_dec k0 k) as [->|Hne]; [apply I3; apply delete_makes_expired; exact Hn|].
        apply I2; [exact Hin|]. rewrite kv_on_frame; [exact Hn | intros E; inversion E; contradiction].
    + intros k' He. apply I3. apply delete_keeps_expired. exact He.
    + intros e He. apply I4. apply in_app_iff. left; exact He.
    + intros k0 [<-|Hin] Hn.
      * destruct (delete_event s x cid k Hn) as (e & He & Hd). exists e. split; [|exact Hd]. apply I4. apply in_app_iff. right; exact He.
      * destruct (string_dec k0 k) as [->|Hne].
        -- destruct (delete_event s x cid k Hn) as (e & He & Hd). exists e. split; [|exact Hd]. apply I4. apply in_app_iff. right; exact He.
        -- apply I5; [exact Hin|]. rewrite kv_on_frame; [exact Hn | intros E; inversion E; contradiction].
Qed.

Lemma insert_exp_In d l y : In y (insert_by_exp d l) <-> y = d \/ In y l.
Proof.
  induction l as [|d' r IH]; cbn; [intuition|].
  destruct (r_exp (snd d) <? r_exp (snd d')); cbn; [intuition | rewrite IH; intuition].
Qed.

Lemma fold_insert_exp_In l : forall acc y, In y (fold_left (fun a d => insert_by_exp d a) l acc) <-> In y l \/ In y acc.
Proof.
  induction l as [|d r IH]; intros acc y; cbn [fold_left]; [cbn; intuition|].
  rewrite IH, insert_exp_In. cbn. intuition.
Qed.

Lemma due_keys_In s cid now k : In k (due_keys s cid now) <->
  exists r, In ((cid, k), r) (s_docs s) /\ 0 < r_exp r /\ r_exp r <= now.
Proof.
  unfold due_keys. rewrite in_map_iff. split.
  - intros ([[c k'] r] & <- & Hin). apply fold_insert_exp_In in Hin. destruct Hin as [Hin|[]].
    apply filter_In in Hin. destruct Hin as [Hin Hq]. cbn in Hq.
    apply andb_true_iff in Hq. destruct Hq as [Hq H3]. apply andb_true_iff in Hq. destruct Hq as [H1 H2].
    apply N.eqb_eq in H1. subst c. exists r. cbn. repeat split; [exact Hin | apply N.ltb_lt; exact H2 | apply N.leb_le; exact H3].
  - intros (r & Hin & H2 & H3). exists ((cid, k), r). split; [reflexivity|]. apply fold_insert_exp_In. left.
    apply filter_In. split; [exact Hin|]. cbn. rewrite N.eqb_refl. cbn.
    rewrite (proj2 (N.ltb_lt _ _) H2), (proj2 (N.leb_le _ _) H3). reflexivity.
Qed.

Definition due (now : N) (r : row) : Prop := 0 < r_exp r /\ r_exp r <= now.

Lemma expire_colls_spec x cids : forall s acc, tables_ok s ->
  let res := expire_colls s x cids acc in
  (forall k r, get_doc s k = Some r -> ~ due (x_now x) r -> get_doc (fst res) k = Some r)
  /\ (forall k r, In (fst k) cids -> get_doc s k = Some r -> due (x_now x) r ->
        is_expired (fst res) k /\ exists e, In (fst k, snd k, e) (snd res) /\ e_isDel e = true)
  /\ (forall k, is_expired s k -> is_expired (fst res) k)
  /\ (forall e, In e acc -> In e (snd res)).
Proof.
  induction cids as [|cid rest IH]; intros s acc Hs; cbn [expire_colls].
  - cbn. repeat split; intros; auto; contradiction.
  - pose proof (expire_keys_spec x cid (due_keys s cid (x_now x)) s acc) as K. cbv zeta in K.
    pose proof (expire_keys_tables x cid (due_keys s cid (x_now x)) s acc) as T.
    destruct (expire_keys s x cid (due_keys s cid (x_now x)) acc) as [s1 acc1] eqn:E1. cbn [fst snd] in K, T.
    destruct K as (K1 & K2 & K3 & K4 & K5).
    assert (forall k r, get_doc s k = Some r -> ~ due (x_now x) r -> get_doc s1 k = Some r) as Hkeep.
    { intros [c k] r Hg Hnd. rewrite K1; [exact Hg|]. cbn. destruct (N.eq_dec c cid) as [->|Hne]; [right | left; exact Hne].
      intros Hin. apply due_keys_In in Hin. destruct Hin as (r2 & Hin2 & Hd).
      assert (get_doc s (cid, k) = Some r2) as Hg2 by (unfold get_doc; apply (In_alookup dkey_eqb dkey_eqb_spec); [apply Hs | exact Hin2]).
      rewrite Hg in Hg2. inversion Hg2; subst. apply Hnd. exact Hd. }
    assert (forall k r, fst k <> cid -> get_doc s k = Some r -> get_doc s1 k = Some r) as Hother.
    { intros k r Hne Hg. rewrite K1; [exact Hg | left; exact Hne]. }
    assert (tables_ok s1) as Hs1.
    { destruct (in_dec N.eq_dec cid (coll_ids s)) as [Hin|Hnot].
      - apply (proj1 (T Hin Hs)).
      - (* a collection id that does not exist: no document carries it, nothing is due *)
        assert (due_keys s cid (x_now x) = []) as Hd.
        { destruct (due_keys s cid (x_now x)) as [|k0 r0] eqn:Ed; [reflexivity|]. exfalso.
          assert (In k0 (due_keys s cid (x_now x))) as Hk by (rewrite Ed; left; reflexivity).
          apply due_keys_In in Hk. destruct Hk as (r & Hin & _). apply Hnot. exact (t_doc_cids s Hs _ Hin). }
        rewrite Hd in E1. cbn in E1. inversion E1; subst. exact Hs. }
    specialize (IH s1 acc1 Hs1). cbv zeta in IH. destruct IH as (J1 & J2 & J3 & J4).
    split; [|split; [|split]].
    + intros k r Hg Hnd. apply J1; [apply Hkeep; assumption | exact Hnd].
    + intros [c k] r Hin Hg Hd. cbn [fst snd] in *. destruct (N.eq_dec c cid) as [->|Hne].
      * assert (In k (due_keys s cid (x_now x))) as Hdk.
        { apply due_keys_In. exists r. split; [|exact Hd]. unfold get_doc in Hg. apply (alookup_In dkey_eqb dkey_eqb_spec) in Hg. exact Hg. }
        assert (get_doc s (cid, k) <> None) as Hn by congruence.
        split.
        -- apply J3. apply K2; assumption.
        -- destruct (K5 k Hdk Hn) as (e & He & Hde). exists e. split; [apply J4; exact He | exact Hde].
      * destruct Hin as [E|Hin]; [congruence|].
        apply (J2 (c, k) r Hin); [apply Hother; assumption | exact Hd].
    + intros k He. apply J3, K3. exact He.
    + intros e He. apply J4, K4. exact He.
Qed.

(* the timer fires at time now: every document whose expiry has passed becomes a tombstone with expiry
   0 and a deletion event is posted for it; every other document is exactly as it was *)
Theorem fire_correct s x : tables_ok s ->
  let res := sstep s x SExpire in
  (forall k r, get_doc s k = Some r -> due (x_now x) r ->
     is_expired (sr_store res) k /\ exists e, In (fst k, snd k, e) (sr_events res) /\ e_isDel e = true)
  /\ (forall k r, get_doc s k = Some r -> ~ due (x_now x) r -> get_doc (sr_store res) k = Some r).
Proof.
  intros Hs. cbv zeta. cbn [sstep].
  pose proof (expire_colls_spec x (map fst (s_colls s)) s [] Hs) as H. cbv zeta in H.
  destruct (expire_colls s x (map fst (s_colls s)) []) as [s' evs]. cbn [fst snd sr_store sr_events] in *.
  destruct H as (H1 & H2 & _ & _). split.
  - intros k r Hg Hd. apply (H2 k r); [|exact Hg | exact Hd].
    unfold get_doc in Hg. apply (alookup_In dkey_eqb dkey_eqb_spec) in Hg. exact (t_doc_cids s Hs _ Hg).
  - exact H1.
Qed.

(* never early (sequential model): a document that is not due when the timer fires survives the firing *)
Corollary fire_never_early s x k r : tables_ok s -> get_doc s k = Some r -> x_now x < r_exp r ->
  get_doc (sr_store (sstep s x SExpire)) k = Some r.
Proof. intros Hs Hg Hlt. apply (proj2 (fire_correct s x Hs) k r Hg). unfold due. lia. Qed.

(* non-vacuity: a store with one due and one pending document *)
Example fire_example :
  let d1 := ((1, "a"), mkRow (Some "x") false 5 100 XNull false 1) in
  let d2 := ((1, "b"), mkRow (Some "y") false 6 900 XNull false 1) in
  let s := mkStore [d1; d2] [(1, (default_coll, 6))] 2 6 6 [] [] in
  let s' := sr_store (sstep s (mkSctx 7 500 0) SExpire) in
  match get_doc s' (1, "a"), get_doc s' (1, "b") with
  | Some ra, Some rb => r_value ra = None /\ r_exp ra = 0 /\ rb = snd d2
  | _, _ => False
  end.
Proof. cbn. repeat split. Qed.

(* ------------------------------------------------------------------------------------------ *)
(* reopening (C10): nothing persistent changes, the clock is seeded at or above the persisted high-water
   mark, and the expiry timer is re-armed at or before the earliest pending expiry                *)
Theorem reopen_preserves s x :
  let s' := sr_store (sstep s x SReopen) in
  s_docs s' = s_docs s /\ s_colls s' = s_colls s /\ s_views s' = s_views s /\ s_lastcas s' = s_lastcas s
  /\ s_lastcas s <= s_high s' /\ s_high s <= s_high s'.
Proof.
  cbn. repeat split; [apply hlc_update_ge_r | apply hlc_update_ge_l].
Qed.

Theorem reopen_rearms s next x : covered (sr_store (sstep s x SReopen)) (next_after next s SReopen (sstep s x SReopen)).
Proof. cbn [next_after]. apply min_exp_covers. Qed.
