(* KvC06.v - the row-level checker chk_row_C06 accepts every step of the model *)
From Rosmar Require Import Base Json Crc Kv Store Trace KvTac.

Theorem C06_row_sound : rc_sound chk_row_C06.
Proof. start_rc. all: unfold chk_row_C06; fin.
  all: try xerr_contra.
  (* an append that names the stored version: it insists on nothing (AddOnly would have been refused, and no stored
     version is numbered 0) *)
  all: exfalso; match goal with H0 : ?a && true && true = false, H2 : ?a || (?c =? 0) = true, Hc : ?c <> 0 |- _ =>
         destruct a; cbn in H0, H2; [discriminate H0 | apply N.eqb_eq in H2; contradiction] end.
Qed.
