(* KvC06.v - the row-level checker chk_row_C06 accepts every step of the model *)
From Rosmar Require Import Base Json Crc Kv Store Trace KvTac.

Theorem C06_row_sound : rc_sound chk_row_C06.
Proof. start_rc. all: unfold chk_row_C06; fin.
  all: xerr_contra.
Qed.

