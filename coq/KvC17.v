(* KvC17.v - the row-level checker chk_row_C17 accepts every step of the model *)
From Rosmar Require Import Base Json Crc Kv Store Trace KvTac.

Theorem C17_row_sound : rc_sound chk_row_C17.
Proof. start_rc. all: unfold chk_row_C17; fin. Qed.

