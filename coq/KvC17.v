(* KvC17.v - the row-level checker chk_row_C17 accepts every step of the model *)
From Rosmar Require Import Base Json Crc Kv Store Trace KvTac.

Lemma revid_ok_row r0 : revid_ok (view_of_row r0) = true.
Proof. unfold revid_ok, view_of_row; cbn [v_revx v_docx v_rev v_body]. rewrite !ostr_eqb_refl. reflexivity. Qed.

Theorem C17_row_sound : rc_sound chk_row_C17.
Proof. start_rc. all: unfold chk_row_C17; fin. all: try apply revid_ok_row.
  all: try (unfold new_row; match goal with |- revid_ok ?v = true => change v with (view_of_row (mkRow (v_body v) (v_json v) (v_cas v) (v_exp v) XNull (v_del v) (v_rev v))) end; apply revid_ok_row).
Qed.

