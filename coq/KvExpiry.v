(* KvExpiry.v - removal by expiry is a removal: what the row checker of C05 says of Delete holds of every
   document that a firing of the expiry timer removes, in every history of the model.               *)
From Rosmar Require Import Base Json Crc Hlc Kv Store Trace KvTac KvLift KvFrame KvC05 ExpProofs KvTrace Sweep KvC14Trace.
From Coq Require Import Permutation.

Lemma sys_only_idem x : xattrs_system_only (xattrs_system_only x) = xattrs_system_only x.
Proof.
  destruct x as [| |m]; try reflexivity. cbn [xattrs_system_only].
  destruct (filter (fun kv => is_system_name (fst kv)) m) as [|p l] eqn:E; [reflexivity|].
  cbn [xattrs_system_only]. 
  assert (filter (fun kv : string * string => is_system_name (fst kv)) (p :: l) = p :: l) as ->; [|reflexivity].
  rewrite <- E. clear. induction m as [|a r IH]; cbn; [reflexivity|].
  destruct (is_system_name (fst a)) eqn:Ea; cbn; [rewrite Ea, IH; reflexivity | exact IH].
Qed.

(* r' is what Delete leaves of r (whatever CAS and revision it got, however many times it was applied) *)
Definition del_of (r r' : row) : Prop :=
  exists c rv, r' = new_row None false c 0 (xattrs_system_only (r_xattrs r)) true rv.

Definition deleted_in (s : store) (k : dkey) (r : row) : Prop := exists r', get_doc s k = Some r' /\ del_of r r'.

Lemma delete_makes_del s x cid key r : get_doc s (cid, key) = Some r ->
  deleted_in (sr_store (kv_on s x cid key KDelete)) (cid, key) r.
Proof.
  intros Hg. unfold deleted_in. rewrite get_doc_kv_on, Hg. cbn. eexists. split; [reflexivity|]. eexists. eexists. reflexivity.
Qed.

Lemma delete_keeps_del s x cid k2 k r : deleted_in s k r -> deleted_in (sr_store (kv_on s x cid k2 KDelete)) k r.
Proof.
  intros (r' & Hg & c & rv & ->). destruct (dkey_eqb k (cid, k2)) eqn:E.
  - apply dkey_eqb_spec in E. subst k. unfold deleted_in. rewrite get_doc_kv_on, Hg. cbn.
    eexists. split; [reflexivity|]. eexists. eexists. rewrite sys_only_idem. reflexivity.
  - unfold deleted_in. rewrite kv_on_frame.
    + eexists. split; [exact Hg|]. eexists. eexists. reflexivity.
    + intros ->. rewrite (proj2 (dkey_eqb_spec _ _) eq_refl) in E. discriminate.
Qed.

Lemma expire_keys_del x cid keys k r : forall s acc,
  (deleted_in s (cid, k) r \/ (In k keys /\ get_doc s (cid, k) = Some r)) ->
  deleted_in (fst (expire_keys s x cid keys acc)) (cid, k) r.
Proof.
  induction keys as [|k0 rest IH]; intros s acc H; cbn [expire_keys].
  - destruct H as [H|[[] _]]. exact H.
  - apply IH. destruct H as [H|[[<-|Hin] Hg]].
    + left. apply delete_keeps_del. exact H.
    + left. apply delete_makes_del. exact Hg.
    + destruct (string_dec k k0) as [->|Hne].
      * left. apply delete_makes_del. exact Hg.
      * right. split; [exact Hin|]. rewrite kv_on_frame; [exact Hg | intros E; inversion E; contradiction].
Qed.

Lemma expire_keys_del_other x cid keys k r : forall s acc, deleted_in s k r -> deleted_in (fst (expire_keys s x cid keys acc)) k r.
Proof.
  induction keys as [|k0 rest IH]; intros s acc H; cbn [expire_keys]; [exact H|]. apply IH. apply delete_keeps_del. exact H.
Qed.

Lemma expire_colls_del x cids k r : forall s acc, tables_ok s ->
  (deleted_in s k r \/ (In (fst k) cids /\ get_doc s k = Some r /\ due (x_now x) r)) ->
  deleted_in (fst (expire_colls s x cids acc)) k r.
Proof.
  induction cids as [|cid rest IH]; intros s acc Hs H; cbn [expire_colls].
  - destruct H as [H|[[] _]]. exact H.
  - pose proof (expire_keys_tables x cid (due_keys s cid (x_now x)) s acc) as T.
    pose proof (expire_keys_spec x cid (due_keys s cid (x_now x)) s acc) as K. cbv zeta in K.
    pose proof (fun kk rr => expire_keys_del x cid (due_keys s cid (x_now x)) kk rr s acc) as D.
    pose proof (fun kk rr => expire_keys_del_other x cid (due_keys s cid (x_now x)) kk rr s acc) as D2.
    destruct (expire_keys s x cid (due_keys s cid (x_now x)) acc) as [s1 acc1] eqn:E1. cbn [fst snd] in *.
    destruct K as (K1 & _).
    assert (tables_ok s1) as Hs1.
    { destruct (in_dec N.eq_dec cid (coll_ids s)) as [Hin|Hnot].
      - apply (proj1 (T Hin Hs)).
      - assert (due_keys s cid (x_now x) = []) as Hd.
        { destruct (due_keys s cid (x_now x)) as [|k1 l] eqn:Ed; [reflexivity|]. exfalso.
          assert (In k1 (due_keys s cid (x_now x))) as Hk by (rewrite Ed; left; reflexivity).
          apply due_keys_In in Hk. destruct Hk as (r1 & Hin & _). apply Hnot. exact (t_doc_cids s Hs _ Hin). }
        rewrite Hd in E1. cbn in E1. inversion E1; subst. exact Hs. }
    apply IH; [exact Hs1|]. destruct k as [c kk]. cbn [fst] in *. destruct H as [H|[[<-|Hin] [Hg Hd]]].
    + left. apply D2. exact H.
    + left. apply D. right. split; [|exact Hg]. apply due_keys_In. exists r. split; [|exact Hd].
      unfold get_doc in Hg. apply (alookup_In dkey_eqb dkey_eqb_spec) in Hg. exact Hg.
    + destruct (N.eq_dec c cid) as [->|Hne].
      * left. apply D. right. split; [|exact Hg]. apply due_keys_In. exists r. split; [|exact Hd].
        unfold get_doc in Hg. apply (alookup_In dkey_eqb dkey_eqb_spec) in Hg. exact Hg.
      * right. split; [exact Hin|]. split; [|exact Hd]. rewrite K1; [exact Hg | left; exact Hne].
Qed.

(* the rule of C05 for a removal does not look at the CAS or the revision the removal got *)




(* ------------------------------------------------------------------------------------------ *)
(* The general statement: a firing removes each due document exactly once - the row it leaves and the events
   posted for it are those of one Delete - so EVERY sound row checker's rule for Delete holds of it.        *)

Lemma insert_exp_perm d l : Permutation (insert_by_exp d l) (d :: l).
Proof.
  induction l as [|d' r IH]; cbn; [apply Permutation_refl|].
  destruct (r_exp (snd d) <? r_exp (snd d')); [apply Permutation_refl|].
  apply perm_trans with (d' :: d :: r); [apply perm_skip; exact IH | apply perm_swap].
Qed.

Lemma fold_insert_exp_perm l : forall acc, Permutation (fold_left (fun a d => insert_by_exp d a) l acc) (l ++ acc).
Proof.
  induction l as [|d r IH]; intros acc; cbn [fold_left app]; [apply Permutation_refl|].
  apply perm_trans with (r ++ insert_by_exp d acc); [apply IH|].
  apply perm_trans with (r ++ d :: acc); [apply Permutation_app_head; apply insert_exp_perm|].
  apply Permutation_sym. apply Permutation_middle.
Qed.

Lemma nodup_second (cid : N) (l : list (dkey * row)) :
  NoDup (map fst l) -> (forall d, In d l -> fst (fst d) = cid) -> NoDup (map (fun d => snd (fst d)) l).
Proof.
  induction l as [|d r IH]; cbn; intros Hnd Hc; [constructor|]. inversion Hnd as [|? ? Hn Hr]; subst.
  constructor; [|apply IH; [exact Hr | intros d' Hd'; apply Hc; right; exact Hd']].
  intros Hin. apply in_map_iff in Hin. destruct Hin as (d' & He & Hd'). apply Hn. apply in_map_iff. exists d'. split; [|exact Hd'].
  destruct d as [[c k] rr], d' as [[c' k'] rr']. cbn in *. pose proof (Hc _ (or_introl eq_refl)) as H1. pose proof (Hc _ (or_intror Hd')) as H2.
  cbn in H1, H2. subst. reflexivity.
Qed.

Lemma nodup_map_filter {A B} (f : A -> B) (P : A -> bool) l : NoDup (map f l) -> NoDup (map f (filter P l)).
Proof.
  induction l as [|a r IH]; cbn; intros H; [constructor|]. inversion H as [|? ? Hn Hr]; subst.
  destruct (P a); cbn; [|apply IH; exact Hr]. constructor; [|apply IH; exact Hr].
  intros Hin. apply Hn. apply in_map_iff in Hin. destruct Hin as (x & <- & Hx). apply filter_In in Hx. apply in_map. apply Hx.
Qed.

Lemma due_keys_nodup s cid now : tables_ok s -> NoDup (due_keys s cid now).
Proof.
  intros Ht. unfold due_keys.
  cbv zeta. set (due := filter (fun d : dkey * row => (fst (fst d) =? cid) && (0 <? r_exp (snd d)) && (r_exp (snd d) <=? now)) (s_docs s)).
  apply (Permutation_NoDup (l := map (fun d : dkey * row => snd (fst d)) due)).
  - apply Permutation_map. apply Permutation_sym. pose proof (fold_insert_exp_perm due []) as P. rewrite app_nil_r in P. exact P.
  - apply (nodup_second cid).
    + apply nodup_map_filter. exact (t_docs_nodup s Ht).
    + intros d Hd. apply filter_In in Hd. destruct Hd as [_ Hq].
      apply andb_true_iff in Hq. destruct Hq as [Hq _]. apply andb_true_iff in Hq. destruct Hq as [Hq _]. apply N.eqb_eq in Hq. exact Hq.
Qed.

(* ---- collection ids are positive (the id events carry is the row id minus one) ---- *)
Definition ids_pos (s : store) : Prop := 1 <= s_nextcoll s /\ forall id, In id (coll_ids s) -> 1 <= id.

Lemma ids_pos0 : ids_pos store0.
Proof. split; [apply N.leb_le; reflexivity | intros id Hin; cbn in Hin; destruct Hin as [<-|[]]; apply N.leb_le; reflexivity]. Qed.

Lemma kv_on_nextcoll s x cid key op : s_nextcoll (sr_store (kv_on s x cid key op)) = s_nextcoll s.
Proof. reflexivity. Qed.

Lemma expire_keys_ids x cid keys : forall s acc,
  coll_ids (fst (expire_keys s x cid keys acc)) = coll_ids s /\ s_nextcoll (fst (expire_keys s x cid keys acc)) = s_nextcoll s.
Proof.
  induction keys as [|k r IH]; intros s acc; cbn [expire_keys]; [split; reflexivity|].
  destruct (IH (sr_store (kv_on s x cid k KDelete)) (acc ++ sr_events (kv_on s x cid k KDelete))) as [A B].
  rewrite A, B, kv_on_ids. split; reflexivity.
Qed.

Lemma expire_colls_ids x cids : forall s acc,
  coll_ids (fst (expire_colls s x cids acc)) = coll_ids s /\ s_nextcoll (fst (expire_colls s x cids acc)) = s_nextcoll s.
Proof.
  induction cids as [|cid r IH]; intros s acc; cbn [expire_colls]; [split; reflexivity|].
  pose proof (expire_keys_ids x cid (due_keys s cid (x_now x)) s acc) as [A B].
  destruct (expire_keys s x cid (due_keys s cid (x_now x)) acc) as [s1 acc1]. cbn [fst] in *.
  destruct (IH s1 acc1) as [C D]. rewrite C, D, A, B. split; reflexivity.
Qed.

Lemma expire_keys_chk_ids x cid keys : forall s acc,
  coll_ids (fst (expire_keys_chk s x cid keys acc)) = coll_ids s /\ s_nextcoll (fst (expire_keys_chk s x cid keys acc)) = s_nextcoll s.
Proof.
  induction keys as [|k r IH]; intros s acc; cbn [expire_keys_chk]; [split; reflexivity|].
  destruct (is_due (get_doc s (cid, k)) (x_now x)).
  - destruct (IH (sr_store (kv_on s x cid k KDelete)) (acc ++ sr_events (kv_on s x cid k KDelete))) as [A B].
    rewrite A, B, kv_on_ids, kv_on_nextcoll. split; reflexivity.
  - destruct (IH (burn s x) acc) as [A B]. rewrite A, B. split; reflexivity.
Qed.

Lemma sstep_ids_pos s x o : ids_pos s -> ids_pos (sr_store (sstep s x o)).
Proof.
  intros [Hn Hp]. destruct o; cbn [sstep].
  - destruct (coll_id s coll); [|split; assumption]. split; [exact Hn | rewrite kv_on_ids; exact Hp].
  - split; assumption.
  - destruct (coll_id s name); [split; assumption|]. unfold create_coll, ids_pos, coll_ids; cbn [fst sr_store s_nextcoll s_colls]. split; [lia|].
    intros id Hin. rewrite map_app in Hin. apply in_app_iff in Hin. destruct Hin as [Hin|[<-|[]]]; [apply Hp; exact Hin | exact Hn].
  - destruct (String.eqb name default_coll); [split; assumption|]. destruct (coll_id s name); [|split; assumption].
    unfold ids_pos, coll_ids; cbn [sr_store s_nextcoll s_colls]. split; [exact Hn|].
    intros id Hin. apply in_map_iff in Hin. destruct Hin as (c & <- & Hc). apply filter_In in Hc. apply Hp. apply in_map. apply Hc.
  - destruct (coll_id s coll); split; assumption.
  - split; assumption.
  - destruct (coll_id s coll); split; assumption.
  - destruct (coll_id s coll); [|split; assumption]. destruct (same_ddoc _ _ _ _); split; assumption.
  - destruct (coll_id s coll); [|split; assumption]. destruct (existsb _ _); split; assumption.
  - destruct (coll_id s coll); [|split; assumption]. destruct (filter _ _); split; assumption.
  - pose proof (expire_colls_ids x (map fst (s_colls s)) s []) as [A B].
    destruct (expire_colls s x (map fst (s_colls s)) []) as [s' evs]. cbn [fst sr_store] in *. split; [rewrite B; exact Hn | rewrite A; exact Hp].
  - destruct (coll_id s coll); split; assumption.
  - destruct (coll_id s coll); split; assumption.
  - split; assumption.
  - destruct (coll_id s wc); [|split; assumption].
    pose proof (expire_colls_ids x (ids_before (s_colls s) wc) s []) as [A B].
    destruct (expire_colls s x (ids_before (s_colls s) wc) []) as [s' evs]. cbn [fst sr_store] in *. split; [rewrite B; exact Hn | rewrite A; exact Hp].
  - destruct (coll_id s wc) as [w|]; [|split; assumption].
    pose proof (expire_keys_chk_ids x w keys s []) as [A1 B1].
    destruct (expire_keys_chk s x w keys []) as [s1 evs1]. cbn [fst] in *.
    pose proof (expire_colls_ids x (ids_after (s_colls s) wc) s1 evs1) as [A B].
    destruct (expire_colls s1 x (ids_after (s_colls s) wc) evs1) as [s2 evs2]. cbn [fst sr_store] in *.
    split; [rewrite B, B1; exact Hn | rewrite A, A1; exact Hp].
Qed.

(* ---- each due document is removed exactly once ---- *)
Definition evs_of (k : dkey) (l : list (N * string * event)) : list (N * string * event) := filter (fun e => dkey_eqb (fst e) k) l.

Lemma evs_of_app k a b : evs_of k (a ++ b) = evs_of k a ++ evs_of k b.
Proof. apply filter_app. Qed.

Lemma dkey_eqb_refl k : dkey_eqb k k = true.
Proof. apply dkey_eqb_spec. reflexivity. Qed.
Lemma dkey_eqb_neq k k' : k <> k' -> dkey_eqb k k' = false.
Proof. intros H. destruct (dkey_eqb k k') eqn:E; [apply dkey_eqb_spec in E; contradiction | reflexivity]. Qed.

Lemma evs_of_kv_on_same s x cid key op : evs_of (cid, key) (sr_events (kv_on s x cid key op)) = sr_events (kv_on s x cid key op).
Proof.
  unfold kv_on; cbv zeta; cbn [sr_events]. unfold evs_of. induction (kr_events _) as [|e r IH]; cbn; [reflexivity|].
  rewrite dkey_eqb_refl. f_equal. exact IH.
Qed.
Lemma evs_of_kv_on_other s x cid key op k' : k' <> (cid, key) -> evs_of k' (sr_events (kv_on s x cid key op)) = [].
Proof.
  intros Hne. unfold kv_on; cbv zeta; cbn [sr_events]. unfold evs_of. induction (kr_events _) as [|e r IH]; cbn; [reflexivity|].
  rewrite dkey_eqb_neq by (intros E; apply Hne; symmetry; exact E). exact IH.
Qed.

Lemma expire_keys_untouched x cid keys k' : forall s acc, (fst k' <> cid \/ ~ In (snd k') keys) ->
  get_doc (fst (expire_keys s x cid keys acc)) k' = get_doc s k'
  /\ evs_of k' (snd (expire_keys s x cid keys acc)) = evs_of k' acc.
Proof.
  induction keys as [|k0 rest IH]; intros s acc H; cbn [expire_keys]; [split; reflexivity|].
  assert (k' <> (cid, k0)) as Hne.
  { intros ->. cbn in H. destruct H as [H|H]; [apply H; reflexivity | apply H; left; reflexivity]. }
  destruct (IH (sr_store (kv_on s x cid k0 KDelete)) (acc ++ sr_events (kv_on s x cid k0 KDelete))) as [A B].
  { destruct H as [H|H]; [left; exact H | right; intros Hin; apply H; right; exact Hin]. }
  rewrite A, B, evs_of_app, evs_of_kv_on_other by exact Hne. rewrite app_nil_r. split; [apply kv_on_frame; exact Hne | reflexivity].
Qed.

Definition del_res (x : sctx) (c1 : N) (r : row) : kres := kstep (mkCtx (x_now x) c1 (x_maxdoc x)) KDelete (Some r).

Lemma expire_keys_exact x cid keys k r : forall s acc, NoDup keys -> In k keys -> get_doc s (cid, k) = Some r ->
  exists c1,
    get_doc (fst (expire_keys s x cid keys acc)) (cid, k) = kr_row (del_res x c1 r)
    /\ evs_of (cid, k) (snd (expire_keys s x cid keys acc)) = evs_of (cid, k) acc ++ map (fun e => (cid, k, e)) (kr_events (del_res x c1 r)).
Proof.
  induction keys as [|k0 rest IH]; intros s acc Hnd Hin Hg; [destruct Hin|]. cbn [expire_keys].
  inversion Hnd as [|? ? Hn Hr]; subst.
  destruct (string_dec k k0) as [->|Hne].
  - exists (hlc_now (s_high s) (x_clock x)).
    destruct (expire_keys_untouched x cid rest (cid, k0) (sr_store (kv_on s x cid k0 KDelete)) (acc ++ sr_events (kv_on s x cid k0 KDelete))) as [A B].
    { right. exact Hn. }
    rewrite A, B, evs_of_app, evs_of_kv_on_same, get_doc_kv_on, Hg. split; [reflexivity|].
    unfold kv_on; cbv zeta; cbn [sr_events]. rewrite Hg. reflexivity.
  - destruct Hin as [E|Hin]; [congruence|].
    destruct (IH (sr_store (kv_on s x cid k0 KDelete)) (acc ++ sr_events (kv_on s x cid k0 KDelete)) Hr Hin) as (c1 & A & B).
    { rewrite kv_on_frame; [exact Hg | intros E; inversion E; contradiction]. }
    exists c1. rewrite A, B, evs_of_app, evs_of_kv_on_other by (intros E; inversion E; contradiction). rewrite app_nil_r. split; reflexivity.
Qed.

Lemma expire_colls_untouched x cids k' : forall s acc, ~ In (fst k') cids ->
  get_doc (fst (expire_colls s x cids acc)) k' = get_doc s k'
  /\ evs_of k' (snd (expire_colls s x cids acc)) = evs_of k' acc.
Proof.
  induction cids as [|cid rest IH]; intros s acc H; cbn [expire_colls]; [split; reflexivity|].
  destruct (expire_keys_untouched x cid (due_keys s cid (x_now x)) k' s acc) as [A B].
  { left. intros E. apply H. left. symmetry. exact E. }
  destruct (expire_keys s x cid (due_keys s cid (x_now x)) acc) as [s1 acc1]. cbn [fst snd] in *.
  destruct (IH s1 acc1) as [C D]. { intros Hin. apply H. right. exact Hin. }
  rewrite C, D, A, B. split; reflexivity.
Qed.

Lemma expire_colls_exact x cids cid k r : forall s acc, tables_ok s -> NoDup cids -> In cid cids ->
  get_doc s (cid, k) = Some r -> due (x_now x) r ->
  exists c1,
    get_doc (fst (expire_colls s x cids acc)) (cid, k) = kr_row (del_res x c1 r)
    /\ evs_of (cid, k) (snd (expire_colls s x cids acc)) = evs_of (cid, k) acc ++ map (fun e => (cid, k, e)) (kr_events (del_res x c1 r)).
Proof.
  induction cids as [|c0 rest IH]; intros s acc Hs Hnd Hin Hg Hd; [destruct Hin|]. cbn [expire_colls].
  inversion Hnd as [|? ? Hn Hr]; subst.
  pose proof (expire_keys_tables x c0 (due_keys s c0 (x_now x)) s acc) as T.
  destruct (N.eq_dec cid c0) as [->|Hne].
  - destruct (expire_keys_exact x c0 (due_keys s c0 (x_now x)) k r s acc (due_keys_nodup s c0 (x_now x) Hs)) as (c1 & A & B).
    { apply due_keys_In. exists r. split; [|exact Hd]. unfold get_doc in Hg. apply (alookup_In dkey_eqb dkey_eqb_spec) in Hg. exact Hg. }
    { exact Hg. }
    destruct (expire_keys s x c0 (due_keys s c0 (x_now x)) acc) as [s1 acc1]. cbn [fst snd] in *.
    destruct (expire_colls_untouched x rest (c0, k) s1 acc1 Hn) as [C D].
    exists c1. rewrite C, D, A, B. split; reflexivity.
  - destruct Hin as [E|Hin]; [congruence|].
    destruct (expire_keys_untouched x c0 (due_keys s c0 (x_now x)) (cid, k) s acc) as [A B]. { left. exact Hne. }
    assert (tables_ok (fst (expire_keys s x c0 (due_keys s c0 (x_now x)) acc))) as Hs1.
    { destruct (in_dec N.eq_dec c0 (coll_ids s)) as [Hc|Hnot]; [apply (proj1 (T Hc Hs))|].
      assert (due_keys s c0 (x_now x) = []) as Hdk.
      { destruct (due_keys s c0 (x_now x)) as [|k1 l] eqn:Ed; [reflexivity|]. exfalso.
        assert (In k1 (due_keys s c0 (x_now x))) as Hk by (rewrite Ed; left; reflexivity).
        apply due_keys_In in Hk. destruct Hk as (r1 & Hi & _). apply Hnot. exact (t_doc_cids s Hs _ Hi). }
      rewrite Hdk. exact Hs. }
    destruct (expire_keys s x c0 (due_keys s c0 (x_now x)) acc) as [s1 acc1]. cbn [fst snd] in *.
    destruct (IH s1 acc1 Hs1 Hr Hin) as (c1 & C & D); [rewrite A; exact Hg | exact Hd|].
    exists c1. rewrite C, D, B. split; reflexivity.
Qed.

(* ---- the events of one document, as the feed shows them ---- *)
Lemma expire_keys_events_in x cid keys : forall s acc e, In e (snd (expire_keys s x cid keys acc)) -> In e acc \/ fst (fst e) = cid.
Proof.
  induction keys as [|k r IH]; intros s acc e H; cbn [expire_keys] in H; [left; exact H|].
  apply IH in H. destruct H as [H|H]; [|right; exact H]. apply in_app_iff in H. destruct H as [H|H]; [left; exact H|].
  right. apply kv_on_events_local in H. rewrite H. reflexivity.
Qed.

Lemma expire_colls_events_in x cids : forall s acc e, In e (snd (expire_colls s x cids acc)) -> In e acc \/ In (fst (fst e)) cids.
Proof.
  induction cids as [|cid r IH]; intros s acc e H; cbn [expire_colls] in H; [left; exact H|].
  pose proof (expire_keys_events_in x cid (due_keys s cid (x_now x)) s acc e) as K.
  destruct (expire_keys s x cid (due_keys s cid (x_now x)) acc) as [s1 acc1]. cbn [snd] in *.
  apply IH in H. destruct H as [H|H]; [|right; right; exact H]. destruct (K H) as [A|A]; [left; exact A | right; left; symmetry; exact A].
Qed.

Lemma filter_feed_events cid k evs : 1 <= cid -> (forall e, In e evs -> 1 <= fst (fst e)) ->
  filter (fun f => String.eqb (f_key f) k && (f_coll f =? cid - 1)) (fevents_of evs) = fevents_of (evs_of (cid, k) evs).
Proof.
  intros Hc Hp. unfold fevents_of, evs_of. induction evs as [|[[c' k'] ev] r IH]; cbn [map filter]; [reflexivity|].
  cbn [fst snd as_feed_event f_key f_coll]. unfold dkey_eqb at 1. cbn [fst snd].
  assert (1 <= c') as Hc' by (apply (Hp (c', k', ev)); left; reflexivity).
  assert ((c' - 1 =? cid - 1) = (c' =? cid)) as ->.
  { destruct (N.eqb_spec c' cid) as [->|Hne]; [apply N.eqb_refl | apply N.eqb_neq; lia]. }
  rewrite andb_comm. destruct ((c' =? cid) && String.eqb k' k); cbn [map]; rewrite IH by (intros e He; apply Hp; right; exact He); reflexivity.
Qed.

(* ---- the removals of an interrupted sweep, exactly ---- *)
Lemma expire_keys_chk_notdue x cid keys k' r : forall s acc, get_doc s k' = Some r -> ~ due (x_now x) r ->
  get_doc (fst (expire_keys_chk s x cid keys acc)) k' = Some r
  /\ evs_of k' (snd (expire_keys_chk s x cid keys acc)) = evs_of k' acc.
Proof.
  induction keys as [|k0 rest IH]; intros s acc Hg Hnd; cbn [expire_keys_chk]; [split; [exact Hg | reflexivity]|].
  destruct (is_due (get_doc s (cid, k0)) (x_now x)) eqn:Ed.
  - assert (k' <> (cid, k0)) as Hne.
    { intros ->. rewrite Hg in Ed. apply is_due_spec in Ed. contradiction. }
    destruct (IH (sr_store (kv_on s x cid k0 KDelete)) (acc ++ sr_events (kv_on s x cid k0 KDelete))) as [A B].
    { rewrite kv_on_frame; [exact Hg | exact Hne]. } { exact Hnd. }
    rewrite A, B, evs_of_app, evs_of_kv_on_other by exact Hne. rewrite app_nil_r. split; reflexivity.
  - exact (IH (burn s x) acc Hg Hnd).
Qed.

Lemma expire_keys_chk_untouched x cid keys k' : forall s acc, (fst k' <> cid \/ ~ In (snd k') keys) ->
  get_doc (fst (expire_keys_chk s x cid keys acc)) k' = get_doc s k'
  /\ evs_of k' (snd (expire_keys_chk s x cid keys acc)) = evs_of k' acc.
Proof.
  induction keys as [|k0 rest IH]; intros s acc H; cbn [expire_keys_chk]; [split; reflexivity|].
  assert (k' <> (cid, k0)) as Hne.
  { intros ->. cbn in H. destruct H as [H|H]; [apply H; reflexivity | apply H; left; reflexivity]. }
  assert (fst k' <> cid \/ ~ In (snd k') rest) as H' by (destruct H as [H|H]; [left; exact H | right; intros Hin; apply H; right; exact Hin]).
  destruct (is_due (get_doc s (cid, k0)) (x_now x)).
  - destruct (IH (sr_store (kv_on s x cid k0 KDelete)) (acc ++ sr_events (kv_on s x cid k0 KDelete)) H') as [A B].
    rewrite A, B, evs_of_app, evs_of_kv_on_other by exact Hne. rewrite app_nil_r. split; [apply kv_on_frame; exact Hne | reflexivity].
  - exact (IH (burn s x) acc H').
Qed.

Lemma del_res_row x c1 r : exists r', kr_row (del_res x c1 r) = Some r' /\ r_exp r' = 0.
Proof. unfold del_res. cbn. eexists. split; reflexivity. Qed.

Lemma expire_keys_chk_exact x cid keys k r : forall s acc, In k keys -> get_doc s (cid, k) = Some r -> due (x_now x) r ->
  exists c1,
    get_doc (fst (expire_keys_chk s x cid keys acc)) (cid, k) = kr_row (del_res x c1 r)
    /\ evs_of (cid, k) (snd (expire_keys_chk s x cid keys acc)) = evs_of (cid, k) acc ++ map (fun e => (cid, k, e)) (kr_events (del_res x c1 r)).
Proof.
  induction keys as [|k0 rest IH]; intros s acc Hin Hg Hd; [destruct Hin|]. cbn [expire_keys_chk].
  destruct (string_dec k k0) as [->|Hne].
  - (* its turn: it is due, it is removed - and whatever comes after finds it without expiry *)
    assert (is_due (get_doc s (cid, k0)) (x_now x) = true) as -> by (rewrite Hg; apply is_due_spec; exact Hd).
    exists (hlc_now (s_high s) (x_clock x)).
    destruct (del_res_row x (hlc_now (s_high s) (x_clock x)) r) as (r' & Hr' & He').
    destruct (expire_keys_chk_notdue x cid rest (cid, k0) r' (sr_store (kv_on s x cid k0 KDelete)) (acc ++ sr_events (kv_on s x cid k0 KDelete))) as [A B].
    { rewrite get_doc_kv_on, Hg. exact Hr'. }
    { unfold due. lia. }
    rewrite A, B, evs_of_app, evs_of_kv_on_same, Hr'. split; [reflexivity|].
    unfold kv_on; cbv zeta; cbn [sr_events]. rewrite Hg. reflexivity.
  - destruct Hin as [E|Hin]; [congruence|].
    assert ((cid, k) <> (cid, k0)) as Hk by (intros E; inversion E; contradiction).
    destruct (is_due (get_doc s (cid, k0)) (x_now x)).
    + destruct (IH (sr_store (kv_on s x cid k0 KDelete)) (acc ++ sr_events (kv_on s x cid k0 KDelete)) Hin) as (c1 & A & B).
      { rewrite kv_on_frame; [exact Hg | exact Hk]. } { exact Hd. }
      exists c1. rewrite A, B, evs_of_app, evs_of_kv_on_other by exact Hk. rewrite app_nil_r. split; reflexivity.
    + exact (IH (burn s x) acc Hin Hg Hd).
Qed.

Lemma expire_keys_chk_events_in x cid keys : forall s acc e, In e (snd (expire_keys_chk s x cid keys acc)) -> In e acc \/ fst (fst e) = cid.
Proof.
  induction keys as [|k r IH]; intros s acc e H; cbn [expire_keys_chk] in H; [left; exact H|].
  destruct (is_due (get_doc s (cid, k)) (x_now x)); [|exact (IH _ _ _ H)].
  apply IH in H. destruct H as [H|H]; [|right; exact H]. apply in_app_iff in H. destruct H as [H|H]; [left; exact H|].
  right. apply kv_on_events_local in H. rewrite H. reflexivity.
Qed.

Lemma NoDup_ids_before cs wc : NoDup (map fst cs) -> NoDup (ids_before cs wc).
Proof.
  induction cs as [|d r IH]; intros H; cbn [ids_before]; [constructor|]. cbn [map] in H. inversion H as [|? ? Hn Hr]; subst.
  destruct (String.eqb (fst (snd d)) wc); [constructor|]. constructor; [|apply IH; exact Hr].
  intros Hin. apply Hn. exact (ids_before_in r wc _ Hin).
Qed.
Lemma NoDup_ids_after cs wc : NoDup (map fst cs) -> NoDup (ids_after cs wc).
Proof.
  induction cs as [|d r IH]; intros H; cbn [ids_after]; [constructor|]. cbn [map] in H. inversion H as [|? ? Hn Hr]; subst.
  destruct (String.eqb (fst (snd d)) wc); [exact Hr | apply IH; exact Hr].
Qed.

(* a document that is due, and that the step of the sweep is about, is removed exactly once: the row it leaves and the
   events posted for it are those of one Delete *)
Lemma sweep_exact s x o k r : tables_ok s -> ids_pos s -> is_sweep o = true ->
  get_doc s k = Some r -> due (x_now x) r -> takes s o k = true ->
  let res := sstep s x o in
  exists c1, get_doc (sr_store res) k = kr_row (del_res x c1 r)
             /\ evs_of k (sr_events res) = map (fun e => (fst k, snd k, e)) (kr_events (del_res x c1 r))
             /\ (forall e, In e (sr_events res) -> 1 <= fst (fst e)).
Proof.
  intros Ht Hpos Ho Hg Hd Htk. destruct k as [cid k]. cbn [fst snd]. cbv zeta.
  assert (In cid (coll_ids s)) as Hcin.
  { unfold get_doc in Hg. apply (alookup_In dkey_eqb dkey_eqb_spec) in Hg. exact (t_doc_cids s Ht _ Hg). }
  destruct o; try discriminate; cbn [sstep takes fst snd] in *.
  - pose proof (expire_colls_exact x (map fst (s_colls s)) cid k r s [] Ht (t_ids_nodup s Ht) Hcin Hg Hd) as (c1 & A & B).
    pose proof (expire_colls_events_in x (map fst (s_colls s)) s []) as Hin.
    destruct (expire_colls s x (map fst (s_colls s)) []) as [s' evs]. cbn [fst snd sr_store sr_events] in *.
    exists c1. split; [exact A | split; [exact B|]]. intros e He. destruct (Hin e He) as [[]|H]. apply (proj2 Hpos). exact H.
  - destruct (coll_id s wc) as [w|] eqn:Ew; cbn [is_some andb] in Htk; [|discriminate]. apply existsb_N_In in Htk.
    pose proof (expire_colls_exact x (ids_before (s_colls s) wc) cid k r s [] Ht (NoDup_ids_before _ wc (t_ids_nodup s Ht)) Htk Hg Hd) as (c1 & A & B).
    pose proof (expire_colls_events_in x (ids_before (s_colls s) wc) s []) as Hin.
    destruct (expire_colls s x (ids_before (s_colls s) wc) []) as [s' evs]. cbn [fst snd sr_store sr_events] in *.
    exists c1. split; [exact A | split; [exact B|]]. intros e He. destruct (Hin e He) as [[]|H]. apply (proj2 Hpos). exact (ids_before_in _ _ _ H).
  - destruct (coll_id s wc) as [w|] eqn:Ew; [|discriminate].
    destruct (coll_id_entry s wc w Ew) as (lcw & Hinw).
    pose proof (ids_after_not_self (s_colls s) wc w lcw (t_ids_nodup s Ht) (t_names_nodup s Ht) Hinw) as Hself.
    pose proof (coll_id_in_ids _ _ _ Ew) as Hwin.
    destruct (expire_keys_chk_tables x w keys s [] Hwin Ht) as [Ht1 _].
    pose proof (expire_keys_chk_events_in x w keys s []) as Hin1.
    apply orb_true_iff in Htk. destruct Htk as [Htk|Htk].
    + apply andb_true_iff in Htk. destruct Htk as [Hc Hk]. apply N.eqb_eq in Hc. subst cid. apply existsb_str_In in Hk.
      destruct (expire_keys_chk_exact x w keys k r s [] Hk Hg Hd) as (c1 & A & B).
      destruct (expire_keys_chk s x w keys []) as [s1 evs1]. cbn [fst snd] in *.
      destruct (expire_colls_untouched x (ids_after (s_colls s) wc) (w, k) s1 evs1 Hself) as [C D].
      pose proof (expire_colls_events_in x (ids_after (s_colls s) wc) s1 evs1) as Hin2.
      destruct (expire_colls s1 x (ids_after (s_colls s) wc) evs1) as [s2 evs2]. cbn [fst snd sr_store sr_events] in *.
      exists c1. rewrite C, D, A, B. split; [reflexivity | split; [reflexivity|]].
      intros e He. destruct (Hin2 e He) as [H|H]; [destruct (Hin1 e H) as [[]|H']; rewrite H'; exact (proj2 Hpos w Hwin) | exact (proj2 Hpos _ (ids_after_in _ _ _ H))].
    + apply existsb_N_In in Htk. assert (cid <> w) as Hne by (intros ->; exact (Hself Htk)).
      destruct (expire_keys_chk_untouched x w keys (cid, k) s [] (or_introl Hne)) as [A B].
      destruct (expire_keys_chk s x w keys []) as [s1 evs1]. cbn [fst snd] in *.
      destruct (expire_colls_exact x (ids_after (s_colls s) wc) cid k r s1 evs1 Ht1 (NoDup_ids_after _ wc (t_ids_nodup s Ht)) Htk) as (c1 & C & D);
        [rewrite A; exact Hg | exact Hd|].
      pose proof (expire_colls_events_in x (ids_after (s_colls s) wc) s1 evs1) as Hin2.
      destruct (expire_colls s1 x (ids_after (s_colls s) wc) evs1) as [s2 evs2]. cbn [fst snd sr_store sr_events] in *.
      exists c1. rewrite C, D, B. split; [reflexivity | split; [reflexivity|]].
      intros e He. destruct (Hin2 e He) as [H|H]; [destruct (Hin1 e H) as [[]|H']; rewrite H'; exact (proj2 Hpos w Hwin) | exact (proj2 Hpos _ (ids_after_in _ _ _ H))].
Qed.

Lemma expiry_step_sound rc : rc_sound rc -> forall s n x o colls keys xn, store_ok s -> tables_ok s -> wf_sop o -> ids_pos s ->
  let res := sstep s x o in
  let n' := next_after n s o res in
  chk_step_expiry rc (with_next (snap s colls keys xn) n) x o
    (mkOstep (sr_resp res) (fevents_of (sr_events res)) (sr_dump res) (with_next (snap (sr_store res) colls keys xn) n')) = true
  /\ ids_pos (sr_store res).
Proof.
  intros Hrc s n x o colls keys xn Hs Ht Hwf Hpos. cbv zeta. split; [|apply sstep_ids_pos; exact Hpos].
  destruct (is_sweep o) eqn:Ho; [|destruct o; try reflexivity; discriminate].
  assert (chk_step_expiry rc (with_next (snap s colls keys xn) n) x o
            (mkOstep (sr_resp (sstep s x o)) (fevents_of (sr_events (sstep s x o))) (sr_dump (sstep s x o))
                     (with_next (snap (sr_store (sstep s x o)) colls keys xn) (next_after n s o (sstep s x o))))
          = forallb (fun e =>
                 let e0 := row_exp (snd e) in
                 if (0 <? e0) && (e0 <=? x_now x) && sweep_takes (coll_names s) o (fst (fst e)) (snd (fst e)) then
                   match look (fst e) (sn_rows (snap (sr_store (sstep s x o)) colls keys xn)) with
                   | Some o1 =>
                       let cid := coll_of_obs o1 0 in
                       rc (snd (fst e)) cid x KDelete (view_of_obs (snd e)) ROk
                          (filter (fun f => String.eqb (f_key f) (snd (fst e)) && (f_coll f =? cid)) (fevents_of (sr_events (sstep s x o))))
                          (view_of_obs o1)
                   | None => true
                   end
                 else true) (sn_rows (snap s colls keys xn))) as ->.
  { unfold chk_step_expiry. cbn [os_snap os_live with_next sn_rows sn_colls]. rewrite snap_colls. destruct o; try discriminate; reflexivity. }
  destruct (sweep_correct s x o Ht Ho) as (_ & _ & _ & Hid). cbv zeta in Hid.
  apply forallb_forall. intros e He.
  destruct e as [[c k] ob]. cbn [fst snd] in *.
  apply In_snap_rows in He. cbn [fst snd] in He. destruct He as (cid & Ec & ->).
  rewrite row_exp_obs, (sweep_takes_takes s o c cid k Ht Ec).
  destruct (get_doc s (cid, k)) as [r0|] eqn:Eg; [|reflexivity].
  destruct ((0 <? r_exp r0) && (r_exp r0 <=? x_now x)) eqn:Ed; [|reflexivity].
  destruct (takes s o (cid, k)) eqn:Etk; [|reflexivity]. cbn [andb].
  apply andb_true_iff in Ed. destruct Ed as [E1 E2]. apply N.ltb_lt in E1. apply N.leb_le in E2.
  destruct (look (c, k) (sn_rows (snap (sr_store (sstep s x o)) colls keys xn))) as [o1|] eqn:El; [|reflexivity].
  apply look_snap in El. destruct El as (cid' & Ec' & ->). rewrite Hid, Ec in Ec'. inversion Ec'; subst cid'.
  pose proof (coll_id_in_ids s c cid Ec) as Hcin.
  destruct (sweep_exact s x o (cid, k) r0 Ht Hpos Ho Eg (conj E1 E2) Etk) as (c1 & Hg' & Hev & Hevpos). cbv zeta in Hg', Hev, Hevpos. cbn [fst snd] in Hev.
  rewrite Hg'. rewrite !view_of_obs_of, coll_of_obs_of.
  unfold del_res in *. cbn [kstep do_remove with_resp kr_row] in Hg' |- *.
  rewrite (filter_feed_events cid k _ (proj2 Hpos cid Hcin) Hevpos), Hev.
  destruct (get_doc_orow_ok s (cid, k) Hs) as [Ho' Hc]. rewrite Eg in Ho', Hc.
  pose proof (Hrc k (cid - 1) x c1 KDelete (Some r0) I Ho' Hc) as H. cbv zeta in H.
  cbn [kstep do_remove with_resp kr_row kr_resp kr_events option_map] in H |- *.
  unfold fevents_of. rewrite map_map. cbn [fst snd]. exact H.
Qed.

Theorem expiry_sound rc : rc_sound rc -> forall c, wf_case c -> chk_expiry_kv rc (c, srun c) = true.
Proof.
  intros Hrc c Hwf. unfold chk_expiry_kv, snap0, srun. cbn [fst snd].
  apply (walk_sound_inv (chk_step_expiry rc) (fun s _ => ids_pos s) (expiry_step_sound rc Hrc) c (sc_steps c) store0 0 store0_ok store0_tables_ok Hwf ids_pos0).
Qed.

Theorem C05_expiry_sound c : wf_case c -> chk_expiry_kv chk_row_C05 (c, srun c) = true.
Proof. exact (expiry_sound chk_row_C05 C05_row_sound c). Qed.
