(* KvExpiry.v - removal by expiry is a removal: what the row checker of C05 says of Delete holds of every
   document that a firing of the expiry timer removes, in every history of the model.               *)
From Rosmar Require Import Base Json Crc Hlc Kv Store Trace KvTac KvLift KvFrame KvC05 ExpProofs KvC14Trace.

Lemma sys_only_idem x : xattrs_system_only (xattrs_system_only x) = xattrs_system_only x.
Proof.
  destruct x as [| |m]; try reflexivity. cbn [xattrs_system_only].
  destruct (filter (fun kv => is_system_name (fst kv)) m) as [|p l] eqn:E; [reflexivity|].
  cbn [xattrs_system_only]. 
  assert (filter (fun kv : string * string => is_system_name (fst kv)) (p :: l) = p :: l) as ->; [|reflexivity].
  rewrite <- E. clear. induction m as [|a r IH]; cbn; [reflexivity|].
  destruct (is_system_name (fst a)) eqn:Ea; cbn; [rewrite Ea, IH; reflexivity | exact IH].
Qed.

(* r' is what Delete leaves of r (whatever CAS and revision it got, however many times it was applied) *)
Definition del_of (r r' : row) : Prop :=
  exists c rv, r' = new_row None false c 0 (xattrs_system_only (r_xattrs r)) true rv.

Definition deleted_in (s : store) (k : dkey) (r : row) : Prop := exists r', get_doc s k = Some r' /\ del_of r r'.

Lemma delete_makes_del s x cid key r : get_doc s (cid, key) = Some r ->
  deleted_in (sr_store (kv_on s x cid key KDelete)) (cid, key) r.
Proof.
  intros Hg. unfold deleted_in. rewrite get_doc_kv_on, Hg. cbn. eexists. split; [reflexivity|]. eexists. eexists. reflexivity.
Qed.

Lemma delete_keeps_del s x cid k2 k r : deleted_in s k r -> deleted_in (sr_store (kv_on s x cid k2 KDelete)) k r.
Proof.
  intros (r' & Hg & c & rv & ->). destruct (dkey_eqb k (cid, k2)) eqn:E.
  - apply dkey_eqb_spec in E. subst k. unfold deleted_in. rewrite get_doc_kv_on, Hg. cbn.
    eexists. split; [reflexivity|]. eexists. eexists. rewrite sys_only_idem. reflexivity.
  - unfold deleted_in. rewrite kv_on_frame.
    + eexists. split; [exact Hg|]. eexists. eexists. reflexivity.
    + intros ->. rewrite (proj2 (dkey_eqb_spec _ _) eq_refl) in E. discriminate.
Qed.

Lemma expire_keys_del x cid keys k r : forall s acc,
  (deleted_in s (cid, k) r \/ (In k keys /\ get_doc s (cid, k) = Some r)) ->
  deleted_in (fst (expire_keys s x cid keys acc)) (cid, k) r.
Proof.
  induction keys as [|k0 rest IH]; intros s acc H; cbn [expire_keys].
  - destruct H as [H|[[] _]]. exact H.
  - apply IH. destruct H as [H|[[<-|Hin] Hg]].
    + left. apply delete_keeps_del. exact H.
    + left. apply delete_makes_del. exact Hg.
    + destruct (string_dec k k0) as [->|Hne].
      * left. apply delete_makes_del. exact Hg.
      * right. split; [exact Hin|]. rewrite kv_on_frame; [exact Hg | intros E; inversion E; contradiction].
Qed.

Lemma expire_keys_del_other x cid keys k r : forall s acc, deleted_in s k r -> deleted_in (fst (expire_keys s x cid keys acc)) k r.
Proof.
  induction keys as [|k0 rest IH]; intros s acc H; cbn [expire_keys]; [exact H|]. apply IH. apply delete_keeps_del. exact H.
Qed.

Lemma expire_colls_del x cids k r : forall s acc, tables_ok s ->
  (deleted_in s k r \/ (In (fst k) cids /\ get_doc s k = Some r /\ due (x_now x) r)) ->
  deleted_in (fst (expire_colls s x cids acc)) k r.
Proof.
  induction cids as [|cid rest IH]; intros s acc Hs H; cbn [expire_colls].
  - destruct H as [H|[[] _]]. exact H.
  - pose proof (expire_keys_tables x cid (due_keys s cid (x_now x)) s acc) as T.
    pose proof (expire_keys_spec x cid (due_keys s cid (x_now x)) s acc) as K. cbv zeta in K.
    pose proof (fun kk rr => expire_keys_del x cid (due_keys s cid (x_now x)) kk rr s acc) as D.
    pose proof (fun kk rr => expire_keys_del_other x cid (due_keys s cid (x_now x)) kk rr s acc) as D2.
    destruct (expire_keys s x cid (due_keys s cid (x_now x)) acc) as [s1 acc1] eqn:E1. cbn [fst snd] in *.
    destruct K as (K1 & _).
    assert (tables_ok s1) as Hs1.
    { destruct (in_dec N.eq_dec cid (coll_ids s)) as [Hin|Hnot].
      - apply (proj1 (T Hin Hs)).
      - assert (due_keys s cid (x_now x) = []) as Hd.
        { destruct (due_keys s cid (x_now x)) as [|k1 l] eqn:Ed; [reflexivity|]. exfalso.
          assert (In k1 (due_keys s cid (x_now x))) as Hk by (rewrite Ed; left; reflexivity).
          apply due_keys_In in Hk. destruct Hk as (r1 & Hin & _). apply Hnot. exact (t_doc_cids s Hs _ Hin). }
        rewrite Hd in E1. cbn in E1. inversion E1; subst. exact Hs. }
    apply IH; [exact Hs1|]. destruct k as [c kk]. cbn [fst] in *. destruct H as [H|[[<-|Hin] [Hg Hd]]].
    + left. apply D2. exact H.
    + left. apply D. right. split; [|exact Hg]. apply due_keys_In. exists r. split; [|exact Hd].
      unfold get_doc in Hg. apply (alookup_In dkey_eqb dkey_eqb_spec) in Hg. exact Hg.
    + destruct (N.eq_dec c cid) as [->|Hne].
      * left. apply D. right. split; [|exact Hg]. apply due_keys_In. exists r. split; [|exact Hd].
        unfold get_doc in Hg. apply (alookup_In dkey_eqb dkey_eqb_spec) in Hg. exact Hg.
      * right. split; [exact Hin|]. split; [|exact Hd]. rewrite K1; [exact Hg | left; exact Hne].
Qed.

(* the rule of C05 for a removal does not look at the CAS or the revision the removal got *)
Lemma c05_delete_rule key pc x r c rv evs :
  orow_ok (Some r) -> ocas_ok (Some r) ->
  chk_row_C05 key pc x KDelete (Some (view_of_row r)) ROk evs
    (Some (view_of_row (new_row None false c 0 (xattrs_system_only (r_xattrs r)) true rv))) = true.
Proof.
  intros Ho Hc.
  pose proof (C05_row_sound key pc x c KDelete (Some r) I Ho Hc) as H. cbv zeta in H.
  cbn [kstep do_remove with_resp kr_row kr_resp kr_events option_map] in H.
  unfold chk_row_C05 in *. cbn [view_of_row new_row r_value r_cas r_exp r_xattrs r_rev r_isJSON r_tomb v_del v_body v_exp v_xattrs] in *.
  exact H.
Qed.

Lemma expiry_step_sound_C05 s x o colls keys xn n0 n1 : store_ok s -> tables_ok s -> wf_sop o ->
  let res := sstep s x o in
  chk_step_expiry chk_row_C05 (with_next (snap s colls keys xn) n0) x o
    (mkOstep (sr_resp res) (fevents_of (sr_events res)) (sr_dump res) (with_next (snap (sr_store res) colls keys xn) n1)) = true.
Proof.
  intros Hs Ht Hwf. cbv zeta. destruct o; try reflexivity.
  destruct (expire_step_facts s x Ht) as [Hid Habs]. cbv zeta in *.
  unfold chk_step_expiry. cbn [os_snap os_live with_next sn_rows].
  apply forallb_forall. intros e He.
  destruct e as [[c k] ob]. cbn [fst snd] in *.
  apply In_snap_rows in He. cbn [fst snd] in He. destruct He as (cid & Ec & ->).
  rewrite row_exp_obs.
  destruct (get_doc s (cid, k)) as [r0|] eqn:Eg; [|reflexivity].
  destruct ((0 <? r_exp r0) && (r_exp r0 <=? x_now x)) eqn:Ed; [|reflexivity].
  apply andb_true_iff in Ed. destruct Ed as [E1 E2]. apply N.ltb_lt in E1. apply N.leb_le in E2.
  destruct (look (c, k) (sn_rows (snap (sr_store (sstep s x SExpire)) colls keys xn))) as [o1|] eqn:El; [|reflexivity].
  apply look_snap in El. destruct El as (cid' & Ec' & ->). rewrite Hid, Ec in Ec'. inversion Ec'; subst cid'.
  assert (deleted_in (sr_store (sstep s x SExpire)) (cid, k) r0) as (r' & Hg' & cc & rv & ->).
  { cbn [sstep]. pose proof (expire_colls_del x (map fst (s_colls s)) (cid, k) r0 s [] Ht) as D.
    destruct (expire_colls s x (map fst (s_colls s)) []) as [s' evs]. cbn [fst sr_store] in *. apply D.
    right. split; [exact (coll_id_in_ids s c cid Ec) | split; [exact Eg | split; assumption]]. }
  rewrite Hg'. rewrite !view_of_obs_of. cbn [option_map].
  destruct (get_doc_orow_ok s (cid, k) Hs) as [Ho Hc]. rewrite Eg in Ho, Hc.
  apply c05_delete_rule; assumption.
Qed.

Theorem C05_expiry_sound c : wf_case c -> chk_expiry_kv chk_row_C05 (c, srun c) = true.
Proof.
  intros Hwf. unfold chk_expiry_kv, snap0, srun. cbn [fst snd].
  apply (walk_sound_gen (chk_step_expiry chk_row_C05) expiry_step_sound_C05 c (sc_steps c) store0 0 store0_ok store0_tables_ok Hwf).
Qed.
