(* HlcProofs.v — proofs about Hlc.v (C04). *)
From Rosmar Require Import Base Hlc.

Lemma hlc_now_gt h p : h < hlc_now h p.
Proof. unfold hlc_now; cbv zeta. destruct (N.leb_spec (mask48 p) h); lia. Qed.

Lemma hlc_update_ge_l h t : h <= hlc_update h t.
Proof. unfold hlc_update. destruct (N.ltb_spec h t); lia. Qed.

Lemma hlc_update_ge_r h t : t <= hlc_update h t.
Proof. unfold hlc_update. destruct (N.ltb_spec h t); lia. Qed.

(* The timestamps handed out for ANY list of physical readings are strictly increasing and all
   exceed the starting state. *)
Lemma hlc_draws_spec ps : forall h,
  let '(l, h') := hlc_draws h ps in
  strictly_increasing l = true /\ all_lt (h + 1) (map (fun x => h) l) = true /\
  (forall t, In t l -> h < t) /\ h <= h' /\ (forall t, In t l -> t <= h').
Proof.
  induction ps as [|p r IH]; intros h; cbn [hlc_draws].
  - cbn. repeat split; try lia; intros t [].
  - specialize (IH (hlc_now h p)). destruct (hlc_draws (hlc_now h p) r) as [l h'] eqn:E.
    destruct IH as (Hinc & _ & Hgt & Hle & Hmax).
    pose proof (hlc_now_gt h p) as Hn.
    repeat split.
    + cbn [strictly_increasing]. destruct l as [|y l']; [reflexivity|].
      rewrite Hinc, andb_true_r. apply N.ltb_lt. apply Hgt. now left.
    + apply all_lt_spec. intros y Hy. apply in_map_iff in Hy. destruct Hy as (? & <- & _). lia.
    + intros t [<-|Ht]; [exact Hn | specialize (Hgt t Ht); lia].
    + lia.
    + intros t [<-|Ht]; [lia | auto].
Qed.

Theorem hlc_strict : forall h ps, strictly_increasing (fst (hlc_draws h ps)) = true.
Proof. intros h ps. pose proof (hlc_draws_spec ps h) as H. destruct (hlc_draws h ps). apply H. Qed.

Theorem hlc_above_seed : forall h ps t, In t (fst (hlc_draws h ps)) -> h < t.
Proof. intros h ps t. pose proof (hlc_draws_spec ps h) as H. destruct (hlc_draws h ps). apply H. Qed.

(* uint64: as long as the state stays below 2^64-1 and readings fit in 64 bits, the unbounded model
   IS the machine arithmetic. *)
Lemma mask48_div p : mask48 p = (p / 65536) * 65536.
Proof.
  unfold mask48. change 65535 with (N.ones 16).
  rewrite N.ldiff_ones_r, N.shiftl_mul_pow2, N.shiftr_div_pow2. reflexivity.
Qed.

Lemma mask48_le p : mask48 p <= p.
Proof. rewrite mask48_div. pose proof (N.div_mod p 65536). lia. Qed.

Theorem hlc_no_wrap h p : h < two64 - 1 -> p < two64 -> hlc_now64 h p = hlc_now h p.
Proof.
  intros Hh Hp. unfold hlc_now64, hlc_now; cbv zeta.
  rewrite (N.mod_small p two64) by exact Hp.
  destruct (N.leb_spec (mask48 p) h); [|reflexivity].
  apply N.mod_small. unfold two64 in *. lia.
Qed.

(* ------------------------------------------------------------------------------------------ *)

Definition Inv (s : proc) (st : option N * list (string * N)) : Prop :=
  let '(run_max, commits) := st in
  (forall m, run_max = Some m -> m <= p_high s) /\
  (forall b m, alookup String.eqb b commits = Some m -> m <= persisted b s) /\
  (forall b, is_open b s = true -> persisted b s <= p_high s).

Lemma is_open_filter b x l :
  existsb (String.eqb b) (filter (fun y => negb (String.eqb x y)) l) = true ->
  existsb (String.eqb b) l = true.
Proof.
  induction l as [|a r IH]; cbn; [auto|].
  destruct (String.eqb x a) eqn:E; cbn.
  - intros H. rewrite (IH H). apply orb_true_r.
  - destruct (String.eqb b a); cbn; auto.
Qed.

Lemma persisted_unfold b s :
  persisted b s = match alookup String.eqb b (p_persist s) with Some c => c | None => 0 end.
Proof. reflexivity. Qed.

Lemma cstep_inv s st o :
  Inv s st ->
  let '(s', evs) := cstep s o in
  match evs with
  | [] => Inv s' st
  | [e] => exists st', chk_cas_step st e = Some st' /\ Inv s' st'
  | _ => False
  end.
Proof.
  destruct st as [run_max commits]. intros (Hrun & Hcom & Hopen).
  destruct o as [b p commit | b | b | b | ]; cbn [cstep].
  - destruct (is_open b s) eqn:Eo; [|repeat split; auto].
    pose proof (hlc_now_gt (p_high s) p) as Hgt.
    set (t := hlc_now (p_high s) p) in *.
    cbn [chk_cas_step].
    assert (Hr : match run_max with Some m => m <? t | None => true end = true).
    { destruct run_max as [m|]; [|reflexivity]. apply N.ltb_lt. specialize (Hrun m eq_refl). lia. }
    assert (Hb : match alookup String.eqb b commits with Some m => m <? t | None => true end = true).
    { destruct (alookup String.eqb b commits) as [m|] eqn:El; [|reflexivity].
      apply N.ltb_lt. specialize (Hcom b m El). specialize (Hopen b Eo). lia. }
    rewrite Hr, Hb. cbn [andb]. eexists; split; [reflexivity|].
    destruct commit.
    + repeat split.
      * intros m Hm; inversion Hm; subst; cbn; lia.
      * intros b' m Hl. rewrite persisted_unfold; cbn [p_persist].
        destruct (String.eqb_spec b' b) as [->|Hne].
        -- rewrite (alookup_aset_same String.eqb String.eqb_eq) in Hl. inversion Hl; subst.
           rewrite (alookup_aset_same String.eqb String.eqb_eq). lia.
        -- rewrite (alookup_aset_other String.eqb String.eqb_eq) in Hl by exact Hne.
           rewrite (alookup_aset_other String.eqb String.eqb_eq) by exact Hne.
           apply (Hcom b' m Hl).
      * intros b' Ho. rewrite persisted_unfold; cbn [p_persist p_high].
        destruct (String.eqb_spec b' b) as [->|Hne].
        -- rewrite (alookup_aset_same String.eqb String.eqb_eq). lia.
        -- rewrite (alookup_aset_other String.eqb String.eqb_eq) by exact Hne.
           assert (Ho' : is_open b' s = true) by exact Ho.
           specialize (Hopen b' Ho'). rewrite persisted_unfold in Hopen. lia.
    + repeat split.
      * intros m Hm; inversion Hm; subst; cbn; lia.
      * intros b' m Hl. specialize (Hcom b' m Hl). exact Hcom.
      * intros b' Ho. assert (Ho' : is_open b' s = true) by exact Ho.
        specialize (Hopen b' Ho'). rewrite persisted_unfold in *; cbn [p_persist p_high]. lia.
  - repeat split.
    + intros m Hm. specialize (Hrun m Hm). cbn. pose proof (hlc_update_ge_l (p_high s) (persisted b s)). lia.
    + intros b' m Hl. apply (Hcom b' m Hl).
    + intros b' Ho. cbn [p_high].
      pose proof (hlc_update_ge_l (p_high s) (persisted b s)).
      pose proof (hlc_update_ge_r (p_high s) (persisted b s)).
      change (persisted b' {| p_high := hlc_update (p_high s) (persisted b s); p_persist := p_persist s;
                              p_open := if is_open b s then p_open s else b :: p_open s |})
        with (persisted b' s).
      destruct (String.eqb_spec b' b) as [->|Hne]; [lia|].
      assert (is_open b' s = true).
      { unfold is_open in *; cbn in Ho. destruct (existsb (String.eqb b) (p_open s)); [exact Ho|].
        cbn in Ho. apply String.eqb_neq in Hne. rewrite Hne in Ho. exact Ho. }
      specialize (Hopen b' H1). lia.
  - repeat split; auto.
    intros b' Ho. apply Hopen. unfold is_open in *; cbn in Ho. eapply is_open_filter; eauto.
  - repeat split; auto.
  - eexists; split; [reflexivity|]. repeat split.
    + intros m Hm; discriminate.
    + intros b m Hl. apply (Hcom b m Hl).
    + intros b Ho. discriminate.
Qed.

Lemma crun_chk ops : forall s st, Inv s st -> chk_cas_from st (crun s ops) = true.
Proof.
  induction ops as [|o r IH]; intros s st HI; cbn [crun]; [reflexivity|].
  pose proof (cstep_inv s st o HI) as H. destruct (cstep s o) as [s' evs].
  destruct evs as [|e [|e2 evs]]; cbn [app].
  - now apply IH.
  - destruct H as (st' & Hs & HI'). cbn [chk_cas_from]. rewrite Hs. now apply IH.
  - contradiction.
Qed.

Lemma Inv0 : Inv proc0 (None, []).
Proof. repeat split; cbn; intros; discriminate. Qed.

(* C04, for every operation list: any number of buckets, any clock readings (equal, decreasing,
   arbitrary), failed calls, closes, process restarts and reopens. *)
Theorem C04_model_holds : forall ops, chk_C04 (crun proc0 ops) = true.
Proof. intros ops. apply crun_chk. apply Inv0. Qed.

(* What the checker's verdict means, spelled out (so the theorem is not about an opaque bool):
   if the checker accepts a trace then (a) between two restarts CAS values strictly increase and
   (b) every CAS on bucket b exceeds every earlier committed CAS on b, restarts or not.       *)
Fixpoint cas_between_restarts (tr : list cev) : list N :=
  match tr with
  | [] => []
  | EvRestart :: _ => []
  | EvCas _ c _ :: r => c :: cas_between_restarts r
  end.

Lemma chk_cas_from_run_gt tr : forall rm commits m c,
  chk_cas_from (rm, commits) tr = true -> rm = Some m -> In c (cas_between_restarts tr) -> m < c.
Proof.
  induction tr as [|e r IH]; intros rm commits m c Hc Hrm Hin; [destruct Hin|].
  destruct e as [b c0 cm|]; [|destruct Hin].
  cbn [chk_cas_from chk_cas_step] in Hc. subst rm.
  destruct (m <? c0) eqn:E1; cbn [andb] in Hc; [|discriminate].
  destruct (match alookup String.eqb b commits with Some m0 => m0 <? c0 | None => true end); [|discriminate].
  apply N.ltb_lt in E1. cbn in Hin. destruct Hin as [<-|Hin]; [exact E1|].
  specialize (IH _ _ c0 c Hc eq_refl Hin). lia.
Qed.

Theorem chk_C04_sound_run tr1 b c cm tr2 c' :
  chk_C04 (tr1 ++ EvCas b c cm :: tr2) = true -> In c' (cas_between_restarts tr2) -> c < c'.
Proof.
  unfold chk_C04. generalize (@None N, @nil (string * N)). 
  induction tr1 as [|e r IH]; intros st Hc Hin; cbn [app chk_cas_from] in Hc.
  - destruct (chk_cas_step st (EvCas b c cm)) as [st'|] eqn:E; [|discriminate].
    destruct st as [rm commits]. cbn [chk_cas_step] in E.
    destruct (_ && _); [|discriminate]. inversion E; subst.
    eapply chk_cas_from_run_gt; eauto.
  - destruct (chk_cas_step st e) as [st'|]; [|discriminate]. eapply IH; eauto.
Qed.

Lemma chk_cas_from_bucket_gt tr : forall rm commits b m b' c cm' tr',
  chk_cas_from (rm, commits) tr = true -> alookup String.eqb b commits = Some m ->
  tr = tr' ++ [EvCas b' c cm'] -> b' = b -> m < c.
Proof.
  induction tr as [|e r IH]; intros rm commits b m b' c cm' tr' Hc Hl Htr Hb.
  - destruct tr'; discriminate.
  - cbn [chk_cas_from] in Hc. destruct (chk_cas_step (rm, commits) e) as [[rm' commits']|] eqn:E; [|discriminate].
    destruct tr' as [|e' tr''].
    + cbn in Htr. inversion Htr; subst. cbn [chk_cas_step] in E. rewrite Hl in E.
      destruct (match rm with Some m0 => m0 <? c | None => true end); cbn [andb] in E; [|discriminate].
      destruct (m <? c) eqn:E2; [|discriminate]. now apply N.ltb_lt.
    + cbn in Htr. inversion Htr; subst e' r.
      destruct e as [b0 c0 cm0|].
      * cbn [chk_cas_step] in E.
        destruct (match rm with Some m0 => m0 <? c0 | None => true end); cbn [andb] in E; [|discriminate].
        destruct (match alookup String.eqb b0 commits with Some m0 => m0 <? c0 | None => true end) eqn:E3; [|discriminate].
        inversion E; subst rm' commits'.
        destruct cm0.
        -- destruct (String.eqb_spec b b0) as [->|Hne].
           ++ rewrite Hl in E3. apply N.ltb_lt in E3.
              assert (c0 < c).
              { eapply (IH _ _ b0 c0); eauto. apply (alookup_aset_same String.eqb String.eqb_eq). }
              lia.
           ++ eapply (IH _ _ b m); eauto.
              rewrite (alookup_aset_other String.eqb String.eqb_eq) by exact Hne. exact Hl.
        -- eapply (IH _ _ b m); eauto.
      * cbn [chk_cas_step] in E. inversion E; subst. eapply (IH _ _ b m); eauto.
Qed.

Theorem chk_C04_sound_bucket tr1 b c tr2 c' cm' :
  chk_C04 (tr1 ++ EvCas b c true :: tr2 ++ [EvCas b c' cm']) = true -> c < c'.
Proof.
  unfold chk_C04. generalize (@None N, @nil (string * N)).
  induction tr1 as [|e r IH]; intros st Hc; cbn [app chk_cas_from] in Hc.
  - destruct (chk_cas_step st (EvCas b c true)) as [st'|] eqn:E; [|discriminate].
    destruct st as [rm commits]. cbn [chk_cas_step] in E.
    destruct (_ && _); [|discriminate]. inversion E; subst.
    eapply chk_cas_from_bucket_gt with (b:=b) (m:=c); eauto.
    apply (alookup_aset_same String.eqb String.eqb_eq).
  - destruct (chk_cas_step st e) as [st'|]; [|discriminate]. eapply IH; eauto.
Qed.

(* non-vacuity: a history with a standing clock, a backwards jump, a failed call, two buckets,
   a restart and a reopen *)
Example C04_example :
  crun proc0 [COpen "a"; COpen "b"; CDraw "a" 1000000 true; CDraw "b" 1000000 true;
              CDraw "a" 5 false; CDraw "a" 99999999 true; CRestart; COpen "a"; CDraw "a" 0 true]
  = [EvCas "a" 983040 true; EvCas "b" 983041 true; EvCas "a" 983042 false;
     EvCas "a" 99942400 true; EvRestart; EvCas "a" 99942401 true].
Proof. vm_compute. reflexivity. Qed.
