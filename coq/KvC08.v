(* KvC08.v - the row-level checker chk_row_C08 accepts every step of the model *)
From Rosmar Require Import Base Json Crc Kv Store Trace KvTac.

Theorem C08_row_sound : rc_sound chk_row_C08.
Proof. start_rc. all: unfold chk_row_C08; fin.
  all: exfalso; match goal with n : ?a <> ?b |- _ => apply n; reflexivity end.
Qed.

