(* KvLift.v - from one call on one row to whole histories: every store the model can reach keeps
   the row invariants, and a row-level checker that accepts every kstep accepts every history
   srun produces (any collections, keys, clocks, times, size limits, operation lists).          *)
From Rosmar Require Import Base Json Crc Hlc HlcProofs Kv Store Trace KvTac KvRowOk.

Definition doc_ok (d : dkey * row) : Prop := row_ok (snd d) /\ r_cas (snd d) <> 0.
Definition store_ok (s : store) : Prop := Forall doc_ok (s_docs s).

Definition wf_sop (o : sop) : Prop := match o with SKv _ _ op => wf_op op | _ => True end.
Definition wf_steps (l : list (sctx * sop)) : Prop := Forall (fun xo => wf_sop (snd xo)) l.
Definition wf_case (c : scase) : Prop := wf_steps (sc_steps c).

Lemma Forall_aset {V} (P : dkey * V -> Prop) k v m : Forall P m -> P (k, v) -> Forall P (aset dkey_eqb k v m).
Proof.
  intros H Hp. induction m as [|[k' v'] r IH]; cbn.
  - constructor; [exact Hp | constructor].
  - inversion H; subst. destruct (dkey_eqb k k'); constructor; auto.
Qed.

Lemma Forall_aremove {V} (P : dkey * V -> Prop) k m : Forall P m -> Forall P (aremove dkey_eqb k m).
Proof.
  intros H. induction m as [|[k' v'] r IH]; cbn; [constructor|].
  inversion H; subst. destruct (dkey_eqb k k'); [auto | constructor; auto].
Qed.

Lemma Forall_filter {A} (P : A -> Prop) f l : Forall P l -> Forall P (filter f l).
Proof.
  intros H. induction l as [|a r IH]; cbn; [constructor|]. inversion H; subst.
  destruct (f a); [constructor; auto | auto].
Qed.

Lemma get_doc_ok s k r : store_ok s -> get_doc s k = Some r -> row_ok r /\ r_cas r <> 0.
Proof.
  intros Hs Hg. unfold get_doc in Hg. apply (alookup_In dkey_eqb dkey_eqb_spec) in Hg.
  unfold store_ok in Hs. rewrite Forall_forall in Hs. exact (Hs _ Hg).
Qed.

Lemma get_doc_orow_ok s k : store_ok s -> orow_ok (get_doc s k) /\ ocas_ok (get_doc s k).
Proof.
  intros Hs. destruct (get_doc s k) as [r|] eqn:E; cbn; [|split; exact I].
  exact (get_doc_ok s k r Hs E).
Qed.

Lemma hlc_now_nonzero h p : hlc_now h p <> 0.
Proof. pose proof (hlc_now_gt h p). lia. Qed.

Lemma kv_on_ok s x cid key op : wf_op op -> store_ok s -> store_ok (sr_store (kv_on s x cid key op)).
Proof.
  intros Hwf Hs. unfold kv_on; cbv zeta; cbn [sr_store]. unfold store_ok; cbn [s_docs].
  destruct (get_doc_orow_ok s (cid, key) Hs) as [Ho Hc].
  pose proof (kstep_ok (mkCtx (x_now x) (hlc_now (s_high s) (x_clock x)) (x_maxdoc x)) op _ Hwf Ho) as H1.
  pose proof (kstep_cas_ok (mkCtx (x_now x) (hlc_now (s_high s) (x_clock x)) (x_maxdoc x)) op _ Hwf
                (hlc_now_nonzero _ _) Hc) as H2.
  destruct (kr_row _) as [r'|]; cbn [aput].
  - apply Forall_aset; [exact Hs | split; assumption].
  - apply Forall_aremove. exact Hs.
Qed.

Lemma expire_keys_ok x cid keys : forall s acc, store_ok s -> store_ok (fst (expire_keys s x cid keys acc)).
Proof.
  induction keys as [|k r IH]; intros s acc Hs; cbn [expire_keys]; [exact Hs|].
  apply IH. apply (kv_on_ok s x cid k KDelete); [exact I | exact Hs].
Qed.

Lemma expire_colls_ok x cids : forall s acc, store_ok s -> store_ok (fst (expire_colls s x cids acc)).
Proof.
  induction cids as [|cid r IH]; intros s acc Hs; cbn [expire_colls]; [exact Hs|].
  pose proof (expire_keys_ok x cid (due_keys s cid (x_now x)) s acc Hs) as H.
  destruct (expire_keys s x cid (due_keys s cid (x_now x)) acc) as [s' acc']. apply IH. exact H.
Qed.

Lemma burn_ok s x : store_ok s -> store_ok (burn s x).
Proof. intros Hs. exact Hs. Qed.

Lemma expire_keys_chk_ok x cid keys : forall s acc, store_ok s -> store_ok (fst (expire_keys_chk s x cid keys acc)).
Proof.
  induction keys as [|k r IH]; intros s acc Hs; cbn [expire_keys_chk]; [exact Hs|].
  destruct (is_due (get_doc s (cid, k)) (x_now x)).
  - apply IH. apply (kv_on_ok s x cid k KDelete); [exact I | exact Hs].
  - apply IH. apply burn_ok. exact Hs.
Qed.

Theorem sstep_ok s x o : wf_sop o -> store_ok s -> store_ok (sr_store (sstep s x o)).
Proof.
  intros Hwf Hs. destruct o; cbn [sstep wf_sop] in *.
  - destruct (coll_id s coll); [apply kv_on_ok; assumption | exact Hs].
  - cbn. unfold store_ok; cbn. apply Forall_filter. exact Hs.
  - destruct (coll_id s name); [exact Hs | exact Hs].
  - destruct (String.eqb name default_coll); [exact Hs|].
    destruct (coll_id s name); [|exact Hs]. unfold store_ok; cbn. apply Forall_filter. exact Hs.
  - destruct (coll_id s coll); exact Hs.
  - exact Hs.
  - destruct (coll_id s coll); exact Hs.
  - destruct (coll_id s coll); [|exact Hs]. destruct (same_ddoc _ _ _ _); exact Hs.
  - destruct (coll_id s coll); [|exact Hs]. destruct (existsb _ _); exact Hs.
  - destruct (coll_id s coll); [|exact Hs]. destruct (filter _ _); exact Hs.
  - pose proof (expire_colls_ok x (map fst (s_colls s)) s [] Hs) as H.
    destruct (expire_colls s x (map fst (s_colls s)) []) as [s' evs]. exact H.
  - destruct (coll_id s coll); exact Hs.
  - destruct (coll_id s coll); exact Hs.
  - exact Hs.
  - destruct (coll_id s wc); [|exact Hs].
    pose proof (expire_colls_ok x (ids_before (s_colls s) wc) s [] Hs) as H.
    destruct (expire_colls s x (ids_before (s_colls s) wc) []) as [s' evs]. exact H.
  - destruct (coll_id s wc) as [cid|]; [|exact Hs].
    pose proof (expire_keys_chk_ok x cid keys s [] Hs) as H1.
    destruct (expire_keys_chk s x cid keys []) as [s1 evs1]. cbn [fst] in H1.
    pose proof (expire_colls_ok x (ids_after (s_colls s) wc) s1 evs1 H1) as H2.
    destruct (expire_colls s1 x (ids_after (s_colls s) wc) evs1) as [s2 evs2]. exact H2.
Qed.

Lemma store0_ok : store_ok store0.
Proof. constructor. Qed.

(* ------------------------------------------------------------------------------------------ *)
(* what a snapshot shows of a document is the document                                          *)

Lemma obj_get_set_same {V} k (v : V) m : obj_get k (obj_set k v m) = Some v.
Proof.
  unfold obj_get. induction m as [|[k2 v2] r IH]; cbn.
  - rewrite String.eqb_refl. reflexivity.
  - destruct (String.eqb k k2) eqn:E; cbn.
    + rewrite String.eqb_refl. reflexivity.
    + destruct (str_ltb k k2); cbn; [rewrite String.eqb_refl; reflexivity | rewrite E; exact IH].
Qed.

Lemma collect_virtual r0 xn :
  let xs := collect_xattrs r0 (xn ++ ["$document"; "$document.revid"]) in
  alookup String.eqb "$document" xs = Some (docx_string (r_value r0) (r_rev r0))
  /\ alookup String.eqb "$document.revid" xs = Some (revx_string (r_rev r0)).
Proof.
  cbv zeta. unfold collect_xattrs. rewrite fold_left_app. cbn [fold_left String.eqb Ascii.eqb Bool.eqb].
  set (X := fold_left _ xn []). split.
  - change (obj_get "$document" (obj_set "$document.revid" (revx_string (r_rev r0)) (obj_set "$document" (virtual_document r0) X))
            = Some (docx_string (r_value r0) (r_rev r0))).
    rewrite obj_get_set_other by discriminate. apply obj_get_set_same.
  - change (obj_get "$document.revid" (obj_set "$document.revid" (revx_string (r_rev r0)) (obj_set "$document" (virtual_document r0) X))
            = Some (revx_string (r_rev r0))).
    apply obj_get_set_same.
Qed.

Lemma view_of_obs_of cid key xn r : view_of_obs (obs_of cid key xn r) = option_map view_of_row r.
Proof.
  destruct r as [r0|]; [|reflexivity].
  destruct (collect_virtual r0 xn) as [H1 H2]. cbv zeta in H1, H2.
  unfold view_of_obs, obs_of. cbn [o_dump o_get o_doc kstep kr_resp].
  unfold do_getwithxattrs. 
  destruct (collect_xattrs r0 (xn ++ ["$document"; "$document.revid"])) as [|p l] eqn:E; [discriminate H1|].
  replace (kr_resp match r_value r0 with
                   | Some _ | _ => mkRes (Some r0) (RDoc (r_value r0) (p :: l) (r_cas r0)) [] 0 None
                   end) with (RDoc (r_value r0) (p :: l) (r_cas r0)) by (destruct (r_value r0); reflexivity).
  unfold doc_xattr. rewrite H1, H2.
  destruct r0 as [v j c e xx t rv]. destruct v, t, xx; reflexivity.
Qed.

Lemma coll_of_obs_of cid key xn r : coll_of_obs (obs_of cid key xn r) 0 = match r with Some _ => cid - 1 | None => 0 end.
Proof. destruct r; reflexivity. Qed.

Lemma look_snap s colls keys xn c k o :
  look (c, k) (sn_rows (snap s colls keys xn)) = Some o ->
  exists cid, coll_id s c = Some cid /\ o = obs_of cid k xn (get_doc s (cid, k)).
Proof.
  unfold look. intros H. apply (alookup_In sspair_eqb sspair_eqb_spec) in H.
  cbn [snap sn_rows] in H. apply in_flat_map in H. destruct H as (c' & Hc' & Hin).
  destruct (coll_id s c') as [cid|] eqn:E; [|destruct Hin].
  apply in_map_iff in Hin. destruct Hin as (k' & Heq & _). inversion Heq; subst.
  exists cid. split; [exact E | reflexivity].
Qed.

Lemma coll_id_set_lastcas s cid c name :
  coll_id (mkStore (s_docs s) (set_coll_lastcas cid c (s_colls s)) (s_nextcoll s) (s_lastcas s) (s_high s) (s_log s) (s_views s)) name = coll_id s name.
Proof.
  unfold coll_id; cbn [s_colls]. induction (s_colls s) as [|[id [nm lc]] r IH]; cbn; [reflexivity|].
  destruct (id =? cid); cbn; destruct (String.eqb nm name); cbn; auto.
Qed.

Lemma coll_id_kv_on s x cid key op name : coll_id (sr_store (kv_on s x cid key op)) name = coll_id s name.
Proof.
  unfold kv_on; cbv zeta; cbn [sr_store]. unfold coll_id; cbn [s_colls].
  destruct (kr_commit _); [|reflexivity].
  induction (s_colls s) as [|[id [nm lc]] r IH]; cbn; [reflexivity|].
  destruct (id =? cid); cbn; destruct (String.eqb nm name); cbn; auto.
Qed.

Lemma get_doc_kv_on s x cid key op :
  get_doc (sr_store (kv_on s x cid key op)) (cid, key)
  = kr_row (kstep (mkCtx (x_now x) (hlc_now (s_high s) (x_clock x)) (x_maxdoc x)) op (get_doc s (cid, key))).
Proof.
  unfold kv_on; cbv zeta; cbn [sr_store]. unfold get_doc; cbn [s_docs].
  apply (alookup_aput_same dkey_eqb dkey_eqb_spec).
Qed.

(* ------------------------------------------------------------------------------------------ *)
(* lifting a sound row checker to histories                                                     *)

Lemma kv_step_sound rc : rc_sound rc -> forall s x o colls keys xn n0 n1, store_ok s -> wf_sop o ->
  let res := sstep s x o in
  kv_step rc (with_next (snap s colls keys xn) n0) x o
    (mkOstep (sr_resp res) (fevents_of (sr_events res)) (sr_dump res) (with_next (snap (sr_store res) colls keys xn) n1)) = true.
Proof.
  intros Hrc s x o colls keys xn n0 n1 Hs Hwf. cbv zeta. destruct o; cbn [kv_step]; try reflexivity.
  cbn [os_snap os_resp os_live with_next sn_rows].
  destruct (look (coll, key) (sn_rows (snap s colls keys xn))) as [pre|] eqn:Epre; [|reflexivity].
  destruct (look (coll, key) (sn_rows (snap (sr_store (sstep s x (SKv coll key op))) colls keys xn))) as [post|] eqn:Epost; [|reflexivity].
  apply look_snap in Epre. destruct Epre as (cid & Ecid & ->).
  apply look_snap in Epost. destruct Epost as (cid' & Ecid' & ->).
  cbn [sstep] in *. rewrite Ecid in *.
  rewrite coll_id_kv_on in Ecid'. rewrite Ecid in Ecid'. inversion Ecid'; subst cid'. clear Ecid'.
  rewrite !view_of_obs_of, coll_of_obs_of, get_doc_kv_on.
  destruct (get_doc_orow_ok s (cid, key) Hs) as [Ho Hc].
  pose proof (Hrc key (cid - 1) x (hlc_now (s_high s) (x_clock x)) op (get_doc s (cid, key)) Hwf Ho Hc) as H.
  cbv zeta in H.
  replace (fevents_of (sr_events (kv_on s x cid key op)))
    with (map (as_feed_event (cid - 1) key)
              (kr_events (kstep (mkCtx (x_now x) (hlc_now (s_high s) (x_clock x)) (x_maxdoc x)) op (get_doc s (cid, key))))).
  - exact H.
  - unfold kv_on; cbv zeta; cbn [sr_events]. unfold fevents_of. rewrite map_map. reflexivity.
Qed.

Theorem walk_sound rc : rc_sound rc -> forall c steps s n, store_ok s -> wf_steps steps ->
  walk (kv_step rc) (with_next (snap s (sc_colls c) (sc_keys c) (sc_xnames c)) n) steps (srun_from s n c steps) = true.
Proof.
  intros Hrc c steps. induction steps as [|[x o] r IH]; intros s n Hs Hwf; cbn [srun_from walk]; [reflexivity|].
  inversion Hwf as [|? ? Hwo Hwr]; subst. cbn [snd] in Hwo. cbv zeta.
  rewrite (kv_step_sound rc Hrc s x o _ _ _ n _ Hs Hwo). cbn [andb os_snap].
  apply IH; [apply sstep_ok; assumption | exact Hwr].
Qed.

Theorem chk_kv_sound rc : rc_sound rc -> forall c, wf_case c -> chk_kv rc (c, srun c) = true.
Proof.
  intros Hrc c Hwf. unfold chk_kv, srun, snap0; cbn [fst snd].
  apply walk_sound; [exact Hrc | exact store0_ok | exact Hwf].
Qed.

(* every store reachable by any well-formed history keeps "tombstone flag = no body" and "CAS <> 0" *)
Theorem reachable_store_ok : forall steps s, store_ok s -> wf_steps steps -> store_ok (sfinal_from s steps).
Proof.
  induction steps as [|[x o] r IH]; intros s Hs Hwf; cbn [sfinal_from]; [exact Hs|].
  inversion Hwf as [|? ? Hwo Hwr]; subst. apply IH; [apply sstep_ok; assumption | exact Hwr].
Qed.

Definition flag_coherent (s : store) : Prop :=
  forall k r, get_doc s k = Some r -> r_tomb r = is_none (r_value r).

Theorem reachable_flag_coherent c : wf_case c -> flag_coherent (sfinal_from store0 (sc_steps c)).
Proof.
  intros Hwf k r Hg.
  exact (proj1 (get_doc_ok _ k r (reachable_store_ok _ _ store0_ok Hwf) Hg)).
Qed.
