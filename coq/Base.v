(* Base.v — shared vocabulary: strings, N helpers, association-list maps.
   Stdlib only.  No axioms. *)
From Coq Require Export List String Ascii NArith ZArith Bool Lia.
From Coq Require Export ZifyBool ZifyN ZifyNat.
Export ListNotations.
Open Scope string_scope.
Open Scope list_scope.
Open Scope N_scope.


Definition two64 : N := 18446744073709551616.

(* ---------- option helpers ---------- *)
Definition is_some {A} (o : option A) : bool := match o with Some _ => true | None => false end.
Definition is_none {A} (o : option A) : bool := negb (is_some o).

(* ---------- string helpers ---------- *)
Definition str_eqb := String.eqb.
Lemma str_eqb_eq a b : String.eqb a b = true <-> a = b.
Proof. apply String.eqb_eq. Qed.
Lemma str_eqb_refl a : String.eqb a a = true.
Proof. apply String.eqb_refl. Qed.
Lemma str_eqb_neq a b : String.eqb a b = false <-> a <> b.
Proof. apply String.eqb_neq. Qed.

Definition first_char_is (c : ascii) (s : string) : bool :=
  match s with String a _ => Ascii.eqb a c | EmptyString => false end.

(* "system" xattr names start with '_' (the code: k == "" || k[0] != '_'  ==> user) *)
Definition is_system_name (s : string) : bool := first_char_is "_"%char s.

Fixpoint string_rev_app (s acc : string) : string :=
  match s with EmptyString => acc | String c r => string_rev_app r (String c acc) end.
Definition string_rev (s : string) : string := string_rev_app s EmptyString.

Fixpoint last_char (s : string) : option ascii :=
  match s with
  | EmptyString => None
  | String c EmptyString => Some c
  | String _ r => last_char r
  end.

(* ---------- association lists keyed by a type with boolean equality ---------- *)
Section Assoc.
  Variables (K V : Type) (keqb : K -> K -> bool).
  Hypothesis keqb_spec : forall a b, keqb a b = true <-> a = b.

  Fixpoint alookup (k : K) (m : list (K * V)) : option V :=
    match m with
    | [] => None
    | (k', v) :: r => if keqb k k' then Some v else alookup k r
    end.

  Fixpoint aremove (k : K) (m : list (K * V)) : list (K * V) :=
    match m with
    | [] => []
    | (k', v) :: r => if keqb k k' then aremove k r else (k', v) :: aremove k r
    end.

  (* update keeps the position of an existing binding (like an SQL UPDATE keeps the rowid order)
     and appends a new binding at the end (like an INSERT) *)
  Fixpoint aset (k : K) (v : V) (m : list (K * V)) : list (K * V) :=
    match m with
    | [] => [(k, v)]
    | (k', v') :: r => if keqb k k' then (k, v) :: r else (k', v') :: aset k v r
    end.

  Definition aput (k : K) (o : option V) (m : list (K * V)) : list (K * V) :=
    match o with Some v => aset k v m | None => aremove k m end.

  Lemma keqb_refl k : keqb k k = true.
  Proof. apply keqb_spec; reflexivity. Qed.

  Lemma keqb_false a b : a <> b -> keqb a b = false.
  Proof. intros H. destruct (keqb a b) eqn:E; [apply keqb_spec in E; contradiction | reflexivity]. Qed.

  Lemma alookup_aset_same k v m : alookup k (aset k v m) = Some v.
  Proof.
    induction m as [|[k' v'] r IH]; cbn.
    - now rewrite keqb_refl.
    - destruct (keqb k k') eqn:E; cbn.
      + now rewrite keqb_refl.
      + now rewrite E.
  Qed.

  Lemma alookup_aset_other k k' v m : k' <> k -> alookup k' (aset k v m) = alookup k' m.
  Proof.
    intros Hne. induction m as [|[k2 v2] r IH]; cbn.
    - now rewrite (keqb_false _ _ Hne).
    - destruct (keqb k k2) eqn:E; cbn.
      + apply keqb_spec in E; subst k2. now rewrite (keqb_false _ _ Hne).
      + destruct (keqb k' k2); [reflexivity | exact IH].
  Qed.

  Lemma alookup_aremove_same k m : alookup k (aremove k m) = None.
  Proof.
    induction m as [|[k' v'] r IH]; cbn; [reflexivity|].
    destruct (keqb k k') eqn:E; cbn; [exact IH | now rewrite E].
  Qed.

  Lemma alookup_aremove_other k k' m : k' <> k -> alookup k' (aremove k m) = alookup k' m.
  Proof.
    intros Hne. induction m as [|[k2 v2] r IH]; cbn; [reflexivity|].
    destruct (keqb k k2) eqn:E; cbn.
    - apply keqb_spec in E; subst k2. now rewrite (keqb_false _ _ Hne).
    - destruct (keqb k' k2); [reflexivity | exact IH].
  Qed.

  Lemma alookup_aput_same k o m : alookup k (aput k o m) = o.
  Proof. destruct o; cbn; [apply alookup_aset_same | apply alookup_aremove_same]. Qed.

  Lemma alookup_aput_other k k' o m : k' <> k -> alookup k' (aput k o m) = alookup k' m.
  Proof. destruct o; cbn; [apply alookup_aset_other | apply alookup_aremove_other]. Qed.

  Lemma alookup_In k v m : alookup k m = Some v -> In (k, v) m.
  Proof.
    induction m as [|[k' v'] r IH]; cbn; [discriminate|].
    destruct (keqb k k') eqn:E.
    - intros H; inversion H; subst. apply keqb_spec in E; subst. now left.
    - intros H; right; auto.
  Qed.

  (* keys are unique *)
  Definition akeys (m : list (K * V)) : list K := map fst m.

  Lemma akeys_aset_In k v m x : In x (akeys (aset k v m)) <-> x = k \/ In x (akeys m).
  Proof.
    induction m as [|[k' v'] r IH]; cbn.
    - intuition.
    - destruct (keqb k k') eqn:E; cbn.
      + apply keqb_spec in E; subst. intuition.
      + rewrite IH. intuition.
  Qed.

  Lemma akeys_aremove_In k m x : In x (akeys (aremove k m)) -> In x (akeys m).
  Proof.
    induction m as [|[k' v'] r IH]; cbn; [tauto|].
    destruct (keqb k k'); cbn; intuition.
  Qed.

  Lemma NoDup_aset k v m : NoDup (akeys m) -> NoDup (akeys (aset k v m)).
  Proof.
    induction m as [|[k' v'] r IH]; cbn; intros H.
    - constructor; [tauto | constructor].
    - inversion H as [|? ? Hn Hr]; subst.
      destruct (keqb k k') eqn:E; cbn.
      + apply keqb_spec in E; subst. now constructor.
      + constructor; [|auto].
        intros Hin. apply akeys_aset_In in Hin. destruct Hin as [->|Hin]; [|contradiction].
        rewrite keqb_refl in E; discriminate.
  Qed.

  Lemma NoDup_aremove k m : NoDup (akeys m) -> NoDup (akeys (aremove k m)).
  Proof.
    induction m as [|[k' v'] r IH]; cbn; intros H; [constructor|].
    inversion H as [|? ? Hn Hr]; subst.
    destruct (keqb k k'); cbn; [auto|].
    constructor; [|auto]. intros Hin; apply akeys_aremove_In in Hin; contradiction.
  Qed.

  Lemma In_alookup k v m : NoDup (akeys m) -> In (k, v) m -> alookup k m = Some v.
  Proof.
    induction m as [|[k' v'] r IH]; cbn; [tauto|].
    intros Hnd [Heq|Hin].
    - inversion Heq; subst. now rewrite keqb_refl.
    - inversion Hnd as [|? ? Hn Hr]; subst.
      destruct (keqb k k') eqn:E.
      + apply keqb_spec in E; subst. exfalso; apply Hn. now apply (in_map fst) in Hin.
      + auto.
  Qed.
End Assoc.

Arguments alookup {K V} keqb k m.
Arguments aremove {K V} keqb k m.
Arguments aset {K V} keqb k v m.
Arguments aput {K V} keqb k o m.
Arguments akeys {K V} m.
Arguments keqb_refl {K} keqb keqb_spec k.
Arguments keqb_false {K} keqb keqb_spec a b _.
Arguments alookup_aset_same {K V} keqb keqb_spec k v m.
Arguments alookup_aset_other {K V} keqb keqb_spec k k' v m _.
Arguments alookup_aremove_same {K V} keqb k m.
Arguments alookup_aremove_other {K V} keqb keqb_spec k k' m _.
Arguments alookup_aput_same {K V} keqb keqb_spec k o m.
Arguments alookup_aput_other {K V} keqb keqb_spec k k' o m _.
Arguments alookup_In {K V} keqb keqb_spec k v m _.
Arguments akeys_aset_In {K V} keqb keqb_spec k v m x.
Arguments akeys_aremove_In {K V} keqb k m x _.
Arguments NoDup_aset {K V} keqb keqb_spec k v m _.
Arguments NoDup_aremove {K V} keqb k m _.
Arguments In_alookup {K V} keqb keqb_spec k v m _ _.

(* ---------- misc list helpers ---------- *)
Fixpoint list_max_N (l : list N) : N :=
  match l with [] => 0 | x :: r => N.max x (list_max_N r) end.

Lemma list_max_N_ge l x : In x l -> x <= list_max_N l.
Proof. induction l as [|y r IH]; cbn; [tauto|]. intros [->|H]; [lia | specialize (IH H); lia]. Qed.

Fixpoint strictly_increasing (l : list N) : bool :=
  match l with
  | [] => true
  | x :: r => match r with [] => true | y :: _ => (x <? y) && strictly_increasing r end
  end.

Fixpoint all_lt (x : N) (l : list N) : bool :=
  match l with [] => true | y :: r => (y <? x) && all_lt x r end.

Lemma all_lt_spec x l : all_lt x l = true <-> forall y, In y l -> y < x.
Proof.
  induction l as [|a r IH]; cbn.
  - split; [intros _ y [] | reflexivity].
  - rewrite andb_true_iff, IH, N.ltb_lt. split.
    + intros [H1 H2] y [->|H]; auto.
    + intros H; split; [apply H; now left | intros y Hy; apply H; now right].
Qed.

(* ---------- indices of the cases a boolean test rejects (used by the generated cases files) ---------- *)
Fixpoint find_bad_from {A} (f : A -> bool) (i : N) (l : list A) : list N :=
  match l with
  | [] => []
  | x :: r => if f x then find_bad_from f (i + 1) r else i :: find_bad_from f (i + 1) r
  end.
Definition find_bad {A} (f : A -> bool) (l : list A) : list N := find_bad_from f 0 l.

