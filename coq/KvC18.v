(* KvC18.v - the row-level checker chk_row_C18 accepts every step of the model *)
From Rosmar Require Import Base Json Crc Kv Store Trace KvTac.

Lemma split_dot_nonempty s : forall cur, split_dot s cur <> [].
Proof. induction s as [|c r IH]; intros cur; cbn [split_dot]; [discriminate|]. destruct (Ascii.eqb c "."); [discriminate | apply IH]. Qed.

Lemma parse_path_nonempty path l : parse_path path = Some l -> l <> [].
Proof.
  unfold parse_path. destruct (String.eqb path ""); [discriminate|]. destruct (contains_any _ path); [discriminate|].
  intros H; inversion H. apply split_dot_nonempty.
Qed.

Lemma eval_empty_obj path l j : parse_path path = Some l -> eval_path (JObj []) l = inl j -> False.
Proof.
  intros Hp He. apply parse_path_nonempty in Hp. destruct l as [|k r]; [congruence|]. cbn in He. discriminate He.
Qed.

Lemma subdoc_apply_upsert doc p v ins j : subdoc_apply doc p v ins = inl j -> upsert_path (JObj doc) p v = inl j.
Proof.
  unfold subdoc_apply. destruct (List.rev p); [discriminate|]. destruct (eval_path _ _) as [[]|]; try discriminate.
  destruct (_ && _); [discriminate | exact (fun H => H)].
Qed.

Lemma eval_path_app a : forall j b,
  eval_path j (a ++ b) = match eval_path j a with inl j' => eval_path j' b | inr e => inr e end.
Proof.
  induction a as [|k r IH]; intros j b; cbn [app eval_path]; [reflexivity|].
  destruct j; try reflexivity. destruct (obj_get k _) as [[]|]; try reflexivity; apply IH.
Qed.

Lemma subdoc_insert_absent doc p v j : subdoc_apply doc p v true = inl j -> eval_path (JObj doc) p = inr PENotFound.
Proof.
  unfold subdoc_apply. destruct (List.rev p) as [|last rparent] eqn:E; [discriminate|].
  assert (p = List.rev rparent ++ [last]) as -> by (rewrite <- (rev_involutive p), E; reflexivity).
  rewrite eval_path_app. destruct (eval_path (JObj doc) (List.rev rparent)) as [[]|]; try discriminate.
  cbn [andb eval_path]. destruct (obj_get last _) as [[]|]; try discriminate; reflexivity.
Qed.

Theorem C18_row_sound : rc_sound chk_row_C18.
Proof.
  start_rc. all: unfold chk_row_C18; fin. all: rewrite ?andb_false_r; cbn [negb]; try reflexivity.
  all: try match goal with H : (?c =? 0) = false |- negb (?c =? 0) = true => rewrite H; reflexivity end.
  all: try match goal with H1 : parse_path ?p = Some ?l, H2 : eval_path (JObj []) ?l = inl _ |- _ => exfalso; exact (eval_empty_obj _ _ _ H1 H2) end.
  all: try match goal with H1 : ?f = inl ?a, H2 : ?f = inl ?b |- _ => rewrite H1 in H2; inversion H2; subst; apply String.eqb_refl end.
  all: try match goal with H1 : subdoc_apply ?d ?p ?v ?i = inl _, H2 : upsert_path (JObj ?d) ?p ?v = inr _ |- _ =>
                     apply subdoc_apply_upsert in H1; rewrite H1 in H2; discriminate H2 end.
  all: try match goal with H1 : subdoc_apply ?d ?p ?v ?i = inl _, H2 : upsert_path (JObj ?d) ?p ?v = inl _ |- _ =>
                     apply subdoc_apply_upsert in H1; rewrite H1 in H2; inversion H2; subst; rewrite ostr_eqb_refl, andb_true_r end.
  all: try match goal with H : negb (?c =? 0) && negb (?d =? ?c) = false |- (?c =? 0) || (?c =? ?d) = true =>
                     rewrite (N.eqb_sym c d); destruct (c =? 0); [reflexivity|]; destruct (d =? c); [reflexivity | discriminate H] end.
  all: try match goal with H : (?a =? ?a) = false |- _ => rewrite N.eqb_refl in H; discriminate H end.
  all: try match goal with H : perr ?p = ECasMismatch |- _ => destruct p; discriminate H end.
  all: try match goal with H1 : subdoc_apply ?d ?p ?v true = inl _, H2 : eval_path (JObj ?d) ?p = _ |- _ =>
                     apply subdoc_insert_absent in H1; rewrite H1 in H2; discriminate H2 end.
  rewrite (N.eqb_sym 0 cas) in Heqb. destruct (cas =? 0); [reflexivity | discriminate Heqb].
Qed.
