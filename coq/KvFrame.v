(* KvFrame.v - store-level theorems: isolation of collections (C11), exactness of drop / create /
   purge, and the backfill query as a faithful CAS-ordered snapshot (C09, sequential part).      *)
From Rosmar Require Import Base Json Crc Hlc HlcProofs Kv Store Trace KvTac KvRowOk KvLift.

(* ------------------------------------------------------------------------------------------ *)
(* generic list / association-list facts                                                        *)

Lemma alookup_None_notin {V} (k : dkey) (m : list (dkey * V)) : ~ In k (akeys m) -> alookup dkey_eqb k m = None.
Proof.
  induction m as [|[k' v'] r IH]; cbn; [reflexivity|]. intros H.
  destruct (dkey_eqb k k') eqn:E.
  - apply dkey_eqb_spec in E. subst. exfalso. apply H. left; reflexivity.
  - apply IH. intros Hin. apply H. right; exact Hin.
Qed.

Lemma alookup_filter {V} (f : dkey * V -> bool) k (m : list (dkey * V)) : NoDup (akeys m) ->
  alookup dkey_eqb k (filter f m) = match alookup dkey_eqb k m with Some v => if f (k, v) then Some v else None | None => None end.
Proof.
  induction m as [|[k' v'] r IH]; cbn; [reflexivity|]. intros Hnd. inversion Hnd as [|? ? Hn Hr]; subst.
  destruct (dkey_eqb k k') eqn:E.
  - apply dkey_eqb_spec in E. subst k'. destruct (f (k, v')) eqn:F; cbn.
    + rewrite (proj2 (dkey_eqb_spec k k) eq_refl). reflexivity.
    + rewrite (IH Hr). rewrite (alookup_None_notin k r Hn). reflexivity.
  - destruct (f (k', v')); cbn; [rewrite E|]; apply (IH Hr).
Qed.

Lemma akeys_filter_In {V} (f : dkey * V -> bool) m x : In x (akeys (filter f m)) -> In x (akeys m).
Proof.
  unfold akeys. intros H. apply in_map_iff in H. destruct H as (d & <- & Hd). apply filter_In in Hd.
  apply in_map. apply Hd.
Qed.

Lemma NoDup_akeys_filter {V} (f : dkey * V -> bool) m : NoDup (akeys m) -> NoDup (akeys (filter f m)).
Proof.
  induction m as [|[k v] r IH]; cbn; intros H; [constructor|]. inversion H as [|? ? Hn Hr]; subst.
  destruct (f (k, v)); cbn; [constructor; [intros Hin; apply Hn; eapply akeys_filter_In; eauto | auto] | auto].
Qed.

Lemma NoDup_map_filter {A B} (g : A -> B) (f : A -> bool) l : NoDup (map g l) -> NoDup (map g (filter f l)).
Proof.
  induction l as [|a r IH]; cbn; intros H; [constructor|]. inversion H as [|? ? Hn Hr]; subst.
  destruct (f a); cbn; [constructor; [|auto] | auto].
  intros Hin. apply Hn. apply in_map_iff in Hin. destruct Hin as (y & <- & Hy). apply filter_In in Hy. apply in_map. apply Hy.
Qed.

Lemma In_aset {V} k (v : V) m x : In x (aset dkey_eqb k v m) -> x = (k, v) \/ In x m.
Proof.
  induction m as [|[k' v'] r IH]; cbn.
  - intros [<-|[]]; auto.
  - destruct (dkey_eqb k k'); cbn; intros [<-|H]; auto. destruct (IH H); auto.
Qed.

Lemma In_aremove {V} k (m : list (dkey * V)) x : In x (aremove dkey_eqb k m) -> In x m.
Proof.
  induction m as [|[k' v'] r IH]; cbn; [tauto|]. destruct (dkey_eqb k k'); cbn; intuition.
Qed.

Lemma filter_aput_other {V} (f : dkey * V -> bool) k o m :
  (forall v, f (k, v) = false) -> filter f (aput dkey_eqb k o m) = filter f m.
Proof.
  intros Hf. destruct o as [v|]; cbn.
  - induction m as [|[k' v'] r IH]; cbn; [rewrite Hf; reflexivity|].
    destruct (dkey_eqb k k') eqn:E; cbn.
    + apply dkey_eqb_spec in E. subst. rewrite !Hf. reflexivity.
    + rewrite IH. reflexivity.
  - induction m as [|[k' v'] r IH]; cbn; [reflexivity|].
    destruct (dkey_eqb k k') eqn:E; cbn.
    + apply dkey_eqb_spec in E. subst. rewrite Hf. exact IH.
    + rewrite IH. reflexivity.
Qed.

Lemma NoDup_map_fst_unique {A B} (l : list (A * B)) a b b' : NoDup (map fst l) -> In (a, b) l -> In (a, b') l -> b = b'.
Proof.
  induction l as [|[x y] r IH]; cbn; [tauto|]. intros Hnd H1 H2. inversion Hnd as [|? ? Hn Hr]; subst.
  destruct H1 as [H1|H1], H2 as [H2|H2].
  - congruence.
  - inversion H1; subst. exfalso. apply Hn. apply (in_map fst) in H2. exact H2.
  - inversion H2; subst. exfalso. apply Hn. apply (in_map fst) in H1. exact H1.
  - eauto.
Qed.

Lemma NoDup_snoc {A} (l : list A) a : NoDup l -> ~ In a l -> NoDup (l ++ [a]).
Proof.
  induction l as [|x r IH]; cbn; intros Hnd Hn; [constructor; [intros [] | constructor]|].
  inversion Hnd as [|? ? Hx Hr]; subst. constructor.
  - rewrite in_app_iff. intros [H|[H|[]]]; [contradiction | subst; apply Hn; left; reflexivity].
  - apply IH; [exact Hr | intros H; apply Hn; right; exact H].
Qed.

(* ------------------------------------------------------------------------------------------ *)
(* structural invariants of the tables                                                          *)

Definition coll_ids (s : store) : list N := map fst (s_colls s).
Definition coll_names (s : store) : list string := map (fun c => fst (snd c)) (s_colls s).

Record tables_ok (s : store) : Prop := mkTablesOk {
  t_docs_nodup : NoDup (akeys (s_docs s));
  t_ids_nodup : NoDup (coll_ids s);
  t_names_nodup : NoDup (coll_names s);
  t_ids_lt : forall id, In id (coll_ids s) -> id < s_nextcoll s;
  t_doc_cids : forall d, In d (s_docs s) -> In (fst (fst d)) (coll_ids s)
}.

Lemma coll_id_entry s name cid : coll_id s name = Some cid -> exists lc, In (cid, (name, lc)) (s_colls s).
Proof.
  unfold coll_id. intros H.
  destruct (filter _ (s_colls s)) as [|[id [nm lc]] r] eqn:E; [discriminate|]. inversion H; subst.
  assert (In (cid, (nm, lc)) (filter (fun c => String.eqb (fst (snd c)) name) (s_colls s))) as Hin by (rewrite E; left; reflexivity).
  apply filter_In in Hin. destruct Hin as [Hin Hn]. cbn in Hn. apply String.eqb_eq in Hn. subst nm. exists lc. exact Hin.
Qed.

Lemma coll_id_in_ids s name cid : coll_id s name = Some cid -> In cid (coll_ids s).
Proof. intros H. destruct (coll_id_entry s name cid H) as (lc & Hin). apply (in_map fst) in Hin. exact Hin. Qed.

Lemma coll_id_none s name : coll_id s name = None -> ~ In name (coll_names s).
Proof.
  unfold coll_id, coll_names. intros H Hin. apply in_map_iff in Hin. destruct Hin as ([id [nm lc]] & Hn & Hin). cbn in Hn. subst nm.
  assert (In (id, (name, lc)) (filter (fun c => String.eqb (fst (snd c)) name) (s_colls s))) as Hf.
  { apply filter_In. split; [exact Hin | cbn; apply String.eqb_refl]. }
  destruct (filter _ (s_colls s)); [destruct Hf | destruct p; discriminate].
Qed.

Lemma coll_id_inj s n1 n2 cid : NoDup (coll_ids s) -> coll_id s n1 = Some cid -> coll_id s n2 = Some cid -> n1 = n2.
Proof.
  intros Hnd H1 H2. destruct (coll_id_entry _ _ _ H1) as (l1 & I1). destruct (coll_id_entry _ _ _ H2) as (l2 & I2).
  pose proof (NoDup_map_fst_unique _ _ _ _ Hnd I1 I2) as E. inversion E; reflexivity.
Qed.

Lemma store0_tables_ok : tables_ok store0.
Proof.
  constructor; cbn.
  - constructor.
  - constructor; [intros [] | constructor].
  - constructor; [intros [] | constructor].
  - intros id [<-|[]]. lia.
  - intros d [].
Qed.

Lemma set_lastcas_ids cid c l : map fst (set_coll_lastcas cid c l) = map fst l.
Proof. unfold set_coll_lastcas. rewrite map_map. apply map_ext. intros [id [nm lc]]; cbn. destruct (id =? cid); reflexivity. Qed.
Lemma set_lastcas_names cid c l : map (fun x : N * (string * N) => fst (snd x)) (set_coll_lastcas cid c l) = map (fun x => fst (snd x)) l.
Proof. unfold set_coll_lastcas. rewrite map_map. apply map_ext. intros [id [nm lc]]; cbn. destruct (id =? cid); reflexivity. Qed.

Lemma kv_on_ids s x cid key op : coll_ids (sr_store (kv_on s x cid key op)) = coll_ids s.
Proof. unfold kv_on, coll_ids; cbv zeta; cbn [sr_store s_colls]. destruct (kr_commit _); [apply set_lastcas_ids | reflexivity]. Qed.
Lemma kv_on_names s x cid key op : coll_names (sr_store (kv_on s x cid key op)) = coll_names s.
Proof. unfold kv_on, coll_names; cbv zeta; cbn [sr_store s_colls]. destruct (kr_commit _); [apply set_lastcas_names | reflexivity]. Qed.
Lemma kv_on_nextcoll s x cid key op : s_nextcoll (sr_store (kv_on s x cid key op)) = s_nextcoll s.
Proof. reflexivity. Qed.

Lemma kv_on_tables_ok s x cid key op : In cid (coll_ids s) -> tables_ok s -> tables_ok (sr_store (kv_on s x cid key op)).
Proof.
  intros Hcid [H1 H2 H3 H4 H5]. constructor.
  - unfold kv_on; cbv zeta; cbn [sr_store s_docs]. destruct (kr_row _); cbn [aput].
    + apply (NoDup_aset dkey_eqb dkey_eqb_spec). exact H1.
    + apply NoDup_aremove. exact H1.
  - rewrite kv_on_ids. exact H2.
  - rewrite kv_on_names. exact H3.
  - rewrite kv_on_ids, kv_on_nextcoll. exact H4.
  - rewrite kv_on_ids. intros d Hd. unfold kv_on in Hd; cbv zeta in Hd; cbn [sr_store s_docs] in Hd.
    destruct (kr_row _); cbn [aput] in Hd.
    + apply In_aset in Hd. destruct Hd as [->|Hd]; [exact Hcid | apply H5; exact Hd].
    + apply In_aremove in Hd. apply H5; exact Hd.
Qed.

Lemma expire_keys_tables x cid keys : forall s acc, In cid (coll_ids s) -> tables_ok s ->
  tables_ok (fst (expire_keys s x cid keys acc)) /\ coll_ids (fst (expire_keys s x cid keys acc)) = coll_ids s.
Proof.
  induction keys as [|k r IH]; intros s acc Hc Hs; cbn [expire_keys]; [split; [exact Hs | reflexivity]|].
  destruct (IH (sr_store (kv_on s x cid k KDelete)) (acc ++ sr_events (kv_on s x cid k KDelete))) as [A B].
  - rewrite kv_on_ids. exact Hc.
  - apply kv_on_tables_ok; assumption.
  - split; [exact A | rewrite B; apply kv_on_ids].
Qed.

Lemma expire_colls_tables x cids : forall s acc, (forall c, In c cids -> In c (coll_ids s)) -> tables_ok s ->
  tables_ok (fst (expire_colls s x cids acc)).
Proof.
  induction cids as [|cid r IH]; intros s acc Hc Hs; cbn [expire_colls]; [exact Hs|].
  destruct (expire_keys_tables x cid (due_keys s cid (x_now x)) s acc (Hc cid (or_introl eq_refl)) Hs) as [A B].
  destruct (expire_keys s x cid (due_keys s cid (x_now x)) acc) as [s' acc']. cbn [fst] in A, B.
  apply IH; [|exact A]. intros c Hin. rewrite B. apply Hc. right; exact Hin.
Qed.

Lemma ids_before_in cs wc c : In c (ids_before cs wc) -> In c (map fst cs).
Proof.
  induction cs as [|d r IH]; cbn [ids_before]; [intros []|]. destruct (String.eqb (fst (snd d)) wc); [intros []|].
  intros [<-|H]; [left; reflexivity | right; apply IH; exact H].
Qed.
Lemma ids_after_in cs wc c : In c (ids_after cs wc) -> In c (map fst cs).
Proof.
  induction cs as [|d r IH]; cbn [ids_after]; [intros []|]. destruct (String.eqb (fst (snd d)) wc); intros H; right; [exact H | apply IH; exact H].
Qed.

Lemma burn_tables_ok s x : tables_ok s -> tables_ok (burn s x).
Proof. intros Hs. destruct Hs; constructor; assumption. Qed.

Lemma expire_keys_chk_tables x cid keys : forall s acc, In cid (coll_ids s) -> tables_ok s ->
  tables_ok (fst (expire_keys_chk s x cid keys acc)) /\ coll_ids (fst (expire_keys_chk s x cid keys acc)) = coll_ids s.
Proof.
  induction keys as [|k r IH]; intros s acc Hc Hs; cbn [expire_keys_chk]; [split; [exact Hs | reflexivity]|].
  destruct (is_due (get_doc s (cid, k)) (x_now x)).
  - destruct (IH (sr_store (kv_on s x cid k KDelete)) (acc ++ sr_events (kv_on s x cid k KDelete))) as [A B].
    + rewrite kv_on_ids. exact Hc.
    + apply kv_on_tables_ok; assumption.
    + split; [exact A | rewrite B; apply kv_on_ids].
  - destruct (IH (burn s x) acc Hc (burn_tables_ok s x Hs)) as [A B]. split; [exact A | rewrite B; reflexivity].
Qed.

Theorem sstep_tables_ok s x o : tables_ok s -> tables_ok (sr_store (sstep s x o)).
Proof.
  intros Hs. destruct o; cbn [sstep].
  - destruct (coll_id s coll) as [cid|] eqn:E; [|exact Hs]. apply kv_on_tables_ok; [eapply coll_id_in_ids; eauto | exact Hs].
  - destruct Hs as [H1 H2 H3 H4 H5]. constructor; cbn [sr_store s_docs s_colls s_nextcoll]; try assumption.
    + apply NoDup_akeys_filter. exact H1.
    + intros d Hd. apply filter_In in Hd. apply H5. apply Hd.
  - destruct (coll_id s name) eqn:E; [exact Hs|]. destruct Hs as [H1 H2 H3 H4 H5].
    unfold create_coll; cbn [sr_store fst]. constructor; unfold coll_ids, coll_names in *; cbn [s_docs s_colls s_nextcoll].
    + exact H1.
    + rewrite map_app. cbn. apply NoDup_snoc; [exact H2|]. intros Hy. specialize (H4 _ Hy). lia.
    + rewrite map_app. cbn. apply NoDup_snoc; [exact H3|]. exact (coll_id_none s _ E).
    + intros id Hid. rewrite map_app in Hid. apply in_app_iff in Hid. destruct Hid as [Hid|[<-|[]]]; [specialize (H4 _ Hid); lia | cbn; lia].
    + intros d Hd. rewrite map_app. apply in_app_iff. left. apply H5. exact Hd.
  - destruct (String.eqb name default_coll); [exact Hs|]. destruct (coll_id s name) as [cid|] eqn:E; [|exact Hs].
    destruct Hs as [H1 H2 H3 H4 H5]. constructor; unfold coll_ids, coll_names in *; cbn [sr_store s_docs s_colls s_nextcoll].
    + apply NoDup_akeys_filter. exact H1.
    + apply NoDup_map_filter. exact H2.
    + apply NoDup_map_filter. exact H3.
    + intros id Hid. apply H4. apply in_map_iff in Hid. destruct Hid as (c & <- & Hc). apply filter_In in Hc. apply in_map. apply Hc.
    + intros d Hd. apply filter_In in Hd. destruct Hd as [Hd Hne]. specialize (H5 d Hd).
      apply in_map_iff in H5. destruct H5 as (c & Hc1 & Hc2). apply in_map_iff. exists c. split; [exact Hc1|].
      apply filter_In. split; [exact Hc2 | rewrite Hc1; exact Hne].
  - destruct (coll_id s coll); exact Hs.
  - destruct Hs; constructor; assumption.
  - destruct (coll_id s coll); exact Hs.
  - destruct (coll_id s coll); [|exact Hs]. destruct (same_ddoc _ _ _ _); [exact Hs|]. destruct Hs; constructor; assumption.
  - destruct (coll_id s coll); [|exact Hs]. destruct (existsb _ _); [|exact Hs]. destruct Hs; constructor; assumption.
  - destruct (coll_id s coll); [|exact Hs]. destruct (filter _ _); [exact Hs|]. destruct Hs; constructor; assumption.
  - pose proof (expire_colls_tables x (map fst (s_colls s)) s [] (fun c H => H) Hs) as H.
    destruct (expire_colls s x (map fst (s_colls s)) []) as [s' evs]. exact H.
  - destruct (coll_id s coll); exact Hs.
  - destruct (coll_id s coll); exact Hs.
  - destruct Hs; constructor; assumption.
  - destruct (coll_id s wc); [|exact Hs].
    pose proof (expire_colls_tables x (ids_before (s_colls s) wc) s [] (fun c H => ids_before_in _ _ _ H) Hs) as H.
    destruct (expire_colls s x (ids_before (s_colls s) wc) []) as [s' evs]. exact H.
  - destruct (coll_id s wc) as [cid|] eqn:E; [|exact Hs].
    destruct (expire_keys_chk_tables x cid keys s [] (coll_id_in_ids _ _ _ E) Hs) as [A B].
    destruct (expire_keys_chk s x cid keys []) as [s1 evs1]. cbn [fst] in A, B.
    pose proof (expire_colls_tables x (ids_after (s_colls s) wc) s1 evs1) as H.
    destruct (expire_colls s1 x (ids_after (s_colls s) wc) evs1) as [s2 evs2]. cbn [sr_store fst] in *. apply H; [|exact A].
    intros c Hc. rewrite B. exact (ids_after_in _ _ _ Hc).
Qed.

Theorem reachable_tables_ok : forall steps s, tables_ok s -> tables_ok (sfinal_from s steps).
Proof.
  induction steps as [|[x o] r IH]; intros s Hs; cbn [sfinal_from]; [exact Hs|]. apply IH. apply sstep_tables_ok. exact Hs.
Qed.

(* ------------------------------------------------------------------------------------------ *)
(* C11: a call addressed to one collection changes nothing of any other collection              *)

Theorem kv_on_frame s x cid key op k' : k' <> (cid, key) ->
  get_doc (sr_store (kv_on s x cid key op)) k' = get_doc s k'.
Proof.
  intros Hne. unfold kv_on; cbv zeta; cbn [sr_store]. unfold get_doc; cbn [s_docs].
  apply (alookup_aput_other dkey_eqb dkey_eqb_spec). exact Hne.
Qed.

Theorem kv_on_events_local s x cid key op e : In e (sr_events (kv_on s x cid key op)) -> fst e = (cid, key).
Proof.
  unfold kv_on; cbv zeta; cbn [sr_events]. intros H. apply in_map_iff in H. destruct H as (ev & <- & _). reflexivity.
Qed.

Theorem kv_on_backfill_other s x cid key op cid' start : cid' <> cid ->
  backfill_rows (sr_store (kv_on s x cid key op)) cid' start = backfill_rows s cid' start.
Proof.
  intros Hne. unfold backfill_rows, kv_on; cbv zeta; cbn [sr_store s_docs]. f_equal.
  apply filter_aput_other. intros v. cbn. destruct (N.eqb_spec cid cid'); [congruence | reflexivity].
Qed.

Theorem kv_on_other_lastcas s x cid key op cid' p :
  cid' <> cid -> In (cid', p) (s_colls s) -> In (cid', p) (s_colls (sr_store (kv_on s x cid key op))).
Proof.
  intros Hne Hin. unfold kv_on; cbv zeta; cbn [sr_store s_colls].
  destruct (kr_commit _); [|exact Hin].
  unfold set_coll_lastcas. apply in_map_iff. exists (cid', p). split; [|exact Hin]. cbn.
  destruct (N.eqb_spec cid' cid); [contradiction | reflexivity].
Qed.

(* stated with collection NAMES, as a client addresses them *)
Theorem C11_kv_isolated s x c key op c' cid' k' start : tables_ok s ->
  c' <> c -> coll_id s c' = Some cid' ->
  let res := sstep s x (SKv c key op) in
  get_doc (sr_store res) (cid', k') = get_doc s (cid', k')
  /\ backfill_events (sr_store res) cid' start = backfill_events s cid' start
  /\ coll_id (sr_store res) c' = Some cid'
  /\ (forall e, In e (sr_events res) -> fst (fst e) <> cid').
Proof.
  intros Hs Hne Hc'. cbv zeta. cbn [sstep]. destruct (coll_id s c) as [cid|] eqn:Ec.
  - assert (cid' <> cid) as Hid.
    { intros ->. apply Hne. eapply coll_id_inj; eauto. apply Hs. }
    repeat split.
    + apply kv_on_frame. intros H. inversion H. contradiction.
    + unfold backfill_events. rewrite kv_on_backfill_other by exact Hid. reflexivity.
    + rewrite coll_id_kv_on. exact Hc'.
    + intros e He. rewrite (kv_on_events_local _ _ _ _ _ _ He). cbn. intros H. apply Hid. symmetry. exact H.
  - cbn [sr_store sr_events]. repeat split; auto.
Qed.

(* ------------------------------------------------------------------------------------------ *)
(* drop removes exactly the collection's rows; re-creation yields an empty collection; purge
   removes exactly the body-less rows                                                           *)

Lemma coll_id_after_drop s cid name n' :
  tables_ok s -> coll_id s name = Some cid ->
  coll_id (mkStore (filter (fun d => negb (fst (fst d) =? cid)) (s_docs s))
                   (filter (fun c => negb (fst c =? cid)) (s_colls s))
                   (s_nextcoll s) (s_lastcas s) (s_high s) (s_log s)
                   (filter (fun v => negb (vd_coll v =? cid)) (s_views s))) n'
  = if String.eqb n' name then None else coll_id s n'.
Proof.
  intros Hs Hc. destruct (coll_id_entry _ _ _ Hc) as (lc & Hin). unfold coll_id; cbn [s_colls].
  assert (forall l, (forall e, In e l -> In e (s_colls s)) ->
            filter (fun c : N * (string * N) => String.eqb (fst (snd c)) n') (filter (fun c => negb (fst c =? cid)) l)
            = if String.eqb n' name then [] else filter (fun c => String.eqb (fst (snd c)) n') l) as H.
  { induction l as [|[id [nm l0]] r IH]; intros Hsub; [destruct (String.eqb n' name); reflexivity|].
    assert (forall e, In e r -> In e (s_colls s)) as Hr by (intros e He; apply Hsub; right; exact He).
    specialize (IH Hr). cbn. destruct (N.eqb_spec id cid) as [->|Hid]; cbn.
    - assert ((nm, l0) = (name, lc)) as E.
      { eapply NoDup_map_fst_unique; [apply (t_ids_nodup s Hs) | apply Hsub; left; reflexivity | exact Hin]. }
      inversion E; subst. rewrite IH. destruct (String.eqb n' name) eqn:En; [reflexivity|].
      rewrite String.eqb_sym, En. reflexivity.
    - rewrite IH. destruct (String.eqb nm n') eqn:Em; [|reflexivity].
      apply String.eqb_eq in Em. subst nm. destruct (String.eqb n' name) eqn:En; [|reflexivity].
      apply String.eqb_eq in En. subst n'. exfalso. apply Hid.
      assert (In name (coll_names s)) as _ by (apply in_map_iff; exists (cid, (name, lc)); auto).
      (* two entries with the same name: ids must agree because names are unique *)
      assert (In (id, (name, l0)) (s_colls s)) as Hin2 by (apply Hsub; left; reflexivity).
      pose proof (t_names_nodup s Hs) as Hnn. unfold coll_names in Hnn.
      clear - Hin Hin2 Hnn. induction (s_colls s) as [|[i [n l]] t IHt]; [destruct Hin|].
      cbn in Hnn. inversion Hnn as [|? ? Hn Ht]; subst.
      destruct Hin as [Hin|Hin], Hin2 as [Hin2|Hin2].
      + congruence.
      + inversion Hin; subst. exfalso. apply Hn. apply in_map_iff. exists (id, (name, l0)). auto.
      + inversion Hin2; subst. exfalso. apply Hn. apply in_map_iff. exists (cid, (name, lc)). auto.
      + auto. }
  rewrite (H (s_colls s) (fun e He => He)). destruct (String.eqb n' name); reflexivity.
Qed.

Theorem C11_drop_exact s x name cid : tables_ok s ->
  String.eqb name default_coll = false -> coll_id s name = Some cid ->
  let s' := sr_store (sstep s x (SDropColl name)) in
  (forall k, get_doc s' (cid, k) = None)
  /\ (forall c' k, c' <> cid -> get_doc s' (c', k) = get_doc s (c', k))
  /\ coll_id s' name = None
  /\ (forall n', n' <> name -> coll_id s' n' = coll_id s n').
Proof.
  intros Hs Hd Hc. cbv zeta. cbn [sstep]. rewrite Hd, Hc. cbn [sr_store]. repeat split.
  - intros k. unfold get_doc; cbn [s_docs]. rewrite alookup_filter by apply Hs.
    destruct (alookup dkey_eqb (cid, k) (s_docs s)); [|reflexivity]. cbn. rewrite N.eqb_refl. reflexivity.
  - intros c' k Hne. unfold get_doc; cbn [s_docs]. rewrite alookup_filter by apply Hs.
    destruct (alookup dkey_eqb (c', k) (s_docs s)); [|reflexivity]. cbn.
    destruct (N.eqb_spec c' cid); [contradiction | reflexivity].
  - rewrite (coll_id_after_drop s cid name name Hs Hc). rewrite String.eqb_refl. reflexivity.
  - intros n' Hne. rewrite (coll_id_after_drop s cid name n' Hs Hc).
    destruct (String.eqb n' name) eqn:E; [apply String.eqb_eq in E; contradiction | reflexivity].
Qed.

Theorem C11_recreate_empty s x name : tables_ok s -> coll_id s name = None ->
  let s' := sr_store (sstep s x (SCreateColl name)) in
  coll_id s' name = Some (s_nextcoll s)
  /\ (forall k, get_doc s' (s_nextcoll s, k) = None)
  /\ backfill_events s' (s_nextcoll s) 0 = []
  /\ (forall k, get_doc s' k = get_doc s k)
  /\ (forall n', n' <> name -> coll_id s' n' = coll_id s n').
Proof.
  intros Hs Hc. cbv zeta. cbn [sstep]. rewrite Hc. unfold create_coll; cbn [sr_store fst].
  assert (forall k, get_doc s (s_nextcoll s, k) = None) as Hnone.
  { intros k. destruct (get_doc s (s_nextcoll s, k)) as [r|] eqn:E; [|reflexivity]. exfalso.
    unfold get_doc in E. apply (alookup_In dkey_eqb dkey_eqb_spec) in E.
    pose proof (t_doc_cids s Hs _ E) as H1. cbn in H1. pose proof (t_ids_lt s Hs _ H1). lia. }
  repeat split.
  - unfold coll_id in *; cbn [s_colls]. rewrite filter_app. cbn. rewrite String.eqb_refl.
    destruct (filter _ (s_colls s)) as [|[? ?] ?]; [reflexivity | discriminate].
  - exact Hnone.
  - unfold backfill_events, backfill_rows; cbn [s_docs].
    match goal with |- context [filter ?f (s_docs s)] => destruct (filter f (s_docs s)) as [|d r] eqn:E end; [reflexivity|]. exfalso.
    assert (In d (d :: r)) as Hin by (left; reflexivity). rewrite <- E in Hin.
    apply filter_In in Hin. destruct Hin as [Hin Hq]. apply andb_true_iff in Hq. destruct Hq as [Hq _]. apply N.eqb_eq in Hq.
    pose proof (t_doc_cids s Hs _ Hin) as H1. pose proof (t_ids_lt s Hs _ H1) as H2. destruct d as [[c0 k0] r0]. cbn in *. subst c0. lia.
  - intros n' Hne. unfold coll_id; cbn [s_colls]. rewrite filter_app. cbn.
    destruct (String.eqb name n') eqn:E; [apply String.eqb_eq in E; congruence|]. rewrite app_nil_r. reflexivity.
Qed.

Theorem C05_purge_exact s x k : tables_ok s ->
  get_doc (sr_store (sstep s x SPurge)) k
  = match get_doc s k with Some r => if is_some (r_value r) then Some r else None | None => None end.
Proof. intros Hs. cbn [sstep sr_store]. unfold get_doc; cbn [s_docs]. rewrite alookup_filter by apply Hs. reflexivity. Qed.

(* ------------------------------------------------------------------------------------------ *)
(* C09 (sequential part): the backfill query                                                    *)

Fixpoint cas_sorted (l : list (dkey * row)) : Prop :=
  match l with
  | [] => True
  | d :: r => (forall d', In d' r -> r_cas (snd d) <= r_cas (snd d')) /\ cas_sorted r
  end.

Lemma insert_In d l x : In x (insert_by_cas d l) <-> x = d \/ In x l.
Proof.
  induction l as [|d' r IH]; cbn; [intuition|].
  destruct (r_cas (snd d) <? r_cas (snd d')); cbn; [intuition | rewrite IH; intuition].
Qed.

Lemma insert_sorted d l : cas_sorted l -> cas_sorted (insert_by_cas d l).
Proof.
  induction l as [|d' r IH]; cbn; [intuition|]. intros [H1 H2].
  destruct (N.ltb_spec (r_cas (snd d)) (r_cas (snd d'))); cbn.
  - repeat split; auto. intros x [<-|Hx]; [lia | specialize (H1 x Hx); lia].
  - split; [|auto]. intros x Hx. apply insert_In in Hx. destruct Hx as [->|Hx]; [lia | auto].
Qed.

Lemma fold_insert_In l : forall acc x, In x (fold_left (fun a d => insert_by_cas d a) l acc) <-> In x l \/ In x acc.
Proof.
  induction l as [|d r IH]; intros acc x; cbn [fold_left]; [cbn; intuition|].
  rewrite IH, insert_In. cbn. intuition.
Qed.

Lemma fold_insert_sorted l : forall acc, cas_sorted acc -> cas_sorted (fold_left (fun a d => insert_by_cas d a) l acc).
Proof. induction l as [|d r IH]; intros acc H; cbn [fold_left]; [exact H|]. apply IH. apply insert_sorted. exact H. Qed.

Theorem C09_backfill_sorted s cid start : cas_sorted (backfill_rows s cid start).
Proof. unfold backfill_rows. apply fold_insert_sorted. exact I. Qed.

(* exactly the current version of every document of the collection whose CAS is at least start *)
Theorem C09_backfill_complete s cid start key r : tables_ok s ->
  (In ((cid, key), r) (backfill_rows s cid start) <-> get_doc s (cid, key) = Some r /\ start <= r_cas r).
Proof.
  intros Hs. unfold backfill_rows. rewrite fold_insert_In, filter_In. cbn. split.
  - intros [[Hin Hq]|[]]. apply andb_true_iff in Hq. destruct Hq as [_ Hq]. apply N.leb_le in Hq.
    split; [|exact Hq]. unfold get_doc. apply (In_alookup dkey_eqb dkey_eqb_spec); [apply Hs | exact Hin].
  - intros [Hg Hq]. left. split.
    + unfold get_doc in Hg. apply (alookup_In dkey_eqb dkey_eqb_spec). exact Hg.
    + rewrite N.eqb_refl. cbn. apply N.leb_le. exact Hq.
Qed.

Theorem C09_backfill_only_own_collection s cid start d : In d (backfill_rows s cid start) -> fst (fst d) = cid.
Proof.
  unfold backfill_rows. rewrite fold_insert_In, filter_In. intros [[_ Hq]|[]].
  apply andb_true_iff in Hq. destruct Hq as [Hq _]. apply N.eqb_eq in Hq. exact Hq.
Qed.

(* a backfill event and a live event for the same document state are the same event *)
Theorem C09_backfill_event_is_live_event s cid start f :
  In f (backfill_events s cid start) ->
  exists key r, In ((cid, key), r) (backfill_rows s cid start) /\ f = as_feed_event (cid - 1) key (event_of_row r).
Proof.
  unfold backfill_events. intros H. apply in_map_iff in H. destruct H as ([[c k] r] & <- & Hin).
  pose proof (C09_backfill_only_own_collection _ _ _ _ Hin) as Hc. cbn in Hc. subst c. exists k, r. split; [exact Hin | reflexivity].
Qed.

(* starting from CAS s is filtering the full snapshot *)
Lemma filter_insert_sorted (p : dkey * row -> bool) d l : cas_sorted l ->
  (forall a b, r_cas (snd a) <= r_cas (snd b) -> p a = true -> p b = true) ->
  filter p (insert_by_cas d l) = if p d then insert_by_cas d (filter p l) else filter p l.
Proof.
  intros Hs Hmono. induction l as [|d' r IH]; cbn [insert_by_cas filter]; [destruct (p d); reflexivity|].
  destruct Hs as [H1 H2]. destruct (r_cas (snd d) <? r_cas (snd d')) eqn:Hlt.
  - cbn [filter]. destruct (p d) eqn:Pd.
    + assert (p d' = true) as Pd' by (apply (Hmono d d'); [apply N.ltb_lt in Hlt; lia | exact Pd]).
      rewrite Pd'. cbn [insert_by_cas]. rewrite Hlt. reflexivity.
    + reflexivity.
  - cbn [filter]. rewrite (IH H2). destruct (p d') eqn:Pd'; destruct (p d) eqn:Pd; cbn [insert_by_cas]; rewrite ?Hlt; reflexivity.
Qed.

Lemma fold_insert_filter (p q : dkey * row -> bool) l :
  (forall a b, r_cas (snd a) <= r_cas (snd b) -> p a = true -> p b = true) ->
  forall acc, cas_sorted acc ->
  fold_left (fun a d => insert_by_cas d a) (filter (fun d => q d && p d) l) (filter p acc)
  = filter p (fold_left (fun a d => insert_by_cas d a) (filter q l) acc).
Proof.
  intros Hmono. induction l as [|d r IH]; intros acc Hacc; cbn [filter fold_left]; [reflexivity|].
  destruct (q d) eqn:Q; cbn [andb].
  - cbn [fold_left]. rewrite <- IH by (apply insert_sorted; exact Hacc).
    rewrite (filter_insert_sorted p d acc Hacc Hmono). destruct (p d); reflexivity.
  - apply IH. exact Hacc.
Qed.

Theorem C09_backfill_from_start s cid start :
  backfill_events s cid start = filter (fun f => start <=? f_cas f) (backfill_events s cid 0).
Proof.
  unfold backfill_events, backfill_rows.
  pose (p := fun d : dkey * row => start <=? r_cas (snd d)).
  pose (q := fun d : dkey * row => (fst (fst d) =? cid) && (0 <=? r_cas (snd d))).
  assert (forall a b : dkey * row, r_cas (snd a) <= r_cas (snd b) -> p a = true -> p b = true) as Hmono.
  { unfold p. intros a b Hab Ha. apply N.leb_le in Ha. apply N.leb_le. lia. }
  pose proof (fold_insert_filter p q (s_docs s) Hmono [] I) as H. cbn [filter] in H.
  assert (filter (fun d : N * string * row => (fst (fst d) =? cid) && (start <=? r_cas (snd d))) (s_docs s)
          = filter (fun d => q d && p d) (s_docs s)) as ->.
  { apply filter_ext. intros [[c0 k0] r0]. unfold q, p. cbn [fst snd]. destruct (c0 =? cid); cbn [andb]; [|reflexivity].
    destruct (0 <=? r_cas r0) eqn:Z; [reflexivity | apply N.leb_gt in Z; lia]. }
  rewrite H.
  change (filter (fun d : N * string * row => (fst (fst d) =? cid) && (0 <=? r_cas (snd d))) (s_docs s)) with (filter q (s_docs s)).
  generalize (fold_left (fun a d => insert_by_cas d a) (filter q (s_docs s)) []). intros l.
  induction l as [|d r IH]; [reflexivity|]. cbn [filter map]. unfold p at 1.
  change (f_cas (as_feed_event (cid - 1) (snd (fst d)) (event_of_row (snd d)))) with (r_cas (snd d)).
  destruct (start <=? r_cas (snd d)); cbn [map]; rewrite IH; reflexivity.
Qed.

(* ------------------------------------------------------------------------------------------ *)
(* lifting any per-step check that holds between consecutive reachable stores to whole histories *)

Theorem walk_sound_gen (chk : step_chk) :
  (forall s x o colls keys xn n0 n1, store_ok s -> tables_ok s -> wf_sop o ->
     let res := sstep s x o in
     chk (with_next (snap s colls keys xn) n0) x o
         (mkOstep (sr_resp res) (fevents_of (sr_events res)) (sr_dump res) (with_next (snap (sr_store res) colls keys xn) n1)) = true) ->
  forall c steps s n, store_ok s -> tables_ok s -> wf_steps steps ->
  walk chk (with_next (snap s (sc_colls c) (sc_keys c) (sc_xnames c)) n) steps (srun_from s n c steps) = true.
Proof.
  intros Hstep c steps. induction steps as [|[x o] r IH]; intros s n Hs Ht Hwf; cbn [srun_from walk]; [reflexivity|].
  inversion Hwf as [|? ? Hwo Hwr]; subst. cbn [snd] in Hwo. cbv zeta.
  rewrite (Hstep s x o _ _ _ n _ Hs Ht Hwo). cbn [andb os_snap].
  apply IH; [apply sstep_ok; assumption | apply sstep_tables_ok; assumption | exact Hwr].
Qed.

Lemma In_snap_rows s colls keys xn e : In e (sn_rows (snap s colls keys xn)) ->
  exists cid, coll_id s (fst (fst e)) = Some cid /\ snd e = obs_of cid (snd (fst e)) xn (get_doc s (cid, snd (fst e))).
Proof.
  cbn [snap sn_rows]. intros H. apply in_flat_map in H. destruct H as (c' & Hc' & Hin).
  destruct (coll_id s c') as [cid|] eqn:E; [|destruct Hin].
  apply in_map_iff in Hin. destruct Hin as (k' & <- & _). exists cid. cbn. auto.
Qed.

Lemma kv_view_eqb_refl o : kv_view_eqb o o = true.
Proof.
  unfold kv_view_eqb. destruct (resp_eq_dec (o_get o) (o_get o)); [|congruence].
  destruct (resp_eq_dec (o_exp o) (o_exp o)); [|congruence]. destruct (o_exists o); reflexivity.
Qed.

Lemma kv_view_eqb_refl_obs cid cid' k xn r : kv_view_eqb (obs_of cid k xn r) (obs_of cid' k xn r) = true.
Proof.
  unfold kv_view_eqb, obs_of; cbn [o_get o_exp o_exists].
  repeat match goal with |- context [resp_eq_dec ?a ?a] => destruct (resp_eq_dec a a); [|congruence] end.
  apply Bool.eqb_reflx.
Qed.

Lemma others_kept_step s x o colls keys xn n0 n1 : store_ok s -> tables_ok s -> wf_sop o ->
  let res := sstep s x o in
  chk_step_others_kept (with_next (snap s colls keys xn) n0) x o
    (mkOstep (sr_resp res) (fevents_of (sr_events res)) (sr_dump res) (with_next (snap (sr_store res) colls keys xn) n1)) = true.
Proof.
  intros Hs Ht Hwf. cbv zeta. destruct o; cbn [chk_step_others_kept]; try reflexivity.
  cbn [os_snap with_next sn_rows]. apply forallb_forall. intros e He.
  destruct (sspair_eqb (fst e) (coll, key)) eqn:Eq; [reflexivity|]. cbn [orb].
  destruct (look (fst e) (sn_rows (snap s colls keys xn))) as [o0|] eqn:El; [|reflexivity].
  destruct e as [[c' k'] ob]. cbn [fst snd] in *.
  apply look_snap in El. destruct El as (cid0 & Ec0 & ->).
  apply In_snap_rows in He. cbn [fst snd] in He. destruct He as (cid' & Ec' & ->).
  cbn [sstep] in *. destruct (coll_id s coll) as [cid|] eqn:Ec.
  - rewrite coll_id_kv_on in Ec'. rewrite Ec0 in Ec'. inversion Ec'; subst cid'.
    rewrite kv_on_frame; [apply kv_view_eqb_refl_obs|].
    intros E. inversion E; subst. 
    assert (c' = coll) by (eapply coll_id_inj; eauto; apply Ht). subst.
    unfold sspair_eqb in Eq. cbn in Eq. rewrite !String.eqb_refl in Eq. discriminate.
  - cbn [sr_store] in Ec'. rewrite Ec0 in Ec'. inversion Ec'; subst. apply kv_view_eqb_refl_obs.
Qed.

(* ------------------------------------------------------------------------------------------ *)
(* C19: $_keyspace ranges over exactly the documents of the collection that have a body, once each *)

Theorem keyspace_spec s cid k v xs : tables_ok s ->
  (In (k, v, xs) (keyspace s cid) <->
   exists r, get_doc s (cid, k) = Some r /\ r_value r = Some v /\ xs = xlist (r_xattrs r)).
Proof.
  intros Hs. unfold keyspace. rewrite in_flat_map. split.
  - intros ([[c k'] r] & Hin & Hd). cbn [fst snd] in Hd. destruct (N.eqb_spec c cid) as [->|]; [|destruct Hd].
    destruct (r_value r) as [v'|] eqn:Ev; [|destruct Hd]. destruct Hd as [E|[]]. inversion E; subst.
    exists r. repeat split; [|exact Ev]. unfold get_doc. apply (In_alookup dkey_eqb dkey_eqb_spec); [apply Hs | exact Hin].
  - intros (r & Hg & Hv & ->). exists ((cid, k), r). split.
    + unfold get_doc in Hg. apply (alookup_In dkey_eqb dkey_eqb_spec). exact Hg.
    + cbn [fst snd]. rewrite N.eqb_refl, Hv. left. reflexivity.
Qed.

Lemma keyspace_ids_nodup_aux cid (l : list (dkey * row)) : NoDup (akeys l) ->
  NoDup (map (fun d : qdoc => fst (fst d))
             (flat_map (fun d : dkey * row =>
                if fst (fst d) =? cid then
                  match r_value (snd d) with
                  | Some v => [(snd (fst d), v, match xparse (r_xattrs (snd d)) with Some m => m | None => [] end)]
                  | None => []
                  end
                else []) l)).
Proof.
  induction l as [|[[c k] r] rest IH]; cbn [flat_map map akeys]; intros Hnd; [constructor|].
  inversion Hnd as [|? ? Hn Hr]; subst. specialize (IH Hr). cbn [fst snd].
  destruct (N.eqb_spec c cid) as [->|]; [|exact IH]. destruct (r_value r); [|exact IH].
  cbn [app map fst]. constructor; [|exact IH].
  intros Hin. apply in_map_iff in Hin. destruct Hin as ([[k' v'] xs'] & Hk & Hin). cbn in Hk. subst k'.
  apply in_flat_map in Hin. destruct Hin as ([[c2 k2] r2] & Hin2 & Hd). cbn [fst snd] in Hd.
  destruct (N.eqb_spec c2 cid) as [->|]; [|destruct Hd]. destruct (r_value r2); [|destruct Hd].
  destruct Hd as [E|[]]. inversion E; subst. apply Hn. apply in_map_iff. exists ((cid, k), r2). auto.
Qed.

Theorem keyspace_each_once s cid : tables_ok s -> NoDup (map (fun d : qdoc => fst (fst d)) (keyspace s cid)).
Proof. intros Hs. apply keyspace_ids_nodup_aux. apply Hs. Qed.

Lemma insert_by_id_In d l x : In x (insert_by_id d l) <-> x = d \/ In x l.
Proof.
  induction l as [|d' r IH]; cbn; [intuition|].
  destruct (String.compare (fst (fst d)) (fst (fst d'))); cbn; rewrite ?IH; intuition.
Qed.

Theorem sort_by_id_In l x : In x (sort_by_id l) <-> In x l.
Proof.
  unfold sort_by_id. assert (forall acc, In x (fold_left (fun a d => insert_by_id d a) l acc) <-> In x l \/ In x acc) as H.
  { induction l as [|d r IH]; intros acc; cbn [fold_left]; [cbn; intuition|]. rewrite IH, insert_by_id_In. cbn. intuition. }
  rewrite H. cbn. intuition.
Qed.

Theorem sort_by_id_length l : List.length (sort_by_id l) = List.length l.
Proof.
  unfold sort_by_id. assert (forall acc, List.length (fold_left (fun a d => insert_by_id d a) l acc) = (List.length l + List.length acc)%nat) as H.
  { induction l as [|d r IH]; intros acc; cbn [fold_left]; [reflexivity|]. rewrite IH.
    assert (List.length (insert_by_id d acc) = S (List.length acc)) as ->; [|cbn; lia].
    induction acc as [|a r' IHa]; cbn; [reflexivity|]. destruct (String.compare _ _); cbn; try reflexivity; rewrite IHa; reflexivity. }
  rewrite H. cbn. lia.
Qed.

(* a query therefore never sees a tombstone or another collection's document *)
Corollary keyspace_no_tombstone_no_foreign s cid k v xs : tables_ok s -> In (k, v, xs) (keyspace s cid) ->
  exists r, get_doc s (cid, k) = Some r /\ r_value r <> None.
Proof. intros Hs H. apply (keyspace_spec s cid k v xs Hs) in H. destruct H as (r & Hg & Hv & _). exists r. split; [exact Hg | congruence]. Qed.

(* ------------------------------------------------------------------------------------------ *)
(* views: sorting the index rows neither drops nor invents rows *)

Lemma insert_vrow_In d l x : In x (insert_vrow d l) <-> x = d \/ In x l.
Proof. induction l as [|d' r IH]; cbn; [intuition|]. destruct (vrow_lt d d'); cbn; rewrite ?IH; intuition. Qed.

Theorem sort_vrows_In : forall l x, In x (sort_vrows l) <-> In x l.
Proof.
  intros l x. unfold sort_vrows.
  assert (forall acc, In x (fold_left (fun a d => insert_vrow d a) l acc) <-> In x l \/ In x acc) as H.
  { induction l as [|d r IH]; intros acc; cbn [fold_left]; [cbn; intuition|]. rewrite IH, insert_vrow_In. cbn. intuition. }
  rewrite H. cbn. intuition.
Qed.
