(* KvC14Trace.v - C14: the whole step checker chk_step_C14 (the armed timer covers every stored expiry after
   every step; a firing tombstones exactly the due documents, each with a deletion event, and leaves every
   other row as it was; a call leaves the expiry its arguments say) accepts every history of the model.    *)
From Rosmar Require Import Base Json Crc Hlc HlcProofs Kv Store Trace KvTac KvRowOk KvLift KvFrame KvC14 ExpProofs KvTrace Sweep.

(* lifting a per-step check that needs an invariant over (store, armed deadline) *)
Theorem walk_sound_inv (chk : step_chk) (Inv : store -> N -> Prop) :
  (forall s n x o colls keys xn, store_ok s -> tables_ok s -> wf_sop o -> Inv s n ->
     let res := sstep s x o in
     let n' := next_after n s o res in
     chk (with_next (snap s colls keys xn) n) x o
         (mkOstep (sr_resp res) (fevents_of (sr_events res)) (sr_dump res) (with_next (snap (sr_store res) colls keys xn) n')) = true
     /\ Inv (sr_store res) n') ->
  forall c steps s n, store_ok s -> tables_ok s -> wf_steps steps -> Inv s n ->
  walk chk (with_next (snap s (sc_colls c) (sc_keys c) (sc_xnames c)) n) steps (srun_from s n c steps) = true.
Proof.
  intros Hstep c steps. induction steps as [|[x o] r IH]; intros s n Hs Ht Hwf Hinv; cbn [srun_from walk]; [reflexivity|].
  inversion Hwf as [|? ? Hwo Hwr]; subst. cbn [snd] in Hwo. cbv zeta.
  destruct (Hstep s n x o (sc_colls c) (sc_keys c) (sc_xnames c) Hs Ht Hwo Hinv) as [A B]. cbv zeta in A, B.
  rewrite A. cbn [andb os_snap].
  apply IH; [apply sstep_ok; assumption | apply sstep_tables_ok; assumption | exact Hwr | exact B].
Qed.

Lemma row_exp_obs cid k xn r : row_exp (obs_of cid k xn r) = match r with Some r0 => r_exp r0 | None => 0 end.
Proof. destruct r; reflexivity. Qed.

Lemma covers_of_cov n e : cov n e -> covers n e = true.
Proof.
  unfold cov, covers. intros [->|[Hn Hle]]; [reflexivity|]. apply orb_true_iff. right.
  apply andb_true_iff. split; [apply negb_true_iff, N.eqb_neq; exact Hn | apply N.leb_le; exact Hle].
Qed.

(* after every step the armed deadline covers the expiry of every row the snapshot shows *)
Lemma covers_rows s n colls keys xn : covered s n ->
  forallb (fun e => covers (snap_next (with_next (snap s colls keys xn) n)) (row_exp (snd e))) (sn_rows (with_next (snap s colls keys xn) n)) = true.
Proof.
  intros Hcov. apply forallb_forall. intros e He. cbn [with_next sn_rows] in He. unfold snap_next. cbn [with_next sn_lastcas snd].
  apply In_snap_rows in He. destruct He as (cid & _ & ->). rewrite row_exp_obs.
  destruct (get_doc s (cid, snd (fst e))) as [r0|] eqn:Eg; [|reflexivity].
  apply covers_of_cov. unfold get_doc in Eg. apply (alookup_In dkey_eqb dkey_eqb_spec) in Eg. exact (Hcov _ Eg).
Qed.

(* ---- a step of a sweep, whole or interrupted: it removes, of the documents it is about, exactly those whose expiry
   has passed when the step is taken, and leaves every other row as it was ---- *)
Lemma c14_sweep_sound s n' x o colls keys xn (n : N) : tables_ok s -> is_sweep o = true ->
  let res := sstep s x o in
  forallb (fun e => match look (fst e) (sn_rows (with_next (snap (sr_store res) colls keys xn) n')) with
                    | Some o1 =>
                        let e0 := row_exp (snd e) in
                        if (0 <? e0) && (e0 <=? x_now x) && sweep_takes (sn_colls (with_next (snap s colls keys xn) n)) o (fst (fst e)) (snd (fst e))
                        then negb (o_exists o1) && (row_exp o1 =? 0)
                             && existsb (fun f => String.eqb (f_key f) (snd (fst e)) && (if fopcode_eq_dec (f_op f) FDeletion then true else false)) (fevents_of (sr_events res))
                        else obsrow_eqb (snd e) o1
                    | None => false
                    end) (sn_rows (with_next (snap s colls keys xn) n)) = true.
Proof.
  intros Ht Ho. cbv zeta.
  destruct (sweep_correct s x o Ht Ho) as (Hdue & Hkeep & Habs & Hid). cbv zeta in *.
  set (res := sstep s x o) in *.
  apply forallb_forall. intros e He. cbn [with_next sn_rows sn_colls] in He |- *. rewrite snap_colls.
  pose proof (In_snap_rows_keys _ _ _ _ _ He) as [Hcin Hkin].
  destruct e as [[c k] ob]. cbn [fst snd] in *.
  apply In_snap_rows in He. cbn [fst snd] in He. destruct He as (cid & Ec & ->).
  destruct (look (c, k) (sn_rows (snap (sr_store res) colls keys xn))) as [o1|] eqn:El.
  2:{ exfalso. apply (look_some (sr_store res) colls keys xn c k cid Hcin); [rewrite Hid; exact Ec | exact Hkin | exact El]. }
  apply look_snap in El. destruct El as (cid' & Ec' & ->). rewrite Hid, Ec in Ec'. inversion Ec'; subst cid'.
  rewrite row_exp_obs, (sweep_takes_takes s o c cid k Ht Ec).
  destruct (get_doc s (cid, k)) as [r0|] eqn:Eg.
  + destruct ((0 <? r_exp r0) && (r_exp r0 <=? x_now x)) eqn:Ed; [destruct (takes s o (cid, k)) eqn:Etk|]; cbn [andb].
    * (* due, and the step is about it: tombstoned, expiry cleared, a deletion event *)
      apply andb_true_iff in Ed. destruct Ed as [E1 E2]. apply N.ltb_lt in E1. apply N.leb_le in E2.
      destruct (Hdue (cid, k) r0 Eg (conj E1 E2) Etk) as [(r' & Hg' & Hv & He0 & Htm) (ev & Hev & Hdel)].
      rewrite Hg'. rewrite row_exp_obs, He0.
      assert (o_exists (obs_of cid k xn (Some r')) = false) as ->.
      { unfold obs_of; cbn [o_exists]. unfold kstep, do_exists; cbn. rewrite Hv. reflexivity. }
      cbn [negb andb N.eqb]. apply existsb_exists. exists (as_feed_event (cid - 1) k ev). split.
      -- unfold fevents_of. apply in_map_iff. exists (cid, k, ev). split; [reflexivity | exact Hev].
      -- cbn [as_feed_event f_key f_op]. rewrite String.eqb_refl, Hdel. reflexivity.
    * (* due, but not this step's: as it was *)
      rewrite (Hkeep (cid, k) r0 Eg (or_intror Etk)). apply obsrow_eqb_refl.
    * (* not due: as it was - never early *)
      assert (~ due (x_now x) r0) as Hnd.
      { intros [A B]. apply andb_false_iff in Ed. destruct Ed as [Ed|Ed]; [apply N.ltb_ge in Ed; lia | apply N.leb_gt in Ed; lia]. }
      rewrite (Hkeep (cid, k) r0 Eg (or_introl Hnd)). apply obsrow_eqb_refl.
  + cbn [N.ltb N.compare andb]. rewrite (Habs (cid, k) Eg). apply obsrow_eqb_refl.
Qed.

(* ---- the step checker ---- *)
Lemma c14_step_sound s n x o colls keys xn : store_ok s -> tables_ok s -> wf_sop o -> covered s n ->
  let res := sstep s x o in
  let n' := next_after n s o res in
  chk_step_C14 (with_next (snap s colls keys xn) n) x o
    (mkOstep (sr_resp res) (fevents_of (sr_events res)) (sr_dump res) (with_next (snap (sr_store res) colls keys xn) n')) = true
  /\ covered (sr_store res) n'.
Proof.
  intros Hs Ht Hwf Hcov. cbv zeta.
  pose proof (cover_step s n x o Hwf Hs Hcov) as Hcov'.
  split; [|exact Hcov'].
  unfold chk_step_C14. cbn [os_snap]. rewrite (covers_rows _ _ colls keys xn Hcov'). cbn [andb].
  destruct o; try reflexivity.
  - (* a call: the row rule *)
    apply (kv_step_sound chk_row_C14 C14_row_sound s x (SKv coll key op) colls keys xn n _ Hs Hwf).
  - (* a firing *)
    exact (c14_sweep_sound s _ x SExpire colls keys xn n Ht eq_refl).
  - (* a sweep that is interrupted, as far as collection wc *)
    exact (c14_sweep_sound s _ x (SExpireScan wc) colls keys xn n Ht eq_refl).
  - (* ... and from there on *)
    exact (c14_sweep_sound s _ x (SExpireK wc keys0 parked) colls keys xn n Ht eq_refl).
Qed.

Theorem C14_kv_sound c : wf_case c -> chk_C14_kv (c, srun c) = true.
Proof.
  intros Hwf. unfold chk_C14_kv, snap0, srun. cbn [fst snd].
  apply (walk_sound_inv chk_step_C14 covered c14_step_sound c (sc_steps c) store0 0 store0_ok store0_tables_ok Hwf).
  intros d Hd. destruct Hd.
Qed.
