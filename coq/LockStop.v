(* LockStop.v - shutdown safety (C20): the expiry timer's callback against the shutdown calls.

   The callback (expiryManager.runExpiry -> Bucket.doExpiration) holds expiryManager.mutex while every
   removal of its sweep takes bucket.mutex: it does not follow the rank discipline of Locks.v, and against
   the CloseAndDelete of the pinned tree a stuck configuration is reachable (Locks.timer_vs_delete_deadlocks).
   Since the fixes 116c2a3 / 2f1f33b / fcaf2af of /repo the store carries a flag, shared by all handles,
   that says it has been shut down:
     - CloseAndDelete sets it and stops the expiry manager (waiting for expiryManager.mutex, i.e. for a
       running sweep) BEFORE it takes bucket.mutex; _closeSqliteDB sets it again and stops again;
     - the callback, once it has expiryManager.mutex, does nothing if the flag is set.
   This file models that protocol - threads are lists of Acq / Rel / SetStop / IfStopped actions over the
   locks of Locks.v - and proves, for each of the listed systems of threads and EVERY schedule, that no
   reachable configuration is stuck.  The state space of each system is finite; the proof computes the set
   of reachable configurations, checks that it contains the initial one and is closed under every thread's
   step (so it contains every reachable configuration, by induction over the schedule) and that none of its
   members is stuck.  The bound is the system: one thread of each listed kind. *)
From Rosmar Require Import Base Locks.
From Coq Require Import FMapPositive.

Inductive gact := GAcq (l : nat) | GRel (l : nat) | GSetStop | GIfStopped (skip : nat).
(* GIfStopped n: if the store has been shut down, leave out the next n actions *)

Record gcfg := mkGcfg { gc_threads : list (list gact); gc_held : list (nat * nat) (* lock -> owner, by lock *); gc_stop : bool }.

Definition gowner (c : gcfg) (l : nat) : option nat := alookup Nat.eqb l (gc_held c).

Fixpoint hold (l t : nat) (h : list (nat * nat)) : list (nat * nat) :=
  match h with
  | [] => [(l, t)]
  | (l', t') :: r => if Nat.ltb l l' then (l, t) :: h else (l', t') :: hold l t r
  end.

Definition genabled (c : gcfg) (t : nat) : bool :=
  match nth_error (gc_threads c) t with
  | Some (GAcq l :: _) => is_none (gowner c l)
  | Some (_ :: _) => true
  | _ => false
  end.

Definition gstep (c : gcfg) (t : nat) : gcfg :=
  match nth_error (gc_threads c) t with
  | Some (GAcq l :: r) => if is_none (gowner c l) then mkGcfg (set_nth (gc_threads c) t r) (hold l t (gc_held c)) (gc_stop c) else c
  | Some (GRel l :: r) => mkGcfg (set_nth (gc_threads c) t r) (aremove Nat.eqb l (gc_held c)) (gc_stop c)
  | Some (GSetStop :: r) => mkGcfg (set_nth (gc_threads c) t r) (gc_held c) true
  | Some (GIfStopped n :: r) => mkGcfg (set_nth (gc_threads c) t (if gc_stop c then skipn n r else r)) (gc_held c) (gc_stop c)
  | _ => c
  end.

Definition gall_done (c : gcfg) : bool := forallb (fun p => match p with [] => true | _ => false end) (gc_threads c).
Definition gstuck (c : gcfg) : bool :=
  negb (gall_done c) && negb (existsb (genabled c) (seq 0 (List.length (gc_threads c)))).

Fixpoint gexec (sched : list nat) (c : gcfg) : gcfg :=
  match sched with [] => c | t :: r => gexec r (gstep c t) end.

Definition ginit (progs : list (list gact)) : gcfg := mkGcfg progs [] false.

(* ------------------------------------------------------------------------------------------ *)
(* the code paths (ranks as in Locks.v: B bucket.mutex, R cluster.lock, E expiryManager.mutex,
   Cm Collection.mutex, Q a feed's queue lock, H the HLC mutex)                                 *)
Definition of_lact (a : lact) : gact := match a with Acq l => GAcq l | Rel l => GRel l end.

(* runExpiry: expiryManager.mutex; doExpiration returns at once if the store has been shut down; otherwise one
   removal (transaction with an HLC draw), the posting's read of the feed list and push, the re-arming query *)
Definition g_timer : list gact :=
  [GAcq E; GIfStopped 10; GAcq B; GAcq H; GRel H; GRel B; GAcq B; GRel B; GAcq Q; GRel Q; GAcq B; GRel B; GRel E].
(* the callback before the fixes: no test of a flag *)
Definition g_timer_before : list gact := map of_lact path_timer.
(* CloseAndDelete: flag, stop (waits for a running sweep), then bucket.mutex for the rest *)
Definition g_close_and_delete : list gact :=
  [GSetStop; GAcq E; GRel E; GAcq B; GSetStop; GAcq E; GRel E; GAcq Cm; GAcq Q; GRel Q; GRel Cm; GAcq R; GRel R; GRel B].
Definition g_close_and_delete_before : list gact := map of_lact path_close_and_delete.
(* the last Close of an on-disk bucket: unregisterBucket shuts the store down under cluster.lock *)
Definition g_close_last : list gact :=
  [GAcq B; GRel B; GAcq R; GSetStop; GAcq E; GRel E; GAcq Cm; GAcq Q; GRel Q; GRel Cm; GRel R; GAcq B; GRel B].
Definition g_write : list gact := map of_lact path_write.
Definition g_start_feed : list gact := map of_lact path_start_feed.
Definition g_drop : list gact := map of_lact path_drop_collection.

(* ------------------------------------------------------------------------------------------ *)
(* finite sets of configurations: a trie keyed by a hash, buckets compared structurally         *)
Definition gcfg_eq_dec : forall a b : gcfg, {a = b} + {a <> b}.
Proof.
  decide equality.
  - apply Bool.bool_dec.
  - apply list_eq_dec. decide equality; apply Nat.eq_dec.
  - apply list_eq_dec. apply list_eq_dec. decide equality; apply Nat.eq_dec.
Defined.
Definition gcfg_eqb (a b : gcfg) : bool := if gcfg_eq_dec a b then true else false.

Definition ghash (c : gcfg) : positive :=
  N.succ_pos (fold_left (fun acc p => acc * 32 + N.of_nat (List.length p)) (gc_threads c) (if gc_stop c then 1 else 0)%N).

Definition hset := PositiveMap.t (list gcfg).
Definition hmem (c : gcfg) (s : hset) : bool :=
  match PositiveMap.find (ghash c) s with Some l => existsb (gcfg_eqb c) l | None => false end.
Definition hadd (c : gcfg) (s : hset) : hset :=
  PositiveMap.add (ghash c) (c :: match PositiveMap.find (ghash c) s with Some l => l | None => [] end) s.
Definition hall (P : gcfg -> bool) (s : hset) : bool := forallb (fun kv => forallb P (snd kv)) (PositiveMap.elements s).
Definition hsize (s : hset) : nat := fold_left (fun n kv => (n + List.length (snd kv))%nat) (PositiveMap.elements s) 0%nat.

Definition visit (n : nat) (acc : hset * list gcfg) (c : gcfg) : hset * list gcfg :=
  fold_left (fun a t => let c' := gstep c t in if hmem c' (fst a) then a else (hadd c' (fst a), c' :: snd a)) (seq 0 n) acc.

Fixpoint explore (fuel n : nat) (frontier : list gcfg) (seen : hset) : hset :=
  match fuel with
  | O => seen
  | S f => match frontier with
           | [] => seen
           | _ => let r := fold_left (visit n) frontier (seen, []) in explore f n (snd r) (fst r)
           end
  end.

Definition reach_set (progs : list (list gact)) : hset :=
  let c0 := ginit progs in
  explore (S (fold_left (fun n p => (n + List.length p)%nat) progs 0%nat)) (List.length progs) [c0] (hadd c0 (PositiveMap.empty _)).

(* the three checks that make a set an inductive over-approximation of what is reachable, and safe *)
Definition covers (progs : list (list gact)) (s : hset) : bool :=
  hmem (ginit progs) s
  && hall (fun c => Nat.eqb (List.length (gc_threads c)) (List.length progs)) s
  && hall (fun c => forallb (fun t => hmem (gstep c t) s) (seq 0 (List.length progs))) s.

Lemma hmem_hall P c s : hmem c s = true -> hall P s = true -> P c = true.
Proof.
  unfold hmem, hall. intros Hm Ha. destruct (PositiveMap.find (ghash c) s) as [l|] eqn:Ef; [|discriminate].
  apply existsb_exists in Hm. destruct Hm as (c' & Hin & He). unfold gcfg_eqb in He. destruct (gcfg_eq_dec c c') as [->|]; [|discriminate].
  rewrite forallb_forall in Ha. specialize (Ha (ghash c', l) (PositiveMap.elements_correct s (ghash c') Ef)).
  cbn in Ha. rewrite forallb_forall in Ha. exact (Ha c' Hin).
Qed.

Lemma covers_step progs s c t : covers progs s = true -> hmem c s = true -> hmem (gstep c t) s = true.
Proof.
  unfold covers. intros Hc Hm. apply andb_true_iff in Hc. destruct Hc as [Hc H3]. apply andb_true_iff in Hc. destruct Hc as [_ H2].
  pose proof (hmem_hall _ c s Hm H2) as Hlen. apply Nat.eqb_eq in Hlen.
  pose proof (hmem_hall _ c s Hm H3) as Hall. rewrite forallb_forall in Hall.
  destruct (Nat.ltb_spec t (List.length progs)) as [Hlt|Hge].
  - apply Hall. apply in_seq. lia.
  - unfold gstep. assert (nth_error (gc_threads c) t = None) as -> by (apply nth_error_None; lia). exact Hm.
Qed.

Lemma covers_reach progs s : covers progs s = true -> forall sched, hmem (gexec sched (ginit progs)) s = true.
Proof.
  intros Hc.
  assert (forall sched c, hmem c s = true -> hmem (gexec sched c) s = true) as Hx.
  { induction sched as [|t r IH]; intros c Hm; cbn [gexec]; [exact Hm | apply IH, (covers_step progs); assumption]. }
  intros sched. apply Hx. unfold covers in Hc. apply andb_true_iff in Hc. destruct Hc as [Hc _]. apply andb_true_iff in Hc. apply Hc.
Qed.

Theorem covers_no_deadlock progs s : covers progs s = true -> hall (fun c => negb (gstuck c)) s = true ->
  forall sched, gstuck (gexec sched (ginit progs)) = false.
Proof.
  intros Hc Hs sched. apply negb_true_iff. exact (hmem_hall _ _ s (covers_reach progs s Hc sched) Hs).
Qed.

(* when every thread has finished nothing is held *)
Theorem covers_nothing_held progs s : covers progs s = true ->
  hall (fun c => negb (gall_done c) || match gc_held c with [] => true | _ => false end) s = true ->
  forall sched, gall_done (gexec sched (ginit progs)) = true -> gc_held (gexec sched (ginit progs)) = [].
Proof.
  intros Hc Hs sched Hd. pose proof (hmem_hall _ _ s (covers_reach progs s Hc sched) Hs) as H. cbn beta in H.
  rewrite Hd in H. cbn in H. destruct (gc_held (gexec sched (ginit progs))); [reflexivity | discriminate].
Qed.

(* ------------------------------------------------------------------------------------------ *)
(* the systems                                                                                  *)
Definition sys_cad : list (list gact) := [g_timer; g_close_and_delete; g_write; g_start_feed].
Definition sys_close_last : list (list gact) := [g_timer; g_close_last; g_write; g_drop].
Definition sys_both : list (list gact) := [g_timer; g_close_and_delete; g_close_last; g_write].

Definition set_cad := Eval vm_compute in reach_set sys_cad.
Definition set_close_last := Eval vm_compute in reach_set sys_close_last.
Definition set_both := Eval vm_compute in reach_set sys_both.

Lemma covers_cad : covers sys_cad set_cad = true. Proof. vm_compute. reflexivity. Qed.
Lemma covers_close_last : covers sys_close_last set_close_last = true. Proof. vm_compute. reflexivity. Qed.
Lemma covers_both : covers sys_both set_both = true. Proof. vm_compute. reflexivity. Qed.

Theorem timer_vs_close_and_delete_no_deadlock sched : gstuck (gexec sched (ginit sys_cad)) = false.
Proof. apply (covers_no_deadlock _ set_cad covers_cad). vm_compute. reflexivity. Qed.

Theorem timer_vs_last_close_no_deadlock sched : gstuck (gexec sched (ginit sys_close_last)) = false.
Proof. apply (covers_no_deadlock _ set_close_last covers_close_last). vm_compute. reflexivity. Qed.

Theorem timer_vs_both_shutdowns_no_deadlock sched : gstuck (gexec sched (ginit sys_both)) = false.
Proof. apply (covers_no_deadlock _ set_both covers_both). vm_compute. reflexivity. Qed.

Theorem shutdown_leaves_no_lock sched : gall_done (gexec sched (ginit sys_both)) = true -> gc_held (gexec sched (ginit sys_both)) = [].
Proof. apply (covers_nothing_held _ set_both covers_both). vm_compute. reflexivity. Qed.

(* the sweep never runs on a store that has been shut down: in no reachable configuration of these systems is
   the timer thread past its test (holding expiryManager.mutex, about to take bucket.mutex for a removal)
   while CloseAndDelete holds bucket.mutex *)
Definition sweep_inside_shutdown (c : gcfg) : bool :=
  match nth_error (gc_threads c) 0 with
  | Some (GAcq l :: _) => Nat.eqb l B && match gowner c E, gowner c B with Some 0%nat, Some 1%nat => true | _, _ => false end
  | _ => false
  end.
Theorem sweep_never_waits_for_close_and_delete sched : sweep_inside_shutdown (gexec sched (ginit sys_cad)) = false.
Proof.
  apply negb_true_iff. refine (hmem_hall (fun c => negb (sweep_inside_shutdown c)) _ set_cad (covers_reach _ _ covers_cad sched) _).
  vm_compute. reflexivity.
Qed.

(* non-vacuity: the same exploration finds the deadlock of the code before the fixes, and the sets are not small *)
Example before_the_fixes_a_stuck_configuration_is_reachable :
  hall (fun c => negb (gstuck c)) (reach_set [g_timer_before; g_close_and_delete_before]) = false.
Proof. vm_compute. reflexivity. Qed.
Example before_the_fixes_witness : gstuck (gexec [0; 1]%nat (ginit [g_timer_before; g_close_and_delete_before])) = true.
Proof. vm_compute. reflexivity. Qed.
Example sets_are_not_small : (1000 <=? hsize set_cad)%nat && (1000 <=? hsize set_both)%nat = true.
Proof. vm_compute. reflexivity. Qed.
