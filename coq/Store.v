(* Store.v — bucket-level model: the documents / collections / bucket tables of one bucket, the
   process clock, the log of posted events; every step is one client call (or one firing of the
   expiry timer).  The step for a key-value call is Kv.kstep applied to the addressed row.      *)
From Rosmar Require Import Base Json Crc Hlc Kv.

Definition dkey := (N * string)%type.                      (* (collections.id, documents.key) *)
Definition dkey_eqb (a b : dkey) : bool := (fst a =? fst b) && String.eqb (snd a) (snd b).

Lemma dkey_eqb_spec a b : dkey_eqb a b = true <-> a = b.
Proof.
  destruct a as [c k], b as [c' k']; unfold dkey_eqb; cbn.
  rewrite andb_true_iff, N.eqb_eq, String.eqb_eq. split; [intros [-> ->]; reflexivity | intros H; inversion H; auto].
Qed.

Record store := mkStore {
  s_docs : list (dkey * row);              (* insertion (rowid) order *)
  s_colls : list (N * (string * N));       (* collections: id -> (scope.name, lastCas) in id order *)
  s_nextcoll : N;                          (* AUTOINCREMENT *)
  s_lastcas : N;                           (* bucket.lastCas *)
  s_high : N;                              (* hlc.highestTime (process-wide) *)
  s_log : list (N * string * event)        (* every event posted so far: (collection id, key, event) *)
}.

Definition default_coll : string := "_default._default".

Definition store0 : store := mkStore [] [(1, (default_coll, 0))] 2 0 0 [].

Definition get_doc (s : store) (k : dkey) : option row := alookup dkey_eqb k (s_docs s).

Definition coll_id (s : store) (name : string) : option N :=
  match filter (fun c => String.eqb (fst (snd c)) name) (s_colls s) with
  | (id, _) :: _ => Some id
  | [] => None
  end.

Definition set_coll_lastcas (id cas : N) (cs : list (N * (string * N))) : list (N * (string * N)) :=
  map (fun c => if fst c =? id then (fst c, (fst (snd c), cas)) else c) cs.

(* per-step context supplied by the environment *)
Record sctx := mkSctx {
  x_clock : N;      (* what the physical clock reads during this call *)
  x_now : N;        (* time.Now().Unix() during this call *)
  x_maxdoc : N
}.

(* the family of SQL statements of C19 (semantics: eval_query below) *)
Inductive qtemplate :=
| QIds          (* SELECT json_quote(id) AS id FROM $_keyspace ORDER BY id *)
| QBodies       (* SELECT json_quote(id) AS id, json_quote(hex(body)) AS hb FROM $_keyspace ORDER BY id *)
| QCount        (* SELECT count( * ) AS n FROM $_keyspace *)
| QIdEq (k : string)   (* SELECT json_quote(id) AS id FROM $_keyspace WHERE id = $k *)
| QBodyA1       (* ... WHERE CASE WHEN json_valid(body) THEN body->>'$.a' END = 1 ORDER BY id *)
| QXattrRev (v : string) (* ... WHERE xattrs->>'$._sync.rev' = $v ORDER BY id *)
| QSync         (* SELECT json_quote(id) AS id, xattrs->'$._sync' AS s FROM $_keyspace ORDER BY id *)
| QLast2.       (* SELECT json_quote(id) AS id FROM $_keyspace ORDER BY id DESC LIMIT 2 *)

Inductive sop :=
| SKv (coll : string) (key : string) (op : kop)
| SPurge
| SCreateColl (name : string)
| SDropColl (name : string)
| SDump (coll : string) (start : N)      (* a one-shot (Dump) feed with backfill from CAS `start` *)
| SReopen                                (* an on-disk bucket: every handle closed, then reopened *)
| SQuery (coll : string) (q : qtemplate) (* Collection.Query with one of the family's statements *)
| SExpire.                       (* the expiry timer fires (bucket.doExpiration) *)

Record sres := mkSres {
  sr_store : store;
  sr_resp : resp;
  sr_events : list (N * string * event);     (* posted by this step *)
  sr_dump : list fevent                      (* what a Dump feed started by this step delivers *)
}.

Definition create_coll (s : store) (name : string) : store * N :=
  let id := s_nextcoll s in
  (mkStore (s_docs s) (s_colls s ++ [(id, (name, 0))]) (id + 1) (s_lastcas s) (s_high s) (s_log s), id).

(* apply one key-value call to collection id `cid` *)
Definition kv_on (s : store) (x : sctx) (cid : N) (key : string) (op : kop) : sres :=
  let c1 := hlc_now (s_high s) (x_clock x) in
  let res := kstep (mkCtx (x_now x) c1 (x_maxdoc x)) op (get_doc s (cid, key)) in
  let high' := if kr_draws res =? 0 then s_high s else c1 + (kr_draws res - 1) in
  let evs := map (fun e => (cid, key, e)) (kr_events res) in
  let s' := mkStore (aput dkey_eqb (cid, key) (kr_row res) (s_docs s))
                    (match kr_commit res with Some c => set_coll_lastcas cid c (s_colls s) | None => s_colls s end)
                    (s_nextcoll s)
                    (match kr_commit res with Some c => c | None => s_lastcas s end)
                    high'
                    (s_log s ++ evs) in
  mkSres s' (kr_resp res) evs [].

(* Collection.expireDocuments: keys of this collection with 0 < exp <= now, in (exp, rowid) order
   (the docs_exp index); each is then Delete()d *)
Fixpoint insert_by_exp (d : dkey * row) (l : list (dkey * row)) : list (dkey * row) :=
  match l with
  | [] => [d]
  | d' :: r => if r_exp (snd d) <? r_exp (snd d') then d :: l else d' :: insert_by_exp d r
  end.

Definition due_keys (s : store) (cid now : N) : list string :=
  let due := filter (fun d => (fst (fst d) =? cid) && (0 <? r_exp (snd d)) && (r_exp (snd d) <=? now)) (s_docs s) in
  map (fun d => snd (fst d)) (fold_left (fun acc d => insert_by_exp d acc) due []).

Fixpoint expire_keys (s : store) (x : sctx) (cid : N) (keys : list string) (acc : list (N * string * event))
  : store * list (N * string * event) :=
  match keys with
  | [] => (s, acc)
  | k :: r => let res := kv_on s x cid k KDelete in expire_keys (sr_store res) x cid r (acc ++ sr_events res)
  end.

Fixpoint expire_colls (s : store) (x : sctx) (cids : list N) (acc : list (N * string * event))
  : store * list (N * string * event) :=
  match cids with
  | [] => (s, acc)
  | cid :: r =>
      let '(s', acc') := expire_keys s x cid (due_keys s cid (x_now x)) acc in
      expire_colls s' x r acc'
  end.

(* enqueueBackfillEvents ... ORDER BY cas : keys of a collection with cas >= start, in CAS order
   (ties - possible only through WithMeta writes - in rowid order, which is what SQLite's stable
   index scan yields; the harness avoids ties) *)
Fixpoint insert_by_cas (d : dkey * row) (l : list (dkey * row)) : list (dkey * row) :=
  match l with
  | [] => [d]
  | d' :: r => if r_cas (snd d) <? r_cas (snd d') then d :: l else d' :: insert_by_cas d r
  end.

Definition backfill_rows (s : store) (cid start : N) : list (dkey * row) :=
  fold_left (fun acc d => insert_by_cas d acc)
            (filter (fun d => (fst (fst d) =? cid) && (start <=? r_cas (snd d))) (s_docs s)) [].

Definition backfill_events (s : store) (cid start : N) : list fevent :=
  map (fun d => as_feed_event (cid - 1) (snd (fst d)) (event_of_row (snd d))) (backfill_rows s cid start).

(* ------------------------------------------------------------------------------------------ *)
(* SQL queries (collection+query.go).  `$_keyspace` is
     SELECT key AS id, value AS body, xattrs FROM documents WHERE collection=<id> AND value NOT NULL
   A family of statements over it; rows come back as the JSON text NextBytes builds (a NULL column
   is left out of the row).                                                                     *)
Definition qdoc := (string * string * list (string * string))%type.   (* id, body, xattrs *)

Fixpoint insert_by_id (d : qdoc) (l : list qdoc) : list qdoc :=
  match l with
  | [] => [d]
  | d' :: r => match String.compare (fst (fst d)) (fst (fst d')) with Lt => d :: l | _ => d' :: insert_by_id d r end
  end.
Definition sort_by_id (l : list qdoc) : list qdoc := fold_left (fun acc d => insert_by_id d acc) l [].

Definition keyspace (s : store) (cid : N) : list qdoc :=
  flat_map (fun d : dkey * row =>
              if fst (fst d) =? cid then
                match r_value (snd d) with
                | Some v => [(snd (fst d), v, match xparse (r_xattrs (snd d)) with Some m => m | None => [] end)]
                | None => []
                end
              else []) (s_docs s).

Definition upper_hex (n : N) : ascii :=
  match n with
  | 0 => "0" | 1 => "1" | 2 => "2" | 3 => "3" | 4 => "4" | 5 => "5" | 6 => "6" | 7 => "7"
  | 8 => "8" | 9 => "9" | 10 => "A" | 11 => "B" | 12 => "C" | 13 => "D" | 14 => "E" | _ => "F"
  end%char.

Definition hex_of_string (s : string) : string :=
  (fix go (s : string) : string :=
     match s with
     | EmptyString => EmptyString
     | String c r => let n := N_of_ascii c in
                     String (upper_hex (n / 16)) (String (upper_hex (n mod 16)) (go r))
     end) s.

Definition row_id (id : string) : string := ("{""id"":" ++ quote id ++ "}")%string.

Definition body_a_is_1 (body : string) : bool :=
  match jparse body with
  | Some (JObj m) => match obj_get "a" m with Some (JNum false 1) | Some (JBool true) => true | _ => false end
  | _ => false
  end.

Definition sync_rev (xs : list (string * string)) : option string :=
  match alookup String.eqb "_sync" xs with
  | Some v => match jparse v with
              | Some (JObj m) => match obj_get "rev" m with Some (JStr r) => Some r | _ => None end
              | _ => None
              end
  | None => None
  end.

Definition eval_query (q : qtemplate) (docs : list qdoc) : list string :=
  let sorted := sort_by_id docs in
  match q with
  | QIds => map (fun d => row_id (fst (fst d))) sorted
  | QBodies => map (fun d => ("{""id"":" ++ quote (fst (fst d)) ++ ",""hb"":" ++ quote (hex_of_string (snd (fst d))) ++ "}")%string) sorted
  | QCount => [("{""n"":" ++ N_to_dec (N.of_nat (List.length docs)) ++ "}")%string]
  | QIdEq k => map (fun d => row_id (fst (fst d))) (filter (fun d => String.eqb (fst (fst d)) k) sorted)
  | QBodyA1 => map (fun d => row_id (fst (fst d))) (filter (fun d => body_a_is_1 (snd (fst d))) sorted)
  | QXattrRev v => map (fun d => row_id (fst (fst d)))
                       (filter (fun d => match sync_rev (snd d) with Some r => String.eqb r v | None => false end) sorted)
  | QSync => map (fun d => match alookup String.eqb "_sync" (snd d) with
                           | Some v => ("{""id"":" ++ quote (fst (fst d)) ++ ",""s"":" ++ v ++ "}")%string
                           | None => row_id (fst (fst d))
                           end) sorted
  | QLast2 => map (fun d => row_id (fst (fst d))) (firstn 2 (rev sorted))
  end.

Definition marker (op : fopcode) : fevent := mkFevent op "" "" [] false false 0 0 0 0.

Definition sstep (s : store) (x : sctx) (o : sop) : sres :=
  match o with
  | SKv coll key op =>
      match coll_id s coll with
      | Some cid => kv_on s x cid key op
      | None =>
          (* NamedDataStore would create the collection on first use; the harness never addresses a
             collection that does not exist (it issues explicit create steps), so this branch is
             outside the exercised inputs and is modelled as a failing no-op *)
          mkSres s (RErr EOther) [] []
      end
  | SPurge =>
      (* DELETE FROM documents WHERE value IS NULL *)
      let keep := filter (fun d => is_some (r_value (snd d))) (s_docs s) in
      let n := N.of_nat (List.length (s_docs s) - List.length keep) in
      mkSres (mkStore keep (s_colls s) (s_nextcoll s) (s_lastcas s) (s_high s) (s_log s)) (RNum n) [] []
  | SCreateColl name =>
      match coll_id s name with
      | Some _ => mkSres s (RErr EOther) [] []
      | None => mkSres (fst (create_coll s name)) ROk [] []
      end
  | SDropColl name =>
      if String.eqb name default_coll then mkSres s (RErr EOther) [] [] else
      match coll_id s name with
      | None => mkSres s ROk [] []
      | Some cid =>
          mkSres (mkStore (filter (fun d => negb (fst (fst d) =? cid)) (s_docs s))
                          (filter (fun c => negb (fst c =? cid)) (s_colls s))
                          (s_nextcoll s) (s_lastcas s) (s_high s) (s_log s)) ROk [] []
      end
  | SDump coll start =>
      match coll_id s coll with
      | Some cid => mkSres s ROk [] (marker FBegin :: backfill_events s cid start ++ [marker FEnd])
      | None => mkSres s (RErr EOther) [] []
      end
  | SReopen => mkSres s ROk [] []
  | SQuery coll q =>
      match coll_id s coll with
      | Some cid => mkSres s (RRows (eval_query q (keyspace s cid))) [] []
      | None => mkSres s (RErr EOther) [] []
      end
  | SExpire =>
      let '(s', evs) := expire_colls s x (map fst (s_colls s)) [] in
      mkSres s' ROk evs []
  end.

(* ------------------------------------------------------------------------------------------ *)
(* The expiry manager's nextExp (0: no timer armed).  scheduleExpirationAtOrBefore:               *)
Definition sched (next e : N) : N :=
  if e =? 0 then next else if (next =? 0) || (e <? next) then e else next.

(* SELECT min(exp) FROM documents WHERE exp > 0   (0: no such row) *)
Definition min_exp (s : store) : N := fold_left sched (map (fun d => r_exp (snd d)) (s_docs s)) 0.

Definition is_touch (op : kop) : bool := match op with KTouch _ | KGetAndTouch _ => true | _ => false end.
Definition resp_is_err (r : resp) : bool := match r with RErr _ => true | _ => false end.

(* nextExp after a step: every posted event schedules its expiry (postNewEvent); a successful touch
   schedules the new expiry itself; the timer callback clears nextExp, expires, and re-arms from
   min(exp); OpenBucket of an existing bucket arms from min(exp) *)
Definition next_after (next : N) (s : store) (o : sop) (res : sres) : N :=
  match o with
  | SExpire | SReopen => sched 0 (min_exp (sr_store res))
  | SKv coll key op =>
      let n1 := fold_left sched (map (fun e => e_exp (snd e)) (sr_events res)) next in
      if is_touch op && negb (resp_is_err (sr_resp res)) then
        match coll_id s coll with
        | Some cid => match get_doc (sr_store res) (cid, key) with Some r => sched n1 (r_exp r) | None => n1 end
        | None => n1
        end
      else n1
  | _ => next
  end.

(* ------------------------------------------------------------------------------------------ *)
(* Observation: what the public API shows of one (collection, key) and of a collection           *)

Record obsrow := mkObs {
  o_get : resp;          (* GetRaw *)
  o_exp : resp;          (* GetExpiry *)
  o_doc : resp;          (* GetWithXattrs(all names ++ $document) *)
  o_exists : bool;       (* Exists *)
  o_dump : option fevent (* this key's event in a dump feed with backfill from 0 *)
}.

Definition obs_of (cid : N) (key : string) (xnames : list string) (r : option row) : obsrow :=
  let c0 := mkCtx 0 0 0 in
  mkObs (kr_resp (kstep c0 KGetRaw r))
        (kr_resp (kstep c0 KGetExpiry r))
        (kr_resp (kstep c0 (KGetWithXattrs (xnames ++ ["$document"; "$document.revid"])) r))
        (match kr_resp (kstep c0 KExists r) with RBool b => b | _ => false end)
        (match r with Some r0 => Some (as_feed_event (cid - 1) key (event_of_row r0)) | None => None end).

Record snapshot := mkSnap {
  sn_colls : list string;                          (* ListDataStores *)
  sn_rows : list ((string * string) * obsrow);     (* (collection name, key) *)
  sn_order : list (string * list string);          (* per collection: keys of the dump feed in order *)
  sn_lastcas : list (string * N)                   (* [("nextExp", the expiry manager's nextExp)] (hook accessor) *)
}.

Definition with_next (sn : snapshot) (n : N) : snapshot := mkSnap (sn_colls sn) (sn_rows sn) (sn_order sn) [("nextExp", n)].

Definition snap (s : store) (colls keys xnames : list string) : snapshot :=
  let live := filter (fun c => is_some (coll_id s c)) colls in
  mkSnap (map (fun c => fst (snd c)) (s_colls s))
         (flat_map (fun c =>
            match coll_id s c with
            | Some cid => map (fun k => ((c, k), obs_of cid k xnames (get_doc s (cid, k)))) keys
            | None => []
            end) live)
         (map (fun c => (c, match coll_id s c with
                            | Some cid => map (fun d => snd (fst d)) (backfill_rows s cid 0)
                            | None => []
                            end)) live)
         [].

(* ------------------------------------------------------------------------------------------ *)
(* Running a history                                                                            *)

Record ostep := mkOstep {
  os_resp : resp;
  os_live : list fevent;                           (* events delivered to the live feeds, in order *)
  os_dump : list fevent;                           (* events delivered to the Dump feed of an SDump step *)
  os_snap : snapshot
}.

Record scase := mkScase {
  sc_colls : list string;
  sc_keys : list string;
  sc_xnames : list string;
  sc_steps : list (sctx * sop)
}.

Definition fevents_of (evs : list (N * string * event)) : list fevent :=
  map (fun e => as_feed_event (fst (fst e) - 1) (snd (fst e)) (snd e)) evs.

Fixpoint srun_from (s : store) (next : N) (c : scase) (steps : list (sctx * sop)) : list ostep :=
  match steps with
  | [] => []
  | (x, o) :: r =>
      let res := sstep s x o in
      let next' := next_after next s o res in
      mkOstep (sr_resp res) (fevents_of (sr_events res)) (sr_dump res)
              (with_next (snap (sr_store res) (sc_colls c) (sc_keys c) (sc_xnames c)) next')
      :: srun_from (sr_store res) next' c r
  end.

Definition srun (c : scase) : list ostep := srun_from store0 0 c (sc_steps c).

Fixpoint sfinal_from (s : store) (steps : list (sctx * sop)) : store :=
  match steps with
  | [] => s
  | (x, o) :: r => sfinal_from (sr_store (sstep s x o)) r
  end.
