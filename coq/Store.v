(* Store.v — bucket-level model: the documents / collections / bucket tables of one bucket, the
   process clock, the log of posted events; every step is one client call (or one firing of the
   expiry timer).  The step for a key-value call is Kv.kstep applied to the addressed row.      *)
From Rosmar Require Import Base Json Crc Hlc Kv.

Definition dkey := (N * string)%type.                      (* (collections.id, documents.key) *)
Definition dkey_eqb (a b : dkey) : bool := (fst a =? fst b) && String.eqb (snd a) (snd b).

Lemma dkey_eqb_spec a b : dkey_eqb a b = true <-> a = b.
Proof.
  destruct a as [c k], b as [c' k']; unfold dkey_eqb; cbn.
  rewrite andb_true_iff, N.eqb_eq, String.eqb_eq. split; [intros [-> ->]; reflexivity | intros H; inversion H; auto].
Qed.

(* one row of the `views` table with its rows of the `mapped` table *)
Record vdef := mkVdef {
  vd_coll : N;                                   (* designDocs.collection *)
  vd_ddoc : string;
  vd_name : string;
  vd_map : N;                                    (* which map function of the family (its JavaScript source in the harness) *)
  vd_lastcas : N;                                (* views.lastCas *)
  vd_rows : list (string * json * json)          (* mapped: (documents.key of the source document, emitted key, emitted value) *)
}.

Record store := mkStore {
  s_docs : list (dkey * row);              (* insertion (rowid) order *)
  s_colls : list (N * (string * N));       (* collections: id -> (scope.name, lastCas) in id order *)
  s_nextcoll : N;                          (* AUTOINCREMENT *)
  s_lastcas : N;                           (* bucket.lastCas *)
  s_high : N;                              (* hlc.highestTime (process-wide) *)
  s_log : list (N * string * event);       (* every event posted so far: (collection id, key, event) *)
  s_views : list vdef                      (* design documents / views / mapped *)
}.

Definition default_coll : string := "_default._default".

Definition store0 : store := mkStore [] [(1, (default_coll, 0))] 2 0 0 [] [].

Definition get_doc (s : store) (k : dkey) : option row := alookup dkey_eqb k (s_docs s).

Definition coll_id (s : store) (name : string) : option N :=
  match filter (fun c => String.eqb (fst (snd c)) name) (s_colls s) with
  | (id, _) :: _ => Some id
  | [] => None
  end.

Definition set_coll_lastcas (id cas : N) (cs : list (N * (string * N))) : list (N * (string * N)) :=
  map (fun c => if fst c =? id then (fst c, (fst (snd c), cas)) else c) cs.

(* per-step context supplied by the environment *)
Record sctx := mkSctx {
  x_clock : N;      (* what the physical clock reads during this call *)
  x_now : N;        (* time.Now().Unix() during this call *)
  x_maxdoc : N
}.

(* view query parameters (the subset the family exercises) *)
Record vparams := mkVparams {
  vp_stale : bool;                 (* stale=ok: do not update the index first *)
  vp_descending : bool;
  vp_limit : option N;
  vp_startkey : option json;
  vp_endkey : option json;
  vp_inclusive_end : bool;
  vp_key : option json;
  vp_reduce : bool                 (* reduce=true (the default): apply the view's reduce function, if it has one *)
}.

(* the family of SQL statements of C19 (semantics: eval_query below) *)
Inductive qtemplate :=
| QIds          (* SELECT json_quote(id) AS id FROM $_keyspace ORDER BY id *)
| QBodies       (* SELECT json_quote(id) AS id, json_quote(hex(body)) AS hb FROM $_keyspace ORDER BY id *)
| QCount        (* SELECT count( * ) AS n FROM $_keyspace *)
| QIdEq (k : string)   (* SELECT json_quote(id) AS id FROM $_keyspace WHERE id = $k *)
| QBodyA1       (* ... WHERE CASE WHEN json_valid(body) THEN body->>'$.a' END = 1 ORDER BY id *)
| QXattrRev (v : string) (* ... WHERE xattrs->>'$._sync.rev' = $v ORDER BY id *)
| QSync         (* SELECT json_quote(id) AS id, xattrs->'$._sync' AS s FROM $_keyspace ORDER BY id *)
| QLast2        (* SELECT json_quote(id) AS id FROM $_keyspace ORDER BY id DESC LIMIT 2 *)
| QBodyAEq (n : N)   (* ... WHERE CASE WHEN json_valid(body) THEN body->>'$.a' END = $n ORDER BY id, the argument bound as an unsigned integer *)
| QSyncFirst    (* SELECT xattrs->'$._sync' AS s, json_quote(id) AS id FROM $_keyspace ORDER BY id : the leading column is NULL
                   (and left out of the row) for a document without that xattr *)
| QUser         (* SELECT json_quote(id) AS id, xattrs->'$.u1' AS u FROM $_keyspace ORDER BY id : a user xattr (the xattrs
                   column of a document whose only xattr is a short one is itself a short blob) *)
| QCross        (* SELECT json_quote(a.id || b.id || c.id || d.id) AS id FROM $_keyspace a, $_keyspace b, $_keyspace c, $_keyspace d
                   ORDER BY a.id, b.id, c.id, d.id : n^4 rows from n documents - a result longer than any buffer *)
| QLit.         (* SELECT json_quote(id) AS id, json_quote('a  b') AS s FROM $_keyspace ORDER BY id : a string literal of the
                   statement - two blanks in it - comes back as it was written *)

Inductive sop :=
| SKv (coll : string) (key : string) (op : kop)
| SPurge
| SCreateColl (name : string)
| SDropColl (name : string)
| SDump (coll : string) (start : N)      (* a one-shot (Dump) feed with backfill from CAS `start` *)
| SReopen                                (* an on-disk bucket: every handle closed, then reopened *)
| SQuery (coll : string) (q : qtemplate) (* Collection.Query with one of the family's statements *)
| SPutDDoc (coll ddoc : string) (views : list (string * N))   (* PutDDoc: view name -> map function of the family *)
| SDelDDoc (coll ddoc : string)
| SView (coll ddoc view : string) (p : vparams)
| SExpire                        (* the expiry timer fires (bucket.doExpiration) *)
| SDumpKeys (coll : string) (start : N)       (* a dump feed with KeysOnly: the same events without body and xattrs *)
| SGetDDocs (coll : string)      (* GetDDocs: the collection's design documents and their views *)
| SDraw (coll key : string) (op : kop) (b : N)
                                 (* the compare-and-swap loop of the call `op` that follows (Update, WriteUpdateWithXattrs,
                                    sub-document writes) began b transactions in all: those beyond what the call itself
                                    accounts for were failed attempts, rolled back, each having consumed one timestamp *)
| SExpireScan (wc : string)      (* the expiry timer has fired and its sweep has come as far as collection wc: the collections
                                    before it have been swept, the keys of wc whose expiry has passed have been read (the answer
                                    of this step) - and other calls now run before the sweep goes on (hook expiry.window) *)
| SExpireK (wc : string) (keys : list string) (parked : list N).
                                 (* the sweep goes on: each of `keys` - what its query of wc returned - is removed if it is
                                    STILL due (Collection.remove looks at the expiry again inside its transaction, fix 2068c64
                                    of /repo), the collections after wc are swept, the timer is re-armed; `parked` are the
                                    expiries of the calls made in between, whose requests to the expiry manager waited for the
                                    sweep to release it *)

Record sres := mkSres {
  sr_store : store;
  sr_resp : resp;
  sr_events : list (N * string * event);     (* posted by this step *)
  sr_dump : list fevent                      (* what a Dump feed started by this step delivers *)
}.

Definition create_coll (s : store) (name : string) : store * N :=
  let id := s_nextcoll s in
  (mkStore (s_docs s) (s_colls s ++ [(id, (name, 0))]) (id + 1) (s_lastcas s) (s_high s) (s_log s) (s_views s), id).

Definition is_withmeta (op : kop) : bool :=
  match op with KSetWithMeta _ _ _ _ _ _ | KDeleteWithMeta _ _ _ _ => true | _ => false end.
Definition withmeta_cas (op : kop) : N :=
  match op with KSetWithMeta _ nc _ _ _ _ | KDeleteWithMeta _ nc _ _ => nc | _ => 0 end.

(* apply one key-value call to collection id `cid`.  A regular write sets bucket.lastCas and the
   collection's lastCas to its new CAS (setLastCas).  A successful WithMeta write, whose CAS the caller
   chose, sets both to a fresh timestamp and resets views.lastCas of every view of the collection
   (writeWithMeta), so that the next non-stale query rebuilds those indexes. *)
Definition kv_on (s : store) (x : sctx) (cid : N) (key : string) (op : kop) : sres :=
  let c1 := hlc_now (s_high s) (x_clock x) in
  let res := kstep (mkCtx (x_now x) c1 (x_maxdoc x)) op (get_doc s (cid, key)) in
  let high' := if kr_draws res =? 0 then s_high s else c1 + (kr_draws res - 1) in
  let evs := map (fun e => (cid, key, e)) (kr_events res) in
  let meta_ok := is_withmeta op && negb (match kr_resp res with RErr _ => true | _ => false end) in
  let s' := mkStore (aput dkey_eqb (cid, key) (kr_row res) (s_docs s))
                    (match kr_commit res with Some c => set_coll_lastcas cid c (s_colls s) | None => s_colls s end)
                    (s_nextcoll s)
                    (match kr_commit res with Some c => c | None => s_lastcas s end)
                    high'
                    (s_log s ++ evs)
                    (if meta_ok
                     then map (fun v => if vd_coll v =? cid then mkVdef (vd_coll v) (vd_ddoc v) (vd_name v) (vd_map v) 0 (vd_rows v) else v) (s_views s)
                     else s_views s) in
  mkSres s' (kr_resp res) evs [].

(* Collection.expireDocuments: keys of this collection with 0 < exp <= now, in (exp, rowid) order
   (the docs_exp index); each is then Delete()d *)
Fixpoint insert_by_exp (d : dkey * row) (l : list (dkey * row)) : list (dkey * row) :=
  match l with
  | [] => [d]
  | d' :: r => if r_exp (snd d) <? r_exp (snd d') then d :: l else d' :: insert_by_exp d r
  end.

Definition due_keys (s : store) (cid now : N) : list string :=
  let due := filter (fun d => (fst (fst d) =? cid) && (0 <? r_exp (snd d)) && (r_exp (snd d) <=? now)) (s_docs s) in
  map (fun d => snd (fst d)) (fold_left (fun acc d => insert_by_exp d acc) due []).

Fixpoint expire_keys (s : store) (x : sctx) (cid : N) (keys : list string) (acc : list (N * string * event))
  : store * list (N * string * event) :=
  match keys with
  | [] => (s, acc)
  | k :: r => let res := kv_on s x cid k KDelete in expire_keys (sr_store res) x cid r (acc ++ sr_events res)
  end.

Fixpoint expire_colls (s : store) (x : sctx) (cids : list N) (acc : list (N * string * event))
  : store * list (N * string * event) :=
  match cids with
  | [] => (s, acc)
  | cid :: r =>
      let '(s', acc') := expire_keys s x cid (due_keys s cid (x_now x)) acc in
      expire_colls s' x r acc'
  end.

(* the sweep interrupted between its query of a collection and its removals: a timestamp is drawn by every
   transaction, also by one that then finds the document gone or no longer due and rolls back *)
Definition burn (s : store) (x : sctx) : store :=
  mkStore (s_docs s) (s_colls s) (s_nextcoll s) (s_lastcas s) (hlc_now (s_high s) (x_clock x)) (s_log s) (s_views s).

Definition is_due (r : option row) (now : N) : bool :=
  match r with Some r0 => (0 <? r_exp r0) && (r_exp r0 <=? now) | None => false end.

Fixpoint expire_keys_chk (s : store) (x : sctx) (cid : N) (keys : list string) (acc : list (N * string * event))
  : store * list (N * string * event) :=
  match keys with
  | [] => (s, acc)
  | k :: r =>
      if is_due (get_doc s (cid, k)) (x_now x)
      then let res := kv_on s x cid k KDelete in expire_keys_chk (sr_store res) x cid r (acc ++ sr_events res)
      else expire_keys_chk (burn s x) x cid r acc
  end.

(* the sweep before the fix: every key the query returned is deleted, whatever has become of it *)
Definition expire_keys_unchecked := expire_keys.

Fixpoint ids_before (cs : list (N * (string * N))) (wc : string) : list N :=
  match cs with
  | [] => []
  | c :: r => if String.eqb (fst (snd c)) wc then [] else fst c :: ids_before r wc
  end.
Fixpoint ids_after (cs : list (N * (string * N))) (wc : string) : list N :=
  match cs with
  | [] => []
  | c :: r => if String.eqb (fst (snd c)) wc then map fst r else ids_after r wc
  end.

(* enqueueBackfillEvents ... ORDER BY cas : keys of a collection with cas >= start, in CAS order
   (ties - possible only through WithMeta writes - in rowid order, which is what SQLite's stable
   index scan yields; the harness avoids ties) *)
Fixpoint insert_by_cas (d : dkey * row) (l : list (dkey * row)) : list (dkey * row) :=
  match l with
  | [] => [d]
  | d' :: r => if r_cas (snd d) <? r_cas (snd d') then d :: l else d' :: insert_by_cas d r
  end.

Definition backfill_rows (s : store) (cid start : N) : list (dkey * row) :=
  fold_left (fun acc d => insert_by_cas d acc)
            (filter (fun d => (fst (fst d) =? cid) && (start <=? r_cas (snd d))) (s_docs s)) [].

Definition backfill_events (s : store) (cid start : N) : list fevent :=
  map (fun d => as_feed_event (cid - 1) (snd (fst d)) (event_of_row (snd d))) (backfill_rows s cid start).

(* ------------------------------------------------------------------------------------------ *)
(* SQL queries (collection+query.go).  `$_keyspace` is
     SELECT key AS id, value AS body, xattrs FROM documents WHERE collection=<id> AND value NOT NULL
   A family of statements over it; rows come back as the JSON text NextBytes builds (a NULL column
   is left out of the row).                                                                     *)
Definition qdoc := (string * string * list (string * string))%type.   (* id, body, xattrs *)

Fixpoint insert_by_id (d : qdoc) (l : list qdoc) : list qdoc :=
  match l with
  | [] => [d]
  | d' :: r => match String.compare (fst (fst d)) (fst (fst d')) with Lt => d :: l | _ => d' :: insert_by_id d r end
  end.
Definition sort_by_id (l : list qdoc) : list qdoc := fold_left (fun acc d => insert_by_id d acc) l [].

Definition keyspace (s : store) (cid : N) : list qdoc :=
  flat_map (fun d : dkey * row =>
              if fst (fst d) =? cid then
                match r_value (snd d) with
                | Some v => [(snd (fst d), v, match xparse (r_xattrs (snd d)) with Some m => m | None => [] end)]
                | None => []
                end
              else []) (s_docs s).

Definition upper_hex (n : N) : ascii :=
  match n with
  | 0 => "0" | 1 => "1" | 2 => "2" | 3 => "3" | 4 => "4" | 5 => "5" | 6 => "6" | 7 => "7"
  | 8 => "8" | 9 => "9" | 10 => "A" | 11 => "B" | 12 => "C" | 13 => "D" | 14 => "E" | _ => "F"
  end%char.

Definition hex_of_string (s : string) : string :=
  (fix go (s : string) : string :=
     match s with
     | EmptyString => EmptyString
     | String c r => let n := N_of_ascii c in
                     String (upper_hex (n / 16)) (String (upper_hex (n mod 16)) (go r))
     end) s.

Definition row_id (id : string) : string := ("{""id"":" ++ quote id ++ "}")%string.

Definition body_a_is_1 (body : string) : bool :=
  match jparse body with
  | Some (JObj m) => match obj_get "a" m with Some (JNum false 1) | Some (JBool true) => true | _ => false end
  | _ => false
  end.

Definition body_a_eq (n : N) (body : string) : bool :=
  match jparse body with
  | Some (JObj m) => match obj_get "a" m with
                     | Some (JNum false x) => x =? n
                     | Some (JBool b) => (if b then 1 else 0) =? n
                     | _ => false
                     end
  | _ => false
  end.

Definition sync_rev (xs : list (string * string)) : option string :=
  match alookup String.eqb "_sync" xs with
  | Some v => match jparse v with
              | Some (JObj m) => match obj_get "rev" m with Some (JStr r) => Some r | _ => None end
              | _ => None
              end
  | None => None
  end.

Definition eval_query (q : qtemplate) (docs : list qdoc) : list string :=
  let sorted := sort_by_id docs in
  match q with
  | QIds => map (fun d => row_id (fst (fst d))) sorted
  | QBodies => map (fun d => ("{""id"":" ++ quote (fst (fst d)) ++ ",""hb"":" ++ quote (hex_of_string (snd (fst d))) ++ "}")%string) sorted
  | QCount => [("{""n"":" ++ N_to_dec (N.of_nat (List.length docs)) ++ "}")%string]
  | QIdEq k => map (fun d => row_id (fst (fst d))) (filter (fun d => String.eqb (fst (fst d)) k) sorted)
  | QBodyA1 => map (fun d => row_id (fst (fst d))) (filter (fun d => body_a_is_1 (snd (fst d))) sorted)
  | QXattrRev v => map (fun d => row_id (fst (fst d)))
                       (filter (fun d => match sync_rev (snd d) with Some r => String.eqb r v | None => false end) sorted)
  | QSync => map (fun d => match alookup String.eqb "_sync" (snd d) with
                           | Some v => ("{""id"":" ++ quote (fst (fst d)) ++ ",""s"":" ++ v ++ "}")%string
                           | None => row_id (fst (fst d))
                           end) sorted
  | QLast2 => map (fun d => row_id (fst (fst d))) (firstn 2 (rev sorted))
  | QBodyAEq n => map (fun d => row_id (fst (fst d))) (filter (fun d => body_a_eq n (snd (fst d))) sorted)
  | QSyncFirst => map (fun d => match alookup String.eqb "_sync" (snd d) with
                                | Some v => ("{""s"":" ++ v ++ ",""id"":" ++ quote (fst (fst d)) ++ "}")%string
                                | None => row_id (fst (fst d))
                                end) sorted
  | QUser => map (fun d => match alookup String.eqb "u1" (snd d) with
                           | Some v => ("{""id"":" ++ quote (fst (fst d)) ++ ",""u"":" ++ v ++ "}")%string
                           | None => row_id (fst (fst d))
                           end) sorted
  | QCross => let ids := map (fun d => fst (fst d)) sorted in
              flat_map (fun a => flat_map (fun b => flat_map (fun c => map (fun d => row_id (a ++ b ++ c ++ d)) ids) ids) ids) ids
  | QLit => map (fun d => ("{""id"":" ++ quote (fst (fst d)) ++ ",""s"":""a  b""}")%string) sorted
  end.

(* ------------------------------------------------------------------------------------------ *)
(* Views (views.go, designdoc.go).                                                               *)

(* what the map function is shown: the parsed body if the document is JSON and has a body, else {} ;
   meta.xattrs only if the xattrs column holds a non-empty object *)
Definition map_doc (r : row) : option json :=
  if r_isJSON r then
    match r_value r with
    | Some v => if String.eqb v "" then Some (JObj []) else jparse v   (* a zero-length blob scans as a nil []byte: "{}" *)
    | None => Some (JObj [])
    end
  else Some (JObj []).

Definition map_xattrs (r : row) : list (string * string) :=
  match xparse (r_xattrs r) with Some m => m | None => [] end.

Definition num_prop (j : json) (k : string) : option json :=
  match j with
  | JObj m => match obj_get k m with Some (JNum neg n) => Some (JNum neg n) | _ => None end
  | _ => None
  end.

(* The family of map functions (JavaScript sources in harness/views.go):
   0: if (doc is an object with a numeric a) emit(doc.a, meta.id)
   1: emit(meta.id, null)
   2: if (meta.xattrs && meta.xattrs._sync !== undefined) emit(meta.id, meta.xattrs._sync)
   3: if (doc is an object with a numeric a) { emit([doc.a, 1], null); emit([doc.a, meta.id], null); emit([doc.a, 1], "dup") }
      (the same key twice for one document)
   4: if (doc is an object with a string s) emit(doc.s, null)                                              *)
Definition str_prop (j : json) (k : string) : option json :=
  match j with
  | JObj m => match obj_get k m with Some (JStr x) => Some (JStr x) | _ => None end
  | _ => None
  end.

Definition mapfn (id : N) (key : string) (r : row) : list (json * json) :=
  match map_doc r with
  | None => []                                (* the body does not parse: the function fails, nothing is emitted *)
  | Some doc =>
      match id mod 5 with
      | 0 => match num_prop doc "a" with Some a => [(a, JStr key)] | None => [] end
      | 1 => [(JStr key, JNull)]
      | 2 => match alookup String.eqb "_sync" (map_xattrs r) with
             | Some v => match jparse v with Some j => [(JStr key, j)] | None => [] end
             | None => []
             end
      | 3 => match num_prop doc "a" with
             | Some a => [(JArr [a; JNum false 1], JNull); (JArr [a; JStr key], JNull); (JArr [a; JNum false 1], JStr "dup")]
             | None => []
             end
      | _ => match str_prop doc "s" with Some x => [(x, JNull)] | None => [] end
      end
  end.

(* which documents the indexer feeds to the map function *)
Definition mappable (r : row) : bool :=
  is_some (r_value r) || match r_xattrs r with XNull => false | _ => true end.

Definition coll_lastcas (s : store) (cid : N) : N :=
  match alookup N.eqb cid (s_colls s) with Some p => snd p | None => 0 end.

(* updateView *)
Definition update_view (s : store) (v : vdef) : vdef :=
  let latest := coll_lastcas s (vd_coll v) in
  if latest =? vd_lastcas v then v else
  let changed := filter (fun d : dkey * row => (fst (fst d) =? vd_coll v) && (vd_lastcas v <? r_cas (snd d))) (s_docs s) in
  let is_changed (k : string) := existsb (fun d : dkey * row => String.eqb (snd (fst d)) k) changed in
  let kept := filter (fun row : string * json * json => negb (is_changed (fst (fst row)))) (vd_rows v) in
  let fresh := flat_map (fun d : dkey * row =>
                 if mappable (snd d) then map (fun kv => (snd (fst d), fst kv, snd kv)) (mapfn (vd_map v) (snd (fst d)) (snd d)) else [])
               changed in
  mkVdef (vd_coll v) (vd_ddoc v) (vd_name v) (vd_map v) latest (kept ++ fresh).

(* JSON collation of emitted keys (sgbucket.JSONCollator): null < false < true < numbers < strings <
   arrays < objects; the family emits non-negative integers, lower-case ASCII strings and arrays of them *)
(* Strings collate by the Unicode collation algorithm (golang.org/x/text/collate, root locale).  On ASCII
   letters and digits - the strings the view family emits - that is: compare the strings with case folded
   (digits before letters, letters alphabetically; a proper prefix first); if they are equal that way, the
   first position where the cases differ decides, lower case first.  Other characters compare by code
   point here, which is NOT the algorithm: the family does not emit them.                               *)
Definition lower_ascii (c : ascii) : ascii :=
  let n := nat_of_ascii c in if (Nat.leb 65 n && Nat.leb n 90)%bool then ascii_of_nat (n + 32) else c.
Fixpoint lower_string (s : string) : string :=
  match s with EmptyString => EmptyString | String c r => String (lower_ascii c) (lower_string r) end.
Fixpoint case_compare (a b : string) : comparison :=
  match a, b with
  | String x ra, String y rb =>
      if Ascii.eqb x y then case_compare ra rb
      else if Ascii.eqb (lower_ascii x) x then Lt else Gt       (* x is the lower-case one *)
  | EmptyString, EmptyString => Eq
  | EmptyString, _ => Lt
  | _, EmptyString => Gt
  end.
Definition ucompare (a b : string) : comparison :=
  match String.compare (lower_string a) (lower_string b) with
  | Eq => case_compare a b
  | c => c
  end.

Definition jrank (j : json) : N :=
  match j with JNull => 0 | JBool false => 1 | JBool true => 2 | JNum _ _ => 3 | JStr _ => 4 | JArr _ => 5 | JObj _ => 6 end.

Fixpoint jcollate (a b : json) : comparison :=
  match a, b with
  | JNum na x, JNum nb y =>
      match na, nb with
      | false, false => N.compare x y
      | true, true => N.compare y x
      | true, false => Lt
      | false, true => Gt
      end
  | JStr x, JStr y => ucompare x y
  | JArr la, JArr lb =>
      (fix go (la lb : list json) : comparison :=
         match la, lb with
         | [], [] => Eq
         | [], _ :: _ => Lt
         | _ :: _, [] => Gt
         | x :: ra, y :: rb => match jcollate x y with Eq => go ra rb | c => c end
         end) la lb
  | _, _ => N.compare (jrank a) (jrank b)
  end.

Definition vrow := (string * json * json)%type.     (* (document id, key, value) *)

Definition vrow_lt (a b : vrow) : bool :=
  match jcollate (snd (fst a)) (snd (fst b)) with
  | Lt => true
  | Gt => false
  | Eq => match String.compare (fst (fst a)) (fst (fst b)) with Lt => true | _ => false end
  end.

Fixpoint insert_vrow (d : vrow) (l : list vrow) : list vrow :=
  match l with
  | [] => [d]
  | d' :: r => if vrow_lt d d' then d :: l else d' :: insert_vrow d r
  end.
Definition sort_vrows (l : list vrow) : list vrow := fold_left (fun acc d => insert_vrow d acc) l [].

Definition key_ge (k : json) (lo : option json) (incl : bool) : bool :=
  match lo with None => true | Some m => match jcollate k m with Gt => true | Eq => incl | Lt => false end end.
Definition key_le (k : json) (hi : option json) (incl : bool) : bool :=
  match hi with None => true | Some m => match jcollate k m with Lt => true | Eq => incl | Gt => false end end.

(* ParseViewParams + getViewRows + ProcessParsed for the exercised parameters *)
Definition select_rows (p : vparams) (rows : list vrow) : list vrow :=
  let '(minkey, maxkey, incl_min, incl_max) :=
    match vp_key p with
    | Some k => (Some k, Some k, true, true)
    | None =>
        if vp_descending p then (vp_endkey p, vp_startkey p, vp_inclusive_end p, true)
        else (vp_startkey p, vp_endkey p, true, vp_inclusive_end p)
    end in
  let inrange := filter (fun r : vrow => key_ge (snd (fst r)) minkey incl_min && key_le (snd (fst r)) maxkey incl_max) (sort_vrows rows) in
  let ordered := if vp_descending p then rev inrange else inrange in
  match vp_limit p with Some n => firstn (N.to_nat n) ordered | None => ordered end.

(* views 5..9 are views 0..4 with the reduce function "_count": with reduce=true the selected rows are replaced
   by one row (no id, key null) holding their number - or by nothing if there are none (sgbucket ProcessParsed) *)
Definition view_reduces (m : N) : bool := 5 <=? m.
Definition reduce_rows (p : vparams) (m : N) (rows : list vrow) : list vrow :=
  if vp_reduce p && view_reduces m
  then match rows with [] => [] | _ => [(""%string, JNull, JNum false (N.of_nat (List.length rows)))] end
  else rows.

Definition render_vrow (r : vrow) : string :=
  (fst (fst r) ++ "|" ++ jprint (snd (fst r)) ++ "|" ++ jprint (snd r))%string.

Definition is_view (cid : N) (ddoc name : string) (v : vdef) : bool :=
  (vd_coll v =? cid) && String.eqb (vd_ddoc v) ddoc && String.eqb (vd_name v) name.
Definition in_ddoc (cid : N) (ddoc : string) (v : vdef) : bool := (vd_coll v =? cid) && String.eqb (vd_ddoc v) ddoc.

(* What GetDDocs answers, as sorted lines: "ddoc" for every design document of the collection and
   "ddoc/view=m" for each of its views (m: which of the family's map functions). *)
Fixpoint str_insert (x : string) (l : list string) : list string :=
  match l with
  | [] => [x]
  | y :: t => match String.compare x y with
              | Lt => x :: l
              | Eq => l
              | Gt => y :: str_insert x t
              end
  end.
Definition str_sort (l : list string) : list string := fold_right str_insert [] l.
Definition ddoc_lines (cid : N) (vs : list vdef) : list string :=
  str_sort (flat_map (fun v => if vd_coll v =? cid
                               then [vd_ddoc v; (vd_ddoc v ++ "/" ++ vd_name v ++ "=" ++ N_to_dec (vd_map v))%string]
                               else []) vs).

Definition with_views (s : store) (vs : list vdef) : store :=
  mkStore (s_docs s) (s_colls s) (s_nextcoll s) (s_lastcas s) (s_high s) (s_log s) vs.

Definition same_ddoc (cid : N) (ddoc : string) (views : list (string * N)) (vs : list vdef) : bool :=
  let cur := map (fun v => (vd_name v, vd_map v)) (filter (in_ddoc cid ddoc) vs) in
  match cur with [] => false | _ => true end
  && forallb (fun nv => existsb (fun c => String.eqb (fst c) (fst nv) && (snd c =? snd nv)) cur) views
  && forallb (fun c => existsb (fun nv => String.eqb (fst c) (fst nv) && (snd c =? snd nv)) views) cur.

(* what a KeysOnly feed is given of an event: opcode, key, CAS, expiry, revision, data type - no body, no xattrs *)
Definition strip_value (f : fevent) : fevent :=
  mkFevent (f_op f) (f_key f) "" [] (f_json f) false (f_cas f) (f_exp f) (f_rev f) (f_coll f).

Definition marker (op : fopcode) : fevent := mkFevent op "" "" [] false false 0 0 0 0.

Definition attempts_extra (s : store) (x : sctx) (coll key : string) (op : kop) (b : N) : N :=
  match coll_id s coll with
  | Some cid => b - kr_draws (kstep (mkCtx (x_now x) (hlc_now (s_high s) (x_clock x)) (x_maxdoc x)) op (get_doc s (cid, key)))
  | None => 0
  end.

Definition sstep (s : store) (x : sctx) (o : sop) : sres :=
  match o with
  | SKv coll key op =>
      match coll_id s coll with
      | Some cid => kv_on s x cid key op
      | None =>
          (* NamedDataStore would create the collection on first use; the harness never addresses a
             collection that does not exist (it issues explicit create steps), so this branch is
             outside the exercised inputs and is modelled as a failing no-op *)
          mkSres s (RErr EOther) [] []
      end
  | SPurge =>
      (* DELETE FROM documents WHERE value IS NULL *)
      let keep := filter (fun d => is_some (r_value (snd d))) (s_docs s) in
      let n := N.of_nat (List.length (s_docs s) - List.length keep) in
      (* mapped.doc REFERENCES documents(id) ON DELETE CASCADE *)
      let gone (cid : N) (k : string) := negb (existsb (fun d : dkey * row => dkey_eqb (fst d) (cid, k)) keep) in
      let vs := map (fun v => mkVdef (vd_coll v) (vd_ddoc v) (vd_name v) (vd_map v) (vd_lastcas v)
                                     (filter (fun row : vrow => negb (gone (vd_coll v) (fst (fst row)))) (vd_rows v))) (s_views s) in
      mkSres (mkStore keep (s_colls s) (s_nextcoll s) (s_lastcas s) (s_high s) (s_log s) vs) (RNum n) [] []
  | SCreateColl name =>
      match coll_id s name with
      | Some _ => mkSres s (RErr EOther) [] []
      | None => mkSres (fst (create_coll s name)) ROk [] []
      end
  | SDropColl name =>
      if String.eqb name default_coll then mkSres s (RErr EOther) [] [] else
      match coll_id s name with
      | None => mkSres s ROk [] []
      | Some cid =>
          mkSres (mkStore (filter (fun d => negb (fst (fst d) =? cid)) (s_docs s))
                          (filter (fun c => negb (fst c =? cid)) (s_colls s))
                          (s_nextcoll s) (s_lastcas s) (s_high s) (s_log s)
                          (filter (fun v => negb (vd_coll v =? cid)) (s_views s))) ROk [] []
      end
  | SDump coll start =>
      match coll_id s coll with
      | Some cid => mkSres s ROk [] (marker FBegin :: backfill_events s cid start ++ [marker FEnd])
      | None => mkSres s (RErr EOther) [] []
      end
  | SReopen =>
      (* OpenBucket: hlc.updateLatestTime(bucket.getLastTimestamp()) *)
      mkSres (mkStore (s_docs s) (s_colls s) (s_nextcoll s) (s_lastcas s) (hlc_update (s_high s) (s_lastcas s)) (s_log s) (s_views s)) ROk [] []
  | SPutDDoc coll ddoc views =>
      match coll_id s coll with
      | None => mkSres s (RErr EOther) [] []
      | Some cid =>
          if same_ddoc cid ddoc views (s_views s) then mkSres s ROk [] []       (* unchanged: nothing is re-created *)
          else
            let others := filter (fun v => negb (in_ddoc cid ddoc v)) (s_views s) in
            mkSres (with_views s (others ++ map (fun nv => mkVdef cid ddoc (fst nv) (snd nv) 0 []) views)) ROk [] []
      end
  | SDelDDoc coll ddoc =>
      match coll_id s coll with
      | None => mkSres s (RErr EOther) [] []
      | Some cid =>
          if existsb (in_ddoc cid ddoc) (s_views s)
          then mkSres (with_views s (filter (fun v => negb (in_ddoc cid ddoc v)) (s_views s))) ROk [] []
          else mkSres s (RErr EMissing) [] []
      end
  | SView coll ddoc name p =>
      match coll_id s coll with
      | None => mkSres s (RErr EOther) [] []
      | Some cid =>
          match filter (is_view cid ddoc name) (s_views s) with
          | [] => mkSres s (RErr EMissing) [] []
          | v :: _ =>
              let v' := if vp_stale p then v else update_view s v in
              let vs := map (fun w => if is_view cid ddoc name w then (if vp_stale p then w else update_view s w) else w) (s_views s) in
              mkSres (with_views s vs) (RRows (map render_vrow (reduce_rows p (vd_map v') (select_rows p (vd_rows v'))))) [] []
          end
      end
  | SQuery coll q =>
      match coll_id s coll with
      | Some cid => mkSres s (RRows (eval_query q (keyspace s cid))) [] []
      | None => mkSres s (RErr EOther) [] []
      end
  | SExpire =>
      let '(s', evs) := expire_colls s x (map fst (s_colls s)) [] in
      mkSres s' ROk evs []
  | SGetDDocs coll =>
      match coll_id s coll with
      | Some cid => mkSres s (RRows (ddoc_lines cid (s_views s))) [] []
      | None => mkSres s (RErr EOther) [] []
      end
  | SDumpKeys coll start =>
      match coll_id s coll with
      | Some cid => mkSres s ROk [] (marker FBegin :: map strip_value (backfill_events s cid start) ++ [marker FEnd])
      | None => mkSres s (RErr EOther) [] []
      end
  | SDraw coll key op b =>
      let n := attempts_extra s x coll key op b in
      mkSres (mkStore (s_docs s) (s_colls s) (s_nextcoll s) (s_lastcas s)
                      (if n =? 0 then s_high s else hlc_now (s_high s) (x_clock x) + (n - 1))
                      (s_log s) (s_views s)) ROk [] []
  | SExpireScan wc =>
      match coll_id s wc with
      | Some cid =>
          let '(s', evs) := expire_colls s x (ids_before (s_colls s) wc) [] in
          mkSres s' (RRows (due_keys s' cid (x_now x))) evs []
      | None => mkSres s (RErr EOther) [] []
      end
  | SExpireK wc keys _ =>
      match coll_id s wc with
      | Some cid =>
          let '(s1, evs1) := expire_keys_chk s x cid keys [] in
          let '(s2, evs2) := expire_colls s1 x (ids_after (s_colls s) wc) evs1 in
          mkSres s2 ROk evs2 []
      | None => mkSres s (RErr EOther) [] []
      end
  end.

(* ------------------------------------------------------------------------------------------ *)
(* The expiry manager's nextExp (0: no timer armed).  scheduleExpirationAtOrBefore:               *)
Definition sched (next e : N) : N :=
  if e =? 0 then next else if (next =? 0) || (e <? next) then e else next.

(* SELECT min(exp) FROM documents WHERE exp > 0   (0: no such row) *)
Definition min_exp (s : store) : N := fold_left sched (map (fun d => r_exp (snd d)) (s_docs s)) 0.

Definition is_touch (op : kop) : bool := match op with KTouch _ | KGetAndTouch _ => true | _ => false end.
Definition resp_is_err (r : resp) : bool := match r with RErr _ => true | _ => false end.

(* nextExp after a step: every posted event schedules its expiry (postNewEvent); a successful touch
   schedules the new expiry itself; the timer callback clears nextExp, expires, and re-arms from
   min(exp); OpenBucket of an existing bucket arms from min(exp) *)
Definition next_after (next : N) (s : store) (o : sop) (res : sres) : N :=
  match o with
  | SExpire | SReopen => sched 0 (min_exp (sr_store res))
  | SExpireK _ _ parked =>
      if resp_is_err (sr_resp res) then next else fold_left sched parked (sched 0 (min_exp (sr_store res)))
  | SKv coll key op =>
      let n1 := fold_left sched (map (fun e => e_exp (snd e)) (sr_events res)) next in
      if is_touch op && negb (resp_is_err (sr_resp res)) then
        match coll_id s coll with
        | Some cid => match get_doc (sr_store res) (cid, key) with Some r => sched n1 (r_exp r) | None => n1 end
        | None => n1
        end
      else n1
  | _ => next
  end.

(* ------------------------------------------------------------------------------------------ *)
(* Observation: what the public API shows of one (collection, key) and of a collection           *)

Record obsrow := mkObs {
  o_get : resp;          (* GetRaw *)
  o_exp : resp;          (* GetExpiry *)
  o_doc : resp;          (* GetWithXattrs(all names ++ $document) *)
  o_exists : bool;       (* Exists *)
  o_dump : option fevent (* this key's event in a dump feed with backfill from 0 *)
}.

Definition obs_of (cid : N) (key : string) (xnames : list string) (r : option row) : obsrow :=
  let c0 := mkCtx 0 0 0 in
  mkObs (kr_resp (kstep c0 KGetRaw r))
        (kr_resp (kstep c0 KGetExpiry r))
        (kr_resp (kstep c0 (KGetWithXattrs (xnames ++ ["$document"; "$document.revid"])) r))
        (match kr_resp (kstep c0 KExists r) with RBool b => b | _ => false end)
        (match r with Some r0 => Some (as_feed_event (cid - 1) key (event_of_row r0)) | None => None end).

Record snapshot := mkSnap {
  sn_colls : list string;                          (* ListDataStores *)
  sn_rows : list ((string * string) * obsrow);     (* (collection name, key) *)
  sn_order : list (string * list string);          (* per collection: keys of the dump feed in order *)
  sn_lastcas : list (string * N)                   (* [("nextExp", the expiry manager's nextExp)] (hook accessor) *)
}.

Definition with_next (sn : snapshot) (n : N) : snapshot := mkSnap (sn_colls sn) (sn_rows sn) (sn_order sn) [("nextExp", n)].

Definition snap (s : store) (colls keys xnames : list string) : snapshot :=
  let live := filter (fun c => is_some (coll_id s c)) colls in
  mkSnap (map (fun c => fst (snd c)) (s_colls s))
         (flat_map (fun c =>
            match coll_id s c with
            | Some cid => map (fun k => ((c, k), obs_of cid k xnames (get_doc s (cid, k)))) keys
            | None => []
            end) live)
         (map (fun c => (c, match coll_id s c with
                            | Some cid => map (fun d => snd (fst d)) (backfill_rows s cid 0)
                            | None => []
                            end)) live)
         [].

(* ------------------------------------------------------------------------------------------ *)
(* Running a history                                                                            *)

Record ostep := mkOstep {
  os_resp : resp;
  os_live : list fevent;                           (* events delivered to the live feeds, in order *)
  os_dump : list fevent;                           (* events delivered to the Dump feed of an SDump step *)
  os_snap : snapshot
}.

Record scase := mkScase {
  sc_colls : list string;
  sc_keys : list string;
  sc_xnames : list string;
  sc_steps : list (sctx * sop)
}.

Definition fevents_of (evs : list (N * string * event)) : list fevent :=
  map (fun e => as_feed_event (fst (fst e) - 1) (snd (fst e)) (snd e)) evs.

Fixpoint srun_from (s : store) (next : N) (c : scase) (steps : list (sctx * sop)) : list ostep :=
  match steps with
  | [] => []
  | (x, o) :: r =>
      let res := sstep s x o in
      let next' := next_after next s o res in
      mkOstep (sr_resp res) (fevents_of (sr_events res)) (sr_dump res)
              (with_next (snap (sr_store res) (sc_colls c) (sc_keys c) (sc_xnames c)) next')
      :: srun_from (sr_store res) next' c r
  end.

Definition srun (c : scase) : list ostep := srun_from store0 0 c (sc_steps c).

Fixpoint sfinal_from (s : store) (steps : list (sctx * sop)) : store :=
  match steps with
  | [] => s
  | (x, o) :: r => sfinal_from (sr_store (sstep s x o)) r
  end.
