(* Json.v — the JSON subset the model computes with: AST, Go-canonical printer (what
   encoding/json.Marshal emits for map[string]any / []any / float64-integers / string / bool / nil:
   no whitespace, object keys sorted bytewise, last duplicate wins), a fuelled parser, dotted-path
   evaluation and upsert (collection+subdoc.go).
   Strings are restricted to bytes that need no escaping; the parser rejects a backslash, so the
   model returns "unparseable" where it cannot follow Go (the harness generators stay inside). *)
From Rosmar Require Import Base.
From Coq Require Import DecimalString Decimal.

Inductive json :=
| JNull
| JBool (b : bool)
| JNum (neg : bool) (n : N)
| JStr (s : string)
| JArr (l : list json)
| JObj (m : list (string * json)).

(* ---------- decimal ---------- *)
Definition N_to_dec (n : N) : string := NilZero.string_of_uint (N.to_uint n).

Definition digit_of (c : ascii) : option N :=
  let n := N_of_ascii c in if (48 <=? n) && (n <=? 57) then Some (n - 48) else None.

Fixpoint take_digits (s : string) (acc : N) (seen : bool) : option (N * string) :=
  match s with
  | String c r =>
      match digit_of c with
      | Some d => take_digits r (acc * 10 + d) true
      | None => if seen then Some (acc, s) else None
      end
  | EmptyString => if seen then Some (acc, s) else None
  end.

(* strict: the whole string is a non-empty run of digits (what strconv/encoding-json accept into a
   uint64 - leading zeros other than "0" itself are rejected by Go's JSON scanner) *)
Definition dec_to_N (s : string) : option N :=
  match s with
  | String "0" (String _ _) => None
  | _ => match take_digits s 0 false with Some (n, EmptyString) => Some n | _ => None end
  end.

(* ---------- sorted object maps ---------- *)
Definition str_ltb (a b : string) : bool :=
  match String.compare a b with Lt => true | _ => false end.

Fixpoint obj_set {V} (k : string) (v : V) (m : list (string * V)) : list (string * V) :=
  match m with
  | [] => [(k, v)]
  | (k', v') :: r =>
      if String.eqb k k' then (k, v) :: r
      else if str_ltb k k' then (k, v) :: m
      else (k', v') :: obj_set k v r
  end.

Definition obj_get {V} (k : string) (m : list (string * V)) : option V := alookup String.eqb k m.
Definition obj_del {V} (k : string) (m : list (string * V)) : list (string * V) := aremove String.eqb k m.

(* ---------- printer ---------- *)
Fixpoint str_join (sep : string) (l : list string) : string :=
  match l with
  | [] => ""
  | [x] => x
  | x :: r => x ++ sep ++ str_join sep r
  end%string.

Definition quote (s : string) : string := ("""" ++ s ++ """")%string.

Fixpoint jprint (j : json) : string :=
  match j with
  | JNull => "null"
  | JBool true => "true"
  | JBool false => "false"
  | JNum neg n => ((if neg then "-" else "") ++ N_to_dec n)%string
  | JStr s => quote s
  | JArr l => ("[" ++ str_join "," (map jprint l) ++ "]")%string
  | JObj m => ("{" ++ str_join "," (map (fun kv => (quote (fst kv) ++ ":" ++ jprint (snd kv))%string) m) ++ "}")%string
  end.

(* ---------- parser ---------- *)
Fixpoint skip_ws (s : string) : string :=
  match s with
  | String " " r => skip_ws r
  | _ => s
  end.

(* characters up to the closing quote; None on backslash, control characters or end of input *)
Fixpoint take_str (s : string) (acc : string) : option (string * string) :=
  match s with
  | String c r =>
      if Ascii.eqb c """" then Some (string_rev acc, r)
      else if Ascii.eqb c "\" then None
      else if N_of_ascii c <? 32 then None
      else take_str r (String c acc)
  | EmptyString => None
  end.

Inductive pmode :=
| MVal
| MArr (acc : list json)              (* reversed *)
| MObj (acc : list (string * json)).  (* sorted, deduplicated *)

Definition starts_with (p s : string) : option string :=
  if String.prefix p s then Some (substring (String.length p) (String.length s - String.length p) s) else None.

Fixpoint pj (fuel : nat) (m : pmode) (s : string) : option (json * string) :=
  match fuel with
  | O => None
  | S f =>
    match m with
    | MVal =>
        match skip_ws s with
        | String "n" (String "u" (String "l" (String "l" r))) => Some (JNull, r)
        | String "t" (String "r" (String "u" (String "e" r))) => Some (JBool true, r)
        | String "f" (String "a" (String "l" (String "s" (String "e" r)))) => Some (JBool false, r)
        | String """" r =>
            match take_str r "" with Some (str, r') => Some (JStr str, r') | None => None end
        | String "[" r =>
            match skip_ws r with
            | String "]" r' => Some (JArr [], r')
            | _ => pj f (MArr []) r
            end
        | String "{" r =>
            match skip_ws r with
            | String "}" r' => Some (JObj [], r')
            | _ => pj f (MObj []) r
            end
        | String "-" r =>
            match r with
            | String "0" (String c _) => if is_some (digit_of c) then None else
                match take_digits r 0 false with Some (n, r') => Some (JNum true n, r') | None => None end
            | _ => match take_digits r 0 false with Some (n, r') => Some (JNum true n, r') | None => None end
            end
        | String "0" (String c r) as s' =>
            if is_some (digit_of c) then None else Some (JNum false 0, String c r)
        | s' => match take_digits s' 0 false with Some (n, r') => Some (JNum false n, r') | None => None end
        end
    | MArr acc =>
        match pj f MVal s with
        | Some (v, r) =>
            match skip_ws r with
            | String "," r' => pj f (MArr (v :: acc)) r'
            | String "]" r' => Some (JArr (List.rev (v :: acc)), r')
            | _ => None
            end
        | None => None
        end
    | MObj acc =>
        match skip_ws s with
        | String """" r =>
            match take_str r "" with
            | Some (k, r1) =>
                match skip_ws r1 with
                | String ":" r2 =>
                    match pj f MVal r2 with
                    | Some (v, r3) =>
                        match skip_ws r3 with
                        | String "," r4 => pj f (MObj (obj_set k v acc)) r4
                        | String "}" r4 => Some (JObj (obj_set k v acc), r4)
                        | _ => None
                        end
                    | None => None
                    end
                | _ => None
                end
            | None => None
            end
        | _ => None
        end
    end
  end.

(* a number followed by '.', 'e' or 'E' is a JSON number this model does not handle: reject *)
Definition bad_tail (r : string) : bool :=
  match r with
  | String "." _ | String "e" _ | String "E" _ => true
  | _ => false
  end.

Definition jparse (s : string) : option json :=
  match pj (2 * String.length s + 4) MVal s with
  | Some (j, r) => match skip_ws r with EmptyString => Some j | _ => None end
  | None => None
  end.

(* Go: json.Unmarshal(raw, &map[string]any): object -> map, null -> nil map (no error),
   anything else -> error *)
Definition jparse_obj (s : string) : option (option (list (string * json))) :=
  match jparse s with
  | Some (JObj m) => Some (Some m)
  | Some JNull => Some None
  | _ => None
  end.

(* Go: json.Unmarshal(raw, &uint64) with result initially 0: a non-negative integer literal -> it,
   null -> unchanged (0), anything else -> error *)
Definition jparse_uint (s : string) : option N :=
  match jparse s with
  | Some (JNum false n) => Some n
  | Some JNull => Some 0
  | _ => None
  end.

(* ---------- dotted paths (collection+subdoc.go) ---------- *)
Fixpoint split_dot (s : string) (cur : string) : list string :=
  match s with
  | EmptyString => [string_rev cur]
  | String c r => if Ascii.eqb c "." then string_rev cur :: split_dot r "" else split_dot r (String c cur)
  end.

Fixpoint contains_any (chars : list ascii) (s : string) : bool :=
  match s with
  | EmptyString => false
  | String c r => existsb (Ascii.eqb c) chars || contains_any chars r
  end.

Inductive path_err := PEInvalid | PENotFound | PEMismatch | PEExists.

(* parseSubdocPath *)
Definition parse_path (s : string) : option (list string) :=
  if String.eqb s "" then None
  else if contains_any ["["; "]"; "\"; "`"]%char s then None
  else Some (split_dot s "").

(* evalSubdocPath: nil (JSON null or absent) at any step -> not found; non-map -> mismatch *)
Fixpoint eval_path (j : json) (p : list string) : json + path_err :=
  match p with
  | [] => inl j
  | k :: r =>
      match j with
      | JObj m =>
          match obj_get k m with
          | Some JNull | None => inr PENotFound
          | Some v => eval_path v r
          end
      | _ => inr PEMismatch
      end
  end.

(* set (Some v) / delete (None) the property addressed by the non-empty path p inside j, the way
   subdocWrite/upsertSubdocValue do it: the parent must exist (and not be null) and be a map *)
Fixpoint upsert_path (j : json) (p : list string) (v : option json) : json + path_err :=
  match p with
  | [] => inr PEInvalid
  | [k] =>
      match j with
      | JObj m => inl (JObj (match v with Some x => obj_set k x m | None => obj_del k m end))
      | _ => inr PEMismatch
      end
  | k :: r =>
      match j with
      | JObj m =>
          match obj_get k m with
          | Some JNull | None => inr PENotFound
          | Some child =>
              match upsert_path child r v with
              | inl child' => inl (JObj (obj_set k child' m))
              | inr e => inr e
              end
          end
      | _ => inr PEMismatch
      end
  end.
