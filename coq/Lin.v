(* Lin.v - checking a linearization certificate of a concurrent history (C03, C02 race, C08 exactly-once).
   The harness runs goroutines against shared keys and records every call (invocation / response times,
   arguments, response) and every event a live feed received.  The events, sorted by CAS, are the
   claimed order of the successful mutations of a key.  The certificate is accepted iff replaying that
   order through the SEQUENTIAL model (Kv.kstep) reproduces every version and every response, every
   read and every failed call is explained by a version that was current at some moment of the call, and
   the order respects real time.                                                                 *)
From Rosmar Require Import Base Json Crc Kv Store Trace.

Record lop := mkLop { l_inv : N; l_ret : N; l_op : kop; l_resp : resp; l_shown : option N (* the CAS the callback was shown last *) }.

(* the CAS a successful call says it stamped; Incr returns the counter instead *)
Definition claimed_cas (o : lop) : option N :=
  match l_resp o with RCas c => Some c | _ => None end.

Definition produces (o : lop) (v : fevent) : bool :=
  mutated (l_op o) (l_resp o) &&
  match l_op o, l_resp o with
  | KIncr _ _ _, RNum n => String.eqb (f_body v) (N_to_dec n)
  | _, RCas c => c =? f_cas v
  | _, _ => false
  end.

Fixpoint insert_ev (v : fevent) (l : list fevent) : list fevent :=
  match l with [] => [v] | w :: r => if f_cas v <? f_cas w then v :: l else w :: insert_ev v r end.
Definition sort_evs (l : list fevent) : list fevent := fold_left (fun acc v => insert_ev v acc) l [].

Definition ctx_for (cas : N) : kctx := mkCtx 0 cas 0.

(* does replaying `o` on the version `prev` (None: no document yet) give exactly version `v` and the
   recorded response? *)
Definition step_explains (coll : N) (key : string) (prev : option fevent) (o : lop) (v : fevent) : bool :=
  let res := kstep (ctx_for (f_cas v)) (l_op o) (option_map row_of_fevent prev) in
  (if resp_eq_dec (kr_resp res) (l_resp o) then true else false)
  (* the callback's result was stored on top of exactly the version the callback was shown *)
  && (match l_shown o with Some c => c =? match prev with Some p => f_cas p | None => 0 end | None => true end)
  && match kr_events res with
     | [e] => if fevent_eq_dec (as_feed_event coll key e) v then true else false
     | _ => false
     end.

Definition find_producer (ops : list lop) (v : fevent) : list lop := filter (fun o => produces o v) ops.

(* walk the chain: every version has exactly one producer and is what the model says *)
Fixpoint chain_ok (coll : N) (key : string) (ops : list lop) (prev : option fevent) (chain : list fevent) : bool :=
  match chain with
  | [] => true
  | v :: r =>
      match find_producer ops v with
      | [o] => step_explains coll key prev o v && chain_ok coll key ops (Some v) r
      | _ => false
      end
  end.

(* every acknowledged mutation appears in the chain (exactly once, by chain_ok's uniqueness) *)
Definition acks_in_chain (ops : list lop) (chain : list fevent) : bool :=
  forallb (fun o => negb (mutated (l_op o) (l_resp o)) || existsb (fun v => produces o v) chain) ops.

(* real-time order of the writes: if the producer of a later version returned before the producer of an
   earlier version was invoked, the order is wrong *)
Fixpoint producers (ops : list lop) (chain : list fevent) : list (option lop) :=
  map (fun v => match find_producer ops v with [o] => Some o | _ => None end) chain.

Fixpoint rt_ok (l : list (option lop)) : bool :=
  match l with
  | [] => true
  | Some a :: r => forallb (fun b => match b with Some b' => negb (l_ret b' <? l_inv a) | None => true end) r && rt_ok r
  | None :: r => rt_ok r
  end.

(* a read or a failed / refused call: some version (or "no document") that was current at some moment
   between invocation and response explains the response *)
Definition explains_nonmut (prev : option fevent) (o : lop) : bool :=
  let res := kstep (ctx_for 0) (l_op o) (option_map row_of_fevent prev) in
  match kr_resp res, l_resp o with
  | RErr _, RErr _ => if resp_eq_dec (kr_resp res) (l_resp o) then true else false
  | RCas _, RCas _ => negb (mutated (l_op o) (l_resp o))      (* a cancelled update *)
  | a, b => if resp_eq_dec a b then true else false
  end.

(* versions with the call that produced them; version i is current from its producer's linearization
   (somewhere in [inv_i, ret_i]) until the next one's *)
Fixpoint explained_somewhere (o : lop) (prev : option fevent) (prev_inv : N) (rest : list (fevent * option lop)) : bool :=
  (* prev is current from some time >= prev_inv until the next version's producer linearizes *)
  let next_ret := match rest with (_, Some p) :: _ => Some (l_ret p) | _ => None end in
  let overlaps := (prev_inv <=? l_ret o) && match next_ret with Some t => l_inv o <=? t | None => true end in
  (overlaps && explains_nonmut prev o)
  || match rest with
     | [] => false
     | (v, p) :: r => explained_somewhere o (Some v) (match p with Some p' => l_inv p' | None => 0 end) r
     end.

Definition nonmut_ok (ops : list lop) (chain : list fevent) : bool :=
  let withp := combine chain (producers ops chain) in
  forallb (fun o => mutated (l_op o) (l_resp o) || explained_somewhere o None 0 withp) ops.

(* C02: two conditional writers carrying the same expected CAS never both succeed *)
Fixpoint one_winner (ops : list lop) : bool :=
  match ops with
  | [] => true
  | o :: r =>
      (match cas_arg (l_op o) with
       | Some e => if (negb (e =? 0)) && mutated (l_op o) (l_resp o)
                   then forallb (fun o' => negb (match cas_arg (l_op o') with Some e' => (e' =? e) && mutated (l_op o') (l_resp o') | None => false end)) r
                   else true
       | None => true
       end) && one_winner r
  end.

Record lkey := mkLkey { lk_coll : N; lk_key : string; lk_full : bool (* false: caller-chosen CAS values (WithMeta): only the one-winner rule is checked *); lk_ops : list lop; lk_events : list fevent }.

Definition chk_lin_key (k : lkey) : bool :=
  let chain := sort_evs (lk_events k) in
  if negb (lk_full k) then one_winner (lk_ops k) && (List.length (filter (fun o => mutated (l_op o) (l_resp o)) (lk_ops k)) =? List.length chain)%nat else
  chain_ok (lk_coll k) (lk_key k) (lk_ops k) None chain
  && acks_in_chain (lk_ops k) chain
  && rt_ok (producers (lk_ops k) chain)
  && nonmut_ok (lk_ops k) chain
  && one_winner (lk_ops k).

Definition chk_lin (t : unit * list lkey) : bool := forallb chk_lin_key (snd t).

(* diagnostics for replay files *)
Definition lin_explain (t : unit * list lkey) : list (string * bool * bool * bool * bool * bool) :=
  map (fun k => let chain := sort_evs (lk_events k) in
                (lk_key k, chain_ok (lk_coll k) (lk_key k) (lk_ops k) None chain, acks_in_chain (lk_ops k) chain,
                 rt_ok (producers (lk_ops k) chain), nonmut_ok (lk_ops k) chain, one_winner (lk_ops k))) (snd t).

Definition unexplained (k : lkey) : list lop :=
  let chain := sort_evs (lk_events k) in
  let withp := combine chain (producers (lk_ops k) chain) in
  filter (fun o => negb (mutated (l_op o) (l_resp o) || explained_somewhere o None 0 withp)) (lk_ops k).
Definition lin_unexplained (t : unit * list lkey) := map (fun k => (lk_key k, unexplained k)) (snd t).
