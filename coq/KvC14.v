(* KvC14.v - the row-level checker chk_row_C14 accepts every step of the model *)
From Rosmar Require Import Base Json Crc Kv Store Trace KvTac.

Theorem C14_row_sound : rc_sound chk_row_C14.
Proof. start_rc. all: unfold chk_row_C14, expected_exp, oexp; fin.
  all: try (match goal with
            | H1 : wu_preserve ?u = _, H2 : wu_tombstone ?u = _, H3 : wu_preserve ?u && negb (wu_tombstone ?u) = _ |- _ =>
                rewrite H1, H2 in H3; discriminate H3
            end).
  all: match goal with |- ?G => idtac "GOAL" G end.
Qed.
