(* FeedOrder.v - C08, ordering: what the interleaving model Feed.v guarantees when posting is atomic with the
   commit.  `order_refuted` (FeedProofs.v) shows that the code's split of a write into Commit / Snapshot / Push
   lets a later write overtake an earlier one.  Here: if no other action comes between a write's three stages,
   nor between a feed's backfill and its registration, every run of every feed receives its events in
   strictly increasing CAS order - for every number of writers and feeds and every such schedule.  The
   inversion therefore needs exactly the window the known finding names.                                 *)
From Rosmar Require Import Base Feed.

Inductive block :=
| BWrite (w : nat) (key : string)
| BStart (f name : nat) (m : start_mode)
| BDeliver (f : nat)
| BStop (f : nat).

Definition expand (b : block) : list action :=
  match b with
  | BWrite w k => [ACommit w k; ASnapshot w; APush w]
  | BStart f n m => [ABackfill f n m; ARegister f]
  | BDeliver f => [ADeliver f]
  | BStop f => [AStop f]
  end.

Definition starts (bs : list block) : list nat := flat_map (fun b => match b with BStart f _ _ => [f] | _ => [] end) bs.

(* strictly increasing *)
Fixpoint lts (l : list N) : Prop := match l with a :: ((b :: _) as r) => a < b /\ lts r | _ => True end.

Lemma lts_tail a l : lts (a :: l) -> lts l.
Proof. destruct l; cbn; tauto. Qed.

Lemma lts_head_lt a l : lts (a :: l) -> forall x, In x l -> a < x.
Proof.
  revert a. induction l as [|b r IH]; intros a H x [].
  - subst. apply H.
  - destruct H as [Hab Hr]. pose proof (IH b Hr x H0). lia.
Qed.

Lemma lts_snoc l c : lts l -> (forall x, In x l -> x < c) -> lts (l ++ [c]).
Proof.
  induction l as [|a r IH]; cbn; intros Hl Hc; [exact I|].
  destruct r as [|b r']; cbn in *.
  - split; [apply Hc; left; reflexivity | exact I].
  - destruct Hl as [Hab Hr]. split; [exact Hab|]. apply IH; [exact Hr|]. intros x Hx. apply Hc. right; exact Hx.
Qed.

Lemma lts_prefix l1 l2 : lts (l1 ++ l2) -> lts l1.
Proof.
  induction l1 as [|a r IH]; cbn; intros H; [exact I|].
  destruct r as [|b r']; cbn in *; [exact I|]. destruct H as [Hab Hr]. split; [exact Hab | apply IH; exact Hr].
Qed.

Lemma increasing_of_lts (l : list ev) : lts (map snd l) -> increasing l = true.
Proof.
  induction l as [|a r IH]; cbn; [reflexivity|]. destruct r as [|b r']; [reflexivity|]. cbn. intros [Hab Hr].
  apply andb_true_iff. split; [apply N.ltb_lt; exact Hab | apply IH; exact Hr].
Qed.

Lemma dedup_of_lts (l : list ev) : forall seen, lts (map snd l) -> (forall x e, In x seen -> In e l -> snd x < snd e) -> dedup seen l = l.
Proof.
  induction l as [|e r IH]; intros seen Hl Hs; cbn [dedup]; [reflexivity|].
  match goal with |- context [existsb ?f seen] => destruct (existsb f seen) eqn:Ex end.
  { exfalso. apply existsb_exists in Ex. destruct Ex as (x & Hx & Hq).
    apply andb_true_iff in Hq. destruct Hq as [_ Hq]. apply N.eqb_eq in Hq. pose proof (Hs x e Hx (or_introl eq_refl)). lia. }
  f_equal. apply IH; [cbn in Hl; apply (lts_tail _ _ Hl)|].
  intros x e' [<-|Hx] He'.
  - apply (lts_head_lt (snd e) (map snd r) Hl). apply in_map. exact He'.
  - apply (Hs x e' Hx). right; exact He'.
Qed.

(* ---- sorting rows with distinct CAS values gives a strictly increasing queue ---- *)
Lemma insert_cas_In e l x : In x (insert_cas e l) <-> x = e \/ In x l.
Proof.
  induction l as [|a r IH]; cbn; [intuition congruence|]. destruct (snd e <? snd a); cbn; [intuition congruence|]. rewrite IH. intuition congruence.
Qed.

Lemma insert_cas_lts e l : lts (map snd l) -> ~ In (snd e) (map snd l) -> lts (map snd (insert_cas e l)).
Proof.
  induction l as [|a r IH]; cbn [insert_cas map]; intros Hl Hn; [exact I|].
  destruct (N.ltb_spec (snd e) (snd a)).
  - cbn [map]. split; [exact H | exact Hl].
  - assert (snd a < snd e) as Hlt by (assert (snd e <> snd a) by (intros E; apply Hn; left; symmetry; exact E); lia).
    assert (lts (map snd (insert_cas e r))) as Hr.
    { apply IH; [apply (lts_tail _ _ Hl) | intros Hin; apply Hn; right; exact Hin]. }
    cbn [map]. destruct (insert_cas e r) as [|b r'] eqn:Ei; [exact I|]. cbn [map]. split; [|exact Hr].
    assert (In b (insert_cas e r)) as Hb by (rewrite Ei; left; reflexivity).
    apply insert_cas_In in Hb. destruct Hb as [->|Hb]; [exact Hlt|].
    apply (lts_head_lt (snd a) (map snd r) Hl). apply in_map. exact Hb.
Qed.

Lemma sort_cas_spec l : NoDup (map snd l) ->
  lts (map snd (sort_cas l)) /\ (forall x, In x (sort_cas l) <-> In x l).
Proof.
  unfold sort_cas.
  assert (forall l acc, NoDup (map snd l) -> lts (map snd acc) -> (forall x, In x acc -> ~ In (snd x) (map snd l)) ->
            lts (map snd (fold_left (fun a e => insert_cas e a) l acc))
            /\ (forall x, In x (fold_left (fun a e => insert_cas e a) l acc) <-> In x l \/ In x acc)) as H.
  { induction l0 as [|e r IH]; intros acc Hnd Hacc Hdis; cbn [fold_left]; [split; [exact Hacc | intros x; cbn; tauto]|].
    cbn in Hnd. inversion Hnd as [|? ? Hne Hnr]; subst.
    destruct (IH (insert_cas e acc) Hnr) as [A B].
    - apply insert_cas_lts; [exact Hacc|]. intros Hin. apply in_map_iff in Hin. destruct Hin as (x & Hx & Hin).
      apply (Hdis x Hin). cbn. left. symmetry; exact Hx.
    - intros x Hx. apply insert_cas_In in Hx. destruct Hx as [->|Hx]; [exact Hne|].
      intros Hin. apply (Hdis x Hx). cbn. right; exact Hin.
    - split; [exact A|]. intros x. rewrite B, insert_cas_In. cbn. intuition congruence. }
  intros Hnd. destruct (H l [] Hnd I (fun x Hx => match Hx with end)) as [A B]. split; [exact A|]. intros x. rewrite B. cbn. tauto.
Qed.

(* ---- pushing an event to the registered feeds ---- *)
From Rosmar Require Import FeedProofs.

Lemma push_step_other e fs t f : f <> t ->
  nlookup f (match nlookup t fs with
             | Some st => if fclosed st then fs else nset t (mkFeedst (fq st ++ [e]) false (flast st) (fchanged st) (frun st) (fname st)) fs
             | None => fs
             end) = nlookup f fs.
Proof.
  intros Hne. destruct (nlookup t fs) as [st|]; [|reflexivity]. destruct (fclosed st); [reflexivity|].
  apply nlookup_nset_other. exact Hne.
Qed.

Lemma push_to_notin e targets : forall fs f, ~ In f targets -> nlookup f (push_to e fs targets) = nlookup f fs.
Proof.
  induction targets as [|t r IH]; intros fs f Hn; [reflexivity|]. unfold push_to in *. cbn [fold_left].
  rewrite IH by (intros H; apply Hn; right; exact H). apply push_step_other. intros E. apply Hn. left. symmetry; exact E.
Qed.

Lemma push_to_spec e targets : forall fs f st, NoDup targets -> nlookup f (push_to e fs targets) = Some st ->
  exists st0, nlookup f fs = Some st0 /\ frun st = frun st0 /\ (fq st = fq st0 \/ fq st = fq st0 ++ [e]).
Proof.
  induction targets as [|t r IH]; intros fs f st Hnd H; [exists st; auto|].
  inversion Hnd as [|? ? Hnt Hr]; subst. unfold push_to in *. cbn [fold_left] in H.
  destruct (Nat.eq_dec f t) as [->|Hne].
  - (* the head is f itself; it does not occur again *)
    pose proof (push_to_notin e r) as Hno. unfold push_to in Hno. rewrite (Hno _ t Hnt) in H.
    destruct (nlookup t fs) as [st0|] eqn:E0; [|rewrite E0 in H; discriminate].
    destruct (fclosed st0) eqn:Ec.
    + rewrite E0 in H. inversion H; subst. exists st; auto.
    + rewrite nlookup_nset_same in H. inversion H; subst. exists st0. cbn. auto.
  - destruct (IH _ f st Hr H) as (st1 & H1 & Hrun & Hq). rewrite (push_step_other e fs t f Hne) in H1. exists st1. auto.
Qed.

(* ---- the invariant between blocks ---- *)
Definition feed_inv (s : fstate) (st : feedst) : Prop :=
  lts (map snd (frun st ++ fq st)) /\ (forall e, In e (frun st ++ fq st) -> snd e <= clock s).

Record oinv (s : fstate) : Prop := mkOinv {
  oi_pending : pending s = [];
  oi_reg : NoDup (registered s);
  oi_rows_nd : NoDup (map snd (rows s));
  oi_rows_le : forall kv, In kv (rows s) -> snd kv <= clock s;
  oi_feeds : forall f st, nlookup f (feeds s) = Some st -> feed_inv s st
}.

Lemma oinv0 : oinv fstate0.
Proof.
  constructor; cbn.
  - reflexivity.
  - constructor.
  - constructor.
  - intros kv [].
  - intros g st0 H. discriminate H.
Qed.

Lemma In_aset_str key c (l : list (string * N)) kv : In kv (aset String.eqb key c l) -> kv = (key, c) \/ In kv l.
Proof.
  induction l as [|[k v] r IH]; cbn; [intros [<-|[]]; left; reflexivity|].
  destruct (String.eqb key k); cbn; intros [<-|H]; auto. destruct (IH H); auto.
Qed.

Lemma aset_rows_fresh key c (l : list (string * N)) : NoDup (map snd l) -> (forall kv, In kv l -> snd kv < c) ->
  NoDup (map snd (aset String.eqb key c l)) /\ (forall kv, In kv (aset String.eqb key c l) -> snd kv <= c).
Proof.
  induction l as [|[k v] r IH]; cbn; intros Hnd Hlt.
  - split; [constructor; [tauto | constructor] | intros kv [<-|[]]; cbn; lia].
  - inversion Hnd as [|? ? Hn Hr]; subst.
    assert (forall kv, In kv r -> snd kv < c) as Hlt' by (intros kv H; apply Hlt; right; exact H).
    destruct (String.eqb key k); cbn.
    + split.
      * constructor; [|exact Hr]. intros Hin. apply in_map_iff in Hin. destruct Hin as (kv & E & Hkv). specialize (Hlt' kv Hkv). lia.
      * intros kv [<-|H]; cbn; [lia|]. specialize (Hlt' kv H). lia.
    + destruct (IH Hr Hlt') as [A B]. split.
      * constructor; [|exact A]. intros Hin. apply in_map_iff in Hin. destruct Hin as (kv & E & Hkv).
        destruct (In_aset_str key c r kv Hkv) as [->|Hin'].
        -- cbn in E. specialize (Hlt (k, v) (or_introl eq_refl)). cbn in Hlt. lia.
        -- apply Hn. apply in_map_iff. exists kv. auto.
      * intros kv [<-|H]; cbn; [specialize (Hlt (k, v) (or_introl eq_refl)); cbn in Hlt; lia | apply B; exact H].
Qed.

Definition finv (k : N) (st : feedst) : Prop :=
  lts (map snd (frun st ++ fq st)) /\ (forall e, In e (frun st ++ fq st) -> snd e <= k).

Lemma finv_mono k k' st : k <= k' -> finv k st -> finv k' st.
Proof. intros Hk [A B]. split; [exact A|]. intros e He. specialize (B e He). lia. Qed.

Lemma push_inv key k c fs targets : k < c -> NoDup targets ->
  (forall f st, nlookup f fs = Some st -> finv k st) ->
  forall f st, nlookup f (push_to (key, c) fs targets) = Some st -> finv c st.
Proof.
  intros Hc Hnd Hfs f st H. destruct (push_to_spec (key, c) targets fs f st Hnd H) as (st0 & H0 & Hrun & Hq).
  destruct (Hfs f st0 H0) as [A B]. unfold finv. destruct Hq as [Hq|Hq]; rewrite Hrun, Hq.
  - split; [exact A|]. intros e He. specialize (B e He). lia.
  - rewrite app_assoc. split.
    + rewrite map_app. cbn [map snd]. apply lts_snoc; [exact A|]. intros x Hx. apply in_map_iff in Hx. destruct Hx as (e & <- & He).
      specialize (B e He). lia.
    + intros e He. apply in_app_iff in He. destruct He as [He|[<-|[]]]; [specialize (B e He); lia | cbn; lia].
Qed.

Lemma NoDup_map_snd_filter (p : string * N -> bool) (l : list (string * N)) : NoDup (map snd l) -> NoDup (map snd (filter p l)).
Proof.
  induction l as [|a r IH]; cbn; intros H; [constructor|]. inversion H as [|? ? Hn Hr]; subst.
  destruct (p a); cbn; [constructor; [|apply IH; exact Hr] | apply IH; exact Hr].
  intros Hin. apply Hn. apply in_map_iff in Hin. destruct Hin as (x & E & Hx). apply filter_In in Hx. apply in_map_iff. exists x. split; [exact E | apply Hx].
Qed.

Lemma NoDup_app_snoc (l : list nat) a : NoDup l -> ~ In a l -> NoDup (l ++ [a]).
Proof.
  induction l as [|b r IH]; cbn; intros Hn Ha; [constructor; [tauto | constructor]|].
  inversion Hn as [|? ? Hb Hr]; subst. constructor.
  - intros Hin. apply in_app_iff in Hin. destruct Hin as [Hin|[<-|[]]]; [contradiction | apply Ha; left; reflexivity].
  - apply IH; [exact Hr | intros Hin; apply Ha; right; exact Hin].
Qed.

(* ---- each block keeps the invariant ---- *)
Definition run_block (s : fstate) (b : block) : fstate := fold_left fstep (expand b) s.

Lemma deliver_one_oinv s f : oinv s -> oinv (deliver_one s f).
Proof.
  intros [Hp Hr Hnd Hle Hf]. unfold deliver_one. destruct (nlookup f (feeds s)) as [st|] eqn:Ef; [|constructor; assumption].
  destruct (fq st) as [|e q] eqn:Eq; [constructor; assumption|]. destruct (fclosed st); [constructor; assumption|].
  constructor; cbn [pending registered rows clock feeds]; try assumption.
  intros g st' H. destruct (Nat.eq_dec g f) as [->|Hne].
  - rewrite nlookup_nset_same in H. inversion H; subst st'. destruct (Hf f st Ef) as [A B]. unfold feed_inv. cbn [frun fq clock].
    rewrite <- app_assoc. cbn [app]. rewrite Eq in A, B. split; assumption.
  - rewrite nlookup_nset_other in H by exact Hne. apply (Hf g st' H).
Qed.

Lemma block_oinv s b : oinv s -> match b with BStart f _ _ => ~ In f (registered s) | _ => True end -> oinv (run_block s b).
Proof.
  intros Hinv Hside. pose proof Hinv as [Hp Hr Hnd Hle Hf]. destruct b as [w key | f name m | f | f]; unfold run_block; cbn [expand fold_left].
  - (* a write: commit, snapshot, push with nothing in between *)
    cbn [fstep]. rewrite Hp. cbn [nset aset pending nlookup alookup]. rewrite Nat.eqb_refl. cbn [pending nset aset nlookup alookup].
    rewrite Nat.eqb_refl. cbn [pending aremove registered feeds rows clock]. rewrite Nat.eqb_refl.
    assert (forall kv, In kv (rows s) -> snd kv < clock s + 1) as Hlt by (intros kv H; specialize (Hle kv H); lia).
    destruct (aset_rows_fresh key (clock s + 1) (rows s) Hnd Hlt) as [A B].
    constructor; cbn [pending registered rows clock feeds]; try assumption; [reflexivity|].
    intros g st H. assert (clock s < clock s + 1) as Hc by lia.
    exact (push_inv key (clock s) (clock s + 1) (feeds s) (registered s) Hc Hr (fun g' st' H' => Hf g' st' H') g st H).
  - (* a feed start: backfill and registration with nothing in between *)
    cbn [fstep]. cbn [pending registered rows clock feeds ckpt delivered].
    constructor; cbn [pending registered rows clock feeds]; try assumption.
    + apply NoDup_app_snoc; assumption.
    + intros g st H. destruct (Nat.eq_dec g f) as [->|Hne].
      * rewrite nlookup_nset_same in H. inversion H; subst st. unfold feed_inv. cbn [frun fq app].
        match goal with |- context [sort_cas ?l] => destruct (sort_cas_spec l) as [A B] end.
        { apply NoDup_map_snd_filter. exact Hnd. }
        split; [exact A|]. intros e He. apply B in He. apply filter_In in He. apply Hle. apply He.
      * rewrite nlookup_nset_other in H by exact Hne. apply (Hf g st H).
  - apply deliver_one_oinv. exact Hinv.
  - (* stop *)
    cbn [fstep]. pose proof (deliver_one_oinv s f Hinv) as [Hp1 Hr1 Hnd1 Hle1 Hf1]. set (s1 := deliver_one s f) in *.
    destruct (nlookup f (feeds s1)) as [st|] eqn:Ef; [|constructor; assumption].
    destruct (fclosed st); [constructor; assumption|].
    assert (forall g st', nlookup g (nset f (mkFeedst [] true (flast st) (fchanged st) (frun st) (fname st)) (feeds s1)) = Some st' -> finv (clock s1) st') as Hfs.
    { intros g st' H. destruct (Nat.eq_dec g f) as [->|Hne].
      - rewrite nlookup_nset_same in H. inversion H; subst st'. destruct (Hf1 f st Ef) as [A B]. unfold finv. cbn [frun fq]. rewrite app_nil_r.
        split; [apply (lts_prefix (map snd (frun st)) (map snd (fq st))); rewrite <- map_app; exact A|].
        intros e He. apply B. apply in_or_app. left; exact He.
      - rewrite nlookup_nset_other in H by exact Hne. apply (Hf1 g st' H). }
    destruct (fchanged st).
    + assert (forall kv, In kv (rows s1) -> snd kv < clock s1 + 1) as Hlt by (intros kv H; specialize (Hle1 kv H); lia).
      destruct (aset_rows_fresh (cp_key (fname st)) (clock s1 + 1) (rows s1) Hnd1 Hlt) as [A B].
      constructor; cbn [pending registered rows clock feeds]; try assumption.
      intros g st' H. assert (clock s1 < clock s1 + 1) as Hc by lia.
      exact (push_inv (cp_key (fname st)) (clock s1) (clock s1 + 1) _ (registered s1) Hc Hr1 Hfs g st' H).
    + constructor; cbn [pending registered rows clock feeds]; assumption.
Qed.

(* ---- every block list whose feed starts use fresh run numbers keeps the invariant ---- *)
Fixpoint run_blocks (s : fstate) (bs : list block) : fstate :=
  match bs with [] => s | b :: r => run_blocks (run_block s b) r end.

Lemma run_blocks_expand bs : forall s, run_blocks s bs = fold_left fstep (flat_map expand bs) s.
Proof.
  induction bs as [|b r IH]; intros s; cbn [run_blocks flat_map]; [reflexivity|].
  rewrite fold_left_app. apply IH.
Qed.

(* registered runs are exactly the ones started so far *)
Lemma deliver_one_registered s f : registered (deliver_one s f) = registered s.
Proof. unfold deliver_one. destruct (nlookup f (feeds s)) as [st|]; [|reflexivity]. destruct (fq st); [reflexivity|]. destruct (fclosed st); reflexivity. Qed.

Lemma fstep_registered_in s a x : In x (registered (fstep s a)) -> In x (registered s) \/ a = ARegister x.
Proof.
  destruct a; cbn [fstep].
  - cbn [registered]. auto.
  - destruct (nlookup w (pending s)) as [[e [t|]]|]; cbn [registered]; auto.
  - destruct (nlookup w (pending s)) as [[e [t|]]|]; cbn [registered]; auto.
  - cbn [registered]. auto.
  - cbn [registered]. intros H. apply in_app_iff in H. destruct H as [H|[<-|[]]]; auto.
  - rewrite deliver_one_registered. auto.
  - pose proof (deliver_one_registered s f) as Hr. set (s1 := deliver_one s f) in *.
    destruct (nlookup f (feeds s1)) as [st|]; [|rewrite Hr; auto]. destruct (fclosed st); [rewrite Hr; auto|].
    destruct (fchanged st); cbn [registered]; rewrite Hr; auto.
Qed.

Lemma fold_registered_in l : forall s x, In x (registered (fold_left fstep l s)) -> In x (registered s) \/ In (ARegister x) l.
Proof.
  induction l as [|a r IH]; intros s x H; cbn [fold_left] in H; [auto|].
  destruct (IH _ _ H) as [H1|H1]; [|right; right; exact H1].
  destruct (fstep_registered_in s a x H1) as [H2| ->]; [auto | right; left; reflexivity].
Qed.

Lemma registered_block s b x : In x (registered (run_block s b)) -> In x (registered s) \/ match b with BStart f _ _ => x = f | _ => False end.
Proof.
  intros H. destruct (fold_registered_in (expand b) s x H) as [H1|H1]; [auto|]. right.
  destruct b; cbn [expand] in H1; repeat (destruct H1 as [H1|H1]; try discriminate); try contradiction.
  inversion H1. reflexivity.
Qed.

Theorem blocks_oinv bs : forall s, oinv s -> NoDup (starts bs) -> (forall f, In f (starts bs) -> ~ In f (registered s)) -> oinv (run_blocks s bs).
Proof.
  induction bs as [|b r IH]; intros s Hinv Hnd Hfresh; cbn [run_blocks]; [exact Hinv|].
  apply IH.
  - apply block_oinv; [exact Hinv|]. destruct b; try exact I. apply Hfresh. cbn. left. reflexivity.
  - destruct b; cbn [starts flat_map app] in Hnd; try exact Hnd. inversion Hnd; assumption.
  - intros f Hf Hin. apply registered_block in Hin. destruct Hin as [Hin|Hb].
    + apply (Hfresh f); [|exact Hin]. destruct b; cbn [starts flat_map app]; try exact Hf. right; exact Hf.
    + destruct b; try contradiction. subst f. cbn [starts flat_map app] in Hnd. inversion Hnd as [|? ? Hn _]; subst. apply Hn. exact Hf.
Qed.

(* C08, ordering, for every schedule in which posting is atomic with the commit and registration with the
   backfill (and each feed start is a new run): every run of every feed has received its events in strictly
   increasing CAS order *)
Theorem order_holds_when_posting_is_atomic bs f st : NoDup (starts bs) ->
  nlookup f (feeds (frun_all (flat_map expand bs))) = Some st -> order_ok_feed st = true.
Proof.
  intros Hnd Hl. unfold frun_all in Hl. rewrite <- run_blocks_expand in Hl.
  pose proof (blocks_oinv bs fstate0 oinv0 Hnd (fun g _ H => H)) as [_ _ _ _ Hf].
  unfold order_ok_feed. destruct (Hf f st Hl) as [A _].
  assert (lts (map snd (frun st))) as Hrun by (apply (lts_prefix _ (map snd (fq st))); rewrite <- map_app; exact A).
  assert (dedup [] (frun st) = frun st) as E by (apply dedup_of_lts; [exact Hrun | intros x e []]).
  rewrite E. apply increasing_of_lts. exact Hrun.
Qed.

(* the witness of order_refuted is not of this shape: its second writer commits and pushes between the first
   writer's commit and push *)
Example atomic_schedule_example :
  let bs := [BStart 0 0 (FromCas 0); BWrite 1 "k1"; BWrite 2 "k2"; BDeliver 0; BStop 0; BStart 1 0 Resume; BWrite 3 "k1"; BDeliver 1] in
  NoDup (starts bs) /\ forallb (fun fs => order_ok_feed (snd fs)) (feeds (frun_all (flat_map expand bs))) = true
  /\ List.length (feeds (frun_all (flat_map expand bs))) = 2%nat.
Proof. cbn [starts flat_map app]. split; [repeat constructor; cbn; intuition discriminate | split; vm_compute; reflexivity]. Qed.
