(* Locks.v - shutdown safety (C20): lock acquisition order.
   A lock is its rank.  A thread is a list of Acq / Rel actions.  If every thread acquires locks in
   strictly increasing rank and releases what it took, then no reachable configuration is stuck: as long
   as some thread is unfinished, some thread can take a step - for every number of threads and every
   schedule.  The table of rosmar's code paths is transcribed by hand from the Go; it satisfies the
   discipline except for the expiry timer's callback, for which a deadlocked configuration is exhibited. *)
From Rosmar Require Import Base.

Inductive lact := Acq (l : nat) | Rel (l : nat).

Record lcfg := mkLcfg { lc_threads : list (list lact); lc_held : list (nat * nat) (* lock -> owner *) }.

Definition owner (c : lcfg) (l : nat) : option nat := alookup Nat.eqb l (lc_held c).

Fixpoint set_nth {A} (l : list A) (i : nat) (x : A) : list A :=
  match l, i with
  | [], _ => []
  | _ :: r, O => x :: r
  | y :: r, S j => y :: set_nth r j x
  end.

Definition enabled (c : lcfg) (t : nat) : bool :=
  match nth_error (lc_threads c) t with
  | Some (Acq l :: _) => is_none (owner c l)
  | Some (Rel _ :: _) => true
  | _ => false
  end.

Definition lkstep (c : lcfg) (t : nat) : lcfg :=
  match nth_error (lc_threads c) t with
  | Some (Acq l :: r) => if is_none (owner c l) then mkLcfg (set_nth (lc_threads c) t r) ((l, t) :: lc_held c) else c
  | Some (Rel l :: r) => mkLcfg (set_nth (lc_threads c) t r) (aremove Nat.eqb l (lc_held c))
  | _ => c
  end.

Definition all_done (c : lcfg) : bool := forallb (fun p => match p with [] => true | _ => false end) (lc_threads c).
Definition stuck (c : lcfg) : bool :=
  negb (all_done c) && negb (existsb (enabled c) (seq 0 (List.length (lc_threads c)))).

(* a program, run from the locks `held` by its thread, takes locks only above everything it holds,
   releases only what it holds, and ends holding nothing *)
Fixpoint ranked (held : list nat) (p : list lact) : bool :=
  match p with
  | [] => match held with [] => true | _ => false end
  | Acq l :: r => forallb (fun h => Nat.ltb h l) held && ranked (l :: held) r
  | Rel l :: r => existsb (Nat.eqb l) held && ranked (filter (fun h => negb (Nat.eqb h l)) held) r
  end.

Fixpoint lexec (sched : list nat) (c : lcfg) : lcfg :=
  match sched with [] => c | t :: r => lexec r (lkstep c t) end.

Definition linit (progs : list (list lact)) : lcfg := mkLcfg progs [].

(* ---- rosmar's code paths (hand-transcribed; ranks: 1 bucket.mutex, 2 cluster.lock, 3 expiryManager.mutex,
        4 Collection.mutex, 5 a feed's queue lock, 6 the HLC mutex) ---- *)
Definition B := 1%nat. Definition R := 2%nat. Definition E := 3%nat. Definition Cm := 4%nat. Definition Q := 5%nat. Definition H := 6%nat.

Definition path_write : list lact :=          (* withNewCas: transaction (HLC draw inside), then postEvent, then schedule *)
  [Acq B; Acq H; Rel H; Rel B; Acq B; Rel B; Acq Q; Rel Q; Acq E; Rel E].
Definition path_read : list lact := [Acq B; Rel B].
Definition path_start_feed : list lact := [Acq B; Rel B; Acq Q; Rel Q; Acq B; Rel B].
Definition path_close_and_delete : list lact :=   (* bucket.mutex held throughout: stop timer, close collections/feeds, registry *)
  [Acq B; Acq E; Rel E; Acq Cm; Acq Q; Rel Q; Rel Cm; Acq R; Rel R; Rel B].
Definition path_close_last : list lact :=         (* unregisterBucket under cluster.lock, then mark closed *)
  [Acq B; Rel B; Acq R; Acq E; Rel E; Acq Cm; Acq Q; Rel Q; Rel Cm; Rel R; Acq B; Rel B].
Definition path_drop_collection : list lact := [Acq B; Acq Cm; Acq Q; Rel Q; Rel Cm; Rel B].
Definition path_open : list lact := [Acq R; Rel R; Acq B; Rel B; Acq H; Rel H; Acq R; Rel R].
Definition path_view_update : list lact := [Acq B; Acq Cm; Rel Cm; Rel B].
Definition path_timer : list lact :=              (* runExpiry holds expiryManager.mutex while each Delete takes bucket.mutex *)
  [Acq E; Acq B; Acq H; Rel H; Rel B; Acq B; Rel B; Rel E].

Definition disciplined_paths : list (list lact) :=
  [path_write; path_read; path_start_feed; path_close_and_delete; path_close_last; path_drop_collection; path_open; path_view_update].

(* ------------------------------------------------------------------------------------------ *)
(* the rank discipline excludes deadlock                                                        *)

Definition held_by (c : lcfg) (t : nat) : list nat := map fst (filter (fun lo : nat * nat => Nat.eqb (snd lo) t) (lc_held c)).

Record linv (c : lcfg) : Prop := mkLinv {
  li_ranked : forall t p, nth_error (lc_threads c) t = Some p -> ranked (held_by c t) p = true;
  li_nodup : NoDup (map fst (lc_held c));
  li_owner : forall l t, In (l, t) (lc_held c) -> exists p, nth_error (lc_threads c) t = Some p
}.

Lemma nat_eqb_iff a b : Nat.eqb a b = true <-> a = b. Proof. apply Nat.eqb_eq. Qed.

Lemma nth_set_nth_same {A} (l : list A) i x y : nth_error l i = Some y -> nth_error (set_nth l i x) i = Some x.
Proof. revert i. induction l as [|a r IH]; intros [|i] H; cbn in *; try discriminate; auto. Qed.

Lemma nth_set_nth_other {A} (l : list A) i j x : i <> j -> nth_error (set_nth l i x) j = nth_error l j.
Proof.
  revert i j. induction l as [|a r IH]; intros [|i] [|j] H; cbn; auto; try congruence.
Qed.

Lemma owner_none_notin c l : owner c l = None -> ~ In l (map fst (lc_held c)).
Proof.
  unfold owner. induction (lc_held c) as [|[k v] r IH]; cbn; [tauto|].
  destruct (Nat.eqb_spec l k); [discriminate|]. intros H [E|Hin]; [congruence | exact (IH H Hin)].
Qed.

Lemma owner_in c l t : NoDup (map fst (lc_held c)) -> In (l, t) (lc_held c) -> owner c l = Some t.
Proof. intros Hnd Hin. apply (In_alookup Nat.eqb nat_eqb_iff); assumption. Qed.

Lemma in_held_by c t l : In l (held_by c t) <-> In (l, t) (lc_held c).
Proof.
  unfold held_by. rewrite in_map_iff. split.
  - intros ([l' t'] & E & Hin). cbn in E. subst l'. apply filter_In in Hin. destruct Hin as [Hin Ht]. cbn in Ht. apply Nat.eqb_eq in Ht. subst. exact Hin.
  - intros Hin. exists (l, t). split; [reflexivity|]. apply filter_In. split; [exact Hin | cbn; apply Nat.eqb_refl].
Qed.

Lemma linv_init progs : forallb (ranked []) progs = true -> linv (linit progs).
Proof.
  intros H. constructor; cbn.
  - intros t p Hp. unfold held_by; cbn. rewrite forallb_forall in H. apply H. eapply nth_error_In; eauto.
  - constructor.
  - intros l t [].
Qed.

Lemma aremove_filter l (h : list (nat * nat)) : aremove Nat.eqb l h = filter (fun lo => negb (Nat.eqb l (fst lo))) h.
Proof. induction h as [|[k v] r IH]; cbn; [reflexivity|]. destruct (Nat.eqb l k); cbn; rewrite IH; reflexivity. Qed.

Lemma held_by_acq c t l t' r :
  held_by (mkLcfg (set_nth (lc_threads c) t r) ((l, t) :: lc_held c)) t' = if Nat.eqb t t' then l :: held_by c t' else held_by c t'.
Proof. unfold held_by; cbn. destruct (Nat.eqb t t'); reflexivity. Qed.

Lemma In_aremove_iff l (h : list (nat * nat)) x v : In (x, v) (aremove Nat.eqb l h) <-> In (x, v) h /\ x <> l.
Proof.
  induction h as [|[k w] r IH]; cbn; [tauto|].
  destruct (Nat.eqb_spec l k) as [<-|Hne]; cbn; rewrite IH.
  - split; [tauto|]. intros [[E|H] Hx]; [inversion E; congruence | tauto].
  - split.
    + intros [E|[H Hx]]; [inversion E; subst; split; [left; reflexivity | congruence] | tauto].
    + intros [[E|H] Hx]; [left; exact E | right; tauto].
Qed.

Lemma ranked_ext p : forall h1 h2, (forall x, In x h1 <-> In x h2) -> ranked h1 p = ranked h2 p.
Proof.
  induction p as [|[l|l] r IH]; intros h1 h2 Heq; cbn [ranked].
  - destruct h1 as [|a h1], h2 as [|b h2]; try reflexivity.
    + exfalso. apply (proj2 (Heq b)). left; reflexivity.
    + exfalso. apply (proj1 (Heq a)). left; reflexivity.
  - f_equal.
    + destruct (forallb (fun h => Nat.ltb h l) h1) eqn:E1, (forallb (fun h => Nat.ltb h l) h2) eqn:E2; try reflexivity.
      * rewrite forallb_forall in E1. assert (forallb (fun h => Nat.ltb h l) h2 = true) by (apply forallb_forall; intros x Hx; apply E1, Heq, Hx). congruence.
      * rewrite forallb_forall in E2. assert (forallb (fun h => Nat.ltb h l) h1 = true) by (apply forallb_forall; intros x Hx; apply E2, Heq, Hx). congruence.
    + apply IH. intros x; cbn. rewrite Heq. tauto.
  - f_equal.
    + destruct (existsb (Nat.eqb l) h1) eqn:E1, (existsb (Nat.eqb l) h2) eqn:E2; try reflexivity.
      * apply existsb_exists in E1. destruct E1 as (x & Hx & Ex). assert (existsb (Nat.eqb l) h2 = true) by (apply existsb_exists; exists x; split; [apply Heq; exact Hx | exact Ex]). congruence.
      * apply existsb_exists in E2. destruct E2 as (x & Hx & Ex). assert (existsb (Nat.eqb l) h1 = true) by (apply existsb_exists; exists x; split; [apply Heq; exact Hx | exact Ex]). congruence.
    + apply IH. intros x. rewrite !filter_In, Heq. tauto.
Qed.

Lemma linv_step c t : linv c -> linv (lkstep c t).
Proof.
  intros [I1 I2 I3]. unfold lkstep. destruct (nth_error (lc_threads c) t) as [[|[l|l] r]|] eqn:Et; try (constructor; assumption).
  - (* Acq *)
    destruct (owner c l) eqn:Eo; cbn [is_none is_some negb]; [constructor; assumption|].
    pose proof (I1 t _ Et) as Hr. cbn [ranked] in Hr. apply andb_true_iff in Hr. destruct Hr as [Hlt Hr].
    constructor; cbn [lc_threads lc_held].
    + intros t' p Hp. rewrite held_by_acq. destruct (Nat.eqb_spec t t') as [<-|Hne].
      * rewrite (nth_set_nth_same _ _ _ _ Et) in Hp. inversion Hp; subst. exact Hr.
      * rewrite nth_set_nth_other in Hp by exact Hne. apply I1; exact Hp.
    + cbn. constructor; [apply owner_none_notin; exact Eo | exact I2].
    + intros l' t' [E|Hin].
      * inversion E; subst. exists r. eapply nth_set_nth_same; eauto.
      * destruct (I3 _ _ Hin) as (p & Hp). destruct (Nat.eq_dec t t') as [<-|Hne]; [exists r; eapply nth_set_nth_same; eauto|].
        exists p. rewrite nth_set_nth_other by exact Hne. exact Hp.
  - (* Rel *)
    pose proof (I1 t _ Et) as Hr. cbn [ranked] in Hr. apply andb_true_iff in Hr. destruct Hr as [Hin Hr].
    apply existsb_exists in Hin. destruct Hin as (l' & Hl' & El). apply Nat.eqb_eq in El. subst l'.
    apply in_held_by in Hl'.
    constructor; cbn [lc_threads lc_held].
    + intros t' p Hp. destruct (Nat.eq_dec t t') as [<-|Hne].
      * rewrite (nth_set_nth_same _ _ _ _ Et) in Hp. inversion Hp; subst p.
        rewrite <- Hr. apply ranked_ext. intros x. rewrite filter_In, !in_held_by. cbn [lc_held]. rewrite In_aremove_iff.
        split; [intros [H1 H2]; split; [exact H1 | apply negb_true_iff, Nat.eqb_neq; exact H2]
               | intros [H1 H2]; split; [exact H1 | apply Nat.eqb_neq, negb_true_iff; exact H2]].
      * rewrite nth_set_nth_other in Hp by exact Hne. rewrite <- (I1 t' p Hp). apply ranked_ext. intros x.
        rewrite !in_held_by. cbn [lc_held]. rewrite In_aremove_iff. split; [tauto|]. intros H. split; [exact H|].
        intros ->. pose proof (owner_in c l t I2 Hl'). pose proof (owner_in c l t' I2 H). congruence.
    + rewrite aremove_filter. clear -I2. induction (lc_held c) as [|[k v] rest IH]; cbn; [constructor|].
      inversion I2 as [|? ? Hn Hr]; subst. destruct (Nat.eqb l k); cbn; [apply IH; exact Hr|].
      constructor; [|apply IH; exact Hr]. intros Hin. apply Hn. apply in_map_iff in Hin. destruct Hin as (y & <- & Hy).
      apply filter_In in Hy. apply in_map. apply Hy.
    + intros l' t' Hin. apply In_aremove_iff in Hin. destruct Hin as [Hin _]. destruct (I3 _ _ Hin) as (p & Hp).
      destruct (Nat.eq_dec t t') as [<-|Hne]; [exists r; eapply nth_set_nth_same; eauto|].
      exists p. rewrite nth_set_nth_other by exact Hne. exact Hp.
Qed.

Lemma aremove_filter_unused : True. Proof. exact I. Qed.

Fixpoint max_held (h : list (nat * nat)) : option (nat * nat) :=
  match h with
  | [] => None
  | x :: r => match max_held r with Some y => if Nat.ltb (fst x) (fst y) then Some y else Some x | None => Some x end
  end.

Lemma max_held_spec h m : max_held h = Some m -> In m h /\ forall x, In x h -> (fst x <= fst m)%nat.
Proof.
  revert m. induction h as [|x r IH]; intros m H; cbn [max_held] in H; [discriminate|].
  destruct (max_held r) as [y|] eqn:E.
  - destruct (IH y eq_refl) as [Hy Hle]. destruct (Nat.ltb_spec (fst x) (fst y)); inversion H; subst.
    + split; [right; exact Hy|]. intros z [<-|Hz]; [lia | apply Hle; exact Hz].
    + split; [left; reflexivity|]. intros z [<-|Hz]; [lia | specialize (Hle z Hz); lia].
  - inversion H; subst. destruct r as [|z r']; [|exfalso; cbn [max_held] in E; destruct (max_held r'); [destruct (Nat.ltb (fst z) (fst p))|]; discriminate].
    split; [left; reflexivity|]. intros z [<-|[]]. lia.
Qed.

Lemma enabled_exists c t : enabled c t = true -> existsb (enabled c) (seq 0 (List.length (lc_threads c))) = true.
Proof.
  intros H. apply existsb_exists. exists t. split; [|exact H]. apply in_seq. split; [lia|]. cbn.
  unfold enabled in H. destruct (nth_error (lc_threads c) t) eqn:E; [|discriminate].
  apply nth_error_Some. congruence.
Qed.

Theorem linv_progress c : linv c -> stuck c = false.
Proof.
  intros [I1 I2 I3]. unfold stuck. destruct (all_done c) eqn:Ed; [reflexivity|]. cbn [negb andb]. apply negb_false_iff.
  destruct (max_held (lc_held c)) as [[lm tm]|] eqn:Em.
  - destruct (max_held_spec _ _ Em) as [Hin Hmax]. destruct (I3 _ _ Hin) as (p & Hp).
    pose proof (I1 tm p Hp) as Hr. assert (In lm (held_by c tm)) as Hl by (apply in_held_by; exact Hin).
    apply (enabled_exists c tm). unfold enabled. rewrite Hp. destruct p as [|[l|l] r].
    + cbn in Hr. destruct (held_by c tm); [destruct Hl | discriminate].
    + cbn [ranked] in Hr. apply andb_true_iff in Hr. destruct Hr as [Hlt _]. rewrite forallb_forall in Hlt.
      specialize (Hlt lm Hl). apply Nat.ltb_lt in Hlt.
      destruct (owner c l) as [t'|] eqn:Eo; [|reflexivity]. exfalso.
      unfold owner in Eo. apply (alookup_In Nat.eqb nat_eqb_iff) in Eo. specialize (Hmax _ Eo). cbn in Hmax. lia.
    + reflexivity.
  - (* nothing is held: any unfinished thread can move *)
    assert (lc_held c = []) as Hh by (destruct (lc_held c) as [|x r]; [reflexivity | cbn [max_held] in Em; destruct (max_held r) as [y|]; [destruct (Nat.ltb (fst x) (fst y))|]; discriminate]).
    unfold all_done in Ed. 
    assert (exists t p, nth_error (lc_threads c) t = Some p /\ p <> []) as (t & p & Hp & Hne).
    { clear -Ed. induction (lc_threads c) as [|q r IH]; cbn in Ed; [discriminate|].
      destruct q as [|a q'].
      - cbn in Ed. destruct (IH Ed) as (t & p & Hp & Hne). exists (S t), p. auto.
      - exists 0%nat, (a :: q'). split; [reflexivity | discriminate]. }
    apply (enabled_exists c t). unfold enabled. rewrite Hp. destruct p as [|[l|l] r]; [congruence | | reflexivity].
    unfold owner. rewrite Hh. reflexivity.
Qed.

Theorem no_deadlock progs sched : forallb (ranked []) progs = true -> stuck (lexec sched (linit progs)) = false.
Proof.
  intros H. apply linv_progress.
  assert (forall sched c, linv c -> linv (lexec sched c)) as Hx.
  { induction sched0 as [|t r IH]; intros c Hc; cbn; [exact Hc | apply IH, linv_step, Hc]. }
  apply Hx. apply linv_init. exact H.
Qed.

(* no lock is left held: when every thread has finished, nothing is held *)
Theorem nothing_left_held progs sched : forallb (ranked []) progs = true ->
  all_done (lexec sched (linit progs)) = true -> lc_held (lexec sched (linit progs)) = [].
Proof.
  intros H Hd.
  assert (forall sched c, linv c -> linv (lexec sched c)) as Hx.
  { induction sched0 as [|t r IH]; intros c Hc; cbn; [exact Hc | apply IH, linv_step, Hc]. }
  pose proof (Hx sched _ (linv_init progs H)) as [I1 I2 I3]. set (c := lexec sched (linit progs)) in *.
  destruct (lc_held c) as [|[l t] r] eqn:Eh; [reflexivity|]. exfalso.
  destruct (I3 l t ltac:(left; reflexivity)) as (p & Hp).
  unfold all_done in Hd. rewrite forallb_forall in Hd. pose proof (Hd p (nth_error_In _ _ Hp)) as Hpd.
  destruct p; [|discriminate]. pose proof (I1 t [] Hp) as Hr. cbn in Hr.
  assert (In l (held_by c t)) as Hl by (apply in_held_by; rewrite Eh; left; reflexivity).
  destruct (held_by c t); [destruct Hl | discriminate].
Qed.

(* rosmar's paths other than the timer callback follow the discipline - for any number of concurrent
   instances of each, in any interleaving *)
Example paths_disciplined : forallb (ranked []) disciplined_paths = true.
Proof. vm_compute. reflexivity. Qed.

Theorem rosmar_paths_no_deadlock (progs : list (list lact)) sched :
  (forall p, In p progs -> In p disciplined_paths) -> stuck (lexec sched (linit progs)) = false.
Proof.
  intros H. apply no_deadlock. apply forallb_forall. intros p Hp.
  pose proof paths_disciplined as D. rewrite forallb_forall in D. apply D, H, Hp.
Qed.

(* the timer callback does not: with CloseAndDelete it reaches a configuration in which neither can move *)
Example timer_not_disciplined : ranked [] path_timer = false.
Proof. vm_compute. reflexivity. Qed.

Theorem timer_vs_delete_deadlocks : exists sched, stuck (lexec sched (linit [path_timer; path_close_and_delete])) = true.
Proof. exists [0; 1]%nat. vm_compute. reflexivity. Qed.

(* ------------------------------------------------------------------------------------------ *)
(* family shut: a shutdown call against an operation parked at a hook point, in a child process  *)
Inductive racer := RWrite | RSubdoc | RFeedStart | RView | RTimer | RClose | RRearm (* two pending expiry deadlines, no parking *).
Inductive shutdown := SCad | SCloseLast | SCloseOne | SDrop.
Record shut_case := mkShutCase { sc_mem : bool; sc_racer : racer; sc_point : string; sc_shutdown : shutdown }.
Inductive outcome := OOk | OPanic | ODeadlock | OLeak | OLockLeft | ORacerLost.

Definition outcome_eqb (a b : outcome) : bool :=
  match a, b with
  | OOk, OOk | OPanic, OPanic | ODeadlock, ODeadlock | OLeak, OLeak | OLockLeft, OLockLeft | ORacerLost, ORacerLost => true
  | _, _ => false
  end.

Definition store_down (s : shut_case) : bool :=
  match sc_shutdown s with SCad => true | SCloseLast => negb (sc_mem s) | _ => false end.
Definition is_timer (s : shut_case) : bool := match sc_racer s with RTimer => true | _ => false end.

(* Three windows used to produce something else than `ok` (KNOWN_FINDINGS.json, now `fixed`): the timer callback
   entered before the store shut down ran doExpiration on a closed database and panicked (fix 116c2a3); the
   timer callback inside expireDocuments held expiryManager.mutex and needed bucket.mutex while CloseAndDelete
   held bucket.mutex and waited for expiryManager.mutex - the cycle of timer_vs_delete_deadlocks (fix 2f1f33b,
   protocol proved free of deadlock in LockStop.v); a StartDCPFeed parked before its registration registered
   after CloseAndDelete had shut the store down, leaving a feed nothing would stop (fix fcaf2af).
   Every scenario is now expected to end well. *)
Definition point_is (s : shut_case) (p : string) : bool := String.eqb (sc_point s) p.
Definition is_feedstart (s : shut_case) : bool := match sc_racer s with RFeedStart => true | _ => false end.
Definition is_cad (s : shut_case) : bool := match sc_shutdown s with SCad => true | _ => false end.

Definition expected_outcomes (s : shut_case) : list outcome := [OOk].

Definition shut_corr_ok (t : shut_case * outcome) : bool := existsb (outcome_eqb (snd t)) (expected_outcomes (fst t)).
Definition shut_chk_strict (t : shut_case * outcome) : bool := outcome_eqb (snd t) OOk.
Definition shut_chk_excused (t : shut_case * outcome) : bool := shut_corr_ok t.
Definition shut_model (s : shut_case) : list outcome := expected_outcomes s.
