package main

// A tiny term language that bin/check turns into Coq terms verbatim:
//   C("Name", args...)  constructor application      -> (Name a1 a2 ...)
//   N(uint64)           number                       -> 123
//   S(string)           string literal               -> "..."
//   B(bool)             bool                         -> true / false
//   L(items...)         list                         -> [a; b; c]
//   Some(x) / None      option
//   P(a, b)             pair                         -> (a, b)

import "strconv"

type Term = map[string]any

func C(name string, args ...any) Term { return Term{"c": name, "a": args} }
func N(v uint64) Term                 { return Term{"n": strconv.FormatUint(v, 10)} }
func S(s string) Term                 { return Term{"s": s} }
func B(b bool) Term                   { return Term{"b": b} }
func L(items ...any) Term {
	if items == nil {
		items = []any{}
	}
	return Term{"l": items}
}
func LS(items []Term) Term {
	out := make([]any, len(items))
	for i, t := range items {
		out[i] = t
	}
	return Term{"l": out}
}
func Some(x any) Term { return Term{"o": x} }
func None() Term      { return Term{"o": nil} }
func P(a, b any) Term { return Term{"p": []any{a, b}} }
