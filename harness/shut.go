package main

// Family shut: Close / CloseAndDelete / DropDataStore against an operation parked at a hook point.  Every
// scenario runs in a child process (a panic or a deadlock must not take the harness down): two handles, a
// named collection, a live feed; a "racer" (a writer, a sub-document writer, a feed start, a view query,
// the expiry timer's callback, another Close) is parked at a hook point; the shutdown call is made (to
// completion first if the parked goroutine holds no lock the shutdown needs, else concurrently); the racer
// is released.  Outcome: ok | panic | deadlock (watchdog) | leak (feed or timer goroutine alive after the
// store shut down) | lockleft (another bucket cannot be used) | racerlost (the raced call never returned).

import (
	"bufio"
	"encoding/json"
	"fmt"
	"math/rand"
	"os"
	"os/exec"
	"path/filepath"
	"runtime"
	"strings"
	"sync/atomic"
	"time"

	sgbucket "github.com/couchbase/sg-bucket"
	"github.com/couchbaselabs/rosmar"
)

func init() {
	register(&family{name: "shut", run: runShut})
	register(&family{name: "shutchild", run: runShutChild})
}

type shutInput struct {
	InMem    bool   `json:"in_mem"`
	Racer    string `json:"racer"`    // write | subdoc | feedstart | view | timer | close
	Point    string `json:"point"`    // hook point at which the racer is parked
	Shutdown string `json:"shutdown"` // cad | close_last | close_one | drop
}

var holdsLock = map[string]bool{"txn.begin": true, "txn.precommit": true, "txn.committed": true, "cas.beforeSetLastCas": true, "expiry.window": true}

func runShutChild(cfg runCfg, emit func(Case)) error {
	raw, err := os.ReadFile(cfg.param)
	if err != nil {
		return err
	}
	var in shutInput
	if err := json.Unmarshal(raw, &in); err != nil {
		return err
	}
	out := bufio.NewWriter(os.Stderr)
	say := func(format string, a ...any) { fmt.Fprintf(out, "SHUT "+format+"\n", a...); out.Flush() }
	dir := cfg.scratch
	url := rosmar.InMemoryURL
	if !in.InMem {
		url = "rosmar://" + filepath.Join(dir, "b")
	}
	name := fmt.Sprintf("shut_%d", os.Getpid())
	h0, err := rosmar.OpenBucket(url, name, rosmar.CreateOrOpen)
	if err != nil {
		return err
	}
	h1, err := rosmar.OpenBucket(url, name, rosmar.CreateOrOpen)
	if err != nil {
		return err
	}
	cname := dsName("s1.c1")
	if err := h0.CreateDataStore(ctxBg, cname); err != nil {
		return err
	}
	ds0, _ := h0.NamedDataStore(cname)
	c0 := ds0.(*rosmar.Collection)
	ds1, _ := h1.NamedDataStore(cname)
	c1 := ds1.(*rosmar.Collection)
	_ = c1
	_ = c0.Set("doc", 0, nil, []byte(`{"a":1}`))
	_ = c0.PutDDoc(ctxBg, "dd", mkDesignDoc([]ViewDef{{Name: "v0", Map: 0}}))
	feedDone := make(chan struct{})
	feedTerm := make(chan bool)
	// a bystander feed that checkpoints and has something to checkpoint: on its way out it writes to the bucket
	feedGot := make(chan struct{}, 16)
	_ = c1.StartDCPFeed(ctxBg, sgbucket.FeedArguments{ID: "bg", Backfill: sgbucket.FeedNoBackfill, CheckpointPrefix: "cp", Terminator: feedTerm, DoneChan: feedDone},
		func(sgbucket.FeedEvent) bool {
			select {
			case feedGot <- struct{}{}:
			default:
			}
			return true
		}, nil)
	_ = c0.Set("seen", 0, nil, []byte(`{"a":2}`))
	select {
	case <-feedGot:
	case <-time.After(3 * time.Second):
		say("NOTE bystander feed did not receive its first event")
	}
	var manualTimer int32
	if in.Racer == "timer2" {
		// the sweep will have another collection to go to after the one it is held in
		if d := h0.DefaultDataStore(); d != nil {
			_ = d.SetRaw("old0", 1000000000, nil, []byte("x"))
		}
		in.Racer = "timer"
		defer func() { in.Racer = "timer2" }()
	}
	if in.Racer == "timer" {
		// something to expire: an expiry in the past.  Firings of the real timer are parked for good; the
		// racer is the timer's callback run by hand (VerifRunExpiry), recognised by the flag below
		rosmar.VerifSetHook(func(point string, args ...any) {
			if point == "expiry.fire" {
				select {}
			}
		})
		_ = c0.SetRaw("old", 1000000000, nil, []byte("x"))
		time.Sleep(20 * time.Millisecond)
	}
	if in.Racer == "rearm" {
		// two pending deadlines, the later one armed first; then the shutdown; then wait past both.  A timer
		// that is still alive after the store shut down fires into a closed database.
		now := uint32(time.Now().Unix())
		_ = c0.SetRaw("late", now+2, nil, []byte("x"))
		_ = c0.SetRaw("early", now+1, nil, []byte("y"))
		sd := make(chan struct{})
		go func() {
			defer func() {
				if r := recover(); r != nil {
					say("PANIC shutdown: %v", r)
					os.Exit(7)
				}
			}()
			switch in.Shutdown {
			case "cad":
				_ = h1.CloseAndDelete(ctxBg)
			case "close_last":
				h0.Close(ctxBg)
				h1.Close(ctxBg)
			case "close_one":
				h1.Close(ctxBg)
			case "drop":
				_ = h1.DropDataStore(cname)
			}
			close(sd)
		}()
		select {
		case <-sd:
		case <-time.After(5 * time.Second):
			say("DEADLOCK the shutdown call did not finish")
			os.Exit(3)
		}
		time.Sleep(2700 * time.Millisecond)
		storeDown := in.Shutdown == "cad" || (in.Shutdown == "close_last" && !in.InMem)
		if storeDown {
			buf := make([]byte, 1<<20)
			n := runtime.Stack(buf, true)
			for _, g := range strings.Split(string(buf[:n]), "\n\n") {
				if strings.Contains(g, "rosmar.(*expiryManager).runExpiry") {
					say("LEAK a timer callback is running after the store was shut down")
					os.Exit(5)
				}
			}
		}
		say("OK")
		os.Exit(0)
	}
	arrived := make(chan struct{}, 1)
	release := make(chan struct{})
	var armed int32 = 1
	rosmar.VerifSetHook(func(point string, args ...any) {
		if point == "expiry.fire" && !atomic.CompareAndSwapInt32(&manualTimer, 1, 0) {
			select {} // a firing of the real timer
		}
		if point == "expiry.window" && len(args) > 1 {
			// the sweep passes here once per collection: park it in the collection that has something to expire
			if keys, ok := args[1].([]string); ok && len(keys) == 0 {
				return
			}
		}
		if point == in.Point && atomic.CompareAndSwapInt32(&armed, 1, 0) {
			arrived <- struct{}{}
			<-release
		}
	})
	racerDone := make(chan string, 1)
	go func() {
		defer func() {
			if r := recover(); r != nil {
				say("PANIC racer: %v", r)
				os.Exit(7)
			}
		}()
		var e error
		switch in.Racer {
		case "write":
			e = c0.SetRaw("k", 0, nil, []byte("v"))
		case "subdoc":
			_, e = c0.WriteSubDoc(ctxBg, "doc", "b", 0, []byte(`2`))
		case "feedstart":
			e = c0.StartDCPFeed(ctxBg, sgbucket.FeedArguments{ID: "racer", Backfill: 0}, func(sgbucket.FeedEvent) bool { return true }, nil)
		case "view":
			_ = c0.SetRaw("k2", 0, nil, []byte(`{"a":5}`))
			_, e = c0.View(ctxBg, "dd", "v0", nil)
		case "timer":
			atomic.StoreInt32(&manualTimer, 1)
			h0.VerifRunExpiry()
		case "close":
			h0.Close(ctxBg)
		}
		if e != nil {
			racerDone <- "error: " + e.Error()
		} else {
			racerDone <- "ok"
		}
	}()
	select {
	case <-arrived:
	case r := <-racerDone:
		say("INVALID the racer finished without reaching %s (%s)", in.Point, r)
		os.Exit(0)
	case <-time.After(3 * time.Second):
		say("INVALID the racer did not reach %s", in.Point)
		os.Exit(0)
	}
	shutdown := func() {
		defer func() {
			if r := recover(); r != nil {
				say("PANIC shutdown: %v", r)
				os.Exit(7)
			}
		}()
		switch in.Shutdown {
		case "cad":
			_ = h1.CloseAndDelete(ctxBg)
		case "close_last":
			if in.Racer != "close" {
				h0.Close(ctxBg)
			}
			h1.Close(ctxBg)
		case "close_one":
			h1.Close(ctxBg)
		case "drop":
			_ = h1.DropDataStore(cname)
		}
	}
	shutDone := make(chan struct{})
	watchdog := func(what string, ch <-chan struct{}) {
		select {
		case <-ch:
		case <-time.After(5 * time.Second):
			buf := make([]byte, 1<<18)
			n := runtime.Stack(buf, true)
			say("DEADLOCK %s did not finish", what)
			fmt.Fprintln(os.Stderr, string(buf[:n]))
			os.Exit(3)
		}
	}
	if holdsLock[in.Point] || (in.Racer == "timer" && in.Point != "expiry.fire") {
		go func() { shutdown(); close(shutDone) }()
		time.Sleep(40 * time.Millisecond)
		close(release)
	} else {
		go func() { shutdown(); close(shutDone) }()
		watchdog("the shutdown call (racer parked holding no lock)", shutDone)
		close(release)
	}
	watchdog("the shutdown call", shutDone)
	rd := make(chan struct{})
	var racerResult string
	go func() { racerResult = <-racerDone; close(rd) }()
	select {
	case <-rd:
	case <-time.After(5 * time.Second):
		buf := make([]byte, 1<<18)
		n := runtime.Stack(buf, true)
		say("RACERLOST the raced call never returned")
		fmt.Fprintln(os.Stderr, string(buf[:n]))
		os.Exit(4)
	}
	say("racer %s", racerResult)
	storeDown := in.Shutdown == "cad" || (in.Shutdown == "close_last" && !in.InMem)
	if storeDown {
		time.Sleep(150 * time.Millisecond)
		buf := make([]byte, 1<<20)
		n := runtime.Stack(buf, true)
		leaks := 0
		for _, g := range strings.Split(string(buf[:n]), "\n\n") {
			// the feed's run loop or the timer callback (the terminator watcher, which waits for the client to
			// close its terminator channel, is not counted)
			if strings.Contains(g, "main.runShutChild") {
				continue // parked by this harness (a firing of the real timer)
			}
			if strings.Contains(g, "rosmar.(*dcpFeed).run(") || strings.Contains(g, "rosmar.(*expiryManager).runExpiry") {
				leaks++
			}
		}
		if leaks > 0 || rosmar.VerifActiveFeeds() != 0 {
			say("LEAK %d goroutines, %d active feeds after the store was shut down", leaks, rosmar.VerifActiveFeeds())
			os.Exit(5)
		}
	}
	// no lock may be left held: another bucket must be usable
	other := make(chan struct{})
	go func() {
		defer close(other)
		b, err := rosmar.OpenBucket(rosmar.InMemoryURL, name+"_other", rosmar.CreateOrOpen)
		if err == nil {
			_ = b.DefaultDataStore().SetRaw("x", 0, nil, []byte("y"))
			_ = b.CloseAndDelete(ctxBg)
		}
	}()
	select {
	case <-other:
	case <-time.After(5 * time.Second):
		say("LOCKLEFT another bucket cannot be used after the shutdown")
		os.Exit(6)
	}
	say("OK")
	os.Exit(0)
	return nil
}

func execShut(in shutInput, scratch string) (Case, error) {
	c := Case{Input: in}
	dir, err := os.MkdirTemp(scratch, "shut_")
	if err != nil {
		return c, err
	}
	defer os.RemoveAll(dir)
	pfile := filepath.Join(dir, "param.json")
	raw, _ := json.Marshal(in)
	if err := os.WriteFile(pfile, raw, 0600); err != nil {
		return c, err
	}
	cmd := exec.Command(os.Args[0], "-family", "shutchild", "-param", pfile, "-scratch", dir, "-out", filepath.Join(dir, "child.out"))
	outb, _ := cmd.CombinedOutput()
	text := string(outb)
	outcome := "OPanic"
	switch {
	case strings.Contains(text, "SHUT INVALID"):
		c.Discard = "the racer does not pass through the chosen hook point"
		return c, nil
	case strings.Contains(text, "SHUT OK"):
		outcome = "OOk"
	case strings.Contains(text, "SHUT DEADLOCK"):
		outcome = "ODeadlock"
	case strings.Contains(text, "SHUT RACERLOST"):
		outcome = "ORacerLost"
	case strings.Contains(text, "SHUT LEAK"):
		outcome = "OLeak"
	case strings.Contains(text, "SHUT LOCKLEFT"):
		outcome = "OLockLeft"
	}
	if outcome != "OOk" {
		keep := text
		if len(keep) > 1500 {
			keep = keep[:1500]
		}
		c.Notes = append(c.Notes, keep)
	}
	racers := map[string]string{"write": "RWrite", "subdoc": "RSubdoc", "feedstart": "RFeedStart", "view": "RView", "timer": "RTimer", "timer2": "RTimer", "close": "RClose", "rearm": "RRearm"}
	shuts := map[string]string{"cad": "SCad", "close_last": "SCloseLast", "close_one": "SCloseOne", "drop": "SDrop"}
	c.CoqInput = C("mkShutCase", B(in.InMem), C(racers[in.Racer]), S(in.Point), C(shuts[in.Shutdown]))
	c.CoqObs = C(outcome)
	c.Cells = []string{in.Racer + "@" + in.Point + "|" + in.Shutdown + fmt.Sprintf("|mem=%v", in.InMem)}
	return c, nil
}

var shutPoints = map[string][]string{
	"write":     {"txn.begin", "txn.precommit", "txn.committed", "cas.beforeSetLastCas", "cas.beforePost", "post.snapshot"},
	"subdoc":    {"subdoc.window", "txn.begin", "cas.beforePost"},
	"feedstart": {"feed.preregister"},
	"view":      {"txn.begin", "txn.precommit"},
	"timer":     {"expiry.fire", "expiry.window", "txn.begin", "cas.beforePost"},
	"timer2":    {"expiry.window", "txn.begin", "cas.beforePost"}, // as timer, with something to expire in two collections: the sweep is held in the first
	"close":     {"close.unregistered"},
	"rearm":     {"none"},
}

func allShut() []shutInput {
	var l []shutInput
	for _, mem := range []bool{true, false} {
		for _, racer := range []string{"write", "subdoc", "feedstart", "view", "timer", "timer2", "close", "rearm"} {
			for _, p := range shutPoints[racer] {
				for _, sd := range []string{"cad", "close_last", "close_one", "drop"} {
					if racer == "close" && sd == "close_one" {
						continue
					}
					l = append(l, shutInput{InMem: mem, Racer: racer, Point: p, Shutdown: sd})
				}
			}
		}
	}
	return l
}

func runShut(cfg runCfg, emit func(Case)) error {
	var inputs []shutInput
	if cfg.replay != nil {
		for _, raw := range cfg.replay {
			var in shutInput
			if err := json.Unmarshal(raw, &in); err != nil {
				return err
			}
			inputs = append(inputs, in)
		}
	} else {
		all := allShut()
		r := rand.New(rand.NewSource(cfg.seed))
		r.Shuffle(len(all), func(i, j int) { all[i], all[j] = all[j], all[i] })
		// deterministic order within the map iteration differences: sort first
		n := cfg.n
		if n > len(all) {
			n = len(all)
		}
		inputs = all[:n]
	}
	for _, in := range inputs {
		c, err := execShut(in, cfg.scratch)
		if err != nil {
			return err
		}
		emit(c)
	}
	return nil
}
