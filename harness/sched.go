package main

// Family sched: writers, event posting and feeds interleaved action by action, under the verifPoint
// hooks.  A writer is Commit (the transaction has committed; parked at cas.beforePost), Snapshot
// (postEvent has read the feed list; parked at post.snapshot), Push.  A feed run is Backfill (its
// backfill is queued; parked at feed.preregister), Register, Deliver (one callback), Stop (terminator).
// The same action list is interpreted by coq/Feed.v; deliveries, CAS values and persisted checkpoints
// are compared exactly (the HLC runs on a constant clock, so CAS values are base+1, base+2, ...).

import (
	"encoding/json"
	"fmt"
	"math/rand"
	"os"
	"path/filepath"
	"sync"
	"sync/atomic"
	"time"

	sgbucket "github.com/couchbase/sg-bucket"
	"github.com/couchbaselabs/rosmar"
)

func init() { register(&family{name: "sched", run: runSched}) }

type schedAct struct {
	Kind   string `json:"kind"` // commit | snapshot | push | backfill | register | deliver | stop
	W      int    `json:"w,omitempty"`
	F      int    `json:"f,omitempty"`
	Name   int    `json:"name,omitempty"`
	Resume bool   `json:"resume,omitempty"`
}

type schedInput struct {
	OnDisk bool       `json:"on_disk"`
	Acts   []schedAct `json:"acts"`
	Named  bool       `json:"named,omitempty"` // writers and feeds work on the named collection s1.c1; the default collection is a bystander
	ViaBucket bool    `json:"via_bucket,omitempty"` // feeds are started through Bucket.StartDCPFeed with Scopes naming the collection
}

type gate struct {
	arrived chan struct{}
	release chan struct{}
}

type gates struct {
	mu sync.Mutex
	m  map[string]*gate
}

func (g *gates) get(name string, create bool) *gate {
	g.mu.Lock()
	defer g.mu.Unlock()
	gt := g.m[name]
	if gt == nil && create {
		gt = &gate{arrived: make(chan struct{}, 64), release: make(chan struct{}, 64)}
		g.m[name] = gt
	}
	return gt
}

func (g *gates) drop(name string) {
	g.mu.Lock()
	delete(g.m, name)
	g.mu.Unlock()
}

const schedBase = uint64(1) << 40

var schedSerial int64

type schedRun struct {
	name    int
	term    chan bool
	done    chan struct{}
	started chan error
	stopped bool
}

// schedSim replays an action list on a mirror of coq/Feed.v: it says whether the list is a valid
// schedule (writers advance in order, one open run per feed name, Deliver only on a non-empty queue of a
// registered open run) and, for each Stop, whether an event is parked at the callback.
func schedSim(acts []schedAct) (valid bool, parked map[int]bool) {
	type run struct {
		name               int
		queue              []uint64
		closed, registered bool
		last               uint64
		changed            bool
	}
	parked = map[int]bool{}
	rows := map[string]uint64{}
	clock := uint64(0)
	stage := map[int]int{}
	wcas := map[int]uint64{}
	snaps := map[int][]int{}
	runs := map[int]*run{}
	var regd []int
	ckpt := map[int]uint64{}
	openRun := map[int]int{}
	pushTo := func(cas uint64, targets []int) {
		for _, f := range targets {
			if !runs[f].closed {
				runs[f].queue = append(runs[f].queue, cas)
			}
		}
	}
	for i, a := range acts {
		switch a.Kind {
		case "commit":
			if stage[a.W] != 0 {
				return false, nil
			}
			clock++
			wcas[a.W], rows[fmt.Sprintf("k%d", a.W)], stage[a.W] = clock, clock, 1
		case "snapshot":
			if stage[a.W] != 1 {
				return false, nil
			}
			snaps[a.W], stage[a.W] = append([]int{}, regd...), 2
		case "push":
			if stage[a.W] != 2 {
				return false, nil
			}
			pushTo(wcas[a.W], snaps[a.W])
			stage[a.W] = 3
		case "backfill":
			if _, dup := runs[a.F]; dup {
				return false, nil
			}
			if _, open := openRun[a.Name]; open {
				return false, nil
			}
			start, last := uint64(0), uint64(0)
			if a.Resume {
				last = ckpt[a.Name]
				start = last + 1
			}
			var q []uint64
			for _, c := range rows {
				if c >= start {
					q = append(q, c)
				}
			}
			for x := 0; x < len(q); x++ {
				for y := x + 1; y < len(q); y++ {
					if q[y] < q[x] {
						q[x], q[y] = q[y], q[x]
					}
				}
			}
			runs[a.F] = &run{name: a.Name, queue: q, last: last}
			openRun[a.Name] = a.F
		case "register":
			r := runs[a.F]
			if r == nil || r.registered || r.closed {
				return false, nil
			}
			r.registered = true
			regd = append(regd, a.F)
		case "deliver", "stop":
			r := runs[a.F]
			if r == nil || !r.registered || r.closed {
				return false, nil
			}
			if a.Kind == "deliver" && len(r.queue) == 0 {
				return false, nil
			}
			if len(r.queue) > 0 {
				if a.Kind == "stop" {
					parked[i] = true
				}
				c := r.queue[0]
				r.queue = r.queue[1:]
				if c > r.last {
					r.last, r.changed = c, true
				}
			}
			if a.Kind == "stop" {
				r.queue, r.closed = nil, true
				delete(openRun, r.name)
				if r.changed {
					clock++
					rows[fmt.Sprintf("cp%d", r.name)] = clock
					pushTo(clock, regd)
					ckpt[r.name] = r.last
				}
			}
		default:
			return false, nil
		}
	}
	return true, parked
}

func execSched(in schedInput, scratch string) (Case, error) {
	c := Case{Input: in}
	valid, parkedAt := schedSim(in.Acts)
	if !valid {
		c.Discard = "not a valid schedule (writer stages out of order, two open runs of one feed name, or a delivery from an empty queue)"
		return c, nil
	}
	id := atomic.AddInt64(&schedSerial, 1)
	dir, err := os.MkdirTemp(scratch, "sched_")
	if err != nil {
		return c, err
	}
	defer os.RemoveAll(dir)
	rosmar.VerifSetClock(func() uint64 { return schedBase })
	defer rosmar.VerifSetClock(nil)
	rosmar.VerifResetHLC(0)
	gs := &gates{m: map[string]*gate{}}
	var shutdown int32
	rosmar.VerifSetHook(func(point string, args ...any) {
		if atomic.LoadInt32(&shutdown) != 0 {
			return
		}
		var name string
		switch point {
		case "cas.beforePost":
			name = "commit:" + args[1].(string)
		case "post.snapshot":
			name = "snap:" + args[1].(string)
		case "feed.preregister":
			name = "prereg:" + args[1].(string)
		case "feed.callback":
			if args[2].(uint64) == 0 {
				return // backfill markers
			}
			name = "deliver:" + args[1].(string)
		default:
			return
		}
		if gt := gs.get(name, false); gt != nil {
			gt.arrived <- struct{}{}
			<-gt.release
		}
	})
	defer rosmar.VerifSetHook(nil)
	url := rosmar.InMemoryURL
	if in.OnDisk {
		url = "rosmar://" + filepath.Join(dir, "b")
	}
	b, err := rosmar.OpenBucket(url, fmt.Sprintf("sched_%d_%d", os.Getpid(), id), rosmar.CreateOrOpen)
	if err != nil {
		return c, err
	}
	col := b.DefaultDataStore().(*rosmar.Collection)
	scopes := map[string][]string{"_default": {"_default"}}
	if in.Named {
		ds, err := b.NamedDataStore(dsName("s1.c1"))
		if err != nil {
			return c, err
		}
		col = ds.(*rosmar.Collection)
		scopes = map[string][]string{"s1": {"c1"}}
	}
	var dmu sync.Mutex
	delivered := map[int][]any{} // by feed name
	ncalls := map[int]int{}
	wdone := map[int]chan error{}
	runs := map[int]*schedRun{}
	ckpts := map[int]uint64{}
	var notes []string
	wait := func(ch chan struct{}, what string) bool {
		select {
		case <-ch:
			return true
		case <-time.After(5 * time.Second):
			notes = append(notes, "timeout waiting for "+what)
			return false
		}
	}
	fatal := ""
	var actTerms []any
	for i, a := range in.Acts {
		key := fmt.Sprintf("k%d", a.W)
		fid := fmt.Sprintf("n%d", a.Name)
		switch a.Kind {
		case "commit":
			actTerms = append(actTerms, C("ACommit", N(uint64(a.W)), S(key)))
			g1 := gs.get("commit:"+key, true)
			gs.get("snap:"+key, true)
			ch := make(chan error, 1)
			wdone[a.W] = ch
			go func() { ch <- col.SetRaw(key, 0, nil, []byte(fmt.Sprintf("v%d", a.W))) }()
			if !wait(g1.arrived, fmt.Sprintf("act %d commit", i)) {
				fatal = "writer did not reach cas.beforePost"
			}
		case "snapshot":
			actTerms = append(actTerms, C("ASnapshot", N(uint64(a.W))))
			gs.get("commit:"+key, false).release <- struct{}{}
			if !wait(gs.get("snap:"+key, false).arrived, fmt.Sprintf("act %d snapshot", i)) {
				fatal = "writer did not reach post.snapshot"
			}
		case "push":
			actTerms = append(actTerms, C("APush", N(uint64(a.W))))
			gs.get("snap:"+key, false).release <- struct{}{}
			select {
			case e := <-wdone[a.W]:
				if e != nil {
					notes = append(notes, "writer error: "+e.Error())
				}
			case <-time.After(5 * time.Second):
				fatal = "writer did not return"
			}
			gs.drop("commit:" + key)
			gs.drop("snap:" + key)
		case "backfill":
			mode := C("FromCas", N(0))
			backfill := uint64(0)
			if a.Resume {
				mode = C("Resume")
				backfill = sgbucket.FeedResume
			}
			actTerms = append(actTerms, C("ABackfill", N(uint64(a.F)), N(uint64(a.Name)), mode))
			g1 := gs.get("prereg:"+fid, true)
			gs.get("deliver:"+fid, true)
			r := &schedRun{name: a.Name, term: make(chan bool), done: make(chan struct{}), started: make(chan error, 1)}
			runs[a.F] = r
			name := a.Name
			go func() {
				fargs := sgbucket.FeedArguments{ID: fid, Backfill: backfill, CheckpointPrefix: "cp", Terminator: r.term, DoneChan: r.done}
				start := col.StartDCPFeed
				if in.ViaBucket {
					fargs.Scopes = scopes
					start = b.StartDCPFeed
				}
				r.started <- start(ctxBg, fargs,
					func(ev sgbucket.FeedEvent) bool {
						if ev.Opcode == sgbucket.FeedOpMutation || ev.Opcode == sgbucket.FeedOpDeletion {
							dmu.Lock()
							delivered[name] = append(delivered[name], P(S(schedKey(string(ev.Key))), N(ev.Cas-schedBase+1)))
							ncalls[name]++
							dmu.Unlock()
						}
						return true
					}, nil)
			}()
			if !wait(g1.arrived, fmt.Sprintf("act %d backfill", i)) {
				fatal = "feed did not reach feed.preregister"
			}
			// the feed is parked before its registration: the call that starts it must not have returned, or a
			// write made after it returned could fall between the backfill and the registration
			select {
			case <-r.started:
				fatal = "StartDCPFeed returned before its feed was registered"
			default:
			}
		case "register":
			actTerms = append(actTerms, C("ARegister", N(uint64(a.F))))
			r := runs[a.F]
			gs.get("prereg:"+fmt.Sprintf("n%d", r.name), false).release <- struct{}{}
			select {
			case e := <-r.started:
				if e != nil {
					notes = append(notes, "StartDCPFeed: "+e.Error())
				}
			case <-time.After(5 * time.Second):
				fatal = "StartDCPFeed did not return"
			}
			gs.drop("prereg:" + fmt.Sprintf("n%d", r.name))
		case "deliver":
			actTerms = append(actTerms, C("ADeliver", N(uint64(a.F))))
			r := runs[a.F]
			g1 := gs.get("deliver:"+fmt.Sprintf("n%d", r.name), false)
			if !wait(g1.arrived, fmt.Sprintf("act %d deliver", i)) {
				fatal = "no event reached the callback although the queue should not be empty"
				break
			}
			dmu.Lock()
			before := ncalls[r.name]
			dmu.Unlock()
			g1.release <- struct{}{}
			for t := 0; t < 5000; t++ {
				dmu.Lock()
				n := ncalls[r.name]
				dmu.Unlock()
				if n > before {
					break
				}
				time.Sleep(200 * time.Microsecond)
			}
		case "stop":
			actTerms = append(actTerms, C("AStop", N(uint64(a.F))))
			r := runs[a.F]
			g1 := gs.get("deliver:"+fmt.Sprintf("n%d", r.name), false)
			// the run loop has already pulled the next event (if any) and is parked before the callback:
			// close the terminator, let the queue be closed, then let that one event through
			parked := false
			if parkedAt[i] {
				if !wait(g1.arrived, fmt.Sprintf("act %d stop (parked event)", i)) {
					fatal = "no event parked at the callback although the queue should not be empty"
					break
				}
				parked = true
			}
			close(r.term)
			time.Sleep(100 * time.Millisecond)
			if parked {
				g1.release <- struct{}{}
			}
			if !wait(r.done, fmt.Sprintf("act %d stop", i)) {
				fatal = "feed did not stop"
			}
			r.stopped = true
			gs.drop("deliver:" + fmt.Sprintf("n%d", r.name))
			var cp struct {
				LastSeq uint64 `json:"last_seq"`
			}
			if _, e := col.Get("cp:"+fmt.Sprintf("n%d", r.name), &cp); e == nil && cp.LastSeq >= schedBase {
				ckpts[r.name] = cp.LastSeq - schedBase + 1
			}
		}
		if fatal != "" {
			break
		}
	}
	// the observation is what has happened by the end of the action list; the clean-up below makes the
	// remaining runs exit (and write their checkpoints), which is not part of the history
	var dl, cl []any
	dmu.Lock()
	for name := 0; name < 4; name++ {
		if l, ok := delivered[name]; ok {
			dl = append(dl, P(N(uint64(name)), L(l...)))
		}
		if v, ok := ckpts[name]; ok {
			cl = append(cl, P(N(uint64(name)), N(v)))
		}
	}
	dmu.Unlock()
	atomic.StoreInt32(&shutdown, 1)
	// let everything parked go
	gs.mu.Lock()
	for _, gt := range gs.m {
		for k := 0; k < 8; k++ {
			select {
			case gt.release <- struct{}{}:
			default:
			}
		}
	}
	gs.mu.Unlock()
	for _, r := range runs {
		if !r.stopped {
			close(r.term)
		}
	}
	// every run loop must have exited (its final checkpoint write draws a timestamp from the process-wide
	// clock, which the next case resets) before this case ends
	for _, r := range runs {
		select {
		case <-r.done:
		case <-time.After(3 * time.Second):
			notes = append(notes, "a feed run did not exit at the end of the case")
		}
	}
	for w, ch := range wdone {
		select {
		case <-ch:
		default:
			_ = w
		}
	}
	_ = b.CloseAndDelete(ctxBg)
	c.Fatal = fatal
	c.Notes = notes
	c.CoqInput = L(actTerms...)
	c.CoqObs = P(L(dl...), L(cl...))
	nstop, nres, split := 0, 0, false
	for i, a := range in.Acts {
		switch a.Kind {
		case "stop":
			nstop++
			if parkedAt[i] {
				c.Cells = append(c.Cells, "stop-with-event-in-flight")
			}
		case "backfill":
			if a.Resume {
				nres++
			}
		case "commit":
			if i+1 >= len(in.Acts) || in.Acts[i+1].Kind != "snapshot" {
				split = true
			}
		}
	}
	c.Cells = append(c.Cells, fmt.Sprintf("disk=%v|stops=%d|resumes=%d|split-writes=%v", in.OnDisk, nstop, nres, split))
	return c, nil
}

// checkpoint documents are called cp:n<name> in the bucket and "<digit>cp" in the model
func schedKey(k string) string {
	if len(k) > 4 && k[:4] == "cp:n" {
		return k[4:] + "cp"
	}
	return k
}

// generate a valid action list; the generator mirrors coq/Feed.v far enough to know queue lengths, so
// that Deliver is only issued on a non-empty queue and Stop knows whether an event is parked
func genSched(r *rand.Rand) schedInput {
	in := schedInput{OnDisk: r.Intn(3) == 0, ViaBucket: r.Intn(2) == 0, Named: r.Intn(2) == 0}
	nw := 2 + r.Intn(3)
	names := 1 + r.Intn(2)
	type run struct {
		name          int
		queue         []uint64
		closed        bool
		registered    bool
		last          uint64
		changed       bool
	}
	rows := map[string]uint64{}
	clock := uint64(0)
	stage := make([]int, nw)
	wcas := make([]uint64, nw)
	snaps := map[int][]int{}
	runs := map[int]*run{}
	var regd []int
	ckpt := map[int]uint64{}
	hasCkpt := map[int]bool{}
	openRun := map[int]int{}
	nextRun := 0
	atomicWriters := r.Intn(3) > 0
	atomicStart := r.Intn(3) > 0
	add := func(a schedAct) { in.Acts = append(in.Acts, a) }
	pushTo := func(cas uint64, targets []int) {
		for _, f := range targets {
			if !runs[f].closed {
				runs[f].queue = append(runs[f].queue, cas)
			}
		}
	}
	commit := func(w int) {
		add(schedAct{Kind: "commit", W: w})
		clock++
		wcas[w] = clock
		rows[fmt.Sprintf("k%d", w)] = clock
		stage[w] = 1
	}
	snapshot := func(w int) {
		add(schedAct{Kind: "snapshot", W: w})
		snaps[w] = append([]int{}, regd...)
		stage[w] = 2
	}
	push := func(w int) {
		add(schedAct{Kind: "push", W: w})
		pushTo(wcas[w], snaps[w])
		stage[w] = 3
	}
	backfill := func(name int) int {
		f := nextRun
		nextRun++
		resume := hasCkpt[name] || r.Intn(2) == 0
		start := uint64(0)
		last := uint64(0)
		if resume {
			last = ckpt[name]
			start = last + 1
		}
		var q []uint64
		for _, c := range rows {
			if c >= start {
				q = append(q, c)
			}
		}
		for a := 0; a < len(q); a++ {
			for b := a + 1; b < len(q); b++ {
				if q[b] < q[a] {
					q[a], q[b] = q[b], q[a]
				}
			}
		}
		runs[f] = &run{name: name, queue: q, last: last}
		openRun[name] = f
		add(schedAct{Kind: "backfill", F: f, Name: name, Resume: resume})
		return f
	}
	registerRun := func(f int) {
		add(schedAct{Kind: "register", F: f})
		runs[f].registered = true
		regd = append(regd, f)
	}
	deliver := func(f int) {
		rs := runs[f]
		c := rs.queue[0]
		rs.queue = rs.queue[1:]
		if c > rs.last {
			rs.last, rs.changed = c, true
		}
	}
	stop := func(f int) {
		rs := runs[f]
		parked := len(rs.queue) > 0
		add(schedAct{Kind: "stop", F: f})
		if parked {
			deliver(f)
		}
		rs.queue, rs.closed = nil, true
		delete(openRun, rs.name)
		if rs.changed {
			clock++
			rows[fmt.Sprintf("cp%d", rs.name)] = clock
			pushTo(clock, regd)
			ckpt[rs.name] = rs.last
			hasCkpt[rs.name] = true
		}
	}
	for steps := 0; steps < 60; steps++ {
		var choices []func()
		for w := 0; w < nw; w++ {
			w := w
			switch stage[w] {
			case 0:
				choices = append(choices, func() {
					commit(w)
					if atomicWriters {
						snapshot(w)
						push(w)
					}
				})
			case 1:
				choices = append(choices, func() { snapshot(w) })
			case 2:
				choices = append(choices, func() { push(w) })
			}
		}
		for name := 0; name < names; name++ {
			name := name
			f, has := openRun[name]
			if !has {
				choices = append(choices, func() {
					f := backfill(name)
					if atomicStart {
						registerRun(f)
					}
				})
				continue
			}
			if !runs[f].registered {
				choices = append(choices, func() { registerRun(f) })
				continue
			}
			if len(runs[f].queue) > 0 {
				choices = append(choices, func() { add(schedAct{Kind: "deliver", F: f}); deliver(f) })
				choices = append(choices, func() { add(schedAct{Kind: "deliver", F: f}); deliver(f) })
			}
			if r.Intn(4) == 0 {
				choices = append(choices, func() { stop(f) })
			}
		}
		allDone := true
		for w := 0; w < nw; w++ {
			if stage[w] != 3 {
				allDone = false
			}
		}
		if (allDone && steps > 10) || len(choices) == 0 {
			break
		}
		choices[r.Intn(len(choices))]()
	}
	// finish: every writer completes; every name ends with an open, registered run that drains
	for w := 0; w < nw; w++ {
		if stage[w] == 0 {
			commit(w)
		}
		if stage[w] == 1 {
			snapshot(w)
		}
		if stage[w] == 2 {
			push(w)
		}
	}
	for pass := 0; pass < 2; pass++ {
		for name := 0; name < names; name++ {
			f, has := openRun[name]
			if !has {
				f = backfill(name)
			}
			if !runs[f].registered {
				registerRun(f)
			}
			for len(runs[f].queue) > 0 {
				add(schedAct{Kind: "deliver", F: f})
				deliver(f)
			}
		}
	}
	return in
}

func runSched(cfg runCfg, emit func(Case)) error {
	var inputs []schedInput
	if cfg.replay != nil {
		for _, raw := range cfg.replay {
			var in schedInput
			if err := json.Unmarshal(raw, &in); err != nil {
				return err
			}
			inputs = append(inputs, in)
		}
	} else {
		r := rand.New(rand.NewSource(cfg.seed))
		for i := 0; i < cfg.n; i++ {
			inputs = append(inputs, genSched(r))
		}
	}
	for _, in := range inputs {
		c, err := execSched(in, cfg.scratch)
		if err != nil {
			return err
		}
		emit(c)
	}
	return nil
}
