package main

import (
	"encoding/json"
	"fmt"
	"math/rand"
)

func init() { register(&family{name: "kv", run: runKv}) }

func sp(s string) *string   { return &s }
func u32p(v uint32) *uint32 { return &v }

var jsonBodies = []string{`{"a":2}`, `{"a":0,"b":3}`, `{"a":1}`, `{"a":1,"b":{"c":2}}`, `{"n":null,"s":"x"}`, `{}`, `12`, `"str"`, `[1,2]`, `null`,
	`{"a":{"z":[1]},"b":true}`, `{"b":{"c":{"d":5}},"q":"w"}`, `{"a":1,"zz":"0123456789012345678901234567890123456789"}`,
	`{"s":"apple"}`, `{"s":"Banana","a":2}`, `{"s":"banana"}`, `{"s":"Apple1"}`, `{"s":"apple"}`,
	`{"a":10}`, `{"b":{}}`, `{"a":10}`} // eight bytes long: a length at which a BLOB can pass for SQLite's binary JSON
var rawBodies = []string{`raw1`, `{notjson`, `7`, `{"a":1}`, `x y z`, ``}
var xattrVals = []string{`{"rev":"1-a"}`, `{"cas":"x","n":{"m":1}}`, `"s"`, `5`, `[1]`, `true`, `{"b":2,"a":1}`, `{}`}
var badXattrVals = []string{`{bad`, ``}
var macroPaths = []string{"_sync.cas", "_sync.n.crc", "u1.cas", "_vv.x", "_sync.rev", "u2.n.deep"}
var subdocPaths = []string{"a", "b.c", "x.y", "a.z", "n", "b", "b.c.d", "q", "new", "n.x", "s.y", "b.c.d.e", "a.", ".a", "b..c"}
var subdocVals = []string{`1`, `"v"`, `{"k":true}`, `null`, ``, `[1]`}
var farExps = []uint32{4000000000, 4000000001, 4100000000, 3900000000}
var pastExps = []uint32{1000000000, 1500000000, 1000000001}
var relExps = []uint32{1000, 2592000, 50}

func pick[T any](r *rand.Rand, l []T) T { return l[r.Intn(len(l))] }

func genExp(r *rand.Rand) uint32 {
	switch x := r.Intn(10); {
	case x < 5:
		return 0
	case x < 7:
		return pick(r, farExps)
	case x < 8:
		return pick(r, pastExps)
	default:
		return pick(r, relExps)
	}
}

func genCasMode(r *rand.Rand) string {
	switch x := r.Intn(10); {
	case x < 5:
		return "current"
	case x < 7:
		return "zero"
	case x < 9:
		return "stale"
	default:
		return pick(r, []string{"bogus", "bogus", "max", "maxm1", "big"})
	}
}

func genXs(r *rand.Rand, allowBad bool) []XKV {
	n := r.Intn(3)
	if r.Intn(4) > 0 && n == 0 {
		n = 1
	}
	perm := r.Perm(len(kvXnames))
	var xs []XKV
	for i := 0; i < n; i++ {
		name := kvXnames[perm[i]]
		v := pick(r, xattrVals)
		x := XKV{Name: name, Val: &v}
		if allowBad && r.Intn(25) == 0 {
			x.Val = nil
		} else if allowBad && r.Intn(25) == 0 {
			x.Val = sp(pick(r, badXattrVals))
		} else if allowBad && r.Intn(40) == 0 {
			x.Name = "bad.name"
		}
		xs = append(xs, x)
	}
	return xs
}

func genDels(r *rand.Rand) *[]string {
	switch r.Intn(5) {
	case 0, 1, 2:
		return nil
	case 3:
		d := []string{pick(r, kvXnames)}
		return &d
	default:
		d := []string{pick(r, kvXnames), pick(r, kvXnames)}
		if d[0] == d[1] {
			d = d[:1]
		}
		return &d
	}
}

func genMacros(r *rand.Rand) []Macro {
	if r.Intn(3) > 0 {
		return nil
	}
	n := 1 + r.Intn(2)
	var ms []Macro
	for i := 0; i < n; i++ {
		m := Macro{Path: pick(r, macroPaths), Kind: "cas"}
		if r.Intn(2) == 0 {
			m.Kind = "crc"
		}
		if r.Intn(30) == 0 {
			m.Path = "_sync[0]"
		}
		ms = append(ms, m)
	}
	return ms
}

func genNames(r *rand.Rand) []string {
	n := 1 + r.Intn(2)
	var out []string
	for i := 0; i < n; i++ {
		out = append(out, pick(r, kvXnames))
	}
	if r.Intn(8) == 0 {
		out = append(out, "$document")
	}
	if r.Intn(12) == 0 {
		out = append(out, "$document.revid")
	}
	return out
}

// set by genKv for the duration of one case: prefer bodies with a string property s (the keys of map function 4)
var stringBodies = false
var sBodies = []string{`{"s":"apple"}`, `{"s":"Banana","a":2}`, `{"s":"banana"}`, `{"s":"Apple1"}`, `{"s":"cherry","a":1}`, `{"s":"Zebra"}`}

func genKOp(r *rand.Rand) *KOp {
	op := genKOp0(r)
	if stringBodies && op.Val != nil && (op.Kind == "Set" || op.Kind == "Add" || op.Kind == "WriteCas" || op.Kind == "SetWithMeta") && !op.Append && r.Intn(2) == 0 {
		op.Val = sp(pick(r, sBodies))
	}
	return op
}

func genKOp0(r *rand.Rand) *KOp {
	type gen struct {
		w int
		f func() *KOp
	}
	body := func() string {
		if r.Intn(5) == 0 {
			return pick(r, rawBodies)
		}
		return pick(r, jsonBodies)
	}
	// a nil value now and then: the call is made with nil, the model says what that stands for
	orNil := func(v *string) *string {
		if r.Intn(14) == 0 {
			return nil
		}
		return v
	}
	gens := []gen{
		{2, func() *KOp { return &KOp{Kind: pick(r, []string{"GetRaw", "Get", "Exists", "GetExpiry"})} }},
		{2, func() *KOp { return &KOp{Kind: pick(r, []string{"GetWithXattrs", "GetXattrs"}), Names: genNames(r)} }},
		{3, func() *KOp {
			p := pick(r, subdocPaths)
			if r.Intn(2) == 0 {
				p = pick(r, []string{"a", "a", "b", "s", "n"}) // the properties most of the family's bodies have
			}
			return &KOp{Kind: "GetSubDocRaw", Path: p}
		}},
		{6, func() *KOp { return &KOp{Kind: "Add", Exp: genExp(r), Val: orNil(sp(pick(r, jsonBodies)))} }},
		{3, func() *KOp { return &KOp{Kind: "AddRaw", Exp: genExp(r), Val: orNil(sp(body()))} }},
		{5, func() *KOp {
			return &KOp{Kind: "Set", Exp: genExp(r), Preserve: r.Intn(4) == 0, Val: orNil(sp(pick(r, jsonBodies)))}
		}},
		{3, func() *KOp { return &KOp{Kind: "SetRaw", Exp: genExp(r), Preserve: r.Intn(4) == 0, Val: orNil(sp(body()))} }},
		{8, func() *KOp {
			o := &KOp{Kind: "WriteCas", Exp: genExp(r), CasMode: genCasMode(r), Val: sp(body())}
			switch r.Intn(8) {
			case 0:
				o.Raw = true
			case 1:
				o.Append = true
				o.Val = sp(pick(r, []string{"x", "3", "}"}))
				if r.Intn(3) == 0 {
					// an append that also insists on there being nothing (or names no version): every option together
					o.AddOnly = r.Intn(2) == 0
					if !o.AddOnly || r.Intn(2) == 0 {
						o.CasMode = "zero"
					}
				}
			case 2, 3:
				o.AddOnly = true
			case 4:
				o.Val = nil
			}
			return o
		}},
		{4, func() *KOp { return &KOp{Kind: "Remove", CasMode: genCasMode(r)} }},
		{6, func() *KOp { return &KOp{Kind: "Delete"} }},
		{3, func() *KOp {
			return &KOp{Kind: "Incr", Amt: uint64(r.Intn(5)), Deflt: uint64(r.Intn(50)), Exp: genExp(r)}
		}},
		{3, func() *KOp { return &KOp{Kind: pick(r, []string{"Touch", "GetAndTouchRaw"}), Exp: genExp(r)} }},
		{5, func() *KOp {
			cb := &Callback{Kind: pick(r, []string{"cancel", "fail", "set", "set", "append", "delete", "delete", "exponly"})}
			switch cb.Kind {
			case "set":
				cb.Val = sp(pick(r, jsonBodies))
			case "append":
				cb.Val = sp(pick(r, []string{"x", "1"}))
			}
			if cb.Kind == "exponly" || (cb.Kind != "cancel" && cb.Kind != "fail" && r.Intn(3) == 0) {
				cb.NewExp = u32p(genExp(r))
			}
			return &KOp{Kind: "Update", Exp: genExp(r), Cb: cb}
		}},
		{3, func() *KOp {
			o := &KOp{Kind: "SetWithMeta", CasMode: genCasMode(r), NewCas: pick(r, []uint64{5000, 6000, 1 << 61, 1<<61 + 7, 1 << 30}) + uint64(r.Intn(100)),
				Exp: pick(r, []uint32{0, 0, 4000000000}), Val: sp(body()), IsJSON: r.Intn(3) > 0}
			if r.Intn(2) == 0 {
				x := []XKV{{Name: "_sync", Val: sp(pick(r, xattrVals))}}
				if r.Intn(2) == 0 {
					x = append(x, XKV{Name: "u1", Val: sp(pick(r, xattrVals))})
				}
				o.XObj = &x
			}
			if r.Intn(10) == 0 {
				o.Val = nil
			}
			o.NewCasCur = r.Intn(6) == 0 // the version the document is at already: the expected CAS must be checked all the same
			return o
		}},
		{2, func() *KOp {
			o := &KOp{Kind: "DeleteWithMeta", CasMode: genCasMode(r), NewCas: pick(r, []uint64{5500, 1<<61 + 500, 1 << 31}) + uint64(r.Intn(100)), Exp: 0}
			if r.Intn(2) == 0 {
				x := []XKV{{Name: "_sync", Val: sp(pick(r, xattrVals))}}
				o.XObj = &x
			}
			o.NewCasCur = r.Intn(6) == 0
			return o
		}},
		{5, func() *KOp { return &KOp{Kind: "SetXattrs", Xs: genXs(r, true)} }},
		{3, func() *KOp { return &KOp{Kind: "RemoveXattrs", Names: genNames(r)[:1], CasMode: genCasMode(r)} }},
		{2, func() *KOp { return &KOp{Kind: "DeleteSubDocPaths", Names: []string{pick(r, kvXnames)}} }},
		{3, func() *KOp { return &KOp{Kind: "DeleteWithXattrs", Names: []string{pick(r, kvXnames)}} }},
		{8, func() *KOp {
			o := &KOp{Kind: "WriteWithXattrs", Exp: genExp(r), CasMode: genCasMode(r), Xs: genXs(r, true), Dels: genDels(r), Preserve: r.Intn(5) == 0, Macros: genMacros(r)}
			if r.Intn(3) > 0 {
				o.Val = sp(pick(r, jsonBodies))
			} else if r.Intn(3) == 0 {
				o.Val = sp("") // a body that is there and empty - not the same as no body given
			}
			return o
		}},
		{5, func() *KOp {
			return &KOp{Kind: "WriteTombstoneWithXattrs", Exp: genExp(r), CasMode: genCasMode(r), Xs: genXs(r, true), Dels: genDels(r), DeleteBody: r.Intn(2) == 0, Macros: genMacros(r)}
		}},
		{4, func() *KOp {
			o := &KOp{Kind: "WriteResurrectionWithXattrs", Exp: genExp(r), Xs: genXs(r, true), Preserve: r.Intn(5) == 0, Macros: genMacros(r), Val: sp(pick(r, jsonBodies))}
			if r.Intn(12) == 0 {
				o.Val = nil
			} else if r.Intn(10) == 0 {
				o.Val = sp("")
			}
			return o
		}},
		{4, func() *KOp {
			return &KOp{Kind: "UpdateXattrs", Exp: genExp(r), CasMode: genCasMode(r), Xs: genXs(r, false), Macros: genMacros(r)}
		}},
		{2, func() *KOp {
			return &KOp{Kind: "UpdateXattrDeleteBody", Name: pick(r, kvXnames), Exp: genExp(r), CasMode: genCasMode(r), Val: sp(pick(r, xattrVals)), Macros: genMacros(r)}
		}},
		{4, func() *KOp {
			cb := &Callback{Kind: "result", Xs: genXs(r, false), Dels: genDels(r), Tomb: r.Intn(3) == 0, Spec: genMacros(r)}
			if r.Intn(8) == 0 {
				cb.Kind = "fail"
			}
			if r.Intn(4) > 0 {
				cb.Val = sp(pick(r, jsonBodies))
			} else if r.Intn(3) == 0 {
				cb.Val = sp("")
			}
			if r.Intn(3) == 0 {
				cb.NewExp = u32p(genExp(r))
			}
			return &KOp{Kind: "WriteUpdateWithXattrs", Cb: cb, Macros: genMacros(r), Preserve: r.Intn(3) == 0}
		}},
		{5, func() *KOp {
			o := &KOp{Kind: "WriteSubDoc", Path: pick(r, subdocPaths), CasMode: pick(r, []string{"zero", "zero", "current", "stale"}), Val: sp(pick(r, subdocVals))}
			if r.Intn(25) == 0 {
				o.Path = pick(r, []string{"", "a[0]"})
			}
			if r.Intn(30) == 0 {
				o.Val = sp("{bad")
			}
			return o
		}},
		{3, func() *KOp {
			return &KOp{Kind: "SubdocInsert", Path: pick(r, subdocPaths), CasMode: pick(r, []string{"zero", "zero", "current", "stale"}), Val: sp(pick(r, subdocVals[:3]))}
		}},
	}
	total := 0
	for _, g := range gens {
		total += g.w
	}
	x := r.Intn(total)
	for _, g := range gens {
		if x < g.w {
			return g.f()
		}
		x -= g.w
	}
	return gens[0].f()
}

func genKv(r *rand.Rand, tier string) kvInput {
	in := kvInput{OnDisk: r.Intn(4) == 0, Handles: 1 + r.Intn(2), MaxDoc: 0}
	if r.Intn(3) == 0 {
		in.MaxDoc = 60
	}
	n := 5 + r.Intn(30)
	clock := uint64(1)<<40 + uint64(r.Intn(1<<20))
	style := r.Intn(5)
	next := func() uint64 {
		switch style {
		case 0:
			// standing still
		case 1:
			if r.Intn(3) == 0 && clock > 1<<30 {
				clock -= uint64(r.Intn(1 << 20))
			} else {
				clock += uint64(r.Intn(1 << 18))
			}
		default:
			clock += uint64(r.Intn(1 << 22))
		}
		return clock
	}
	// which collections exist (model: explicit create steps)
	exists := map[string]bool{"_default._default": true}
	for _, cn := range kvColls[1:] {
		if (cn != "s2.c1" && r.Intn(4) > 0) || (cn == "s2.c1" && r.Intn(3) == 0) {
			in.Ops = append(in.Ops, Step{Kind: "create", Coll: cn, Clock: next()})
			exists[cn] = true
		}
	}
	// concentrate on one or two keys so histories collide
	hot := kvKeys[:1+r.Intn(len(kvKeys))]
	motifAt, motif := -1, -1
	if r.Intn(2) == 0 {
		motifAt, motif = r.Intn(n), r.Intn(numMotifs+3)
		if motif == numMotifs+2 {
			motif = motifSweepWindow // two shares
		} else if motif >= numMotifs {
			motif = motifWindow // the interaction with the most moving parts gets three shares
		}
		if motif == motifDDocSwap {
			in.Handles = 2
		}
		if motif == motifDropNewest {
			in.OnDisk = true
		}
	}
	// one case in four gets a second interaction (none that needs a configuration of its own)
	motif2At, motif2 := -1, -1
	if r.Intn(4) == 0 {
		motif2At, motif2 = r.Intn(n), r.Intn(numMotifs)
		if motif2 == motifDDocSwap || motif2 == motifDropNewest {
			motif2 = motifSubdocShapes
		}
	}
	// one case in three is about views: a design document from the start, a view query every fourth step
	viewy := r.Intn(3) == 0
	idView := false
	viewColl := "_default._default"
	if viewy {
		if exists["s1.c1"] && r.Intn(3) == 0 {
			viewColl = "s1.c1"
		}
		perm := r.Perm(numMaps)
		if r.Intn(2) == 0 {
			// string keys: their order is a matter of Unicode collation, not of bytes
			stringBodies = true
			perm[0] = pick(r, []int{4, 9, 4})
		}
		if r.Intn(2) == 0 {
			perm[1] = pick(r, []int{1, 1, 6}) // emits the document's id: every bound drawn from the ids falls ON a row
			idView = true
		}
		in.Ops = append(in.Ops, Step{Kind: "putddoc", Coll: viewColl, Handle: 0, DDoc: "dd",
			Views: []ViewDef{{Name: "v0", Map: perm[0]}, {Name: "v1", Map: perm[1]}, {Name: "v2", Map: perm[2]}}, Clock: next()})
	}
	defer func() { stringBodies = false }()
	if stringBodies {
		sp3 := r.Perm(len(sBodies))
		for j, key := range kvKeys {
			in.Ops = append(in.Ops, Step{Kind: "kv", Coll: viewColl, Key: key, Handle: 0, Op: &KOp{Kind: "Set", Val: sp(sBodies[sp3[j]])}, Clock: next()})
		}
	}
	for i := 0; i < n; i++ {
		if viewy && r.Intn(4) == 0 {
			vn := r.Intn(3)
			if stringBodies && r.Intn(2) == 0 {
				vn = 0
			}
			in.Ops = append(in.Ops, Step{Kind: "view", Coll: viewColl, Handle: r.Intn(in.Handles), DDoc: "dd", View: fmt.Sprintf("v%d", vn), VP: genViewParams(r), Clock: next()})
			continue
		}
		if i == motifAt {
			genMotif(r, motif, &in, exists, hot, next, func() uint64 { return clock })
		}
		if i == motif2At {
			genMotif(r, motif2, &in, exists, hot, next, func() uint64 { return clock })
		}
		var live []string
		for _, cn := range kvColls {
			if exists[cn] {
				live = append(live, cn)
			}
		}
		switch x := r.Intn(60); {
		case x == 0 || x == 10:
			in.Ops = append(in.Ops, Step{Kind: "purge", Handle: r.Intn(in.Handles), Fresh: r.Intn(2) == 0, Clock: next()})
		case x == 1 && exists["s1.c2"]:
			in.Ops = append(in.Ops, Step{Kind: "drop", Coll: "s1.c2", Handle: r.Intn(in.Handles), Fresh: r.Intn(3) == 0, Clock: next()})
			exists["s1.c2"] = false
		case x == 2 && !exists["s1.c2"]:
			in.Ops = append(in.Ops, Step{Kind: "create", Coll: "s1.c2", Handle: r.Intn(in.Handles), Clock: next()})
			exists["s1.c2"] = true
		case x == 23:
			// creating what exists already - the default collection too - is refused and changes nothing; the handle
			// goes on addressing the collections it addressed before
			if !exists["s1.c2"] && r.Intn(2) == 0 {
				in.Ops = append(in.Ops, Step{Kind: "create", Coll: "s1.c2", Handle: r.Intn(in.Handles), Clock: next()})
				exists["s1.c2"] = true
			}
			hh := r.Intn(in.Handles)
			in.Ops = append(in.Ops, Step{Kind: "create", Coll: pick(r, []string{"_default._default", "_default._default", pick(r, live)}), Handle: hh, Clock: next()})
			in.Ops = append(in.Ops, Step{Kind: "kv", Coll: "_default._default", Key: pick(r, hot), Handle: hh, Op: genKOp(r), Clock: next()})
		case x == 3 || x == 8:
			in.Ops = append(in.Ops, Step{Kind: "expire", Clock: next()})
		case x >= 11 && x <= 14:
			st := Step{Kind: "query", Coll: pick(r, live), Handle: r.Intn(in.Handles), Q: pick(r, []string{"QIds", "QBodies", "QCount", "QIdEq", "QBodyA1", "QXattrRev", "QSync", "QLast2", "QSyncFirst", "QBodyAEq", "QCross", "QUser", "QUser", "QLit"}), Clock: next()}
			switch st.Q {
			case "QIdEq":
				st.Arg = pick(r, kvKeys)
			case "QXattrRev":
				st.Arg = pick(r, []string{"1-a", "2-b"})
			case "QBodyAEq":
				st.Arg = pick(r, []string{"0", "1", "2", "10"})
			}
			in.Ops = append(in.Ops, st)
		case x >= 15 && x <= 16:
			cn := pick(r, live)
			h := r.Intn(in.Handles)
			ddn := pick(r, []string{"dd", "dd", "dd", "dd2"})
			if r.Intn(4) == 0 {
				// what the collection's design documents are (another collection's are none of its business)
				in.Ops = append(in.Ops, Step{Kind: "getddocs", Coll: cn, Handle: h, Clock: next()})
			} else if r.Intn(5) == 0 {
				in.Ops = append(in.Ops, Step{Kind: "delddoc", Coll: cn, Handle: h, DDoc: ddn, Clock: next()})
			} else {
				perm := r.Perm(numMaps)
				nv := 1 + r.Intn(3)
				var vs []ViewDef
				for j := 0; j < nv; j++ {
					vs = append(vs, ViewDef{Name: fmt.Sprintf("v%d", j), Map: perm[j]})
				}
				in.Ops = append(in.Ops, Step{Kind: "putddoc", Coll: cn, Handle: h, DDoc: ddn, Views: vs, Clock: next()})
				if r.Intn(3) == 0 {
					in.Ops = append(in.Ops, Step{Kind: "getddocs", Coll: pick(r, live), Handle: r.Intn(in.Handles), Clock: next()})
				}
			}
		case x >= 17 && x <= 22:
			cn := pick(r, live)
			h := r.Intn(in.Handles)
			vp := genViewParams(r)
			in.Ops = append(in.Ops, Step{Kind: "view", Coll: cn, Handle: h, DDoc: pick(r, []string{"dd", "dd", "dd", "dd", "dd2"}), View: fmt.Sprintf("v%d", r.Intn(3)), VP: vp, Clock: next()})
		case x == 9 && in.OnDisk:
			in.Ops = append(in.Ops, Step{Kind: "reopen", CreateOrOpen: r.Intn(2) == 0, Clock: next()})
		case x >= 4 && x <= 7:
			st := Step{Kind: "dump", Coll: pick(r, live), Key: pick(r, hot), Start: pick(r, []string{"zero", "current", "current", "stale", "bogus"}), Clock: next()}
			if r.Intn(3) == 0 {
				st.Plus = 1
			}
			st.KeysOnly = r.Intn(4) == 0
			st.ViaBucket = r.Intn(3) == 0
			in.Ops = append(in.Ops, st)
		default:
			cn := pick(r, live)
			key := pick(r, hot)
			if viewy && r.Intn(3) > 0 {
				// a case about views writes mostly to the collection of its design document, to all of the keys
				cn, key = viewColl, pick(r, kvKeys)
			}
			h := r.Intn(in.Handles)
			st := Step{Kind: "kv", Coll: cn, Key: key, Handle: h, Op: genKOp(r), Clock: next()}
			if windowed(st.Op.Kind) && r.Intn(3) == 0 {
				// another call on the same key inside this call's read-to-write window
				if st.Op.Kind == "WriteUpdateWithXattrs" {
					// its callback's result is validated against the version it was shown and refused without a
					// retry, so only calls that leave the CAS alone keep the pair sequential
					st.Nested = &KOp{Kind: pick(r, []string{"Touch", "GetAndTouchRaw"}), Exp: genExp(r)}
				}
				for j := 0; j < 8 && st.Nested == nil; j++ {
					if n := genKOp(r); n.Cb == nil {
						st.Nested = n
					}
				}
			}
			in.Ops = append(in.Ops, st)
			if (st.Op.Kind == "SetWithMeta" || st.Op.Kind == "DeleteWithMeta") && st.Nested == nil && r.Intn(3) == 0 {
				// a feed from the version just written: its CAS is the caller's, not the clock's
				in.Ops = append(in.Ops, Step{Kind: "dump", Coll: cn, Key: key, Start: pick(r, []string{"current", "current", "stale"}), KeysOnly: r.Intn(4) == 0, Clock: next()})
			}
		}
	}
	if idView {
		// ranges whose ends are keys of the index, in both directions, with the end taken in or left out
		ids := []string{`"k1"`, `"k2"`, `"k3"`}
		for j := 0; j < 3; j++ {
			vp := &ViewParams{Descending: r.Intn(2) == 0, NoReduce: r.Intn(2) == 0, ExclusiveEnd: r.Intn(2) == 0}
			if r.Intn(4) > 0 {
				vp.EndKey = sp(pick(r, ids))
			}
			if r.Intn(2) == 0 {
				vp.StartKey = sp(pick(r, ids))
			}
			in.Ops = append(in.Ops, Step{Kind: "view", Coll: viewColl, Handle: r.Intn(in.Handles), DDoc: "dd", View: "v1", VP: vp, Clock: next()})
		}
	}
	return in
}

// ---------------------------------------------------------------------------------------------
// Motifs: short scripted interactions between entry points, spliced into a random history at a random
// place (two cases in five).  Each is a family of sequences, not one sequence: the calls, values and CAS
// modes inside are drawn at random.  They raise the frequency of interactions which the uniform generator
// reaches rarely: a value that is present but empty, a tombstone that is written to and re-inserted,
// a design document replaced through another handle, the newest CAS living in a collection that is
// dropped, an expiry that is moved, WithMeta writes under a view, purge between index updates.
const (
	motifEmptyBody = iota
	motifTombstoneCycle
	motifDDocSwap
	motifDropNewest
	motifExpiryMove
	motifWithMetaView
	motifPurgeIndex
	motifWindow
	motifPreserve
	motifManyRevs
	motifSubdocShapes
	motifXattrView
	motifShortXattrs
	motifSweepWindow
	motifDropBesideViews
	motifFutureCas
	numMotifs
)

func genMotif(r *rand.Rand, m int, in *kvInput, exists map[string]bool, hot []string, next func() uint64, same func() uint64) {
	var live []string
	for _, cn := range kvColls {
		if exists[cn] {
			live = append(live, cn)
		}
	}
	cn := pick(r, live)
	h := r.Intn(in.Handles)
	key := pick(r, hot)
	kv := func(op *KOp) { in.Ops = append(in.Ops, Step{Kind: "kv", Coll: cn, Key: key, Handle: h, Op: op, Clock: next()}) }
	view := func(hh int, name string, vp *ViewParams) {
		if !vp.Stale && r.Intn(3) == 0 {
			vp = genViewParams(r)
			vp.Stale = false
		}
		in.Ops = append(in.Ops, Step{Kind: "view", Coll: cn, Handle: hh, DDoc: "dd", View: name, VP: vp, Clock: next()})
	}
	xattrWrite := func() *KOp {
		switch r.Intn(5) {
		case 4:
			return &KOp{Kind: "DeleteSubDocPaths", Names: []string{pick(r, kvXnames)}}
		case 0:
			return &KOp{Kind: "SetXattrs", Xs: genXs(r, false)}
		case 1:
			return &KOp{Kind: "UpdateXattrs", CasMode: "current", Xs: genXs(r, false), Macros: genMacros(r)}
		case 2:
			return &KOp{Kind: "WriteUpdateWithXattrs", Cb: &Callback{Kind: "result", Xs: genXs(r, false)}}
		default:
			return &KOp{Kind: "RemoveXattrs", Names: []string{pick(r, kvXnames)}, CasMode: "current"}
		}
	}
	bodyWrite := func() *KOp {
		switch r.Intn(6) {
		case 0:
			return &KOp{Kind: "WriteCas", CasMode: "current", Val: sp(pick(r, jsonBodies))}
		case 1:
			return &KOp{Kind: "WriteCas", CasMode: "current", Append: true, Val: sp("x")}
		case 2:
			return &KOp{Kind: "Update", Cb: &Callback{Kind: "set", Val: sp(pick(r, jsonBodies))}}
		case 3:
			return &KOp{Kind: "WriteSubDoc", Path: pick(r, subdocPaths), CasMode: pick(r, []string{"zero", "current"}), Val: sp(pick(r, subdocVals[:3]))}
		case 4:
			return &KOp{Kind: "Set", Preserve: r.Intn(2) == 0, Val: sp(pick(r, jsonBodies))}
		default:
			return &KOp{Kind: "Incr", Amt: 1, Deflt: 5}
		}
	}
	deleter := func() *KOp {
		switch r.Intn(7) {
		case 0:
			return &KOp{Kind: "Delete"}
		case 1:
			return &KOp{Kind: "Remove", CasMode: "current"}
		case 2:
			return &KOp{Kind: "DeleteWithXattrs", Names: []string{pick(r, kvXnames)}}
		case 3:
			return &KOp{Kind: "WriteTombstoneWithXattrs", CasMode: "current", Xs: genXs(r, false), DeleteBody: true}
		case 4:
			return &KOp{Kind: "Update", Cb: &Callback{Kind: "delete"}}
		case 5:
			return &KOp{Kind: "WriteCas", CasMode: "current"}
		default:
			return &KOp{Kind: "UpdateXattrDeleteBody", Name: pick(r, kvXnames), CasMode: "current", Val: sp(pick(r, xattrVals))}
		}
	}
	inserter := func() *KOp {
		switch r.Intn(8) {
		case 5:
			return &KOp{Kind: "Set", Exp: genExp(r), Preserve: r.Intn(3) == 0, Val: sp(pick(r, jsonBodies))}
		case 6:
			return &KOp{Kind: "SetRaw", Val: sp(pick(r, rawBodies))}
		case 7:
			return &KOp{Kind: "Incr", Amt: uint64(r.Intn(3)), Deflt: 7}
		case 0:
			return &KOp{Kind: "Add", Exp: genExp(r), Val: sp(pick(r, jsonBodies))}
		case 1:
			return &KOp{Kind: "AddRaw", Val: sp(pick(r, rawBodies))}
		case 2:
			o := &KOp{Kind: "WriteCas", CasMode: "zero", AddOnly: true, Val: sp(pick(r, jsonBodies))}
			if r.Intn(4) == 0 {
				o.Append, o.AddOnly, o.Val = true, r.Intn(2) == 0, sp("x")
			}
			return o
		case 3:
			return &KOp{Kind: "WriteResurrectionWithXattrs", Xs: genXs(r, false), Val: sp(pick(r, jsonBodies))}
		default:
			return &KOp{Kind: "WriteWithXattrs", CasMode: "zero", Xs: genXs(r, false), Val: sp(pick(r, jsonBodies))}
		}
	}
	read := func() *KOp {
		return &KOp{Kind: pick(r, []string{"GetWithXattrs", "GetXattrs"}), Names: append([]string{}, kvXnames...)}
	}
	switch m {
	case motifEmptyBody:
		switch r.Intn(3) {
		case 0:
			kv(&KOp{Kind: "Delete"})
			kv(&KOp{Kind: "AddRaw", Val: sp("")})
		case 1:
			kv(&KOp{Kind: "SetRaw", Val: sp("")})
		default:
			kv(&KOp{Kind: "WriteCas", CasMode: "current", Raw: true, Val: sp("")})
		}
		for j := 0; j < 1+r.Intn(2); j++ {
			kv(xattrWrite())
		}
		kv(bodyWrite())
		kv(read())
		// a document with an empty body is a document: every insert-style write must be refused
		kv(&KOp{Kind: pick(r, []string{"SetRaw", "AddRaw"}), Val: sp("")})
		for j := 0; j < 1+r.Intn(3); j++ {
			kv(inserter())
		}
	case motifTombstoneCycle:
		kv(inserter())
		if r.Intn(2) == 0 {
			kv(xattrWrite())
		}
		kv(deleter())
		if r.Intn(2) == 0 {
			kv(xattrWrite())
		}
		kv(inserter())
		if r.Intn(2) == 0 {
			// purge after the re-creation: only what is still a tombstone may go
			in.Ops = append(in.Ops, Step{Kind: "purge", Handle: h, Fresh: r.Intn(2) == 0, Clock: next()})
		}
		kv(inserter())
		kv(read())
		if r.Intn(2) == 0 {
			// deleted, written again by a call that asks no questions, then a call that insists there be nothing
			kv(deleter())
			switch r.Intn(3) {
			case 0:
				kv(&KOp{Kind: "Set", Val: sp(pick(r, jsonBodies))})
			case 1:
				kv(&KOp{Kind: "SetRaw", Val: sp(pick(r, rawBodies))})
			default:
				kv(&KOp{Kind: "Incr", Amt: 1, Deflt: 7})
			}
			ins := &KOp{Kind: "WriteCas", CasMode: "zero", Val: sp(pick(r, jsonBodies)), AddOnly: r.Intn(2) == 0}
			if r.Intn(3) == 0 {
				// ... with the append option on top: still a call that names no version of a document that is there
				ins.Append, ins.Val, ins.Raw = true, sp(pick(r, []string{"x", "3"})), r.Intn(2) == 0
			}
			kv(ins)
			kv(read())
		}
		if r.Intn(2) == 0 {
			kv(deleter())
			kv(bodyWrite())
			if r.Intn(2) == 0 {
				in.Ops = append(in.Ops, Step{Kind: "purge", Handle: h, Clock: next()})
				kv(inserter())
			}
		}
	case motifDDocSwap:
		a, b := 0, 1
		if r.Intn(2) == 0 {
			a, b = 1, 0
		}
		if cn == "s1.c2" {
			cn = "_default._default"
		}
		perm := r.Perm(numMaps)
		put := func(hh int, m0 int) {
			in.Ops = append(in.Ops, Step{Kind: "putddoc", Coll: cn, Handle: hh, DDoc: "dd", Views: []ViewDef{{Name: "v0", Map: m0}, {Name: "v1", Map: perm[2]}}, Clock: next()})
		}
		h = b
		put(b, perm[0])
		kv(&KOp{Kind: "Set", Val: sp(pick(r, jsonBodies))})
		kv(&KOp{Kind: "SetXattrs", Xs: []XKV{{Name: "_sync", Val: sp(pick(r, xattrVals))}}})
		view(a, "v0", &ViewParams{})
		if r.Intn(3) == 0 {
			in.Ops = append(in.Ops, Step{Kind: "delddoc", Coll: cn, Handle: b, DDoc: "dd", Clock: next()})
		} else {
			put(b, perm[1])
		}
		if r.Intn(2) == 0 {
			key = pick(r, kvKeys)
			kv(&KOp{Kind: "Set", Val: sp(pick(r, jsonBodies))})
		}
		view(a, "v0", &ViewParams{})
		view(b, "v0", &ViewParams{})
	case motifDropNewest:
		if !exists["s1.c2"] {
			in.Ops = append(in.Ops, Step{Kind: "create", Coll: "s1.c2", Clock: next()})
			exists["s1.c2"] = true
		}
		cn, h = "s1.c2", 0
		kv(&KOp{Kind: "Set", Val: sp(pick(r, jsonBodies))})
		in.Ops = append(in.Ops, Step{Kind: "drop", Coll: "s1.c2", Handle: r.Intn(in.Handles), Clock: same()})
		exists["s1.c2"] = false
		in.Ops = append(in.Ops, Step{Kind: "reopen", CreateOrOpen: r.Intn(2) == 0, Clock: same()})
		cn = "_default._default"
		in.Ops = append(in.Ops, Step{Kind: "kv", Coll: cn, Key: key, Handle: 0, Op: &KOp{Kind: "Set", Val: sp(pick(r, jsonBodies))}, Clock: same()})
		if r.Intn(2) == 0 {
			in.Ops = append(in.Ops, Step{Kind: "create", Coll: "s1.c2", Clock: same()})
			exists["s1.c2"] = true
			in.Ops = append(in.Ops, Step{Kind: "kv", Coll: "s1.c2", Key: key, Handle: 0, Op: &KOp{Kind: "Add", Val: sp(pick(r, jsonBodies))}, Clock: same()})
		}
	case motifExpiryMove:
		kv(&KOp{Kind: pick(r, []string{"Set", "Add"}), Exp: pick(r, farExps), Val: sp(pick(r, jsonBodies))})
		switch r.Intn(4) {
		case 0:
			kv(&KOp{Kind: "Touch", Exp: pick(r, pastExps)})
		case 1:
			kv(&KOp{Kind: "GetAndTouchRaw", Exp: pick(r, pastExps)})
		case 2:
			kv(&KOp{Kind: "Update", Cb: &Callback{Kind: "exponly", NewExp: u32p(pick(r, pastExps))}})
		default:
			kv(&KOp{Kind: "Set", Preserve: true, Val: sp(pick(r, jsonBodies))})
			kv(&KOp{Kind: "Touch", Exp: 0})
		}
		if r.Intn(2) == 0 {
			kv(xattrWrite())
		}
		in.Ops = append(in.Ops, Step{Kind: "expire", Clock: next()})
		kv(read())
		kv(inserter())
	case motifShortXattrs:
		// a document whose whole xattrs column is a very short JSON object (eight bytes: {"u1":5}), queried by that xattr
		kv(deleter())
		in.Ops = append(in.Ops, Step{Kind: "purge", Handle: h, Clock: next()})
		one := pick(r, []string{"5", "7", "5", "0"})
		kv(&KOp{Kind: "WriteWithXattrs", CasMode: "zero", Val: sp(pick(r, jsonBodies)), Xs: []XKV{{Name: "u1", Val: &one}}})
		in.Ops = append(in.Ops, Step{Kind: "query", Coll: cn, Handle: h, Q: "QUser", Clock: next()})
		if r.Intn(2) == 0 {
			kv(bodyWrite())
			in.Ops = append(in.Ops, Step{Kind: "query", Coll: cn, Handle: r.Intn(in.Handles), Q: pick(r, []string{"QUser", "QSync", "QBodies"}), Clock: next()})
		}
		two := pick(r, xattrVals)
		kv(&KOp{Kind: "SetXattrs", Xs: []XKV{{Name: pick(r, []string{"u1", "_sync"}), Val: &two}}})
		in.Ops = append(in.Ops, Step{Kind: "query", Coll: cn, Handle: h, Q: "QUser", Clock: next()})
	case motifXattrView:
		// a view over meta.xattrs, and documents whose xattrs have different names, written between two queries:
		// each document is mapped with ITS xattrs
		if cn == "s1.c2" {
			cn = "_default._default"
		}
		in.Ops = append(in.Ops, Step{Kind: "putddoc", Coll: cn, Handle: h, DDoc: "dd", Views: []ViewDef{{Name: "v0", Map: pick(r, []int{2, 7})}, {Name: "v1", Map: 1}}, Clock: next()})
		names := []string{"_sync", "u1", "_vv", "u2"}
		perm := r.Perm(len(kvKeys))
		for round := 0; round < 2; round++ {
			for j, ki := range perm {
				xv := pick(r, xattrVals)
				xn := names[(j+round+r.Intn(2))%len(names)]
				if j == 0 && round == 0 {
					xn = "_sync"
				}
				st := Step{Kind: "kv", Coll: cn, Key: kvKeys[ki], Handle: h, Op: &KOp{Kind: "WriteWithXattrs", CasMode: pick(r, []string{"current", "current", "zero"}), Val: sp(pick(r, jsonBodies)), Xs: []XKV{{Name: xn, Val: &xv}}}, Clock: next()}
				if r.Intn(4) == 0 {
					st.Op = &KOp{Kind: "SetXattrs", Xs: []XKV{{Name: xn, Val: &xv}}}
				}
				in.Ops = append(in.Ops, st)
			}
			view(h, "v0", &ViewParams{})
			if r.Intn(2) == 0 {
				kv(&KOp{Kind: "RemoveXattrs", Names: []string{"_sync"}, CasMode: "current"})
			}
		}
		view(h, "v1", &ViewParams{})
	case motifWithMetaView:
		if cn == "s1.c2" {
			cn = "_default._default"
		}
		in.Ops = append(in.Ops, Step{Kind: "putddoc", Coll: cn, Handle: h, DDoc: "dd", Views: []ViewDef{{Name: "v0", Map: r.Intn(numMaps)}, {Name: "v1", Map: 1}}, Clock: next()})
		kv(&KOp{Kind: "Set", Val: sp(pick(r, jsonBodies))})
		view(h, "v0", &ViewParams{})
		x := []XKV{{Name: "_sync", Val: sp(pick(r, xattrVals))}}
		kv(&KOp{Kind: "SetWithMeta", CasMode: pick(r, []string{"current", "zero"}), NewCas: pick(r, []uint64{5000, 1 << 30, 1<<61 + 9, 1<<61 + 9}) + uint64(r.Intn(50)), Val: sp(pick(r, jsonBodies)), IsJSON: true, XObj: &x})
		// a feed from exactly that version on: the CAS a WithMeta write stores is the caller's, whatever the clock says
		in.Ops = append(in.Ops, Step{Kind: "dump", Coll: cn, Key: key, Start: pick(r, []string{"current", "current", "stale"}), KeysOnly: r.Intn(4) == 0, ViaBucket: r.Intn(3) == 0, Clock: next()})
		view(h, pick(r, []string{"v0", "v1"}), &ViewParams{})
		// a WithMeta write of ANOTHER key (possibly a new document) with a CAS far below what is indexed
		key2 := pick(r, kvKeys)
		in.Ops = append(in.Ops, Step{Kind: "kv", Coll: cn, Key: key2, Handle: h, Op: &KOp{Kind: "SetWithMeta", CasMode: pick(r, []string{"zero", "current"}),
			NewCas: pick(r, []uint64{12345, 1 << 20, 1 << 41}) + uint64(r.Intn(50)), Val: sp(pick(r, jsonBodies)), IsJSON: true}, Clock: next()})
		view(h, pick(r, []string{"v0", "v1"}), &ViewParams{})
		if r.Intn(2) == 0 {
			kv(&KOp{Kind: "DeleteWithMeta", CasMode: "current", NewCas: 5600 + uint64(r.Intn(50))})
		} else {
			kv(bodyWrite())
		}
		in.Ops = append(in.Ops, Step{Kind: "dump", Coll: cn, Key: key, Start: "zero", Clock: next()})
		view(h, "v0", &ViewParams{})
		view(h, "v1", &ViewParams{})
	case motifWindow:
		// calls landing inside the read-to-write window of compare-and-swap loops
		kvn := func(op, nested *KOp) {
			in.Ops = append(in.Ops, Step{Kind: "kv", Coll: cn, Key: key, Handle: h, Op: op, Nested: nested, Clock: next()})
		}
		toucher := func() *KOp { return &KOp{Kind: pick(r, []string{"Touch", "GetAndTouchRaw"}), Exp: pick(r, farExps)} }
		if r.Intn(3) == 0 {
			// the key has no row at all (not even a tombstone) when the loop reads it, and is created inside the window
			kv(deleter())
			in.Ops = append(in.Ops, Step{Kind: "purge", Handle: h, Clock: next()})
			creator := &KOp{Kind: pick(r, []string{"Add", "Set", "WriteCas"}), CasMode: "zero", Val: sp(pick(r, []string{`{"other":"kept"}`, `{"a":1,"b":{"c":2}}`}))}
			if r.Intn(2) == 0 {
				kvn(&KOp{Kind: "WriteSubDoc", Path: pick(r, subdocPaths), CasMode: "zero", Val: sp(pick(r, subdocVals[:3]))}, creator)
			} else {
				kvn(&KOp{Kind: "Update", Exp: genExp(r), Cb: &Callback{Kind: pick(r, []string{"set", "append"}), Val: sp(pick(r, jsonBodies))}}, creator)
			}
			kv(read())
		}
		kv(&KOp{Kind: "Set", Val: sp(pick(r, []string{`{"a":1,"b":{"c":2}}`, `{"a":1,"b":2,"q":3}`, `{"n":null,"s":"x","b":{"c":{"d":5}}}`}))})
		for j := 0; j < 2+r.Intn(2); j++ {
			var nested *KOp
			switch r.Intn(6) {
			case 0:
				nested = toucher()
			case 1:
				nested = &KOp{Kind: "WriteSubDoc", Path: pick(r, subdocPaths), CasMode: "zero", Val: sp(pick(r, []string{``, `null`, `1`}))}
			case 2:
				nested = &KOp{Kind: "Set", Val: sp(pick(r, jsonBodies))}
			case 3:
				nested = deleter()
			case 4:
				nested = xattrWrite()
				if nested.Cb != nil {
					nested = toucher()
				}
			default:
				nested = &KOp{Kind: "WriteCas", CasMode: "current", Val: sp(pick(r, jsonBodies))}
			}
			switch r.Intn(6) {
			case 0:
				kvn(&KOp{Kind: "Update", Exp: genExp(r), Cb: &Callback{Kind: pick(r, []string{"set", "append", "delete"}), Val: sp(pick(r, jsonBodies))}}, nested)
			case 1, 5:
				wn := toucher()
				switch r.Intn(3) {
				case 0:
					wn = &KOp{Kind: "SetXattrs", Xs: genXs(r, false)}
				case 1:
					xn := pick(r, kvXnames)
					if r.Intn(3) > 0 {
						x := pick(r, xattrVals)
						kv(&KOp{Kind: "SetXattrs", Xs: []XKV{{Name: xn, Val: &x}}}) // so that there is something to remove
					}
					wn = &KOp{Kind: "DeleteSubDocPaths", Names: []string{xn}}
				}
				kvn(&KOp{Kind: "WriteUpdateWithXattrs", Cb: &Callback{Kind: "result", Val: sp(pick(r, jsonBodies)), Xs: genXs(r, false)}}, wn)
			case 2, 4:
				kvn(&KOp{Kind: "WriteSubDoc", Path: pick(r, subdocPaths), CasMode: pick(r, []string{"zero", "zero", "zero", "current"}), Val: sp(pick(r, subdocVals[:3]))}, nested)
			default:
				kvn(&KOp{Kind: "SubdocInsert", Path: pick(r, subdocPaths), CasMode: "zero", Val: sp(pick(r, subdocVals[:3]))}, nested)
			}
		}
		kv(read())
	case motifFutureCas:
		// a document whose version number (given by the caller of a WithMeta write) is ahead of the clock: the writes
		// that follow get their timestamps from the clock all the same, each replaces the version it names and only that
		future := uint64(1)<<61 + uint64(r.Intn(1<<20))
		if r.Intn(3) == 0 {
			kv(inserter())
		}
		if r.Intn(4) == 0 {
			kv(&KOp{Kind: "DeleteWithMeta", CasMode: pick(r, []string{"current", "zero"}), NewCas: future})
		} else {
			x := []XKV{{Name: "_sync", Val: sp(pick(r, xattrVals))}}
			if r.Intn(2) == 0 {
				x = append(x, XKV{Name: "u1", Val: sp(pick(r, xattrVals))})
			}
			kv(&KOp{Kind: "SetWithMeta", CasMode: pick(r, []string{"current", "zero"}), NewCas: future, Val: sp(pick(r, jsonBodies)), IsJSON: true, XObj: &x})
		}
		for j, m := 0, 2+r.Intn(3); j < m; j++ {
			switch r.Intn(5) {
			case 0:
				kv(bodyWrite())
			case 1:
				kv(&KOp{Kind: pick(r, []string{"Touch", "GetAndTouchRaw"}), Exp: genExp(r)})
			case 2:
				kv(deleter())
			default:
				kv(xattrWrite())
			}
			if r.Intn(2) == 0 {
				// the version just replaced is named again: refused
				o := xattrWrite()
				if o.CasMode != "" {
					o.CasMode = "stale"
				}
				kv(o)
			}
		}
		kv(read())
	case motifDropBesideViews:
		// A collection that has design documents of its own is dropped beside a collection whose views are built:
		// what those views answer must not change (rows of the tables behind design documents, views and the index
		// are numbered independently - a drop that confuses the numberings takes rows of a neighbour along).
		if cn == "s1.c2" {
			cn = "_default._default"
		}
		if !exists["s1.c2"] {
			in.Ops = append(in.Ops, Step{Kind: "create", Coll: "s1.c2", Handle: r.Intn(in.Handles), Clock: next()})
			exists["s1.c2"] = true
		}
		perm := r.Perm(numMaps)
		put := func(c, dd string, n int) {
			var vs []ViewDef
			for j := 0; j < n; j++ {
				vs = append(vs, ViewDef{Name: fmt.Sprintf("v%d", j), Map: pick(r, []int{1, 1, 0, perm[j]})})
			}
			in.Ops = append(in.Ops, Step{Kind: "putddoc", Coll: c, Handle: r.Intn(in.Handles), DDoc: dd, Views: vs, Clock: next()})
		}
		put(cn, "dd", 2+r.Intn(2))
		if r.Intn(3) == 0 {
			put(cn, "dd2", 1+r.Intn(2))
		}
		for _, k2 := range kvKeys {
			in.Ops = append(in.Ops, Step{Kind: "kv", Coll: cn, Key: k2, Handle: h, Op: &KOp{Kind: "Set", Val: sp(pick(r, jsonBodies[:4]))}, Clock: next()})
		}
		put("s1.c2", "dd", 1+r.Intn(2))
		if r.Intn(2) == 0 {
			put("s1.c2", "dd2", 1+r.Intn(2))
		}
		in.Ops = append(in.Ops, Step{Kind: "kv", Coll: "s1.c2", Key: key, Handle: h, Op: &KOp{Kind: "Set", Val: sp(pick(r, jsonBodies[:4]))}, Clock: next()})
		noReduce := []bool{r.Intn(2) == 0, r.Intn(2) == 0, r.Intn(2) == 0}
		for j := 0; j < 3; j++ {
			in.Ops = append(in.Ops, Step{Kind: "view", Coll: cn, Handle: r.Intn(in.Handles), DDoc: "dd", View: fmt.Sprintf("v%d", j), VP: &ViewParams{NoReduce: noReduce[j]}, Clock: next()})
		}
		if r.Intn(2) == 0 {
			in.Ops = append(in.Ops, Step{Kind: "view", Coll: "s1.c2", Handle: r.Intn(in.Handles), DDoc: "dd", View: "v0", VP: &ViewParams{}, Clock: next()})
		}
		in.Ops = append(in.Ops, Step{Kind: "drop", Coll: "s1.c2", Handle: r.Intn(in.Handles), Fresh: r.Intn(3) == 0, Clock: next()})
		exists["s1.c2"] = false
		for j := 0; j < 3; j++ {
			in.Ops = append(in.Ops, Step{Kind: "view", Coll: cn, Handle: r.Intn(in.Handles), DDoc: "dd", View: fmt.Sprintf("v%d", j), VP: &ViewParams{Stale: r.Intn(2) == 0, NoReduce: noReduce[j]}, Clock: next()})
		}
		in.Ops = append(in.Ops, Step{Kind: "getddocs", Coll: cn, Handle: r.Intn(in.Handles), Clock: next()})
	case motifSweepWindow:
		// The expiry timer fires; between the sweep's query of one collection and its removals the documents it read
		// are written again - with no expiry, a later one, another one that has passed too, deleted, touched - and
		// other documents come due.  The sweep may remove only what is still due when it removes it.
		due := func() uint32 { return pick(r, pastExps) }
		anyExp := func() uint32 { return pick(r, []uint32{0, 0, pick(r, farExps), pick(r, farExps), pick(r, pastExps)}) }
		seed := func(c, k string) {
			in.Ops = append(in.Ops, Step{Kind: "kv", Coll: c, Key: k, Handle: r.Intn(in.Handles),
				Op: &KOp{Kind: pick(r, []string{"Set", "SetRaw", "Add", "Set"}), Exp: pick(r, []uint32{due(), due(), due(), pick(r, farExps), 0}), Val: sp(pick(r, jsonBodies))}, Clock: next()})
		}
		for _, k2 := range kvKeys {
			if r.Intn(4) > 0 {
				seed(cn, k2)
			}
		}
		other := pick(r, live)
		if other != cn && r.Intn(2) == 0 {
			seed(other, pick(r, kvKeys))
		}
		if r.Intn(3) == 0 {
			kv(xattrWrite())
		}
		if r.Intn(2) == 0 {
			// due, but still there until the sweep takes it: a call that insists on there being nothing is refused
			in.Ops = append(in.Ops, Step{Kind: "kv", Coll: cn, Key: pick(r, kvKeys), Handle: r.Intn(in.Handles), Op: inserter(), Clock: next()})
			in.Ops = append(in.Ops, Step{Kind: "kv", Coll: cn, Key: pick(r, kvKeys), Handle: r.Intn(in.Handles), Op: pick(r, []*KOp{{Kind: "GetRaw"}, {Kind: "GetAndTouchRaw", Exp: due()}, {Kind: "Incr", Amt: 1, Deflt: 3, Exp: due()}, {Kind: "Update", Cb: &Callback{Kind: "set", Val: sp(pick(r, jsonBodies))}, Exp: due()}}), Clock: next()})
		}
		var win []Step
		for j, m := 0, 1+r.Intn(3); j < m; j++ {
			wc, wk := cn, pick(r, kvKeys)
			if r.Intn(5) == 0 {
				wc = other
			}
			var op *KOp
			switch r.Intn(12) {
			case 0, 1:
				op = &KOp{Kind: pick(r, []string{"Set", "SetRaw"}), Exp: anyExp(), Val: sp(pick(r, jsonBodies))}
			case 2:
				op = &KOp{Kind: pick(r, []string{"Touch", "GetAndTouchRaw"}), Exp: anyExp()}
			case 3:
				op = inserter()
			case 4:
				op = &KOp{Kind: "Delete"}
			case 5:
				op = &KOp{Kind: "Set", Preserve: true, Val: sp(pick(r, jsonBodies))}
			case 6:
				op = &KOp{Kind: "SetXattrs", Xs: genXs(r, false)}
			case 7:
				op = &KOp{Kind: "Update", Exp: anyExp(), Cb: &Callback{Kind: pick(r, []string{"set", "delete", "exponly"}), Val: sp(pick(r, jsonBodies)), NewExp: u32p(anyExp())}}
			case 8:
				op = &KOp{Kind: "WriteCas", CasMode: pick(r, []string{"current", "zero", "stale"}), Exp: anyExp(), Val: sp(pick(r, jsonBodies))}
			case 9:
				op = &KOp{Kind: "Incr", Amt: 1, Deflt: 5, Exp: anyExp()}
			case 10:
				op = &KOp{Kind: "WriteWithXattrs", CasMode: pick(r, []string{"current", "zero"}), Exp: anyExp(), Val: sp(pick(r, jsonBodies)), Xs: genXs(r, false), Preserve: r.Intn(3) == 0}
			default:
				op = read()
			}
			win = append(win, Step{Kind: "kv", Coll: wc, Key: wk, Handle: r.Intn(in.Handles), Op: op, Clock: next()})
		}
		in.Ops = append(in.Ops, Step{Kind: "expire", WinColl: cn, Win: win, Clock: next()})
		kv(read())
		if r.Intn(2) == 0 {
			// what came due inside the window is taken by the next firing
			in.Ops = append(in.Ops, Step{Kind: "expire", Clock: next()})
		}
		kv(inserter())
	case motifPreserve:
		// an expiry that writes with PreserveExpiry must keep, through every entry point that takes the option
		kv(&KOp{Kind: pick(r, []string{"Set", "Add"}), Exp: pick(r, farExps), Val: sp(pick(r, jsonBodies))})
		for j := 0; j < 2+r.Intn(3); j++ {
			switch r.Intn(6) {
			case 0:
				kv(&KOp{Kind: "Set", Preserve: true, Val: sp(pick(r, jsonBodies))})
			case 1:
				kv(&KOp{Kind: "SetRaw", Preserve: true, Val: sp(pick(r, rawBodies))})
			case 2:
				o := &KOp{Kind: "WriteWithXattrs", CasMode: "current", Xs: genXs(r, false), Preserve: true, Macros: genMacros(r)}
				if r.Intn(2) == 0 {
					o.Val = sp(pick(r, jsonBodies))
				}
				kv(o)
			case 3:
				cb := &Callback{Kind: "result", Xs: []XKV{{Name: "_sync", Val: sp(`{"rev":"1-a"}`)}}, Spec: []Macro{{Path: "_sync.cas", Kind: "cas"}}}
				if r.Intn(2) == 0 {
					cb.Val = sp(pick(r, jsonBodies))
				}
				if r.Intn(3) == 0 {
					cb.Spec = nil
				}
				kv(&KOp{Kind: "WriteUpdateWithXattrs", Cb: cb, Preserve: true, Macros: genMacros(r)})
			case 4:
				kv(&KOp{Kind: "Delete"})
				kv(&KOp{Kind: "WriteResurrectionWithXattrs", Exp: pick(r, farExps), Xs: genXs(r, false), Preserve: r.Intn(2) == 0, Val: sp(pick(r, jsonBodies))})
			default:
				kv(&KOp{Kind: "Touch", Exp: pick(r, farExps)})
			}
		}
		kv(&KOp{Kind: "GetExpiry"})
		kv(read())
	case motifManyRevs:
		// a long life: revision numbers with two digits, read back through every observer
		kv(inserter())
		for j := 0; j < 10+r.Intn(8); j++ {
			switch r.Intn(7) {
			case 0:
				kv(&KOp{Kind: "Touch", Exp: pick(r, farExps)})
			case 1:
				kv(&KOp{Kind: "SetXattrs", Xs: genXs(r, false)})
			case 2:
				kv(&KOp{Kind: "Set", Val: sp(pick(r, jsonBodies))})
			case 3:
				kv(&KOp{Kind: "WriteCas", CasMode: "current", Val: sp(pick(r, jsonBodies))})
			case 4:
				kv(&KOp{Kind: "Incr", Amt: 1, Deflt: 3})
			case 5:
				kv(&KOp{Kind: "Delete"})
			default:
				kv(&KOp{Kind: "Update", Cb: &Callback{Kind: "set", Val: sp(pick(r, jsonBodies))}})
			}
		}
		kv(&KOp{Kind: "GetWithXattrs", Names: []string{"$document", "$document.revid", "_sync"}})
		in.Ops = append(in.Ops, Step{Kind: "dump", Coll: cn, Key: key, Start: "zero", Clock: next()})
	case motifSubdocShapes:
		// sub-document calls against documents whose shape matters: a null property, a scalar where an object is
		// expected, nested objects, arrays; paths that end in, start with or contain an empty component
		shapes := []struct {
			body  string
			paths []string // the paths along which this shape is interesting
		}{
			{`{"n":null,"s":"x"}`, []string{"n.x", "n", "s.y", "n.x.y"}},
			{`{"a":{"z":[1]},"b":true}`, []string{"a.z", "a.z.w", "b.c", "a"}},
			{`{"b":{"c":{"d":5}},"q":"w"}`, []string{"b.c", "b.c.d", "b.c.d.e", "q"}},
			{`{"a":1,"b":{"c":2}}`, []string{"a.z", "b.c", "b.c.d", "new.deep"}},
			{`{"a":{"":7},"":{"a":1}}`, []string{"a.", ".a", "b..c", "a"}},
			{`{"a":{"b":null},"n":null}`, []string{"a.b.c", "a.b", "n.x", "n"}},
			{`{"a":10}`, []string{"a", "a", "b", "a.z"}}, // eight bytes
			{`{"b":{}}`, []string{"b", "b.c", "b", "a"}}, // eight bytes
		}
		sh := shapes[r.Intn(len(shapes))]
		kv(&KOp{Kind: "Set", Val: sp(sh.body)})
		own := r.Perm(len(sh.paths))
		for j := 0; j < 4+r.Intn(3); j++ {
			path := pick(r, []string{"n.x", "n", "s.y", "a.z", "a.z.w", "b.c", "b.c.d", "b.c.d.e", "a.", ".a", "b..c", "q", "new.deep", "a"})
			if j < len(own) {
				path = sh.paths[own[j]]
				kv(&KOp{Kind: "GetSubDocRaw", Path: path}) // what is there before it is written
			}
			switch r.Intn(4) {
			case 0:
				kv(&KOp{Kind: "GetSubDocRaw", Path: path})
			case 1:
				v := sp(pick(r, subdocVals[:3]))
				kv(&KOp{Kind: "SubdocInsert", Path: path, CasMode: pick(r, []string{"zero", "current"}), Val: v})
				if r.Intn(2) == 0 {
					// the same value again: the property exists now, whatever it holds
					kv(&KOp{Kind: "SubdocInsert", Path: path, CasMode: pick(r, []string{"zero", "current"}), Val: v})
				}
			default:
				kv(&KOp{Kind: "WriteSubDoc", Path: path, CasMode: pick(r, []string{"zero", "current", "stale"}), Val: sp(pick(r, subdocVals))})
			}
		}
		kv(&KOp{Kind: "GetRaw"})
	case motifPurgeIndex:
		if cn == "s1.c2" {
			cn = "_default._default"
		}
		in.Ops = append(in.Ops, Step{Kind: "putddoc", Coll: cn, Handle: h, DDoc: "dd", Views: []ViewDef{{Name: "v0", Map: 1}, {Name: "v1", Map: 2}}, Clock: next()})
		kv(inserter())
		kv(xattrWrite())
		view(h, "v0", &ViewParams{})
		kv(deleter())
		if r.Intn(2) == 0 {
			view(h, "v1", &ViewParams{})
		}
		in.Ops = append(in.Ops, Step{Kind: "purge", Handle: h, Clock: next()})
		view(h, "v0", &ViewParams{Stale: r.Intn(3) == 0})
		in.Ops = append(in.Ops, Step{Kind: "query", Coll: cn, Handle: h, Q: pick(r, []string{"QIds", "QCount", "QSync", "QSyncFirst"}), Clock: next()})
		kv(inserter())
		view(h, "v1", &ViewParams{})
		in.Ops = append(in.Ops, Step{Kind: "dump", Coll: cn, Key: key, Start: "zero", Clock: next()})
	}
}

// view query parameters: every combination of stale, descending, limit, startkey, endkey, inclusive_end, key
func genViewParams(r *rand.Rand) *ViewParams {
	vp := &ViewParams{}
	// mostly keys that the map functions emit for the documents of the universe, so that bounds fall ON rows
	keys := []string{`1`, `2`, `0`, `"k1"`, `"k2"`, `"k3"`, `"k2"`, `1`, `[1,"k2"]`, `[1]`, `[2,1]`, `[1,1]`, `[0,"k1"]`, `[2,"k3"]`, `"apple"`, `"Banana"`, `"b"`}
	if r.Intn(4) == 0 {
		return vp
	}
	vp.Stale = r.Intn(8) == 0
	vp.NoReduce = r.Intn(3) == 0
	vp.Descending = r.Intn(2) == 0
	if r.Intn(4) == 0 {
		vp.Limit = 1 + r.Intn(3)
	}
	if r.Intn(6) == 0 {
		vp.Key = sp(pick(r, keys))
		return vp
	}
	if r.Intn(2) == 0 {
		vp.StartKey = sp(pick(r, keys))
	}
	if r.Intn(3) > 0 {
		vp.EndKey = sp(pick(r, keys))
		vp.ExclusiveEnd = r.Intn(2) == 0
	}
	return vp
}

func runKv(cfg runCfg, emit func(Case)) error {
	if cfg.replay != nil {
		for _, raw := range cfg.replay {
			var in kvInput
			if err := json.Unmarshal(raw, &in); err != nil {
				return err
			}
			c, err := execKv(in, cfg.scratch)
			if err != nil {
				return err
			}
			emit(c)
		}
		return nil
	}
	r := rand.New(rand.NewSource(cfg.seed))
	for i := 0; i < cfg.n; i++ {
		c, err := execKv(genKv(r, cfg.tier), cfg.scratch)
		if err != nil {
			return err
		}
		emit(c)
	}
	return nil
}
