package main

// Family crash: a child process runs a history on an on-disk bucket with a scripted clock and kills itself
// (SIGKILL) at the n-th occurrence of a chosen hook point - before a transaction commits, right after, between
// the document write and the lastCas update, before the event is posted.  It reports "begin i" before and
// "ack i" after every step.  The parent (a different process: fresh HLC, fresh registry) reopens the bucket,
// reads everything back and emits: the steps up to and including the interrupted one, how many were
// acknowledged, whether the kill came after the commit, and the read-back.  The model (coq/Store.v) says
// what the reopened bucket must show: the acknowledged prefix, plus the whole interrupted call iff it had
// committed (Corr.crash_corr_ok; the property itself, either-or, is Trace.chk_crash).

import (
	"bufio"
	"encoding/json"
	"fmt"
	"math/rand"
	"os"
	"os/exec"
	"path/filepath"
	"sort"
	"strconv"
	"strings"
	"sync/atomic"
	"syscall"
	"time"

	"github.com/couchbaselabs/rosmar"
)

func init() {
	register(&family{name: "crash", run: runCrash})
	register(&family{name: "crashchild", run: runCrashChild})
}

type crashInput struct {
	Ops       []Step `json:"ops"`
	MaxDoc    int    `json:"maxdoc"`
	KillPoint string `json:"kill_point"` // txn.begin | txn.precommit | txn.committed | cas.beforeSetLastCas | cas.beforePost
	KillNth   int    `json:"kill_nth"`
	ReopenCreateOrOpen bool `json:"reopen_create_or_open,omitempty"` // the fresh process opens the bucket with CreateOrOpen instead of ReOpenExisting
	TryCreateNew       bool `json:"try_create_new,omitempty"`        // ... after a CreateNew, which must be refused and leave the bucket alone
	ReopenRenamed      bool `json:"reopen_renamed,omitempty"`        // the fresh process opens the directory under another bucket name
	KillLast  bool   `json:"kill_last,omitempty"` // false: count occurrences from the start; true: count only inside the last step
}

type crashChildParam struct {
	Dir  string     `json:"dir"`
	Name string     `json:"name"`
	In   crashInput `json:"in"`
}

// the Coq term of a key-value call, from the call's description and the CAS it resolves to (pure)
func kopTerm(op *KOp, cas uint64) Term {
	switch op.Kind {
	case "GetRaw", "Get":
		return C("KGetRaw")
	case "Exists":
		return C("KExists")
	case "GetExpiry":
		return C("KGetExpiry")
	case "GetWithXattrs":
		return C("KGetWithXattrs", strsTerm(op.Names))
	case "GetXattrs":
		return C("KGetXattrs", strsTerm(op.Names))
	case "GetSubDocRaw":
		return C("KGetSubDocRaw", S(op.Path))
	case "Add":
		return C("KAdd", N(uint64(op.Exp)), valTerm(op.Val, false))
	case "AddRaw":
		return C("KAddRaw", N(uint64(op.Exp)), valTerm(op.Val, true))
	case "Set":
		return C("KSet", N(uint64(op.Exp)), B(op.Preserve), valTerm(op.Val, false))
	case "SetRaw":
		return C("KSetRaw", N(uint64(op.Exp)), B(op.Preserve), valTerm(op.Val, true))
	case "WriteCas":
		return C("KWriteCas", N(uint64(op.Exp)), N(cas), optStr(op.Val), B(op.Raw), B(op.Append), B(op.AddOnly))
	case "Remove":
		return C("KRemove", N(cas))
	case "Delete":
		return C("KDelete")
	case "Incr":
		return C("KIncr", N(op.Amt), N(op.Deflt), N(uint64(op.Exp)))
	case "Touch":
		return C("KTouch", N(uint64(op.Exp)))
	case "GetAndTouchRaw":
		return C("KGetAndTouch", N(uint64(op.Exp)))
	case "Update":
		cb := op.Cb
		var cbT Term
		switch cb.Kind {
		case "cancel":
			cbT = C("UCancel")
		case "fail":
			cbT = C("UFail")
		case "set":
			cbT = C("USet", S(*cb.Val), optExpTerm(cb.NewExp))
		case "append":
			cbT = C("UAppend", S(*cb.Val), optExpTerm(cb.NewExp))
		case "delete":
			cbT = C("UDelete", optExpTerm(cb.NewExp))
		default:
			cbT = C("UExpOnly", N(uint64(*cb.NewExp)))
		}
		return C("KUpdate", N(uint64(op.Exp)), cbT)
	case "SetWithMeta":
		return C("KSetWithMeta", N(cas), N(op.NewCas), N(uint64(op.Exp)), xcolTerm(op.XObj), optStr(op.Val), B(op.IsJSON))
	case "DeleteWithMeta":
		return C("KDeleteWithMeta", N(cas), N(op.NewCas), N(uint64(op.Exp)), xcolTerm(op.XObj))
	case "SetXattrs":
		return C("KSetXattrs", xsTerm(op.Xs))
	case "RemoveXattrs":
		return C("KRemoveXattrs", strsTerm(op.Names), N(cas))
	case "DeleteSubDocPaths":
		return C("KDeleteSubDocPaths", strsTerm(op.Names))
	case "DeleteWithXattrs":
		return C("KDeleteWithXattrs", strsTerm(op.Names))
	case "WriteWithXattrs":
		return C("KWriteWithXattrs", N(uint64(op.Exp)), N(cas), optStr(op.Val), xsTerm(op.Xs), delsTerm(op.Dels), B(op.Preserve), macrosTerm(op.Macros))
	case "WriteTombstoneWithXattrs":
		return C("KWriteTombstoneWithXattrs", N(uint64(op.Exp)), N(cas), xsTerm(op.Xs), delsTerm(op.Dels), B(op.DeleteBody), macrosTerm(op.Macros))
	case "WriteResurrectionWithXattrs":
		return C("KWriteResurrectionWithXattrs", N(uint64(op.Exp)), optStr(op.Val), xsTerm(op.Xs), B(op.Preserve), macrosTerm(op.Macros))
	case "UpdateXattrs":
		return C("KUpdateXattrs", N(uint64(op.Exp)), N(cas), xsTerm(op.Xs), macrosTerm(op.Macros))
	case "UpdateXattrDeleteBody":
		return C("KUpdateXattrDeleteBody", S(op.Name), N(uint64(op.Exp)), N(cas), S(*op.Val), macrosTerm(op.Macros))
	case "WriteUpdateWithXattrs":
		cb := op.Cb
		var cbT Term
		if cb.Kind == "fail" {
			cbT = C("WUFail")
		} else {
			cbT = C("WUResult", C("mkWu", optStr(cb.Val), xsTerm(cb.Xs), delsTerm(cb.Dels), B(cb.Tomb), optExpTerm(cb.NewExp), macrosTerm(cb.Spec), B(op.Preserve)))
		}
		return C("KWriteUpdateWithXattrs", cbT, macrosTerm(op.Macros))
	case "WriteSubDoc":
		return C("KWriteSubDoc", S(op.Path), N(cas), S(*op.Val))
	case "SubdocInsert":
		return C("KSubdocInsert", S(op.Path), N(cas), S(*op.Val))
	}
	panic("kopTerm: unknown op " + op.Kind)
}

func crashStepTerm(st Step, cas uint64) Term {
	switch st.Kind {
	case "kv":
		return C("SKv", S(st.Coll), S(st.Key), kopTerm(st.Op, cas))
	case "purge":
		return C("SPurge")
	case "create":
		return C("SCreateColl", S(st.Coll))
	case "drop":
		return C("SDropColl", S(st.Coll))
	case "putddoc":
		var vts []any
		for _, v := range st.Views {
			vts = append(vts, P(S(v.Name), N(uint64(v.Map))))
		}
		return C("SPutDDoc", S(st.Coll), S(st.DDoc), L(vts...))
	case "delddoc":
		return C("SDelDDoc", S(st.Coll), S(st.DDoc))
	case "view":
		vp := st.VP
		if vp == nil {
			vp = &ViewParams{}
		}
		_, vpT := viewParams(vp)
		return C("SView", S(st.Coll), S(st.DDoc), S(st.View), vpT)
	}
	panic("crashStepTerm: unsupported step " + st.Kind)
}

// ---------------------------------------------------------------------------------------------
// child

func runCrashChild(cfg runCfg, emit func(Case)) error {
	raw, err := os.ReadFile(cfg.param)
	if err != nil {
		return err
	}
	var p crashChildParam
	if err := json.Unmarshal(raw, &p); err != nil {
		return err
	}
	out := bufio.NewWriter(os.Stderr) // the parent reads the protocol on stderr (stdout carries harness output)
	say := func(format string, a ...any) {
		fmt.Fprintf(out, format+"\n", a...)
		out.Flush()
	}
	k := &kvRun{in: kvInput{OnDisk: true, Handles: 1, MaxDoc: p.In.MaxDoc}, dir: p.Dir, name: p.Name, feeds: map[string]*liveFeed{},
		lastCas: map[string][]uint64{}, cells: map[string]bool{}, class: map[string]string{}}
	rosmar.VerifSetClock(func() uint64 { return atomic.LoadUint64(&k.clock) })
	rosmar.VerifResetHLC(0)
	rosmar.MaxDocSize = p.In.MaxDoc
	var seen, curStep int32
	rosmar.VerifSetHook(func(point string, args ...any) {
		if point == "expiry.fire" {
			select {} // no timer firings in this family
		}
		if p.In.KillLast && int(atomic.LoadInt32(&curStep)) != len(p.In.Ops) {
			return
		}
		if point == p.In.KillPoint {
			if int(atomic.AddInt32(&seen, 1)) == p.In.KillNth {
				say("killed %s", point)
				_ = syscall.Kill(os.Getpid(), syscall.SIGKILL)
				select {}
			}
		}
	})
	k.url = "rosmar://" + filepath.Join(p.Dir, "b")
	h, err := rosmar.OpenBucket(k.url, p.Name, rosmar.CreateOrOpen)
	if err != nil {
		return err
	}
	k.handles = []*rosmar.Bucket{h}
	uuid, _ := h.UUID()
	say("uuid %s", uuid)
	for i, st := range p.In.Ops {
		st.Handle = 0
		atomic.StoreUint64(&k.clock, st.Clock)
		cas := uint64(0)
		if st.Kind == "kv" {
			cas = k.resolveCas(st.Op.CasMode, st.Coll, st.Key)
		}
		say("begin %d %d %d", i, time.Now().Unix(), cas)
		atomic.StoreInt32(&curStep, int32(i+1))
		switch st.Kind {
		case "kv":
			if _, _, err := k.doKv(st); err != nil {
				return err
			}
		case "purge":
			_, _ = h.PurgeTombstones()
		case "create":
			_ = h.CreateDataStore(ctxBg, dsName(st.Coll))
		case "drop":
			if st.Fresh {
				// through a handle that has opened no collection
				if fh, err := rosmar.OpenBucket(k.url, p.Name, rosmar.CreateOrOpen); err == nil {
					_ = fh.DropDataStore(dsName(st.Coll))
					fh.Close(ctxBg)
					break
				}
			}
			_ = h.DropDataStore(dsName(st.Coll))
		case "putddoc", "delddoc", "view":
			col, err := k.coll(0, st.Coll)
			if err != nil {
				return err
			}
			switch st.Kind {
			case "putddoc":
				_ = col.PutDDoc(ctxBg, st.DDoc, ddocOf(st.Views))
			case "delddoc":
				_ = col.DeleteDDoc(st.DDoc)
			default:
				vp := st.VP
				if vp == nil {
					vp = &ViewParams{}
				}
				params, _ := viewParams(vp)
				_, _ = col.View(ctxBg, st.DDoc, st.View, params) // updates the index (unless stale=ok); the rows are not compared here
			}
		}
		atomic.StoreInt32(&curStep, 0)
		// the CAS history that "current" / "stale" CAS arguments of later steps resolve against
		if _, err := k.snapshot(); err != nil {
			return err
		}
		say("ack %d", i)
	}
	say("finished")
	return nil
}

// ---------------------------------------------------------------------------------------------
// parent

var crashSerial int64

func execCrash(in crashInput, scratch string) (Case, error) {
	c := Case{Input: in}
	id := atomic.AddInt64(&crashSerial, 1)
	dir, err := os.MkdirTemp(scratch, "crash_")
	if err != nil {
		return c, err
	}
	defer os.RemoveAll(dir)
	name := fmt.Sprintf("crash_%d_%d", os.Getpid(), id)
	pfile := filepath.Join(dir, "param.json")
	raw, _ := json.Marshal(crashChildParam{Dir: dir, Name: name, In: in})
	if err := os.WriteFile(pfile, raw, 0600); err != nil {
		return c, err
	}
	cmd := exec.Command(os.Args[0], "-family", "crashchild", "-param", pfile, "-scratch", dir, "-out", filepath.Join(dir, "child.out"))
	stderr, err := cmd.StderrPipe()
	if err != nil {
		return c, err
	}
	if err := cmd.Start(); err != nil {
		return c, err
	}
	type begin struct {
		now, cas uint64
	}
	begins := map[int]begin{}
	acked := -1
	killed := ""
	finished := false
	uuid := ""
	sc := bufio.NewScanner(stderr)
	for sc.Scan() {
		f := strings.Fields(sc.Text())
		if len(f) == 0 {
			continue
		}
		switch f[0] {
		case "uuid":
			if len(f) > 1 {
				uuid = f[1]
			}
		case "begin":
			i, _ := strconv.Atoi(f[1])
			now, _ := strconv.ParseUint(f[2], 10, 64)
			cas, _ := strconv.ParseUint(f[3], 10, 64)
			begins[i] = begin{now, cas}
		case "ack":
			acked, _ = strconv.Atoi(f[1])
		case "killed":
			killed = f[1]
		case "finished":
			finished = true
		}
	}
	_ = cmd.Wait()
	if killed == "" && !finished {
		c.Fatal = "the child process died without being killed by the harness (panic?)"
	}
	// reopen in this process
	rosmar.VerifSetHook(func(point string, args ...any) {
		if point == "expiry.fire" {
			select {}
		}
	})
	defer parkLateTimers()
	rosmar.VerifSetClock(func() uint64 { return 1 })
	defer rosmar.VerifSetClock(nil)
	rosmar.VerifResetHLC(0)
	k := &kvRun{in: kvInput{OnDisk: true, Handles: 1}, dir: dir, name: name, feeds: map[string]*liveFeed{},
		lastCas: map[string][]uint64{}, cells: map[string]bool{}, class: map[string]string{}}
	var mode rosmar.OpenMode = rosmar.ReOpenExisting
	if in.ReopenCreateOrOpen {
		mode = rosmar.CreateOrOpen
	}
	if in.TryCreateNew {
		if hn, e := rosmar.OpenBucket("rosmar://"+filepath.Join(dir, "b"), name, rosmar.CreateNew); e == nil {
			hn.Close(ctxBg)
			c.Fatal = "CreateNew succeeded on a directory that holds a bucket"
			return c, nil
		}
	}
	if in.ReopenRenamed {
		name += "_again"
	}
	h, err := rosmar.OpenBucket("rosmar://"+filepath.Join(dir, "b"), name, mode)
	if err != nil {
		c.Notes = append(c.Notes, "reopen failed: "+err.Error())
		c.Fatal = "the bucket could not be reopened after the kill: " + err.Error()
		return c, nil
	}
	defer h.CloseAndDelete(ctxBg)
	k.handles = []*rosmar.Bucket{h}
	snap, err := k.snapshot()
	if err != nil {
		return c, err
	}
	uuid2, _ := h.UUID()
	var ddocs []string
	names, _ := h.ListDataStores()
	for _, n := range names {
		cn := n.ScopeName() + "." + n.CollectionName()
		col, err := k.coll(0, cn)
		if err != nil {
			continue
		}
		dds, _ := col.GetDDocs()
		for dn, dd := range dds {
			for vn := range dd.Views {
				// what a non-stale query of the view answers in the fresh process
				line := cn + "/" + dn + "/" + vn + "="
				if res, e := col.View(ctxBg, dn, vn, map[string]any{}); e == nil {
					for _, r := range res.Rows {
						kb, _ := json.Marshal(r.Key)
						vb, _ := json.Marshal(r.Value)
						line += r.ID + "|" + string(kb) + "|" + string(vb) + ";"
					}
				} else {
					line += "ERROR " + e.Error()
				}
				ddocs = append(ddocs, line)
			}
		}
	}
	sort.Strings(ddocs)
	// steps up to and including the interrupted one
	upto := acked + 1
	if !finished {
		upto = acked + 2
	}
	if upto > len(in.Ops) {
		upto = len(in.Ops)
	}
	var steps []any
	for i := 0; i < upto; i++ {
		b, ok := begins[i]
		if !ok {
			upto = i
			break
		}
		steps = append(steps, P(C("mkSctx", N(in.Ops[i].Clock), N(b.now), N(uint64(in.MaxDoc))), crashStepTerm(in.Ops[i], b.cas)))
	}
	committed := killed == "txn.committed" || killed == "cas.beforePost"
	c.CoqInput = C("mkScase", strsTerm(kvColls), strsTerm(kvKeys), strsTerm(kvXnames), L(steps...))
	c.CoqObs = C("mkCrashObs", N(uint64(acked+1)), B(finished), B(committed), snap, strsTerm(ddocs), B(uuid != "" && uuid == uuid2))
	c.Cells = []string{"kill=" + in.KillPoint, fmt.Sprintf("finished=%v", finished)}
	if upto > 0 && !finished && upto <= len(in.Ops) {
		st := in.Ops[upto-1]
		kind := st.Kind
		if st.Op != nil {
			kind += ":" + st.Op.Kind
		}
		c.Cells = append(c.Cells, "interrupted="+kind+"@"+killed)
	}
	return c, nil
}

func ddocOf(views []ViewDef) *sgbucketDesignDoc { return mkDesignDoc(views) }

func genCrash(r *rand.Rand) crashInput {
	kin := genKv(r, "quick")
	in := crashInput{MaxDoc: kin.MaxDoc}
	for _, st := range kin.Ops {
		switch st.Kind {
		case "kv", "purge", "create", "drop", "putddoc", "delddoc", "view":
			if st.Kind == "kv" && st.Op != nil && st.Op.Exp > 0 && st.Op.Exp <= 2592000 {
				st.Op.Exp = 0 // no relative expiries: the child's wall clock is not the model's
			}
			if st.Kind == "kv" && st.Op != nil && st.Op.Cb != nil && st.Op.Cb.NewExp != nil && *st.Op.Cb.NewExp > 0 && *st.Op.Cb.NewExp <= 2592000 {
				st.Op.Cb.NewExp = u32p(4000000000)
			}
			if st.Kind == "kv" && st.Op != nil {
				st.Op.NewCasCur = false // resolved while the call runs, which here is in another process
			}
			st.Handle = 0
			in.Ops = append(in.Ops, st)
		}
	}
	in.ReopenCreateOrOpen = r.Intn(2) == 0
	in.TryCreateNew = r.Intn(3) == 0
	in.ReopenRenamed = r.Intn(4) == 0
	in.KillPoint = pick(r, []string{"txn.begin", "txn.precommit", "txn.committed", "cas.beforeSetLastCas", "cas.beforePost"})
	in.KillNth = 1 + r.Intn(2*len(in.Ops)+1)
	if len(in.Ops) > 0 && r.Intn(2) == 0 {
		// aim at one call: the n-th occurrence of the point inside step i (a call made of several
		// transactions has several)
		i := r.Intn(len(in.Ops))
		var multi []int
		for j, st := range in.Ops {
			if st.Kind == "putddoc" || st.Kind == "delddoc" || st.Kind == "drop" || st.Kind == "purge" || st.Kind == "create" {
				multi = append(multi, j)
			}
		}
		switch x := r.Intn(4); {
		case x == 0:
			// a design document replaced by a different one (the old one must go and the new one appear together)
			perm := r.Perm(numMaps)
			cn := pick(r, []string{"_default._default", "s1.c1"})
			if cn == "s1.c1" {
				in.Ops = append(in.Ops, Step{Kind: "create", Coll: cn, Clock: kin.Ops[len(kin.Ops)-1].Clock + 1})
			}
			clk := kin.Ops[len(kin.Ops)-1].Clock + 2
			in.Ops = append(in.Ops, Step{Kind: "putddoc", Coll: cn, DDoc: "dd", Views: []ViewDef{{Name: "v0", Map: perm[0]}}, Clock: clk},
				Step{Kind: "putddoc", Coll: cn, DDoc: "dd", Views: []ViewDef{{Name: "v0", Map: perm[1]}, {Name: "v1", Map: perm[0]}}, Clock: clk + 1})
			i = len(in.Ops) - 1
		case x == 1 && len(multi) > 0:
			i = multi[r.Intn(len(multi))]
		case x == 2:
			// an indexed view, then a WithMeta write with a CAS below what is indexed: the write and the invalidation
			// of the index must survive (or be lost) together
			cn := "_default._default"
			clk := kin.Ops[len(kin.Ops)-1].Clock + 2
			key := pick(r, kvKeys)
			in.Ops = append(in.Ops,
				Step{Kind: "putddoc", Coll: cn, DDoc: "dd", Views: []ViewDef{{Name: "v0", Map: pick(r, []int{0, 1, 3, 5})}}, Clock: clk},
				Step{Kind: "kv", Coll: cn, Key: key, Op: &KOp{Kind: "Set", Val: sp(pick(r, []string{`{"a":1}`, `{"a":2,"b":3}`}))}, Clock: clk + 1},
				Step{Kind: "view", Coll: cn, DDoc: "dd", View: "v0", VP: &ViewParams{}, Clock: clk + 2})
			if r.Intn(2) == 0 {
				in.Ops = append(in.Ops, Step{Kind: "kv", Coll: cn, Key: key, Op: &KOp{Kind: "SetWithMeta", CasMode: "current", NewCas: 7000 + uint64(r.Intn(100)), Val: sp(`{"a":7}`), IsJSON: true}, Clock: clk + 3})
			} else {
				in.Ops = append(in.Ops, Step{Kind: "kv", Coll: cn, Key: key, Op: &KOp{Kind: "DeleteWithMeta", CasMode: "current", NewCas: 7000 + uint64(r.Intn(100))}, Clock: clk + 3})
			}
			i = len(in.Ops) - 1
		}
		in.KillLast = true
		in.KillPoint = pick(r, []string{"txn.begin", "txn.precommit", "txn.committed", "txn.committed", "cas.beforeSetLastCas", "cas.beforePost"})
		in.KillNth = pick(r, []int{1, 1, 2, 3})
		in.Ops = in.Ops[:i+1]
	}
	return in
}

func runCrash(cfg runCfg, emit func(Case)) error {
	var inputs []crashInput
	if cfg.replay != nil {
		for _, raw := range cfg.replay {
			var in crashInput
			if err := json.Unmarshal(raw, &in); err != nil {
				return err
			}
			inputs = append(inputs, in)
		}
	} else {
		r := rand.New(rand.NewSource(cfg.seed))
		for i := 0; i < cfg.n; i++ {
			inputs = append(inputs, genCrash(r))
		}
	}
	for _, in := range inputs {
		c, err := execCrash(in, cfg.scratch)
		if err != nil {
			return err
		}
		emit(c)
	}
	return nil
}
