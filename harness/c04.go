package main

// Family c04: CAS values vs. the hybrid logical clock model (Hlc.v).
// Input: a list of cop (see Hlc.v): draws on buckets with scripted physical clock readings,
// opens, closes, simulated restarts (all handles closed, clock state reset to 0 - what a new
// process starts with; real kills are exercised by the crash family).
// Observation: the committed CAS events in order.

import (
	"encoding/json"
	"fmt"
	"math/rand"
	"os"
	"path/filepath"
	"sync/atomic"

	"github.com/couchbaselabs/rosmar"
)

type c04Op struct {
	Kind   string `json:"kind"` // draw | open | close | restart | dropcoll
	Bucket string `json:"bucket,omitempty"`
	Named  bool   `json:"named,omitempty"` // draw: write to the named collection s1.c1 instead of the default one
	Clock  uint64 `json:"clock,omitempty"`
	Commit bool   `json:"commit,omitempty"`
}

type c04Input struct {
	OnDisk bool    `json:"on_disk"`
	Ops    []c04Op `json:"ops"`
}

func init() { register(&family{name: "c04", run: runC04}) }

func genC04(r *rand.Rand) c04Input {
	in := c04Input{OnDisk: r.Intn(3) != 0}
	names := []string{"a", "b", "c"}[:1+r.Intn(3)]
	n := 6 + r.Intn(30)
	// clock script style
	style := r.Intn(6)
	base := uint64(1) << (20 + uint(r.Intn(40)))
	cur := base
	nextClock := func() uint64 {
		switch style {
		case 0: // standing still
			return base
		case 1: // decreasing
			if cur > 70000 {
				cur -= uint64(r.Intn(70000))
			}
			return cur
		case 2: // sawtooth
			if r.Intn(3) == 0 {
				cur = base
			} else {
				cur += uint64(r.Intn(200000))
			}
			return cur
		case 3: // straddling the 16-bit mask
			k := uint64(r.Intn(4))
			return base + k*65536 + uint64([]int{0, 1, 65535, 65534, 32768}[r.Intn(5)])
		case 4: // huge jumps both ways
			return uint64(r.Int63n(1 << 62))
		default: // slowly increasing, sometimes equal
			cur += uint64(r.Intn(3)) * 65536
			return cur
		}
	}
	useColls := r.Intn(2) == 0
	for i := 0; i < n; i++ {
		b := names[r.Intn(len(names))]
		switch x := r.Intn(20); {
		case x < 3:
			in.Ops = append(in.Ops, c04Op{Kind: "open", Bucket: b})
		case x == 3:
			in.Ops = append(in.Ops, c04Op{Kind: "close", Bucket: b})
		case x == 4 && in.OnDisk:
			in.Ops = append(in.Ops, c04Op{Kind: "restart"})
		case x == 5 && useColls:
			in.Ops = append(in.Ops, c04Op{Kind: "dropcoll", Bucket: b})
			if in.OnDisk && r.Intn(2) == 0 {
				// the newest CAS may have been issued by the dropped collection: restart right away
				in.Ops = append(in.Ops, c04Op{Kind: "restart"}, c04Op{Kind: "open", Bucket: b})
			}
		default:
			in.Ops = append(in.Ops, c04Op{Kind: "draw", Bucket: b, Clock: nextClock(), Commit: r.Intn(5) != 0, Named: useColls && r.Intn(2) == 0})
		}
	}
	return in
}

var c04Serial int64
var c04Named = dsName("s1.c1")

func execC04(in c04Input, scratch string) (Case, error) {
	c := Case{Input: in}
	id := atomic.AddInt64(&c04Serial, 1)*100000 + int64(os.Getpid())
	dir, err := os.MkdirTemp(scratch, "c04_")
	if err != nil {
		return c, err
	}
	defer os.RemoveAll(dir)
	var clockVal uint64
	rosmar.VerifSetClock(func() uint64 { return atomic.LoadUint64(&clockVal) })
	defer rosmar.VerifSetClock(nil)
	rosmar.VerifResetHLC(0)

	handles := map[string][]*rosmar.Bucket{} // open handles per bucket name
	bname := func(b string) string { return fmt.Sprintf("c04b%d_%s", id, b) }
	url := func(b string) string {
		if in.OnDisk {
			return "rosmar://" + filepath.Join(dir, b)
		}
		return rosmar.InMemoryURL
	}
	var created []*rosmar.Bucket
	defer func() {
		// delete every bucket this case created
		for _, h := range created {
			_ = h.CloseAndDelete(ctxBg)
		}
	}()
	var ops, obs []any
	cells := map[string]bool{}
	prevClock := uint64(0)
	havePrev := false
	for _, op := range in.Ops {
		switch op.Kind {
		case "open":
			ops = append(ops, C("COpen", S(op.Bucket)))
			if len(handles[op.Bucket]) == 0 {
				h, err := rosmar.OpenBucket(url(op.Bucket), bname(op.Bucket), rosmar.CreateOrOpen)
				if err != nil {
					return c, fmt.Errorf("open %s: %w", op.Bucket, err)
				}
				handles[op.Bucket] = append(handles[op.Bucket], h)
				created = append(created, h)
			}
			cells["open"] = true
		case "close":
			ops = append(ops, C("CClose", S(op.Bucket)))
			for _, h := range handles[op.Bucket] {
				h.Close(ctxBg)
			}
			handles[op.Bucket] = nil
			cells["close"] = true
		case "dropcoll":
			ops = append(ops, C("CDropColl", S(op.Bucket)))
			if hs := handles[op.Bucket]; len(hs) > 0 {
				_ = hs[0].DropDataStore(c04Named)
				cells["dropcoll"] = true
			}
		case "restart":
			ops = append(ops, C("CRestart"))
			for b, hs := range handles {
				for _, h := range hs {
					h.Close(ctxBg)
				}
				handles[b] = nil
			}
			rosmar.VerifResetHLC(0)
			obs = append(obs, C("EvRestart"))
			cells["restart"] = true
		case "draw":
			ops = append(ops, C("CDraw", S(op.Bucket), N(op.Clock), B(op.Commit)))
			atomic.StoreUint64(&clockVal, op.Clock)
			rel := "first"
			if havePrev {
				switch {
				case op.Clock&^0xFFFF == prevClock&^0xFFFF:
					rel = "same48"
				case op.Clock < prevClock:
					rel = "back"
				default:
					rel = "fwd"
				}
			}
			prevClock, havePrev = op.Clock, true
			hs := handles[op.Bucket]
			if len(hs) == 0 {
				cells["draw-closed"] = true
				continue
			}
			ds := hs[0].DefaultDataStore()
			if ds == nil {
				return c, fmt.Errorf("nil default data store on open bucket %s", op.Bucket)
			}
			if op.Named {
				nds, err := hs[0].NamedDataStore(c04Named)
				if err != nil {
					return c, fmt.Errorf("NamedDataStore: %w", err)
				}
				ds = nds
				rel = "named-" + rel
			}
			if op.Commit {
				if err := ds.SetRaw("k", 0, nil, []byte("v")); err != nil {
					return c, fmt.Errorf("SetRaw: %w", err)
				}
				_, cas, err := ds.GetRaw("k")
				if err != nil {
					return c, fmt.Errorf("GetRaw: %w", err)
				}
				obs = append(obs, C("EvCas", S(op.Bucket), N(cas), B(true)))
				cells["draw-commit-"+rel] = true
			} else {
				// a call that draws a timestamp and then fails inside the transaction
				_, err := ds.WriteCas("nokey", 0, 987654321, []byte("v"), 0)
				if err == nil {
					return c, fmt.Errorf("WriteCas with bogus CAS on missing key succeeded")
				}
				cells["draw-fail-"+rel] = true
			}
		}
	}
	c.CoqInput = L(ops...)
	c.CoqObs = L(obs...)
	for k := range cells {
		c.Cells = append(c.Cells, k)
	}
	return c, nil
}

func runC04(cfg runCfg, emit func(Case)) error {
	if cfg.replay != nil {
		for _, raw := range cfg.replay {
			var in c04Input
			if err := json.Unmarshal(raw, &in); err != nil {
				return err
			}
			c, err := execC04(in, cfg.scratch)
			if err != nil {
				return err
			}
			emit(c)
		}
		return nil
	}
	r := rand.New(rand.NewSource(cfg.seed))
	for i := 0; i < cfg.n; i++ {
		c, err := execC04(genC04(r), cfg.scratch)
		if err != nil {
			return err
		}
		emit(c)
	}
	return nil
}
