package main

import "context"

var ctxBg = context.Background()
