package main

import (
	"bufio"
	"encoding/json"
	"flag"
	"fmt"
	"os"
)

// One executed case: what was run (as JSON, replayable), and the Coq terms for input and
// observation.  `Cells` are coverage cells (pre-state class x entry point x argument class...).
type Case struct {
	Family   string   `json:"family"`
	Seed     int64    `json:"seed"`
	Index    int      `json:"index"`
	Input    any      `json:"input"`           // family-specific replayable description
	CoqInput Term     `json:"coq_in"`          // term of the family's input type
	CoqObs   Term     `json:"coq_obs"`         // term of the family's observation type
	Cells    []string `json:"cells"`           // coverage cells hit
	Discard  string   `json:"discard"`         // non-empty: case is timing-unstable etc.; not compared
	Fatal    string   `json:"fatal,omitempty"` // the implementation panicked or blocked; prefix kept
	Notes    []string `json:"notes,omitempty"`
}

type family struct {
	name string
	// generate+execute n cases from seed; or replay the inputs given
	run func(cfg runCfg, emit func(Case)) error
}

type runCfg struct {
	seed    int64
	n       int
	tier    string
	scratch string
	replay  []json.RawMessage // if non-nil: inputs to replay instead of generating
	param   string
}

var families = map[string]*family{}

func register(f *family) { families[f.name] = f }

func main() {
	var (
		fam     = flag.String("family", "", "family to run")
		seed    = flag.Int64("seed", 1, "PRNG seed")
		n       = flag.Int("n", 10, "number of cases")
		tier    = flag.String("tier", "quick", "quick|thorough")
		out     = flag.String("out", "", "output file (JSON lines)")
		scratch = flag.String("scratch", "", "scratch directory for on-disk buckets")
		replay  = flag.String("replay", "", "JSON-lines file of inputs to replay (field `input` of earlier output, or bare inputs)")
		param   = flag.String("param", "", "family-specific parameter")
	)
	flag.Parse()
	f := families[*fam]
	if f == nil {
		fmt.Fprintf(os.Stderr, "unknown family %q\n", *fam)
		os.Exit(2)
	}
	if *scratch == "" {
		d, err := os.MkdirTemp("", "verifharness")
		if err != nil {
			panic(err)
		}
		defer os.RemoveAll(d)
		*scratch = d
	}
	w := bufio.NewWriter(os.Stdout)
	if *out != "" {
		fh, err := os.Create(*out)
		if err != nil {
			panic(err)
		}
		defer fh.Close()
		w = bufio.NewWriter(fh)
	}
	defer w.Flush()
	cfg := runCfg{seed: *seed, n: *n, tier: *tier, scratch: *scratch, param: *param}
	if *replay != "" {
		fh, err := os.Open(*replay)
		if err != nil {
			panic(err)
		}
		sc := bufio.NewScanner(fh)
		sc.Buffer(make([]byte, 1<<20), 1<<28)
		cfg.replay = []json.RawMessage{}
		for sc.Scan() {
			line := sc.Bytes()
			if len(line) == 0 {
				continue
			}
			var probe struct {
				Input json.RawMessage `json:"input"`
			}
			if err := json.Unmarshal(line, &probe); err == nil && probe.Input != nil {
				cfg.replay = append(cfg.replay, append(json.RawMessage{}, probe.Input...))
			} else {
				cfg.replay = append(cfg.replay, append(json.RawMessage{}, line...))
			}
		}
		fh.Close()
	}
	enc := json.NewEncoder(w)
	enc.SetEscapeHTML(false)
	idx := 0
	err := f.run(cfg, func(c Case) {
		c.Family = f.name
		c.Seed = cfg.seed
		c.Index = idx
		idx++
		if c.Cells == nil {
			c.Cells = []string{}
		}
		if c.Notes == nil {
			c.Notes = []string{}
		}
		if err := enc.Encode(c); err != nil {
			panic(err)
		}
		if c.Fatal != "" {
			// the process may hold poisoned locks / leaked goroutines: stop here, the driver
			// starts a fresh process for the remaining cases
			w.Flush()
			os.Exit(4)
		}
	})
	if err != nil {
		w.Flush()
		fmt.Fprintf(os.Stderr, "harness error: %v\n", err)
		os.Exit(3)
	}
}
