package main

// Family ttl: real time.  Small histories that set, shorten, lengthen, preserve and clear expiries on a
// few keys (absolute deadlines 2-4 s ahead, or offsets), optionally close the bucket and reopen it
// before or after the deadline; then every key is polled.  The model (coq/Store.v) says which expiry is
// in force for each key; the checker (Trace.chk_ttl) decides from the recorded poll times whether each
// document stayed readable until its time and was tombstoned (with a deletion event) within 3 s after.

import (
	"strings"
	"encoding/json"
	"errors"
	"fmt"
	"math/rand"
	"os"
	"path/filepath"
	"sync"
	"sync/atomic"
	"time"

	sgbucket "github.com/couchbase/sg-bucket"
	"github.com/couchbaselabs/rosmar"
)

func init() { register(&family{name: "ttl", run: runTtl}) }

type ttlOp struct {
	Kind     string `json:"kind"` // set | setraw | touch | delete | add | wwx (WriteWithXattrs) | reopen | sleep
	Coll     string `json:"coll,omitempty"`
	Key      string `json:"key,omitempty"`
	Delta    int    `json:"delta,omitempty"` // expiry = t0 + delta (absolute) ; 0 = none
	Rel      uint32 `json:"rel,omitempty"`   // if > 0: a relative expiry (offset in seconds) instead
	Preserve bool   `json:"preserve,omitempty"`
	Ms       int    `json:"ms,omitempty"` // sleep
	CreateOrOpen bool `json:"create_or_open,omitempty"` // reopen: with CreateOrOpen instead of ReOpenExisting
}

type ttlInput struct {
	OnDisk bool    `json:"on_disk"`
	Burst  int     `json:"burst,omitempty"` // before the history: so many rounds of simultaneous writes with ever earlier (far) deadlines
	Ops    []ttlOp `json:"ops"`
}

var ttlColls = []string{"_default._default", "s1.c1"}
var ttlKeys = []string{"k1", "k2", "k3"}
var ttlSerial int64

func execTtl(in ttlInput, scratch string) (Case, error) {
	c := Case{Input: in}
	id := atomic.AddInt64(&ttlSerial, 1)
	dir, err := os.MkdirTemp(scratch, "ttl_")
	if err != nil {
		return c, err
	}
	defer os.RemoveAll(dir)
	name := fmt.Sprintf("ttl_%d_%d", os.Getpid(), id)
	url := rosmar.InMemoryURL
	if in.OnDisk {
		url = "rosmar://" + filepath.Join(dir, "b")
	}
	b, err := rosmar.OpenBucket(url, name, rosmar.CreateOrOpen)
	if err != nil {
		return c, err
	}
	closed := false
	defer func() {
		if !closed {
			_ = b.CloseAndDelete(ctxBg)
		}
	}()
	if err := b.CreateDataStore(ctxBg, dsName("s1.c1")); err != nil {
		return c, err
	}
	var mu sync.Mutex
	delEvents := map[string]bool{}
	var terms []chan bool
	startFeeds := func() error {
		for _, cn := range ttlColls {
			ds, err := b.NamedDataStore(dsName(cn))
			if err != nil {
				return err
			}
			cn := cn
			term := make(chan bool)
			terms = append(terms, term)
			err = ds.(*rosmar.Collection).StartDCPFeed(ctxBg, sgbucket.FeedArguments{ID: "ttl-" + cn, Backfill: sgbucket.FeedNoBackfill, Terminator: term},
				func(ev sgbucket.FeedEvent) bool {
					if ev.Opcode == sgbucket.FeedOpDeletion {
						mu.Lock()
						delEvents[cn+"/"+string(ev.Key)] = true
						mu.Unlock()
					}
					return true
				}, nil)
			if err != nil {
				return err
			}
		}
		return nil
	}
	if err := startFeeds(); err != nil {
		return c, err
	}
	if in.Burst > 0 {
		// Writers on two handles and two collections set deadlines at the same moment, each earlier than every one
		// before it (all of them hours away: none fires during the case).  Whichever of them reaches the expiry
		// manager last, the timer must end up armed at or before the earliest deadline stored.
		b2, err := rosmar.OpenBucket(url, name, rosmar.CreateOrOpen)
		if err != nil {
			return c, err
		}
		const writers = 6
		base := uint32(time.Now().Unix()) + 40000
		var cols []*rosmar.Collection
		for g := 0; g < writers; g++ {
			ds, err := []*rosmar.Bucket{b, b2}[g%2].NamedDataStore(dsName(ttlColls[(g/2)%2]))
			if err != nil {
				return c, err
			}
			cols = append(cols, ds.(*rosmar.Collection))
		}
		for round := 0; round < in.Burst && c.Fatal == ""; round++ {
			var wg sync.WaitGroup
			gate := make(chan struct{})
			for g := 0; g < writers; g++ {
				wg.Add(1)
				go func(g int) {
					defer wg.Done()
					<-gate
					_ = cols[g].SetRaw(fmt.Sprintf("burst%d", g), base-uint32(round*writers+g), nil, []byte("x"))
				}(g)
			}
			close(gate)
			wg.Wait()
			earliest := base - uint32(round*writers+writers-1)
			if armed := b.VerifNextExp(); armed == 0 || armed > earliest {
				c.Fatal = fmt.Sprintf("after %d simultaneous writes the expiry timer is armed for %d although a document expires at %d", writers, armed, earliest)
			}
		}
		// The same with the overlap made certain: one writer is held where it arms the timer (rosmar logs there; the
		// logging callback is the client's), another one with an earlier deadline arrives meanwhile.
		base -= uint32(in.Burst*writers + 10)
		oldCb, oldLevel := rosmar.LoggingCallback, rosmar.GetLogLevel()
		var held int32
		parked := make(chan struct{}, 1)
		release := make(chan struct{})
		rosmar.LoggingCallback = func(level rosmar.LogLevel, f string, args ...any) {
			if strings.HasPrefix(f, "_setNext(") && atomic.CompareAndSwapInt32(&held, 1, 2) {
				parked <- struct{}{}
				<-release
			}
		}
		rosmar.SetLogLevel(rosmar.LevelDebug)
		for round := 0; round < 3 && c.Fatal == ""; round++ {
			dA, dB := base-uint32(2*round), base-uint32(2*round+1)
			release = make(chan struct{})
			atomic.StoreInt32(&held, 1)
			doneA, doneB := make(chan struct{}), make(chan struct{})
			go func() { _ = cols[0].SetRaw("burstA", dA, nil, []byte("x")); close(doneA) }()
			select {
			case <-parked:
				go func() { _ = cols[1].SetRaw("burstB", dB, nil, []byte("x")); close(doneB) }()
				time.Sleep(40 * time.Millisecond)
				close(release)
				<-doneB
			case <-doneA:
				// the first writer never armed the timer (nothing to hold)
				close(release)
			}
			<-doneA
			atomic.StoreInt32(&held, 0)
			if armed := b.VerifNextExp(); armed == 0 || armed > dB && atomic.LoadInt32(&held) == 0 {
				select {
				case <-doneB:
					c.Fatal = fmt.Sprintf("a writer arrived while another one was arming the expiry timer: the timer is armed for %d although a document expires at %d", armed, dB)
				default:
				}
			}
		}
		rosmar.SetLogLevel(oldLevel)
		rosmar.LoggingCallback = oldCb
		b2.Close(ctxBg)
		if c.Fatal != "" {
			return c, nil
		}
	}
	// align to the start of a wall-clock second so that deadlines are whole seconds ahead
	for time.Now().Nanosecond() > 150_000_000 {
		time.Sleep(5 * time.Millisecond)
	}
	t0 := time.Now().Unix()
	var steps []any
	var reopenMs uint64
	coll := func(cn string) (*rosmar.Collection, error) {
		ds, err := b.NamedDataStore(dsName(cn))
		if err != nil {
			return nil, err
		}
		return ds.(*rosmar.Collection), nil
	}
	for i, op := range in.Ops {
		exp := uint32(0)
		if op.Rel > 0 {
			exp = op.Rel
		} else if op.Delta > 0 {
			exp = uint32(t0 + int64(op.Delta))
		}
		now0 := time.Now().Unix()
		var opT Term
		switch op.Kind {
		case "sleep":
			time.Sleep(time.Duration(op.Ms) * time.Millisecond)
			continue
		case "visitor":
			// another handle of the bucket comes and goes: nothing of the bucket's may change - in particular the
			// expiry timer, which all handles share, keeps running
			if v, err := rosmar.OpenBucket(url, name, rosmar.CreateOrOpen); err == nil {
				if ds, err := v.NamedDataStore(dsName("_default._default")); err == nil {
					_, _, _ = ds.GetRaw("k1")
				}
				v.Close(ctxBg)
			}
			continue
		case "reopen":
			if !in.OnDisk {
				c.Discard = "reopen of an in-memory bucket"
				return c, nil
			}
			for _, t := range terms {
				close(t)
			}
			terms = nil
			b.Close(ctxBg)
			if op.Ms > 0 {
				time.Sleep(time.Duration(op.Ms) * time.Millisecond)
			}
			rmode := rosmar.OpenMode(rosmar.ReOpenExisting)
			if op.CreateOrOpen {
				rmode = rosmar.CreateOrOpen
			}
			b, err = rosmar.OpenBucket(url, name, rmode)
			if err != nil {
				closed = true
				return c, err
			}
			reopenMs = uint64(time.Now().UnixMilli())
			if err := startFeeds(); err != nil {
				return c, err
			}
			steps = append(steps, P(C("mkSctx", N(0), N(uint64(now0)), N(0)), C("SReopen")))
			continue
		}
		cl, err := coll(op.Coll)
		if err != nil {
			return c, err
		}
		var e error
		body := fmt.Sprintf(`{"i":%d}`, i)
		switch op.Kind {
		case "set":
			opT = C("KSet", N(uint64(exp)), B(op.Preserve), S(body))
			e = cl.Set(op.Key, exp, &sgbucket.UpsertOptions{PreserveExpiry: op.Preserve}, []byte(body))
		case "setraw":
			opT = C("KSetRaw", N(uint64(exp)), B(op.Preserve), S(body))
			e = cl.SetRaw(op.Key, exp, &sgbucket.UpsertOptions{PreserveExpiry: op.Preserve}, []byte(body))
		case "add":
			opT = C("KAdd", N(uint64(exp)), S(body))
			_, e = cl.Add(op.Key, exp, []byte(body))
		case "touch":
			opT = C("KTouch", N(uint64(exp)))
			_, e = cl.Touch(op.Key, exp)
		case "delete":
			opT = C("KDelete")
			e = cl.Delete(op.Key)
		case "wwx":
			xv := `{"r":1}`
			opT = C("KWriteWithXattrs", N(uint64(exp)), N(0), Some(S(body)), L(P(S("_sync"), Some(S(xv)))), None(), B(false), L())
			_, e = cl.WriteWithXattrs(ctxBg, op.Key, exp, 0, []byte(body), map[string][]byte{"_sync": []byte(xv)}, nil, nil)
		default:
			return c, fmt.Errorf("unknown ttl op %q", op.Kind)
		}
		_ = e // failures (e.g. touch of a missing key) are part of the history; the model decides what they mean
		if op.Rel > 0 && time.Now().Unix() != now0 {
			c.Discard = "wall-clock second changed during a relative-expiry call"
			return c, nil
		}
		steps = append(steps, P(C("mkSctx", N(0), N(uint64(now0)), N(0)), C("SKv", S(op.Coll), S(op.Key), opT)))
		c.Cells = append(c.Cells, op.Kind+fmt.Sprintf("|rel=%v|delta=%d|preserve=%v", op.Rel > 0, op.Delta, op.Preserve))
	}
	// poll every key until 8.5 s after t0 (or 4.5 s after a late reopen)
	end := time.Unix(t0, 0).Add(8500 * time.Millisecond)
	if reopenMs > 0 {
		if e2 := time.UnixMilli(int64(reopenMs)).Add(4500 * time.Millisecond); e2.After(end) {
			end = e2
		}
	}
	type seen struct {
		lastPresentMs, firstMissingBeforeMs, firstMissingAfterMs uint64
		missingSeen                                                bool
	}
	obs := map[string]*seen{}
	for time.Now().Before(end) {
		for _, cn := range ttlColls {
			cl, err := coll(cn)
			if err != nil {
				return c, err
			}
			for _, k := range ttlKeys {
				s := obs[cn+"/"+k]
				if s == nil {
					s = &seen{}
					obs[cn+"/"+k] = s
				}
				before := uint64(time.Now().UnixMilli())
				_, _, e := cl.GetRaw(k)
				after := uint64(time.Now().UnixMilli())
				var me sgbucket.MissingError
				if e == nil {
					s.lastPresentMs = before
				} else if errors.As(e, &me) {
					if !s.missingSeen {
						s.missingSeen, s.firstMissingBeforeMs, s.firstMissingAfterMs = true, before, after
					}
				} else {
					return c, fmt.Errorf("poll: %w", e)
				}
			}
		}
		time.Sleep(100 * time.Millisecond)
	}
	var rows []any
	mu.Lock()
	for _, cn := range ttlColls {
		for _, k := range ttlKeys {
			s := obs[cn+"/"+k]
			if s == nil {
				s = &seen{}
			}
			fm := None()
			if s.missingSeen {
				fm = Some(P(N(s.firstMissingBeforeMs), N(s.firstMissingAfterMs)))
			}
			rows = append(rows, C("mkTtlObs", S(cn), S(k), N(s.lastPresentMs), fm, B(delEvents[cn+"/"+k])))
		}
	}
	mu.Unlock()
	for _, t := range terms {
		close(t)
	}
	c.CoqInput = C("mkScase", strsTerm(ttlColls), strsTerm(ttlKeys), L(), L(append([]any{P(C("mkSctx", N(0), N(uint64(t0)), N(0)), C("SCreateColl", S("s1.c1")))}, steps...)...))
	c.CoqObs = C("mkTtlRun", N(reopenMs), L(rows...))
	return c, nil
}

func genTtl(r *rand.Rand) ttlInput {
	in := ttlInput{OnDisk: r.Intn(2) == 0}
	if r.Intn(3) == 0 {
		in.Burst = 20 + r.Intn(40)
	}
	key := func() string { return pick(r, ttlKeys) }
	cn := func() string { return pick(r, ttlColls) }
	first := func() ttlOp {
		op := ttlOp{Kind: pick(r, []string{"set", "setraw", "add", "wwx", "set"}), Coll: cn(), Key: key()}
		switch r.Intn(6) {
		case 0:
			op.Delta = 0
		case 1:
			op.Rel = uint32(2 + r.Intn(2))
		default:
			op.Delta = 2 + r.Intn(3)
		}
		return op
	}
	n := 2 + r.Intn(4)
	for i := 0; i < n; i++ {
		in.Ops = append(in.Ops, first())
	}
	if r.Intn(2) == 0 {
		in.Ops = append(in.Ops, ttlOp{Kind: "visitor"})
	}
	in.Ops = append(in.Ops, ttlOp{Kind: "sleep", Ms: 300 + r.Intn(300)})
	m := r.Intn(4)
	for i := 0; i < m; i++ {
		switch r.Intn(6) {
		case 0:
			in.Ops = append(in.Ops, ttlOp{Kind: "touch", Coll: cn(), Key: key(), Delta: 2 + r.Intn(5)})
		case 1:
			in.Ops = append(in.Ops, ttlOp{Kind: "touch", Coll: cn(), Key: key(), Delta: 0})
		case 2:
			in.Ops = append(in.Ops, ttlOp{Kind: "set", Coll: cn(), Key: key(), Delta: r.Intn(2) * 6, Preserve: true})
		case 3:
			in.Ops = append(in.Ops, ttlOp{Kind: "delete", Coll: cn(), Key: key()})
		case 4:
			in.Ops = append(in.Ops, ttlOp{Kind: "set", Coll: cn(), Key: key(), Delta: 2 + r.Intn(5)})
		default:
			in.Ops = append(in.Ops, ttlOp{Kind: "touch", Coll: cn(), Key: key(), Rel: uint32(2 + r.Intn(3))})
		}
	}
	if in.OnDisk && r.Intn(2) == 0 {
		op := ttlOp{Kind: "reopen", CreateOrOpen: r.Intn(2) == 0}
		if r.Intn(2) == 0 {
			op.Ms = 4500 // stay closed until after every deadline up to t0+4
		}
		in.Ops = append(in.Ops, op)
	}
	return in
}

func runTtl(cfg runCfg, emit func(Case)) error {
	var inputs []ttlInput
	if cfg.replay != nil {
		for _, raw := range cfg.replay {
			var in ttlInput
			if err := json.Unmarshal(raw, &in); err != nil {
				return err
			}
			inputs = append(inputs, in)
		}
	} else {
		r := rand.New(rand.NewSource(cfg.seed))
		for i := 0; i < cfg.n; i++ {
			inputs = append(inputs, genTtl(r))
		}
	}
	// the cases only wait: run them 16 at a time
	results := make([]Case, len(inputs))
	errs := make([]error, len(inputs))
	sem := make(chan struct{}, 16)
	var wg sync.WaitGroup
	for i := range inputs {
		wg.Add(1)
		sem <- struct{}{}
		go func(i int) {
			defer wg.Done()
			defer func() { <-sem }()
			results[i], errs[i] = execTtl(inputs[i], cfg.scratch)
		}(i)
	}
	wg.Wait()
	for i := range inputs {
		if errs[i] != nil {
			return errs[i]
		}
		emit(results[i])
	}
	return nil
}
