package main

// Family life: when feeds end.  Handles of one bucket, collections, live and dump feeds started through
// any handle, terminators, DropDataStore, Close, CloseAndDelete, writes.  After every step: for each feed,
// whether its done channel is closed and how many events its callback has received.  Model: coq/Life.v.

import (
	"encoding/json"
	"fmt"
	"math/rand"
	"os"
	"path/filepath"
	"strings"
	"sync"
	"sync/atomic"
	"time"

	sgbucket "github.com/couchbase/sg-bucket"
	"github.com/couchbaselabs/rosmar"
)

func init() { register(&family{name: "life", run: runLife}) }

type lifeOp struct {
	Kind string `json:"kind"` // open | create | start | write | term | drop | close | cad | block | release
	H    int    `json:"h,omitempty"`
	F    int    `json:"f,omitempty"`
	Coll string `json:"coll,omitempty"`
	Dump bool   `json:"dump,omitempty"`
	NoBackfill bool `json:"no_backfill,omitempty"` // start, dump: a dump feed that asks for no backfill has nothing to deliver and ends at once
	Scoped bool `json:"scoped,omitempty"` // start: through Bucket.StartDCPFeed with Scopes naming the collection
	ViaBucket bool `json:"via_bucket,omitempty"` // start: through Bucket.StartDCPFeed with no Scopes (the default collection's feed), whatever the handle has opened
}

type lifeInput struct {
	InMem bool     `json:"in_mem"`
	SameID bool    `json:"same_id,omitempty"` // every feed is started with the same FeedArguments.ID
	Ckpt   bool    `json:"ckpt,omitempty"`    // every feed keeps a checkpoint (which it saves when it ends - if it still can)
	Ops   []lifeOp `json:"ops"`
}

type lifeFeed struct {
	id   int
	dump bool
	term chan bool
	done chan struct{}
	got  int64
	late int64
	gate int32         // 0 open, 1 armed (the next callback invocation blocks), 2 holding
	rel  chan struct{} // closed to let a holding callback return
}

var lifeSerial int64

func execLife(in lifeInput, scratch string) (Case, error) {
	c := Case{Input: in}
	id := atomic.AddInt64(&lifeSerial, 1)
	dir, err := os.MkdirTemp(scratch, "life_")
	if err != nil {
		return c, err
	}
	defer os.RemoveAll(dir)
	rosmar.VerifSetClock(nil)
	rosmar.VerifSetHook(nil)
	name := fmt.Sprintf("life_%d_%d", os.Getpid(), id)
	url := rosmar.InMemoryURL
	if !in.InMem {
		url = "rosmar://" + filepath.Join(dir, "b")
	}
	handles := map[int]*rosmar.Bucket{}
	dsCache := map[string]sgbucket.DataStore{} // collection objects obtained while their handle was open
	var feeds []*lifeFeed
	var mu sync.Mutex
	docs := 0
	deleted := false
	blocked := false
	defer func() {
		if blocked {
			return // the bucket is wedged: any clean-up call would block as well
		}
		for _, f := range feeds {
			if atomic.LoadInt32(&f.gate) == 2 {
				close(f.rel)
			}
			atomic.StoreInt32(&f.gate, 0)
		}
		if !deleted {
			for _, f := range feeds {
				select {
				case <-f.done:
				default:
					func() { defer func() { _ = recover() }(); close(f.term) }()
				}
			}
			if h, err := rosmar.OpenBucket(url, name, rosmar.CreateOrOpen); err == nil {
				_ = h.CloseAndDelete(ctxBg)
			}
		}
	}()
	ended := func(f *lifeFeed) bool {
		select {
		case <-f.done:
			return true
		default:
			return false
		}
	}
	snapshot := func() string {
		s := ""
		for _, f := range feeds {
			s += fmt.Sprintf("%v/%d;", ended(f), atomic.LoadInt64(&f.got))
		}
		return s
	}
	settle := func() {
		last := snapshot()
		stable := time.Now()
		deadline := time.Now().Add(400 * time.Millisecond)
		for time.Now().Before(deadline) {
			time.Sleep(3 * time.Millisecond)
			if s := snapshot(); s != last {
				last, stable = s, time.Now()
			} else if time.Since(stable) > 25*time.Millisecond {
				return
			}
		}
	}
	var opTerms, obsTerms []any
	termClosed := map[int]bool{}
	for _, op := range in.Ops {
		ok := true
		var opT Term
		opDone := make(chan struct{})
		go func() {
			defer close(opDone)
			defer func() {
				if r := recover(); r != nil {
					c.Fatal = fmt.Sprintf("panic in %s: %v", op.Kind, r)
				}
			}()
			switch op.Kind {
			case "open":
				opT = C("LOpenHandle", N(uint64(op.H)))
				h, e := rosmar.OpenBucket(url, name, rosmar.CreateOrOpen)
				if e != nil {
					ok = false
				} else {
					handles[op.H] = h
				}
			case "create":
				opT = C("LCreateColl", N(uint64(op.H)), S(op.Coll))
				ok = handles[op.H] != nil && handles[op.H].CreateDataStore(ctxBg, dsName(op.Coll)) == nil
			case "start":
				opT = C("LStart", N(uint64(op.F)), N(uint64(op.H)), S(op.Coll), B(op.Dump))
				ok = false
				if h := handles[op.H]; h != nil {
					names, _ := h.ListDataStores()
					exists := false
					for _, n := range names {
						if n.ScopeName()+"."+n.CollectionName() == op.Coll {
							exists = true
						}
					}
					var ds sgbucket.DataStore
					var e error
					if op.Scoped || (op.ViaBucket && op.Coll == "_default._default") {
						// no collection object of the caller's is involved: the bucket looks its default collection up
						exists, e, ds = true, nil, nil
					} else if exists {
						ds, e = h.NamedDataStore(dsName(op.Coll))
						if e == nil {
							dsCache[fmt.Sprintf("%d/%s", op.H, op.Coll)] = ds
						}
					} else if cached := dsCache[fmt.Sprintf("%d/%s", op.H, op.Coll)]; cached != nil {
						// the handle does not answer any more (it was closed): the caller still holds the collection object
						// it got earlier and starts the feed through it
						ds, e, exists = cached, nil, true
					}
					if exists {
						if e == nil {
							f := &lifeFeed{id: op.F, dump: op.Dump, term: make(chan bool), done: make(chan struct{}), rel: make(chan struct{})}
							fid := fmt.Sprintf("life%d", op.F)
							if in.SameID {
								fid = "life"
							}
							args := sgbucket.FeedArguments{ID: fid, Backfill: sgbucket.FeedNoBackfill, Terminator: f.term, DoneChan: f.done}
							if op.Dump {
								args.Backfill, args.Dump = 0, true
								if op.NoBackfill {
									args.Backfill = sgbucket.FeedNoBackfill
								}
							}
							if in.Ckpt {
								args.CheckpointPrefix = "cp"
							}
							starter := func(cb sgbucket.FeedEventCallbackFunc) error {
								if ds == nil {
									if op.Scoped {
										n := dsName(op.Coll)
										args.Scopes = map[string][]string{n.ScopeName(): {n.CollectionName()}}
									}
									return h.StartDCPFeed(ctxBg, args, cb, nil)
								}
								return ds.(*rosmar.Collection).StartDCPFeed(ctxBg, args, cb, nil)
							}
							e := starter(func(ev sgbucket.FeedEvent) bool {
								if (ev.Opcode == sgbucket.FeedOpMutation || ev.Opcode == sgbucket.FeedOpDeletion) && !strings.HasPrefix(string(ev.Key), "cp:") {
									if ended(f) {
										atomic.AddInt64(&f.late, 1)
									}
									atomic.AddInt64(&f.got, 1)
									if atomic.CompareAndSwapInt32(&f.gate, 1, 2) {
										<-f.rel
									}
								}
								return true
							})
							if e == nil {
								mu.Lock()
								feeds = append(feeds, f)
								mu.Unlock()
								ok = true
							}
						}
					}
				}
			case "write":
				opT = C("LWrite", N(uint64(op.H)), S(op.Coll))
				ok = false
				if h := handles[op.H]; h != nil {
					names, _ := h.ListDataStores()
					for _, n := range names {
						if n.ScopeName()+"."+n.CollectionName() == op.Coll {
							if ds, e := h.NamedDataStore(dsName(op.Coll)); e == nil {
								dsCache[fmt.Sprintf("%d/%s", op.H, op.Coll)] = ds
								docs++
								if added, e := ds.(*rosmar.Collection).AddRaw(fmt.Sprintf("doc%d", docs), 0, []byte("x")); e == nil && added {
									ok = true
								}
							}
						}
					}
				}
			case "term":
				opT = C("LTerm", N(uint64(op.F)))
				for _, f := range feeds {
					if f.id == op.F && !termClosed[op.F] {
						close(f.term)
						termClosed[op.F] = true
					}
				}
			case "drop":
				opT = C("LDrop", N(uint64(op.H)), S(op.Coll))
				ok = false
				if h := handles[op.H]; h != nil && op.Coll != "_default._default" {
					names, _ := h.ListDataStores()
					for _, n := range names {
						if n.ScopeName()+"."+n.CollectionName() == op.Coll {
							ok = h.DropDataStore(dsName(op.Coll)) == nil
						}
					}
				}
			case "block":
				opT = C("LBlock", N(uint64(op.F)))
				for _, f := range feeds {
					if f.id == op.F && !f.dump && !ended(f) && atomic.LoadInt32(&f.gate) == 0 {
						atomic.StoreInt32(&f.gate, 1)
					}
				}
			case "release":
				opT = C("LRelease", N(uint64(op.F)))
				for _, f := range feeds {
					if f.id == op.F {
						if atomic.CompareAndSwapInt32(&f.gate, 1, 0) {
							// was armed, never held
						} else if atomic.LoadInt32(&f.gate) == 2 {
							close(f.rel)
							f.rel = make(chan struct{})
							atomic.StoreInt32(&f.gate, 0)
						}
					}
				}
			case "close":
				opT = C("LClose", N(uint64(op.H)))
				if h := handles[op.H]; h != nil {
					h.Close(ctxBg)
				}
			case "cad":
				opT = C("LCloseAndDelete", N(uint64(op.H)))
				if h := handles[op.H]; h != nil {
					_ = h.CloseAndDelete(ctxBg)
					deleted = true
				} else {
					ok = false
				}
			}
		}()
		select {
		case <-opDone:
		case <-time.After(15 * time.Second):
			// a call that does not come back: a lock left held, or a wait for something that will never happen
			c.Fatal = fmt.Sprintf("%s did not return within 15s", op.Kind)
			blocked = true
		}
		if c.Fatal != "" {
			break
		}
		settle()
		var fl []any
		for _, f := range feeds {
			fl = append(fl, P(P(N(uint64(f.id)), B(ended(f))), N(uint64(atomic.LoadInt64(&f.got)))))
			if atomic.LoadInt64(&f.late) > 0 {
				c.Notes = append(c.Notes, fmt.Sprintf("feed %d: callback invoked after its done channel was closed", f.id))
			}
		}
		opTerms = append(opTerms, opT)
		obsTerms = append(obsTerms, C("mkLobs", B(ok), L(fl...)))
		c.Cells = append(c.Cells, op.Kind+fmt.Sprintf("|mem=%v", in.InMem))
	}
	c.CoqInput = P(B(in.InMem), L(opTerms...))
	c.CoqObs = L(obsTerms...)
	return c, nil
}

func genLife(r *rand.Rand) lifeInput {
	in := lifeInput{InMem: r.Intn(2) == 0, SameID: r.Intn(2) == 0, Ckpt: r.Intn(2) == 0}
	colls := []string{"_default._default"}
	open := map[int]bool{}
	add := func(o lifeOp) {
		if o.Kind == "start" && o.Dump && r.Intn(2) == 0 {
			// a dump of a collection that holds nothing may as well ask for no backfill: it ends at once all the same
			empty := true
			for _, p := range in.Ops {
				if p.Kind == "write" && p.Coll == o.Coll {
					empty = false
				}
			}
			o.NoBackfill = empty
		}
		in.Ops = append(in.Ops, o)
	}
	add(lifeOp{Kind: "open", H: 0})
	open[0] = true
	for _, cn := range []string{"s1.c1", "s1.c2"} {
		if r.Intn(3) > 0 {
			add(lifeOp{Kind: "create", H: 0, Coll: cn})
			colls = append(colls, cn)
		}
	}
	nh := 1 + r.Intn(3)
	for h := 1; h < nh; h++ {
		add(lifeOp{Kind: "open", H: h})
		open[h] = true
	}
	anyOpen := func() int {
		var l []int
		for h, o := range open {
			if o {
				l = append(l, h)
			}
		}
		if len(l) == 0 {
			return -1
		}
		// deterministic order
		min := l[0]
		for _, x := range l {
			if x < min {
				min = x
			}
		}
		return l[r.Intn(len(l))]*0 + pickInt(r, l, min)
	}
	nf := 0
	n := 6 + r.Intn(14)
	var blocked []int
	feedColl := map[int]string{}
	for i := 0; i < n; i++ {
		h := anyOpen()
		if h < 0 {
			break
		}
		// a slow consumer: block a feed's callback, let events queue up behind it, end things, release
		if nf > 0 && r.Intn(6) == 0 {
			f := r.Intn(nf)
			add(lifeOp{Kind: "block", F: f})
			blocked = append(blocked, f)
			if r.Intn(3) > 0 {
				// events pile up behind the blocked callback, then the feed is ended one way or another
				for j := 0; j < 2+r.Intn(2); j++ {
					add(lifeOp{Kind: "write", H: h, Coll: feedColl[f]})
				}
				switch r.Intn(4) {
				case 0:
					add(lifeOp{Kind: "term", F: f})
				case 1:
					if feedColl[f] != "_default._default" {
						add(lifeOp{Kind: "drop", H: h, Coll: feedColl[f]})
						for k := range colls {
							if colls[k] == feedColl[f] {
								colls = append(colls[:k], colls[k+1:]...)
								break
							}
						}
					}
				case 2:
					add(lifeOp{Kind: "write", H: h, Coll: pick(r, colls)})
				}
			}
			continue
		}
		if len(blocked) > 0 && r.Intn(5) == 0 {
			add(lifeOp{Kind: "release", F: blocked[0]})
			blocked = blocked[1:]
			continue
		}
		switch x := r.Intn(20); {
		case x < 5:
			cn := pick(r, colls)
			sh := h
			if r.Intn(6) == 0 {
				sh = r.Intn(nh) // possibly a handle that has been closed: the start must fail and leave nothing behind
			}
			add(lifeOp{Kind: "start", F: nf, H: sh, Coll: cn, Dump: r.Intn(4) == 0, ViaBucket: cn == "_default._default" && r.Intn(2) == 0, Scoped: r.Intn(4) == 0})
			feedColl[nf] = cn
			nf++
		case x < 11:
			add(lifeOp{Kind: "write", H: h, Coll: pick(r, colls)})
		case x < 14 && nf > 0:
			add(lifeOp{Kind: "term", F: r.Intn(nf)})
			if len(blocked) > 0 && r.Intn(2) == 0 {
				add(lifeOp{Kind: "release", F: blocked[0]})
				blocked = blocked[1:]
			}
		case x < 16 && len(colls) > 1:
			k := 1 + r.Intn(len(colls)-1)
			if h2 := anyOpen(); h2 >= 0 && r.Intn(2) == 0 {
				// a handle that has used the collection keeps an object for it; the collection is dropped and created
				// again through another handle, gets a feed there - and is then used through the first handle again
				cn := colls[k]
				add(lifeOp{Kind: "write", H: h, Coll: cn})
				add(lifeOp{Kind: "drop", H: h2, Coll: cn})
				add(lifeOp{Kind: "create", H: h2, Coll: cn})
				add(lifeOp{Kind: "start", F: nf, H: h2, Coll: cn})
				feedColl[nf] = cn
				nf++
				add(lifeOp{Kind: "write", H: h, Coll: cn})
				add(lifeOp{Kind: "write", H: h2, Coll: cn})
				continue
			}
			add(lifeOp{Kind: "drop", H: h, Coll: colls[k]})
			colls = append(colls[:k], colls[k+1:]...)
		case x < 18:
			if r.Intn(2) == 0 {
				// let the handle open a collection first, then close it, then try to start a feed through the
				// collection object it still holds, and write through another handle
				cn := pick(r, colls)
				add(lifeOp{Kind: "write", H: h, Coll: cn})
				add(lifeOp{Kind: "close", H: h})
				open[h] = false
				add(lifeOp{Kind: "start", F: nf, H: h, Coll: cn, Dump: r.Intn(4) == 0})
				feedColl[nf] = cn
				nf++
				if h2 := anyOpen(); h2 >= 0 {
					add(lifeOp{Kind: "write", H: h2, Coll: cn})
				}
				continue
			}
			add(lifeOp{Kind: "close", H: h})
			open[h] = false
			if r.Intn(3) == 0 {
				// a feed of the default collection asked of the closed handle itself, which may never have opened it
				add(lifeOp{Kind: "start", F: nf, H: h, Coll: "_default._default", Dump: r.Intn(4) == 0, ViaBucket: true, Scoped: r.Intn(2) == 0})
				feedColl[nf] = "_default._default"
				nf++
			}
		case x == 19 && i > 4:
			if r.Intn(3) == 0 {
				h = r.Intn(nh) // possibly through a handle that was closed before
			}
			add(lifeOp{Kind: "cad", H: h})
			for _, f := range blocked {
				add(lifeOp{Kind: "release", F: f})
			}
			return in
		}
	}
	// end: close every handle (the last close of an on-disk bucket shuts the store down) or delete
	if r.Intn(2) == 0 {
		if h := anyOpen(); h >= 0 {
			switch r.Intn(4) {
			case 0:
				h = r.Intn(nh)
			case 1:
				// close a handle, then delete the bucket through that same, closed handle - while other handles
				// may still be open and feeds running
				add(lifeOp{Kind: "close", H: h})
				open[h] = false
			}
			add(lifeOp{Kind: "cad", H: h})
		}
	} else {
		for h := 0; h < nh; h++ {
			if open[h] {
				add(lifeOp{Kind: "close", H: h})
			}
		}
	}
	for _, f := range blocked {
		add(lifeOp{Kind: "release", F: f})
	}
	return in
}

func pickInt(r *rand.Rand, l []int, _ int) int {
	// sort for determinism, then pick
	for a := 0; a < len(l); a++ {
		for b := a + 1; b < len(l); b++ {
			if l[b] < l[a] {
				l[a], l[b] = l[b], l[a]
			}
		}
	}
	return l[r.Intn(len(l))]
}

func runLife(cfg runCfg, emit func(Case)) error {
	var inputs []lifeInput
	if cfg.replay != nil {
		for _, raw := range cfg.replay {
			var in lifeInput
			if err := json.Unmarshal(raw, &in); err != nil {
				return err
			}
			inputs = append(inputs, in)
		}
	} else {
		r := rand.New(rand.NewSource(cfg.seed))
		for i := 0; i < cfg.n; i++ {
			inputs = append(inputs, genLife(r))
		}
	}
	for _, in := range inputs {
		c, err := execLife(in, cfg.scratch)
		if err != nil {
			return err
		}
		emit(c)
	}
	return nil
}
