package main

// Family ckpt: one writer thread, one checkpointed feed stopped at arbitrary (wall-clock) moments while
// events are queued and restarted in resume mode, without hooks: the run loop, the terminator watcher and
// the queue race as they do in production.  Recorded per run: what the callback received and the
// checkpoint document afterwards.  Checked in Coq (Feed.chk_ckpt_runs): a persisted checkpoint never
// exceeds a delivered CAS; the union of the runs contains the final version of every document.

import (
	"encoding/json"
	"fmt"
	"math/rand"
	"os"
	"path/filepath"
	"sync"
	"sync/atomic"
	"time"

	sgbucket "github.com/couchbase/sg-bucket"
	"github.com/couchbaselabs/rosmar"
)

func init() { register(&family{name: "ckpt", run: runCkpt}) }

type ckptInput struct {
	OnDisk bool  `json:"on_disk"`
	Runs   int   `json:"runs"`
	Batch  int   `json:"batch"`
	Seed   int64 `json:"seed"`
	TermInside bool `json:"term_inside,omitempty"` // in some runs the terminator is closed from inside the callback
	Stall   bool `json:"stall,omitempty"`   // the callback dawdles on the second event of every run
	Deletes bool `json:"deletes,omitempty"` // the writer also deletes, and writes between runs
	Restart bool `json:"restart,omitempty"` // on disk: between runs the bucket is closed, the process clock state is lost, the
	// wall clock has gone back, and the bucket is opened again (CreateOrOpen or ReOpenExisting)
}

var ckptSerial int64

func execCkpt(in ckptInput, scratch string) (Case, error) {
	c := Case{Input: in}
	id := atomic.AddInt64(&ckptSerial, 1)
	dir, err := os.MkdirTemp(scratch, "ckpt_")
	if err != nil {
		return c, err
	}
	defer os.RemoveAll(dir)
	rosmar.VerifSetClock(nil)
	rosmar.VerifSetHook(nil)
	url := rosmar.InMemoryURL
	if in.OnDisk {
		url = "rosmar://" + filepath.Join(dir, "b")
	}
	b, err := rosmar.OpenBucket(url, fmt.Sprintf("ckpt_%d_%d", os.Getpid(), id), rosmar.CreateOrOpen)
	if err != nil {
		return c, err
	}
	defer func() { _ = b.CloseAndDelete(ctxBg) }()
	defer rosmar.VerifSetClock(nil)
	col := b.DefaultDataStore().(*rosmar.Collection)
	bname := b.GetName()
	r := rand.New(rand.NewSource(in.Seed))
	cr := rand.New(rand.NewSource(in.Seed + 1)) // the callback's own (it runs on the feed's goroutine)
	var runTerms []any
	doc := 0
	finalCas := map[string]uint64{}
	for run := 0; run <= in.Runs; run++ {
		var mu sync.Mutex
		var got []any
		term := make(chan bool)
		var termOnce sync.Once
		closeTerm := func() { termOnce.Do(func() { close(term) }) }
		closeAt := 0 // the client closes its terminator from inside the callback, on this event of the run
		if in.TermInside && run < in.Runs && r.Intn(2) == 0 {
			closeAt = 1 + r.Intn(in.Batch)
		}
		done := make(chan struct{})
		err := col.StartDCPFeed(ctxBg, sgbucket.FeedArguments{ID: "f", Backfill: sgbucket.FeedResume, CheckpointPrefix: "cp", Terminator: term, DoneChan: done},
			func(ev sgbucket.FeedEvent) bool {
				if ev.Opcode == sgbucket.FeedOpMutation || ev.Opcode == sgbucket.FeedOpDeletion {
					mu.Lock()
					got = append(got, P(S(string(ev.Key)), N(ev.Cas)))
					first := len(got) == 2
					inside := closeAt > 0 && len(got) == closeAt
					mu.Unlock()
					if inside {
						// what was pulled before this is delivered; the next event may already have been pulled, or not
						closeTerm()
						return true
					}
					if in.Stall && first {
						// a consumer that falls behind early: the rest of the batch queues up behind this call
						time.Sleep(time.Duration(2+in.Batch/20) * time.Millisecond)
					}
					if cr.Intn(3) == 0 {
						time.Sleep(time.Duration(cr.Intn(200)) * time.Microsecond)
					}
				}
				return true
			}, nil)
		if err != nil {
			return c, err
		}
		last := run == in.Runs
		write := func(n int) {
			for i := 0; i < n; i++ {
				key := fmt.Sprintf("d%d", doc%7) // rewrite a few keys so that final versions matter
				doc++
				if in.Deletes && r.Intn(4) == 0 {
					// a deletion is a version like any other: its tombstone must reach the feed, live or on resume
					if _, cur, e := col.GetRaw(key); e == nil {
						if cas, e := col.Remove(key, cur); e == nil {
							finalCas[key] = cas
						}
						continue
					}
				}
				cas, err := col.WriteCas(key, 0, 0, []byte(fmt.Sprintf(`{"i":%d}`, doc)), 0)
				if err != nil {
					// the key exists: overwrite it on its current CAS
					_, cur, _ := col.GetRaw(key)
					cas, err = col.WriteCas(key, 0, cur, []byte(fmt.Sprintf(`{"i":%d}`, doc)), 0)
				}
				if err == nil {
					finalCas[key] = cas
				}
			}
		}
		if !last {
			write(in.Batch)
			time.Sleep(time.Duration(r.Intn(1500)) * time.Microsecond)
		} else {
			// let the final run drain
			deadline := time.Now().Add(3 * time.Second)
			for time.Now().Before(deadline) {
				mu.Lock()
				n := len(got)
				mu.Unlock()
				time.Sleep(30 * time.Millisecond)
				mu.Lock()
				m := len(got)
				mu.Unlock()
				if n == m {
					break
				}
			}
		}
		closeTerm()
		select {
		case <-done:
		case <-time.After(5 * time.Second):
			c.Fatal = "feed did not stop"
			return c, nil
		}
		var cp struct {
			LastSeq uint64 `json:"last_seq"`
		}
		_, _ = col.Get("cp:f", &cp)
		mu.Lock()
		runTerms = append(runTerms, P(L(got...), N(cp.LastSeq)))
		mu.Unlock()
		if in.Deletes && !last && r.Intn(2) == 0 {
			write(1 + r.Intn(3)) // while no feed is running
		}
		if in.Restart && in.OnDisk && !last && r.Intn(2) == 0 {
			// what a new process on a host whose clock is behind would do
			b.Close(ctxBg)
			rosmar.VerifResetHLC(0)
			rosmar.VerifSetClock(func() uint64 { return 1 << 30 })
			mode := rosmar.OpenMode(rosmar.ReOpenExisting)
			if r.Intn(2) == 0 {
				mode = rosmar.CreateOrOpen
			}
			nb, err := rosmar.OpenBucket(url, bname, mode)
			if err != nil {
				return c, fmt.Errorf("reopen: %w", err)
			}
			b = nb
			col = b.DefaultDataStore().(*rosmar.Collection)
		}
	}
	var finals []any
	for k, v := range finalCas {
		finals = append(finals, P(S(k), N(v)))
	}
	c.CoqInput = L(finals...)
	c.CoqObs = L(runTerms...)
	c.Cells = []string{fmt.Sprintf("disk=%v|runs=%d|batch=%d", in.OnDisk, in.Runs, in.Batch)}
	return c, nil
}

func runCkpt(cfg runCfg, emit func(Case)) error {
	var inputs []ckptInput
	if cfg.replay != nil {
		for _, raw := range cfg.replay {
			var in ckptInput
			if err := json.Unmarshal(raw, &in); err != nil {
				return err
			}
			inputs = append(inputs, in)
		}
	} else {
		r := rand.New(rand.NewSource(cfg.seed))
		for i := 0; i < cfg.n; i++ {
			batch := 5 + r.Intn(30)
			if r.Intn(4) == 0 {
				batch = 70 + r.Intn(40) // more than any initial queue capacity
			}
			inputs = append(inputs, ckptInput{OnDisk: r.Intn(2) == 0, Runs: 4 + r.Intn(8), Batch: batch, Stall: r.Intn(2) == 0, TermInside: r.Intn(2) == 0, Seed: r.Int63n(1 << 40), Restart: r.Intn(2) == 0, Deletes: r.Intn(2) == 0})
		}
	}
	for _, in := range inputs {
		c, err := execCkpt(in, cfg.scratch)
		if err != nil {
			return err
		}
		emit(c)
	}
	return nil
}
