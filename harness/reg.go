package main

// Family reg: sequences of OpenBucket (every mode) / Close / Close again / CloseAndDelete / writes over
// several handles, names and URLs, in-memory and on-disk.  Model: coq/Registry.v (rrun).

import (
	"encoding/json"
	"errors"
	"fmt"
	"io/fs"
	"math/rand"
	"os"
	"path/filepath"
	"sort"
	"strings"
	"sync/atomic"
	"time"

	sgbucket "github.com/couchbase/sg-bucket"
	"github.com/couchbaselabs/rosmar"
)

func init() { register(&family{name: "reg", run: runReg}) }

type regOp struct {
	Kind string `json:"kind"` // open | close | cad | write
	Mem  bool   `json:"mem,omitempty"`
	MemSp int   `json:"mem_sp,omitempty"` // in-memory: 0-2 a spelling of the canonical URL, 3 "rosmar://<path of Url>?mode=memory"
	Url  int    `json:"url,omitempty"`  // index into regUrls
	DiskSp int  `json:"disk_sp,omitempty"` // on disk: 0 rosmar://<path>, 1 file://<path>, 2 the bare path, 3 rosmar:<path>
	Name int    `json:"name,omitempty"` // index into regNames
	Mode string `json:"mode,omitempty"` // CreateOrOpen | CreateNew | ReOpenExisting
	H    int    `json:"h,omitempty"`
	K    string `json:"k,omitempty"`
	V    string `json:"v,omitempty"`
	Race *regOp `json:"race,omitempty"` // close: an open that runs inside the close, after its unregisterBucket
}

type regInput struct {
	Ops []regOp `json:"ops"`
}

var regNames = []string{"nA", "nB"}
var regUrls = []string{"U0", "u0", "U2", "U3"} // the second differs from the first in letter case only: another directory
var regKeys = []string{"p1", "p2"}

type regHandle struct {
	b    *rosmar.Bucket
	c    sgbucket.DataStore
	name int
	inst int // which registration of the bucket name this handle was opened on
	url  int // index of the directory it was opened at; -1: in memory
}

var regSerial int64

func regErr(err error, mode string) string {
	switch {
	case errors.Is(err, rosmar.ErrBucketClosed):
		return "REClosed"
	case errors.Is(err, fs.ErrExist):
		return "REExist"
	case errors.Is(err, fs.ErrNotExist):
		return "RENotExist"
	case strings.Contains(err.Error(), "already exists at"):
		return "REOtherUrl"
	case strings.Contains(err.Error(), "database is closed"):
		return "REDbClosed"
	case mode == "ReOpenExisting" && strings.Contains(err.Error(), "unable to open database file"):
		return "RENotExist"
	default:
		return "RENoHandle"
	}
}

// the URL as the model sees it: an in-memory bucket has none unless it was opened at a path
func regUrlTerm(op regOp) string {
	if op.Mem && op.MemSp%4 != 3 {
		return ""
	}
	return regUrls[op.Url]
}

func execReg(in regInput, scratch string) (Case, error) {
	c := Case{Input: in}
	id := atomic.AddInt64(&regSerial, 1)
	dir, err := os.MkdirTemp(scratch, "reg_")
	if err != nil {
		return c, err
	}
	defer os.RemoveAll(dir)
	realName := func(i int) string { return fmt.Sprintf("reg%d_%d_%s", os.Getpid(), id, regNames[i]) }
	var handles []regHandle
	var opTerms, obsTerms []any
	cells := map[string]bool{}
	done := make(chan error, 1)
	var fatal, discard string
	go func() {
		defer func() {
			if r := recover(); r != nil {
				fatal = fmt.Sprintf("panic: %v", r)
				done <- nil
			}
		}()
		// The theorems and the model speak about histories in which no Close / CloseAndDelete goes through a
		// stale handle: one whose bucket was deleted (or fully closed) and whose NAME has been registered again
		// since - unregisterBucket is keyed by name and would release the new bucket's reference (op_ok in
		// RegProofs.v).  The generator avoids them but cannot know which opens succeed; a history that gets
		// there is cut at that point.
		instOf := map[int]int{}
		registered := func(name int) bool {
			for _, n := range rosmar.GetBucketNames() {
				if n == realName(name) {
					return true
				}
			}
			return false
		}
		stale := func(h int) bool {
			return h < len(handles) && registered(handles[h].name) && handles[h].inst != instOf[handles[h].name]
		}
		// does another bucket name have an open handle on the directory handle h was opened at?
		sharedDir := func(h int) bool {
			if h >= len(handles) || handles[h].url < 0 {
				return false
			}
			for j, o := range handles {
				if j != h && o.url == handles[h].url && o.name != handles[h].name && registered(o.name) && o.inst == instOf[o.name] {
					return true
				}
			}
			return false
		}
		doOpen := func(op regOp) Term {
			mode := map[string]rosmar.OpenMode{"CreateOrOpen": rosmar.CreateOrOpen, "CreateNew": rosmar.CreateNew, "ReOpenExisting": rosmar.ReOpenExisting}[op.Mode]
			url := []string{rosmar.InMemoryURL, "file:/?mode=memory", "walrus:", "rosmar://" + filepath.Join(dir, regUrls[op.Url]) + "?mode=memory"}[op.MemSp%4]
			if !op.Mem {
				// the same directory, spelled in each of the ways OpenBucket accepts
				path := filepath.Join(dir, regUrls[op.Url])
				url = []string{"rosmar://" + path, "file://" + path, path, "rosmar:" + path}[op.DiskSp%4]
			}
			wasRegistered := registered(op.Name)
			b, e := rosmar.OpenBucket(url, realName(op.Name), mode)
			if e != nil {
				cells["open|"+op.Mode+"|"+regErr(e, op.Mode)] = true
				return C("RRErr", C(regErr(e, op.Mode)))
			}
			if !wasRegistered {
				instOf[op.Name]++ // a new registration of this name
			}
			ds := b.DefaultDataStore()
			hurl := op.Url
			if op.Mem {
				hurl = -1
			}
			handles = append(handles, regHandle{b, ds, op.Name, instOf[op.Name], hurl})
			cells[fmt.Sprintf("open|%s|mem=%v|ok", op.Mode, op.Mem)] = true
			return C("RROpened", N(uint64(len(handles)-1)))
		}
		for i, op := range in.Ops {
			var opT, respT Term
			if op.Kind == "cad" && sharedDir(op.H) {
				discard = fmt.Sprintf("op %d deletes a directory that a bucket of another name still has open (the model's directories do not outlive their deletion; SQLite's open files do)", i)
				break
			}
			if (op.Kind == "close" || op.Kind == "cad") && stale(op.H) {
				discard = fmt.Sprintf("op %d closes a stale handle of a bucket name that has been registered again (outside op_ok)", i)
				break
			}
			switch op.Kind {
			case "open":
				opT = C("ROpen", B(op.Mem), S(regUrlTerm(op)), S(regNames[op.Name]), C(op.Mode))
				respT = doOpen(op)
			case "close":
				opT = C("RClose", N(uint64(op.H)))
				if op.Race != nil && op.Race.Kind == "open" {
					// the racing open runs at the hook point inside Close, or right after it if Close returns before
					// reaching it (a handle that is closed already)
					ro := *op.Race
					opT = C("RCloseOpen", N(uint64(op.H)), B(ro.Mem), S(regUrlTerm(ro)), S(regNames[ro.Name]), C(ro.Mode))
					fired := false
					if op.H < len(handles) {
						rosmar.VerifSetHook(func(point string, args ...any) {
							if point == "close.unregistered" && !fired {
								fired = true
								respT = doOpen(ro)
							}
						})
						handles[op.H].b.Close(ctxBg)
						rosmar.VerifSetHook(nil)
					}
					if !fired {
						respT = doOpen(ro)
					}
					cells[fmt.Sprintf("close-race|inwindow=%v", fired)] = true
				} else if op.H < len(handles) {
					handles[op.H].b.Close(ctxBg)
					respT = C("RROk")
				} else {
					respT = C("RRErr", C("RENoHandle"))
				}
			case "cad":
				opT = C("RCloseAndDelete", N(uint64(op.H)))
				if op.H < len(handles) {
					_ = handles[op.H].b.CloseAndDelete(ctxBg)
					respT = C("RROk")
				} else {
					respT = C("RRErr", C("RENoHandle"))
				}
			case "write":
				opT = C("RWrite", N(uint64(op.H)), S(op.K), S(op.V))
				if op.H < len(handles) && handles[op.H].c != nil {
					e := handles[op.H].c.SetRaw(op.K, 0, nil, []byte(op.V))
					if e != nil {
						respT = C("RRErr", C(regErr(e, "")))
					} else {
						respT = C("RROk")
					}
					cells["write|"+fmt.Sprint(respT["c"])] = true
				} else {
					respT = C("RRErr", C("RENoHandle"))
				}
			}
			// observation
			var views []any
			for _, h := range handles {
				var vals []any
				status := ""
				if h.c == nil {
					status = "VDbClosed"
				} else {
					for _, k := range regKeys {
						v, _, e := h.c.GetRaw(k)
						var me sgbucket.MissingError
						switch {
						case e == nil:
							vals = append(vals, Some(S(string(v))))
						case errors.As(e, &me):
							vals = append(vals, None())
						case errors.Is(e, rosmar.ErrBucketClosed):
							status = "VClosed"
						default:
							status = "VDbClosed"
						}
					}
				}
				if status != "" {
					views = append(views, C(status))
				} else {
					views = append(views, C("VData", L(vals...)))
				}
			}
			var names []string
			for _, n := range rosmar.GetBucketNames() {
				for i := range regNames {
					if n == realName(i) {
						names = append(names, regNames[i])
					}
				}
			}
			sort.Strings(names)
			var dirs []any
			for _, u := range regUrls {
				_, e := os.Stat(filepath.Join(dir, u))
				dirs = append(dirs, B(e == nil))
			}
			opTerms = append(opTerms, opT)
			obsTerms = append(obsTerms, C("mkRobs", respT, L(views...), strsTerm(names), L(dirs...)))
		}
		done <- nil
	}()
	select {
	case <-done:
	case <-time.After(20 * time.Second):
		fatal = "blocked for 20s"
	}
	if fatal == "" && id%3 == 0 {
		// outside the model's universe (its directories either hold a bucket or do not exist): a directory that is
		// there but holds no bucket - a fresh temporary directory, say.  ReOpenExisting fails iff the bucket does
		// not exist: it must fail here, and leave the directory as it was.
		bare := filepath.Join(dir, "bare")
		if err := os.Mkdir(bare, 0700); err == nil {
			if hb, e := rosmar.OpenBucket("rosmar://"+bare, realName(0)+"_bare", rosmar.ReOpenExisting); e == nil {
				fatal = "ReOpenExisting succeeded on a directory that holds no bucket"
				_ = hb.CloseAndDelete(ctxBg)
			} else if ents, _ := os.ReadDir(bare); len(ents) != 0 {
				fatal = fmt.Sprintf("a refused ReOpenExisting left %d file(s) in a directory that held none", len(ents))
			}
		}
	}
	c.Fatal = fatal
	if discard != "" {
		c.Notes = append(c.Notes, "truncated: "+discard)
	}
	c.CoqInput = C("mkRcase", strsTerm(regKeys), strsTerm(regUrls), L(opTerms...))
	c.CoqObs = L(obsTerms...)
	for k := range cells {
		c.Cells = append(c.Cells, k)
	}
	if fatal == "" {
		// best-effort cleanup of whatever is still registered under this case's names
		for i := range regNames {
			for _, n := range rosmar.GetBucketNames() {
				if n == realName(i) {
					for _, h := range handles {
						if h.b.GetName() == n {
							_ = h.b.CloseAndDelete(ctxBg)
							break
						}
					}
				}
			}
		}
	}
	return c, nil
}

func genReg(r *rand.Rand) regInput {
	var in regInput
	n := 4 + r.Intn(12)
	type hstate struct {
		name          int
		closed, dead  bool
		reopenedSince bool
	}
	var hs []hstate
	opened := 0
	memSp := []int{r.Intn(4), r.Intn(4)} // how each name's in-memory bucket is (mostly) spelled
	for i := 0; i < n; i++ {
		x := r.Intn(10)
		switch {
		case x < 4 || opened == 0:
			name := r.Intn(2)
			mem := r.Intn(3) == 0
			url := name*2 + r.Intn(2)
			if r.Intn(4) > 0 {
				url = name * 2 // mostly the same URL per name, sometimes the other one
			} else if r.Intn(3) == 0 {
				url = (1 - name) * 2 // the directory of the other bucket name: a bucket opened under a new name
			}
			mode := pick(r, []string{"CreateOrOpen", "CreateOrOpen", "CreateNew", "ReOpenExisting"})
			sp := memSp[name]
			if r.Intn(5) == 0 {
				sp = r.Intn(4)
			}
			dsp := 0
			if r.Intn(3) == 0 {
				dsp = r.Intn(4)
			}
			in.Ops = append(in.Ops, regOp{Kind: "open", Mem: mem, MemSp: sp, DiskSp: dsp, Url: url, Name: name, Mode: mode})
			// the generator cannot know whether the open succeeds; it tracks an upper bound of handles
			hs = append(hs, hstate{name: name})
			for j := range hs[:len(hs)-1] {
				if hs[j].name == name && (hs[j].dead || hs[j].closed) {
					hs[j].reopenedSince = true
				}
			}
			opened++
		case x < 6:
			h := r.Intn(opened)
			if h < len(hs) && hs[h].reopenedSince {
				continue // a stale handle (closed or deleted) whose bucket name is in use again: outside the explored inputs
			}
			cl := regOp{Kind: "close", H: h}
			if r.Intn(3) == 0 && h < len(hs) {
				// an open of the same name (mostly) racing with this close
				name := hs[h].name
				if r.Intn(4) == 0 {
					name = r.Intn(2)
				}
				cl.Race = &regOp{Kind: "open", Mem: r.Intn(3) == 0, MemSp: memSp[name], Url: name * 2, Name: name, Mode: pick(r, []string{"CreateOrOpen", "CreateOrOpen", "CreateNew", "ReOpenExisting"})}
			}
			in.Ops = append(in.Ops, cl)
			hs[h].closed = true
			if cl.Race != nil {
				hs = append(hs, hstate{name: cl.Race.Name})
				for j := range hs[:len(hs)-1] {
					if hs[j].name == cl.Race.Name && (hs[j].dead || hs[j].closed) {
						hs[j].reopenedSince = true
					}
				}
				opened++
			}
		case x < 7:
			h := r.Intn(opened)
			if h < len(hs) && (hs[h].dead || hs[h].reopenedSince) {
				continue
			}
			in.Ops = append(in.Ops, regOp{Kind: "cad", H: h})
			for j := range hs {
				if hs[j].name == hs[h].name {
					hs[j].dead = true
				}
			}
		default:
			in.Ops = append(in.Ops, regOp{Kind: "write", H: r.Intn(opened), K: pick(r, regKeys), V: fmt.Sprintf("v%d", r.Intn(1000))})
		}
	}
	return in
}

func runReg(cfg runCfg, emit func(Case)) error {
	if cfg.replay != nil {
		for _, raw := range cfg.replay {
			var in regInput
			if err := json.Unmarshal(raw, &in); err != nil {
				return err
			}
			c, err := execReg(in, cfg.scratch)
			if err != nil {
				return err
			}
			emit(c)
		}
		return nil
	}
	r := rand.New(rand.NewSource(cfg.seed))
	for i := 0; i < cfg.n; i++ {
		c, err := execReg(genReg(r), cfg.scratch)
		if err != nil {
			return err
		}
		emit(c)
	}
	return nil
}
